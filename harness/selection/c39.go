package selection

import "errors"

// C39 (names): session names that look like identifiers (UUIDs) or are the
// reserved word are rejected; the documented character rules hold.

var verifErrFormatted = errors.New("formatted error")

// verifErrorf replaces fmt.Errorf: EnsureNameValid formats the offending
// (symbolic) rune into its error text, which the engine cannot render; the
// text is never examined.
func verifErrorf(format string, a ...any) error { return verifErrFormatted }

var verifStubs = map[string]any{"fmt.Errorf": verifErrorf}

func verifLetter(b byte) bool { return vOr(vAnd(b >= 'a', b <= 'z'), vAnd(b >= 'A', b <= 'Z')) }
func verifDigit(b byte) bool  { return vAnd(b >= '0', b <= '9') }
func verifHex(b byte) bool {
	return vOr(verifDigit(b), vAnd(b >= 'a', b <= 'f'), vAnd(b >= 'A', b <= 'F'))
}

// verifLooksLikeUUID: 8-4-4-4-12 hexadecimal digits (the shape of legacy
// session identifiers; either case).
func verifLooksLikeUUID(s string) bool {
	if len(s) != 36 {
		return false
	}
	ok := true
	for i := 0; i < 36; i++ {
		if i == 8 || i == 13 || i == 18 || i == 23 {
			ok = vAnd(ok, s[i] == '-')
		} else {
			ok = vAnd(ok, verifHex(s[i]))
		}
	}
	return ok
}

// verifNameOK is the documented rule for ASCII names: empty, or a letter
// followed by letters, digits and dashes; not a UUID; not "defaults".
func verifNameOK(s string) bool {
	if len(s) == 0 {
		return true
	}
	ok := verifLetter(s[0])
	for i := 1; i < len(s); i++ {
		ok = vAnd(ok, vOr(verifLetter(s[i]), verifDigit(s[i]), s[i] == '-'))
	}
	reserved := false
	if len(s) == 8 {
		const word = "defaults"
		reserved = true
		for i := 0; i < 8; i++ {
			reserved = vAnd(reserved, s[i] == word[i])
		}
	}
	return vAnd(ok, !verifLooksLikeUUID(s), !reserved)
}

func verifCheckName(name string) {
	err := EnsureNameValid(name)
	want := verifNameOK(name)
	if err == nil {
		vCover("accepted")
		vAssert(want, "accepted name obeys the rules (letter first; letters, digits, dashes; no UUID; not reserved)")
	} else {
		vCover("rejected")
		vAssert(!want, "rule-conforming name is accepted")
	}
}

// VerifC39Names: every ASCII name up to the bound.
func VerifC39Names() {
	n := verifRange(0, vParam("maxlen", 4))
	name := vString(n)
	for i := 0; i < n; i++ {
		vAssume(name[i] < 0x80)
	}
	verifCheckName(name)
}

// VerifC39Reserved: the reserved word and UUID-shaped names, exact and with
// one position replaced by a symbolic ASCII byte.
func VerifC39Reserved() {
	var base string
	switch vChoose(4) {
	case 0:
		base = "defaults"
	case 1:
		base = "a1b2c3d4-e5f6-a7b8-c9d0-e1f2a3b4c5d6" // legacy identifier shape, letter first
	case 2:
		base = "A1B2C3D4-E5F6-A7B8-C9D0-E1F2A3B4C5D6"
	case 3:
		base = "01b2c3d4-e5f6-47b8-89d0-e1f2a3b4c5d6" // digit first
	}
	err := EnsureNameValid(base)
	vCover("exact")
	vAssert(err != nil, "reserved word / UUID-shaped name rejected")

	b := []byte(base)
	pos := verifRange(0, len(b)-1)
	b[pos] = vU8()
	vAssume(b[pos] < 0x80)
	verifCheckName(string(b))
	// one character longer or shorter is no longer the reserved word / a UUID
	if vBool() {
		verifCheckName(base + "a")
	} else {
		verifCheckName(base[:len(base)-1])
	}
}

// verifRange is vRange that does not consume a choice for a one-value range
// (the engine records none there, the native replay runtime would read one).
func verifRange(lo, hi int) int {
	if hi <= lo {
		return lo
	}
	return vRange(lo, hi)
}

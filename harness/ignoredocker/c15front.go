package docker

import (
	"errors"
	pathpkg "path"
	"strings"

	"github.com/mutagen-io/mutagen/pkg/synchronization/core/ignore"
	"github.com/mutagen-io/mutagen/pkg/synchronization/core/ignore/docker/internal/third_party/patternmatcher"
)

// C15(d): the Docker-style pattern FRONT END - newValidatedPatternMatcher,
// EnsurePatternValid, NewIgnorer and (*ignorer).Ignore - executed for real on
// symbolic pattern bytes.  The vendored moby matcher behind it (regexp-compiled
// patterns) cannot be executed; it is replaced at its three entry points:
//
//	patternmatcher.New                      recorder: keeps the list it is handed
//	(*PatternMatcher).PrecompileForMutagen  recorder
//	(*PatternMatcher).MatchesForMutagen     arbitrary (status, continue) answer
//
// Reference (own statement of what Docker does with one .dockerignore line
// before handing the list to the very same patternmatcher.New - buildkit's
// dockerignore.ReadAll, cited in ignore.go): trim white space; an empty line is
// skipped; a leading '!' makes the line an exclusion and what follows is
// trimmed AGAIN; the text is cleaned (filepath.Clean, slashes) and one leading
// '/' is dropped; the '!' is put back.  Mutagen may refuse a pattern (it is
// stricter: empty patterns, backslashes, "/" are errors) - but whatever it
// accepts must reach the matcher exactly as Docker would hand it over, with the
// same exclusion flag, in the same order, nothing dropped and nothing added;
// and a pattern accepted by EnsurePatternValid (the configuration check) is
// accepted, with the same text, when the ignorer is built.

var (
	vdHanded      [][]string // every list handed to patternmatcher.New
	vdMatchers    []*patternmatcher.PatternMatcher
	vdPrecompiled []*patternmatcher.PatternMatcher
	vdFailure     int // 0: the matcher accepts / 1: New refuses / 2: pre-compilation refuses

	vdAskedPath   string
	vdAskedDir    bool
	vdAskedOf     *patternmatcher.PatternMatcher
	vdAnswer      patternmatcher.MatchStatus
	vdAnswerCont  bool
	vdAnswerCalls int
)

func vdNew(patterns []string) (*patternmatcher.PatternMatcher, error) {
	vdHanded = append(vdHanded, append([]string(nil), patterns...))
	if vdFailure == 1 {
		return nil, errors.New("model: the matcher refuses the pattern")
	}
	m := &patternmatcher.PatternMatcher{}
	vdMatchers = append(vdMatchers, m)
	return m, nil
}

func vdPrecompile(pm *patternmatcher.PatternMatcher) error {
	vdPrecompiled = append(vdPrecompiled, pm)
	if vdFailure == 2 {
		return errors.New("model: the pattern does not compile")
	}
	return nil
}

func vdMatchesForMutagen(pm *patternmatcher.PatternMatcher, path string, directory bool) (patternmatcher.MatchStatus, bool) {
	vdAskedOf, vdAskedPath, vdAskedDir = pm, path, directory
	vdAnswerCalls++
	return vdAnswer, vdAnswerCont
}

// vdIsSpace / vdTrimSpace: strings.TrimSpace on ASCII text (the library
// version looks bytes up in a 256-entry table, which the executor can only do
// by enumerating the byte).  White space = '\t' '\n' '\v' '\f' '\r' ' '.
func vdIsSpace(c byte) bool {
	return vOr(c == ' ', vAnd(c >= '\t', c <= '\r'))
}

func vdTrimSpace(s string) string {
	start := 0
	for start < len(s) && vdIsSpace(s[start]) {
		start++
	}
	stop := len(s)
	for stop > start && vdIsSpace(s[stop-1]) {
		stop--
	}
	return s[start:stop]
}

const vdPM = "github.com/mutagen-io/mutagen/pkg/synchronization/core/ignore/docker/internal/third_party/patternmatcher"

var verifStubs = map[string]any{
	vdPM + ".New": vdNew,
	"(*" + vdPM + ".PatternMatcher).PrecompileForMutagen": vdPrecompile,
	"(*" + vdPM + ".PatternMatcher).MatchesForMutagen":    vdMatchesForMutagen,
	"strings.TrimSpace": vdTrimSpace,
}

// vdDockerLine: what Docker's loader makes of one line (see the head of the
// file).  skipped: the line does not contribute a pattern.
func vdDockerLine(line string) (text string, skipped bool) {
	p := strings.TrimSpace(line)
	if p == "" {
		return "", true
	}
	if len(p) != len(line) {
		vCover("white space around the pattern")
	}
	invert := p[0] == '!'
	if invert {
		q := strings.TrimSpace(p[1:])
		if len(q) != len(p)-1 && q != "" {
			vCover("white space after '!'")
		}
		p = q
	}
	if len(p) > 0 {
		p = pathpkg.Clean(p)
		if len(p) > 1 && p[0] == '/' {
			p = p[1:]
		}
	}
	if invert {
		p = "!" + p
	}
	return p, false
}

// vdPattern: one user pattern.  frame 0: 1..n symbolic bytes; frame 1: 0..n-1
// symbolic bytes followed by a constant tail that needs cleaning and ends in
// white space (so the deep cases - white space around '!', redundant path
// elements - are reached with few symbolic bytes).  Bytes are ASCII; a leading
// '#' (a comment line in a .dockerignore FILE, no meaning in a pattern list) is
// left out.
func vdPattern(n int, label string) string {
	frame := vChoose(2)
	var k int
	if frame == 0 {
		k = vRange(1, n)
	} else {
		k = vRange(0, n-1)
	}
	vLabel(label)
	s := vString(k)
	vLabel("")
	for i := 0; i < k; i++ {
		vAssume(s[i] < 0x80)
	}
	if frame == 1 {
		s += "/b/.//c/ \t"
		vCover("framed pattern")
	}
	vAssume(s[0] != '#')
	return s
}

func vdReset() {
	vdHanded, vdMatchers, vdPrecompiled, vdFailure = nil, nil, nil, 0
	vdAskedOf, vdAskedPath, vdAskedDir, vdAnswerCalls = nil, "", false, 0
}

// VerifC15Front: a list of 1..maxlist patterns through EnsurePatternValid (each
// on its own) and NewIgnorer (the list).
func VerifC15Front() {
	vdReset()
	// the matcher accepts, or (with one fixed pattern) refuses in New / in
	// pre-compilation
	failure := vChoose(3)
	count := 1
	if failure == 0 {
		count = vRange(1, vParam("maxlist", 2))
	}
	size := vParam("maxpattern", 4)
	if count > 1 {
		size = vParam("maxpattern2", 3)
	}
	patterns := make([]string, count)
	want := make([]string, count)
	skipped := make([]bool, count)
	for i := range patterns {
		if failure == 0 {
			patterns[i] = vdPattern(size, []string{"pattern0", "pattern1", "pattern2"}[i])
		} else {
			patterns[i] = " ! a[ "
		}
		want[i], skipped[i] = vdDockerLine(patterns[i])
	}
	vdFailure = failure

	// the configuration check, pattern by pattern
	allValid := true
	validated := make([]string, 0, count)
	for i, p := range patterns {
		before := len(vdHanded)
		err := EnsurePatternValid(p)
		if err != nil {
			allValid = false
			continue
		}
		vAssert(vdFailure == 0, "a pattern the matcher refuses is not valid")
		vAssert(len(vdHanded) == before+1 && len(vdHanded[before]) == 1, "validation hands the one pattern to the matcher, once")
		if len(vdHanded) != before+1 || len(vdHanded[before]) != 1 {
			return
		}
		got := vdHanded[before][0]
		vAssert(!skipped[i], "a pattern that is empty after trimming contributes nothing (Docker skips it; Mutagen refuses it)")
		vAssert(got == want[i], "an accepted pattern reaches the matcher as Docker's loader would hand it over: trimmed, '!' recognised and the rest trimmed again, cleaned, leading slash dropped, '!' restored")
		validated = append(validated, got)
		if want[i][0] == '!' {
			vCover("exclusion pattern accepted")
		} else {
			vCover("plain pattern accepted")
		}
	}

	// building the ignorer from the list
	before := len(vdHanded)
	matchersBefore := len(vdMatchers)
	ig, err := NewIgnorer(patterns)
	if err != nil {
		vAssert(ig == nil, "no ignorer is returned with an error")
		vAssert(!allValid || vdFailure != 0, "patterns accepted by EnsurePatternValid are accepted when the ignorer is built")
		vCover("refused")
		return
	}
	vCover("ignorer built")
	vAssert(vdFailure == 0, "no ignorer is built from patterns the matcher refuses")
	vAssert(len(vdHanded) == before+1, "building the ignorer hands the list to the matcher once")
	if len(vdHanded) != before+1 {
		return
	}
	handed := vdHanded[before]
	vAssert(len(handed) == count, "every pattern of the list reaches the matcher - none dropped, none added")
	if len(handed) != count {
		return
	}
	same := true
	for i := range patterns {
		vAssert(!skipped[i], "a pattern that is empty after trimming contributes nothing")
		same = vAnd(same, handed[i] == want[i])
	}
	vAssert(same, "the list reaches the matcher in order, every pattern as Docker's loader would hand it over, exclusion marks included")
	if allValid {
		sameAsValidated := true
		for i := range handed {
			sameAsValidated = vAnd(sameAsValidated, handed[i] == validated[i])
		}
		vAssert(sameAsValidated, "the ignorer uses exactly the pattern texts that EnsurePatternValid accepted")
	}

	// the ignorer asks the matcher New returned (pre-compiled), unaltered
	vAssert(len(vdMatchers) == matchersBefore+1, "one matcher is built for the ignorer")
	m := vdMatchers[len(vdMatchers)-1]
	compiled := false
	for _, c := range vdPrecompiled {
		if c == m {
			compiled = true
		}
	}
	vAssert(compiled, "the ignorer's matcher has been pre-compiled (pattern errors surface at construction)")
	vdCheckIgnore(ig, m)
}

// vdCheckIgnore: Ignore passes path and directory flag through and maps the
// matcher's answer: nominal -> nominal, matched -> ignored, inverted ->
// unignored, continuation flag unchanged.
func vdCheckIgnore(ig ignore.Ignorer, m *patternmatcher.PatternMatcher) {
	vLabel("path")
	path := vString(2)
	vLabel("directory")
	directory := vBool()
	vLabel("")
	vdAnswer = []patternmatcher.MatchStatus{patternmatcher.MatchStatusNominal, patternmatcher.MatchStatusMatched, patternmatcher.MatchStatusInverted}[vChoose(3)]
	vdAnswerCont = vBool()
	calls := vdAnswerCalls
	status, cont := ig.Ignore(path, directory)
	vAssert(vdAnswerCalls == calls+1 && vdAskedOf == m, "Ignore asks the matcher built from the patterns, once")
	vAssert(vAnd(vdAskedPath == path, vdAskedDir == directory), "Ignore passes the path and the directory flag through")
	switch vdAnswer {
	case patternmatcher.MatchStatusNominal:
		vCover("nominal")
		vAssert(status == ignore.IgnoreStatusNominal, "no pattern matches: nominal")
	case patternmatcher.MatchStatusMatched:
		vCover("ignored")
		vAssert(status == ignore.IgnoreStatusIgnored, "last match is a plain pattern: ignored")
	default:
		vCover("unignored")
		vAssert(status == ignore.IgnoreStatusUnignored, "last match is an exclusion pattern: unignored")
	}
	vAssert(cont == vdAnswerCont, "the traversal-continuation flag is passed through")
}

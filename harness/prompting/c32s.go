package prompting

import (
	"errors"
	"runtime"
	"time"
)

// C32, registry half: a registered prompter is never invoked concurrently with
// itself and never after its unregistration has returned — for every schedule
// (bounded-schedule mode) of messages and prompts racing UnregisterPrompter.

type vtPrompter struct {
	inside       int
	calls        int
	unregistered bool
	fail         bool
	// stall: the first invocation does not return until the user reacts
	// (release is closed) - a prompt can stay open for a long time
	stall   bool
	release chan struct{}
}

func (p *vtPrompter) enter() {
	vAssert(!p.unregistered, "prompter is never invoked after its unregistration has returned")
	p.inside++
	p.calls++
	vAssert(p.inside == 1, "prompter is never invoked concurrently with itself")
	// the invocation takes time: anything may be scheduled in the middle of it
	runtime.Gosched()
	if p.stall && p.calls == 1 {
		<-p.release
	}
	vAssert(p.inside == 1, "prompter is never invoked concurrently with itself")
	p.inside--
}

func (p *vtPrompter) Message(m string) error {
	p.enter()
	if p.fail {
		return errors.New("model prompter failure")
	}
	return nil
}

func (p *vtPrompter) Prompt(m string) (string, error) {
	p.enter()
	if p.fail {
		return "", errors.New("model prompter failure")
	}
	return "response", nil
}

func VerifC32Registry() {
	p := &vtPrompter{fail: vChoose(2) == 1, stall: vChoose(2) == 1, release: make(chan struct{})}
	if p.stall {
		vCover("an invocation stays open for a long time")
		// the user reacts eventually (this timer fires only once everybody else
		// is waiting, and after any shorter timer the code under test may set)
		go func() {
			time.Sleep(24 * time.Hour)
			close(p.release)
		}()
	}
	const id = "pmpt_model"
	if err := RegisterPrompterWithIdentifier(id, p); err != nil {
		vFail("registration of a fresh identifier failed")
	}
	done := make(chan struct{}, 3)
	callers := vRange(1, vParam("callers", 2))
	for i := 0; i < callers; i++ {
		if vChoose(2) == 0 {
			go func() {
				err := Message(id, "message")
				_ = err
				done <- struct{}{}
			}()
		} else {
			go func() {
				r, err := Prompt(id, "prompt")
				if err == nil && !p.fail {
					vAssert(r == "response", "a successful prompt returns the prompter's response")
				}
				done <- struct{}{}
			}()
		}
	}
	UnregisterPrompter(id)
	p.unregistered = true
	vCover("unregistered while callers are active")
	for i := 0; i < callers; i++ {
		<-done // a deadlock here = a caller hangs
	}
	if p.calls > 0 {
		vCover("prompter was invoked")
	}
	if p.calls < callers {
		vCover("a caller was turned away")
	}
	// afterwards the identifier is gone
	vAssert(Message(id, "late") != nil, "messaging an unregistered prompter fails")
	_, err := Prompt(id, "late")
	vAssert(err != nil, "prompting an unregistered prompter fails")
}

package prompting

// C32 (sequential half): responses are read without echo unless the prompt is
// one of the known yes/no host-key confirmations.

// verifConfirmations: the OpenSSH host-key confirmation prompt endings for
// which an echoed answer is acceptable (a yes/no/fingerprint answer is not a
// secret).  Written out here independently of echoedPromptSuffixes.
var verifConfirmations = [4]string{
	"(yes/no)? ",
	"(yes/no): ",
	"(yes/no/[fingerprint])? ",
	"Please type 'yes', 'no' or the fingerprint: ",
}

// verifEndsWith builds one condition, byte by byte, without library calls.
func verifEndsWith(s, suffix string) bool {
	if len(s) < len(suffix) {
		return false
	}
	off := len(s) - len(suffix)
	ok := true
	for i := 0; i < len(suffix); i++ {
		ok = vAnd(ok, s[off+i] == suffix[i])
	}
	return ok
}

func verifIsConfirmation(prompt string) bool {
	is := false
	for _, c := range verifConfirmations {
		is = vOr(is, verifEndsWith(prompt, c))
	}
	return is
}

// VerifC32Mode: determineResponseMode on fully symbolic prompts of every
// length up to the bound (all near-misses of every suffix included).
func VerifC32Mode() {
	n := verifRange(0, vParam("maxlen", 46))
	prompt := vString(n)
	mode := determineResponseMode(prompt)
	want := verifIsConfirmation(prompt)
	vAssert(mode != ResponseModeMasked, "automatic mode is never 'masked'")
	if mode == ResponseModeEcho {
		vCover("echo")
		vAssert(want, "echo only for a known yes/no host-key confirmation")
	} else {
		vCover("secret")
		vAssert(mode == ResponseModeSecret, "every other prompt is read as a secret")
		vAssert(!want, "known host-key confirmations are echoed")
	}
}

// VerifC32NearMiss: every documented confirmation with one position replaced
// by a symbolic byte and an arbitrary symbolic lead-in — flips to secret
// exactly when the byte differs (longer prompts than VerifC32Mode's bound).
func VerifC32NearMiss() {
	c := verifConfirmations[vChoose(4)]
	lead := vString(verifRange(0, vParam("lead", 2)))
	b := []byte(c)
	pos := verifRange(0, len(b)-1)
	orig := b[pos]
	b[pos] = vU8()
	trail := ""
	if vBool() {
		trail = vString(1) // something after the suffix
	}
	prompt := lead + string(b) + trail
	mode := determineResponseMode(prompt)
	want := verifIsConfirmation(prompt)
	if b[pos] == orig && trail == "" {
		vCover("exact")
		vAssert(mode == ResponseModeEcho, "exact confirmation is echoed")
	}
	if mode == ResponseModeEcho {
		vAssert(want, "echo only for a known yes/no host-key confirmation")
	} else {
		vCover("near-miss")
		vAssert(mode == ResponseModeSecret && !want, "near-miss is read as a secret")
	}
}

// ---- PromptCommandLine picks the terminal reader from the mode

var verifReader int // 1 = no echo, 2 = masked, 3 = echoed

func verifGetPasswd() ([]byte, error)       { verifReader = 1; return []byte("r"), nil }
func verifGetPasswdMasked() ([]byte, error) { verifReader = 2; return []byte("r"), nil }
func verifGetPasswdEchoed() ([]byte, error) { verifReader = 3; return []byte("r"), nil }

var verifStubs_VerifC32CommandLine = map[string]any{
	"github.com/mutagen-io/gopass.GetPasswd":       verifGetPasswd,
	"github.com/mutagen-io/gopass.GetPasswdMasked": verifGetPasswdMasked,
	"github.com/mutagen-io/gopass.GetPasswdEchoed": verifGetPasswdEchoed,
}

func VerifC32CommandLine() {
	n := verifRange(0, vParam("maxlen", 46))
	prompt := vString(n)
	verifReader = 0
	response, err := PromptCommandLine(prompt)
	vAssert(err == nil && response == "r", "response returned")
	want := verifIsConfirmation(prompt)
	if verifReader == 3 {
		vCover("echoed")
		vAssert(want, "terminal echo only for a known yes/no host-key confirmation")
	} else {
		vCover("hidden")
		vAssert(verifReader == 1, "every other response is read without echo")
		vAssert(!want, "known host-key confirmations are echoed")
	}
}

// verifRange is vRange that does not consume a choice for a one-value range
// (the engine records none there, the native replay runtime would read one).
func verifRange(lo, hi int) int {
	if hi <= lo {
		return lo
	}
	return vRange(lo, hi)
}

package transport

import (
	"errors"
	"io"
	"os"
	"os/exec"
	"time"
)

// C35: closing an agent connection always terminates the agent.
//
// The agent process is a model: it dies (its Wait returns) according to one of
// four behaviours, after an arbitrary delay (its death is a separate
// goroutine, so every interleaving with Close's escalation is explored).

const (
	vtExitsAlone = iota
	vtExitsOnStdinClose
	vtExitsOnSIGTERM
	vtExitsOnlyOnKill
)

type vtProcess struct {
	behaviour   int
	dead        chan struct{}
	stdinClosedCh chan struct{}
	pipeFull    bool
	dying       bool
	stdinClosed bool
	signalled   bool
	killed      bool
	waited      int
}

var vtProc *vtProcess

func (p *vtProcess) die() {
	if p.dying {
		return
	}
	p.dying = true
	// the process takes an arbitrary time to go away
	go func() { close(p.dead) }()
}

type vtStdin struct{ p *vtProcess }

// Write: an agent that does not read lets the pipe fill up - the write then
// blocks until the pipe is closed (or the process is gone).
func (s vtStdin) Write(b []byte) (int, error) {
	if s.p.pipeFull {
		select {
		case <-s.p.stdinClosedCh:
		case <-s.p.dead:
		}
		return 0, errors.New("write on closed pipe")
	}
	return len(b), nil
}
func (s vtStdin) Close() error {
	if !s.p.stdinClosed {
		close(s.p.stdinClosedCh)
	}
	s.p.stdinClosed = true
	if s.p.behaviour == vtExitsOnStdinClose {
		s.p.die()
	}
	return nil
}

func vtWait(c *exec.Cmd) error {
	vtProc.waited++
	<-vtProc.dead
	if vtProc.killed {
		return errors.New("signal: killed")
	}
	return nil
}

func vtSignal(p *os.Process, sig os.Signal) error {
	vtProc.signalled = true
	if vtProc.dying {
		return os.ErrProcessDone
	}
	if vtProc.behaviour == vtExitsOnSIGTERM {
		vtProc.die()
	}
	return nil
}

func vtKill(p *os.Process) error {
	if vtProc.dying {
		return os.ErrProcessDone
	}
	vtProc.killed = true
	vtProc.die()
	return nil
}

var verifStubs = map[string]any{
	"(*os/exec.Cmd).Wait":  vtWait,
	"(*os.Process).Signal": vtSignal,
	"(*os.Process).Kill":   vtKill,
	"(*os/exec.Cmd).StdinPipe":  vtStdinPipe,
	"(*os/exec.Cmd).StdoutPipe": vtStdoutPipe,
	"(*os/exec.Cmd).StderrPipe": vtStderrPipe,
}

func VerifC35Close() {
	p := &vtProcess{behaviour: vChoose(4), dead: make(chan struct{}), stdinClosedCh: make(chan struct{})}
	vtProc = p
	s := &Stream{
		process:       &exec.Cmd{Process: &os.Process{}},
		standardInput: vtStdin{p},
	}
	if vChoose(2) == 1 {
		s.SetTerminationDelay(time.Second)
	}
	if p.behaviour == vtExitsAlone {
		p.die()
	}
	err := s.Close() // a deadlock here = Close does not return
	select {
	case <-p.dead:
	default:
		vFail("Close returned while the agent process is still running")
	}
	_ = err
	// Only what the property states is asserted (Close returns; the process has
	// exited by then).  How gently the escalation proceeds is not part of it.
	switch p.behaviour {
	case vtExitsAlone:
		vCover("exits alone")
	case vtExitsOnStdinClose:
		vCover("exits on stdin close")
	case vtExitsOnSIGTERM:
		vCover("exits on SIGTERM")
	case vtExitsOnlyOnKill:
		vCover("exits only on kill")
	}
	vAssert(p.dying, "the process has been made to exit")
}

func vtDead(p *vtProcess) bool {
	select {
	case <-p.dead:
		return true
	default:
		return false
	}
}

// VerifC35BlockedWriter: a Write is blocked on the agent's full input pipe
// (the agent is not reading) when Close is called: Close still returns and the
// process is dead.
func VerifC35BlockedWriter() {
	p := &vtProcess{behaviour: 1 + vChoose(3), dead: make(chan struct{}), stdinClosedCh: make(chan struct{}), pipeFull: true}
	vtProc = p
	s := &Stream{process: &exec.Cmd{Process: &os.Process{}}, standardInput: vtStdin{p}}
	wrote := make(chan struct{})
	go func() {
		s.Write([]byte{1})
		close(wrote)
	}()
	s.Close() // a deadlock here = Close does not return
	vAssert(vtDead(p), "Close returned while the agent process is still running")
	vCover("close with a blocked writer")
	<-wrote // the blocked write is released as well
}

// VerifC35Twice: two overlapping Close calls: each returns, and only once the
// process is dead.
func VerifC35Twice() {
	p := &vtProcess{behaviour: vChoose(4), dead: make(chan struct{}), stdinClosedCh: make(chan struct{})}
	vtProc = p
	s := &Stream{process: &exec.Cmd{Process: &os.Process{}}, standardInput: vtStdin{p}}
	if p.behaviour == vtExitsAlone {
		p.die()
	}
	done := make(chan struct{})
	go func() {
		s.Close()
		vAssert(vtDead(p), "the second Close returned while the agent process is still running")
		close(done)
	}()
	s.Close()
	vAssert(vtDead(p), "Close returned while the agent process is still running")
	<-done
	vCover("overlapping closes")
}

// ---------- through NewStream, with an error stream kept open by a descendant ----------

type vtPipeEnd struct {
	p      *vtProcess
	closed chan struct{}
}

// Read on the process's output/error pipe: a descendant of the agent keeps the
// write end open, so there is never data nor end-of-file; only closing our end
// releases the reader.
func (e *vtPipeEnd) Read(b []byte) (int, error) {
	<-e.closed
	return 0, os.ErrClosed
}
func (e *vtPipeEnd) Close() error {
	select {
	case <-e.closed:
	default:
		close(e.closed)
	}
	return nil
}

type vtSink struct{}

func (vtSink) Write(b []byte) (int, error) { return len(b), nil }

func vtStdinPipe(c *exec.Cmd) (io.WriteCloser, error) { return vtStdin{vtProc}, nil }
func vtStdoutPipe(c *exec.Cmd) (io.ReadCloser, error) {
	return &vtPipeEnd{vtProc, make(chan struct{})}, nil
}
func vtStderrPipe(c *exec.Cmd) (io.ReadCloser, error) {
	return &vtPipeEnd{vtProc, make(chan struct{})}, nil
}

func VerifC35NewStream() {
	p := &vtProcess{behaviour: vChoose(4), dead: make(chan struct{}), stdinClosedCh: make(chan struct{})}
	vtProc = p
	s, err := NewStream(&exec.Cmd{Process: &os.Process{}}, vtSink{})
	vAssert(err == nil && s != nil, "stream created")
	if p.behaviour == vtExitsAlone {
		p.die()
	}
	s.Close() // a deadlock here = Close does not return
	vAssert(vtDead(p), "Close returned while the agent process is still running")
	vCover("close of a stream made by NewStream with a held-open error pipe")
}

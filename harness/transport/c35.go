package transport

import (
	"errors"
	"os"
	"os/exec"
	"time"
)

// C35: closing an agent connection always terminates the agent.
//
// The agent process is a model: it dies (its Wait returns) according to one of
// four behaviours, after an arbitrary delay (its death is a separate
// goroutine, so every interleaving with Close's escalation is explored).

const (
	vtExitsAlone = iota
	vtExitsOnStdinClose
	vtExitsOnSIGTERM
	vtExitsOnlyOnKill
)

type vtProcess struct {
	behaviour   int
	dead        chan struct{}
	dying       bool
	stdinClosed bool
	signalled   bool
	killed      bool
	waited      int
}

var vtProc *vtProcess

func (p *vtProcess) die() {
	if p.dying {
		return
	}
	p.dying = true
	// the process takes an arbitrary time to go away
	go func() { close(p.dead) }()
}

type vtStdin struct{ p *vtProcess }

func (s vtStdin) Write(b []byte) (int, error) { return len(b), nil }
func (s vtStdin) Close() error {
	s.p.stdinClosed = true
	if s.p.behaviour == vtExitsOnStdinClose {
		s.p.die()
	}
	return nil
}

func vtWait(c *exec.Cmd) error {
	vtProc.waited++
	<-vtProc.dead
	if vtProc.killed {
		return errors.New("signal: killed")
	}
	return nil
}

func vtSignal(p *os.Process, sig os.Signal) error {
	vtProc.signalled = true
	if vtProc.dying {
		return os.ErrProcessDone
	}
	if vtProc.behaviour == vtExitsOnSIGTERM {
		vtProc.die()
	}
	return nil
}

func vtKill(p *os.Process) error {
	if vtProc.dying {
		return os.ErrProcessDone
	}
	vtProc.killed = true
	vtProc.die()
	return nil
}

var verifStubs = map[string]any{
	"(*os/exec.Cmd).Wait":  vtWait,
	"(*os.Process).Signal": vtSignal,
	"(*os.Process).Kill":   vtKill,
}

func VerifC35Close() {
	p := &vtProcess{behaviour: vChoose(4), dead: make(chan struct{})}
	vtProc = p
	s := &Stream{
		process:       &exec.Cmd{Process: &os.Process{}},
		standardInput: vtStdin{p},
	}
	if vChoose(2) == 1 {
		s.SetTerminationDelay(time.Second)
	}
	if p.behaviour == vtExitsAlone {
		p.die()
	}
	err := s.Close() // a deadlock here = Close does not return
	select {
	case <-p.dead:
	default:
		vFail("Close returned while the agent process is still running")
	}
	_ = err
	// Only what the property states is asserted (Close returns; the process has
	// exited by then).  How gently the escalation proceeds is not part of it.
	switch p.behaviour {
	case vtExitsAlone:
		vCover("exits alone")
	case vtExitsOnStdinClose:
		vCover("exits on stdin close")
	case vtExitsOnSIGTERM:
		vCover("exits on SIGTERM")
	case vtExitsOnlyOnKill:
		vCover("exits only on kill")
	}
	vAssert(p.dying, "the process has been made to exit")
}

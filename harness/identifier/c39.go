package identifier

import (
	"regexp"
)

// C39 (identifiers): New with the random source replaced by chosen/symbolic
// bytes; prefix, separator, fixed length, alphabet, validity, truncated form,
// and injectivity of random value -> identifier (own Base62 decoding).

var verifRandom []byte

func verifRandomNew(length int) ([]byte, error) {
	vAssert(length == 32, "32 random bytes requested")
	return append([]byte(nil), verifRandom...), nil
}

// hand-written equivalents of the two identifier regular expressions
func verifMatchNew(s string) bool { // ^[a-z]{4}_[0-9a-zA-Z]{43}$
	if len(s) != 48 {
		return false
	}
	ok := s[4] == '_'
	for i := 0; i < 4; i++ {
		ok = vAnd(ok, s[i] >= 'a', s[i] <= 'z')
	}
	for i := 5; i < 48; i++ {
		c := s[i]
		ok = vAnd(ok, vOr(vAnd(c >= '0', c <= '9'), vAnd(c >= 'a', c <= 'z'), vAnd(c >= 'A', c <= 'Z')))
	}
	return ok
}

func verifMatchLegacy(s string) bool { // ^[0-9a-f]{8}-[0-9a-f]{4}-[0-9a-f]{4}-[0-9a-f]{4}-[0-9a-f]{12}$
	if len(s) != 36 {
		return false
	}
	ok := true
	for i := 0; i < 36; i++ {
		c := s[i]
		if i == 8 || i == 13 || i == 18 || i == 23 {
			ok = vAnd(ok, c == '-')
		} else {
			ok = vAnd(ok, vOr(vAnd(c >= '0', c <= '9'), vAnd(c >= 'a', c <= 'f')))
		}
	}
	return ok
}

func verifMatchString(re *regexp.Regexp, s string) bool {
	switch re {
	case matcher:
		return verifMatchNew(s)
	case legacyMatcher:
		return verifMatchLegacy(s)
	}
	vFail("unexpected regular expression")
	return false
}

var verifStubs = map[string]any{
	"github.com/mutagen-io/mutagen/pkg/random.New": verifRandomNew,
	"(*regexp.Regexp).MatchString":                 verifMatchString,
}

func verifDigitValue(c byte) int {
	switch {
	case c >= '0' && c <= '9':
		return int(c - '0')
	case c >= 'a' && c <= 'z':
		return int(c-'a') + 10
	case c >= 'A' && c <= 'Z':
		return int(c-'A') + 36
	}
	return -1
}

func VerifC39New() {
	// random value
	verifRandom = make([]byte, 32)
	switch vChoose(3) {
	case 0: // leading zeros, then symbolic low-order bytes
		width := verifRange(1, vParam("width", 1))
		for i := 0; i < width; i++ {
			b := vU8()
			if i >= 1 {
				vAssume(vOr(b == 0, b == 1, b == 61, b == 62, b == 63, b == 127, b == 128, b == 255))
			}
			verifRandom[32-width+i] = b
		}
		vCover("symbolic")
	case 1: // structured pattern: k leading zero bytes, the rest 0xff
		k := verifRange(0, 32)
		for i := k; i < 32; i++ {
			verifRandom[i] = 0xff
		}
		vCover("pattern-ff")
	case 2: // k leading zero bytes, one 0x01, the rest zero
		k := verifRange(0, 31)
		verifRandom[k] = 1
		vCover("pattern-01")
	}
	prefix := [4]string{PrefixSynchronization, PrefixForwarding, PrefixProject, PrefixPrompter}[vChoose(4)]

	id, err := New(prefix)
	vAssert(err == nil, "generation succeeds")
	if err != nil {
		return
	}
	vAssert(len(id) == 48, "fixed length: 4 + 1 + 43")
	if len(id) != 48 {
		return
	}
	vAssert(id[:4] == prefix && id[4] == '_', "documented prefix and separator")
	vAssert(verifMatchNew(id), "identifier has the documented shape")
	vAssert(IsValid(id), "accepted by identifier validation")
	t := Truncated(id)
	vAssert(len(t) == 13 && id[:13] == t, "truncated form is a proper prefix: prefix, separator, 8 characters")

	// injectivity: the 43 characters are the Base62 digits of the random
	// value (own 33-byte big-endian accumulator).
	acc := make([]int, 33)
	for i := 5; i < 48; i++ {
		d := verifDigitValue(id[i])
		if d < 0 {
			return
		}
		carry := d
		for j := 32; j >= 0; j-- {
			v := acc[j]*62 + carry
			acc[j] = v & 0xff
			carry = v >> 8
		}
	}
	vAssert(acc[0] == 0, "identifier value fits 32 bytes")
	same := true
	for i := 0; i < 32; i++ {
		same = vAnd(same, byte(acc[i+1]) == verifRandom[i])
	}
	vAssert(same, "identifier determines the random value (distinct values give distinct identifiers)")
}

// VerifC39Prefix: prefix validation of New.
func VerifC39Prefix() {
	verifRandom = make([]byte, 32)
	n := verifRange(0, 5)
	prefix := vString(n)
	for i := 0; i < n; i++ {
		vAssume(prefix[i] < 0x80)
	}
	id, err := New(prefix)
	good := n == 4
	for i := 0; i < n; i++ {
		good = vAnd(good, prefix[i] >= 'a', prefix[i] <= 'z')
	}
	if err == nil {
		vCover("prefix-ok")
		vAssert(good, "only four lowercase letters are accepted as a prefix")
		vAssert(IsValid(id), "accepted by identifier validation")
	} else {
		vCover("prefix-bad")
		vAssert(!good, "a four-lowercase-letter prefix is accepted")
		vAssert(id == "", "no identifier on error")
	}
}

// verifRange is vRange that does not consume a choice for a one-value range
// (the engine records none there, the native replay runtime would read one).
func verifRange(lo, hi int) int {
	if hi <= lo {
		return lo
	}
	return vRange(lo, hi)
}

package synchronization

import (
	"github.com/mutagen-io/mutagen/pkg/filesystem/behavior"
	psync "github.com/mutagen-io/mutagen/pkg/synchronization"
	"github.com/mutagen-io/mutagen/pkg/synchronization/compression"
	"github.com/mutagen-io/mutagen/pkg/synchronization/core"
	"github.com/mutagen-io/mutagen/pkg/synchronization/core/ignore"
	"github.com/mutagen-io/mutagen/pkg/synchronization/hashing"
	"github.com/mutagen-io/mutagen/pkg/url"
)

// C37: any combination of session-wide and endpoint-specific configuration
// that session creation accepts yields, for each endpoint, a merged
// configuration that endpoint initialisation accepts.
//
// Session creation's acceptance gate is the daemon service's
// (*CreationSpecification).ensureValid (every creation request - command
// line, project, API - passes through it); it is executed as it is, on a
// specification with two fixed valid local URLs and three symbolic
// configuration parts.
//
// The configuration fields are partitioned into field groups.  The groups in
// the *focus* are fully symbolic in all three parts (session, alpha-specific,
// beta-specific); the other groups carry one of three concrete backgrounds.
// (verifC37Part / verifC37Focus are the same generators as in
// harness/synchronization/c37.go, with package-qualified names.)

// Environment model (assumption, see props/C37.json): no environment variable
// is set (URL validation asks whether MUTAGEN_EXTENSION is set).
var verifStubs = map[string]any{
	"os.LookupEnv": verifLookupEnv,
	"os.Getenv":    verifGetenv,
}

func verifLookupEnv(name string) (string, bool) { return "", false }
func verifGetenv(name string) string            { return "" }

const (
	vtGSyncMode = iota
	vtGHashing
	vtGMaxEntryCount
	vtGMaxStagingFileSize
	vtGProbeMode
	vtGScanMode
	vtGStageMode
	vtGSymlinkMode
	vtGWatchMode
	vtGWatchPollingInterval
	vtGIgnoreSyntax
	vtGIgnores
	vtGIgnoreVCSMode
	vtGPermissions // PermissionsMode + DefaultFileMode + DefaultDirectoryMode
	vtGOwner
	vtGGroup
	vtGCompression
	vtGroupCount
)

// verifC37ASCII returns a symbolic string of a forked length 0..max whose
// bytes are 7-bit ASCII.
func verifC37ASCII(max int) string {
	n := vRange(0, max)
	s := vString(n)
	for i := 0; i < n; i++ {
		vAssume(s[i] < 0x80)
	}
	return s
}

func verifC37List(maxEntries int) []string {
	n := vRange(0, maxEntries)
	var l []string
	for i := 0; i < n; i++ {
		l = append(l, vString(1))
	}
	return l
}

// verifC37Part builds one configuration part.  part: 0 session, 1 alpha, 2 beta.
// background: 0 = every non-focus field default; 1 = non-focus fields set to
// valid non-default values in the session part only; 2 = additionally every
// field that may be endpoint-specific set to a (different) valid value in the
// endpoint parts.
func verifC37Part(part int, focus *[vtGroupCount]bool, background int) *psync.Configuration {
	c := &psync.Configuration{}
	tag := [...]string{"session.", "alpha.", "beta."}[part]
	session := part == 0
	bgSession := session && background >= 1
	bgEndpoint := !session && background == 2

	if focus[vtGSyncMode] {
		vLabel(tag + "synchronizationMode")
		c.SynchronizationMode = core.SynchronizationMode(vU32())
	} else if bgSession {
		c.SynchronizationMode = core.SynchronizationMode_SynchronizationModeOneWaySafe
	}
	if focus[vtGHashing] {
		vLabel(tag + "hashingAlgorithm")
		c.HashingAlgorithm = hashing.Algorithm(vU32())
	} else if bgSession {
		c.HashingAlgorithm = hashing.Algorithm_AlgorithmSHA256
	}
	if focus[vtGMaxEntryCount] {
		vLabel(tag + "maximumEntryCount")
		c.MaximumEntryCount = vU64()
	} else if bgSession {
		c.MaximumEntryCount = 1000
	} else if bgEndpoint {
		c.MaximumEntryCount = uint64(10 + part)
	}
	if focus[vtGMaxStagingFileSize] {
		vLabel(tag + "maximumStagingFileSize")
		c.MaximumStagingFileSize = vU64()
	} else if bgSession {
		c.MaximumStagingFileSize = 2000
	} else if bgEndpoint {
		c.MaximumStagingFileSize = uint64(20 + part)
	}
	if focus[vtGProbeMode] {
		vLabel(tag + "probeMode")
		c.ProbeMode = behavior.ProbeMode(vU32())
	} else if bgSession {
		c.ProbeMode = behavior.ProbeMode_ProbeModeProbe
	} else if bgEndpoint {
		c.ProbeMode = behavior.ProbeMode_ProbeModeAssume
	}
	if focus[vtGScanMode] {
		vLabel(tag + "scanMode")
		c.ScanMode = psync.ScanMode(vU32())
	} else if bgSession {
		c.ScanMode = psync.ScanMode_ScanModeFull
	} else if bgEndpoint {
		c.ScanMode = psync.ScanMode_ScanModeAccelerated
	}
	if focus[vtGStageMode] {
		vLabel(tag + "stageMode")
		c.StageMode = psync.StageMode(vU32())
	} else if bgSession {
		c.StageMode = psync.StageMode_StageModeNeighboring
	} else if bgEndpoint {
		c.StageMode = psync.StageMode_StageModeInternal
	}
	if focus[vtGSymlinkMode] {
		vLabel(tag + "symbolicLinkMode")
		c.SymbolicLinkMode = core.SymbolicLinkMode(vU32())
	} else if bgSession {
		c.SymbolicLinkMode = core.SymbolicLinkMode_SymbolicLinkModeIgnore
	}
	if focus[vtGWatchMode] {
		vLabel(tag + "watchMode")
		c.WatchMode = psync.WatchMode(vU32())
	} else if bgSession {
		c.WatchMode = psync.WatchMode_WatchModeForcePoll
	} else if bgEndpoint {
		c.WatchMode = psync.WatchMode_WatchModeNoWatch
	}
	if focus[vtGWatchPollingInterval] {
		vLabel(tag + "watchPollingInterval")
		c.WatchPollingInterval = vU32()
	} else if bgSession {
		c.WatchPollingInterval = 7
	} else if bgEndpoint {
		c.WatchPollingInterval = uint32(30 + part)
	}
	if focus[vtGIgnoreSyntax] {
		vLabel(tag + "ignoreSyntax")
		c.IgnoreSyntax = ignore.Syntax(vU32())
	} else if bgSession {
		c.IgnoreSyntax = ignore.Syntax_SyntaxDocker
	}
	if focus[vtGIgnores] {
		vLabel(tag + "defaultIgnores")
		c.DefaultIgnores = verifC37List(vParam("maxignores", 2))
		vLabel(tag + "ignores")
		c.Ignores = verifC37List(vParam("maxignores", 2))
	} else if bgSession {
		c.DefaultIgnores = []string{"d"}
		c.Ignores = []string{"x", "!y"}
	}
	if focus[vtGIgnoreVCSMode] {
		vLabel(tag + "ignoreVCSMode")
		c.IgnoreVCSMode = ignore.IgnoreVCSMode(vU32())
	} else if bgSession {
		c.IgnoreVCSMode = ignore.IgnoreVCSMode_IgnoreVCSModeIgnore
	}
	if focus[vtGPermissions] {
		vLabel(tag + "permissionsMode")
		c.PermissionsMode = core.PermissionsMode(vU32())
		vLabel(tag + "defaultFileMode")
		c.DefaultFileMode = vU32()
		vLabel(tag + "defaultDirectoryMode")
		c.DefaultDirectoryMode = vU32()
	} else if bgSession {
		c.PermissionsMode = core.PermissionsMode_PermissionsModeManual
		c.DefaultFileMode = 0640
		c.DefaultDirectoryMode = 0750
	} else if bgEndpoint {
		c.DefaultFileMode = 0600
		c.DefaultDirectoryMode = 0700
	}
	if focus[vtGOwner] {
		vLabel(tag + "defaultOwner")
		c.DefaultOwner = verifC37ASCII(vParam("maxowner", 4))
	} else if bgSession {
		c.DefaultOwner = "id:501"
	} else if bgEndpoint {
		c.DefaultOwner = "george"
	}
	if focus[vtGGroup] {
		vLabel(tag + "defaultGroup")
		c.DefaultGroup = verifC37ASCII(vParam("maxowner", 4))
	} else if bgSession {
		c.DefaultGroup = "staff"
	} else if bgEndpoint {
		c.DefaultGroup = "id:20"
	}
	if focus[vtGCompression] {
		vLabel(tag + "compressionAlgorithm")
		c.CompressionAlgorithm = compression.Algorithm(vU32())
	} else if bgSession {
		c.CompressionAlgorithm = compression.Algorithm_AlgorithmDeflate
	} else if bgEndpoint {
		c.CompressionAlgorithm = compression.Algorithm_AlgorithmNone
	}
	vLabel("")
	return c
}

// verifC37Focus selects the focus groups: nfocus = 1 every single group,
// nfocus = 2 every unordered pair of groups.
func verifC37Focus() *[vtGroupCount]bool {
	var focus [vtGroupCount]bool
	g1 := vChoose(vtGroupCount)
	focus[g1] = true
	if vParam("nfocus", 1) >= 2 {
		g2 := vChoose(vtGroupCount)
		vAssume(g1 <= g2)
		focus[g2] = true
	}
	// withperm: the permissions group (the one group with a cross-part
	// dependency) is symbolic together with every other group.
	if vParam("withperm", 0) != 0 {
		focus[vtGPermissions] = true
	}
	return &focus
}

// verifC37Endpoint checks one endpoint's effective configuration.
func verifC37Endpoint(session, specific *psync.Configuration, who string) {
	merged := psync.MergeConfigurations(session, specific)
	vAssert(merged != nil, who+"merged configuration exists")
	if merged == nil {
		return
	}

	// Attribute a failure of the acceptance assertions below to the one
	// cross-part dependency that exists (file mode vs. permissions mode): the
	// class (a condition on the inputs only) is part of the labels.
	class := ""
	if vAnd(specific.DefaultFileMode&0111 != 0, vOr(session.PermissionsMode == core.PermissionsMode_PermissionsModeDefault, session.PermissionsMode == core.PermissionsMode_PermissionsModePortable)) {
		class = "[endpoint-specific executable file mode, portable session] "
		vNote("endpoint-specific DefaultFileMode with executable bits while the session's effective permissions mode is portable: accepted by session creation, but the merged configuration is not valid")
	} else {
		vNote("merged configuration of accepted parts is rejected")
	}
	err := merged.EnsureValid(false)
	vAssert(err == nil, who+class+"merged configuration is accepted by endpoint validation (EnsureValid(false))")

	// Own statement of the executability rule: the effective permissions
	// mode is the merged one, the session version's default being portable.
	portable := vOr(merged.PermissionsMode == core.PermissionsMode_PermissionsModePortable,
		merged.PermissionsMode == core.PermissionsMode_PermissionsModeDefault)
	if portable {
		vCover("portable")
		vAssert(merged.DefaultFileMode&0111 == 0, who+class+"default file mode has no executable bits in portable permissions mode")
	}
	vAssert(merged.DefaultFileMode&^0777 == 0, who+"default file mode has only permission bits")
	vAssert(merged.DefaultDirectoryMode&^0777 == 0, who+"default directory mode has only permission bits")
}

func VerifC37Accepted() {
	focus := verifC37Focus()
	background := vChoose(3)
	session := verifC37Part(0, focus, background)
	alpha := verifC37Part(1, focus, background)
	beta := verifC37Part(2, focus, background)

	// Session creation accepts the three parts: the real acceptance gate.
	specification := &CreationSpecification{
		Alpha:              &url.URL{Kind: url.Kind_Synchronization, Protocol: url.Protocol_Local, Path: "/alpha"},
		Beta:               &url.URL{Kind: url.Kind_Synchronization, Protocol: url.Protocol_Local, Path: "/beta"},
		Configuration:      session,
		ConfigurationAlpha: alpha,
		ConfigurationBeta:  beta,
	}
	vAssume(specification.ensureValid() == nil)
	vCover("accepted")
	if alpha.DefaultFileMode != 0 || beta.DefaultFileMode != 0 {
		vCover("endpoint-file-mode")
	}
	if alpha.DefaultFileMode&0111 != 0 {
		vCover("endpoint-executable-file-mode")
	}
	if alpha.DefaultOwner != "" {
		vCover("endpoint-owner")
	}

	verifC37Endpoint(session, alpha, "alpha: ")
	verifC37Endpoint(session, beta, "beta: ")
}

package ring

import (
	"errors"
	"io"
)

// C26: one inductive step of every ring.Buffer operation from an arbitrary
// state satisfying the representation invariant, against a slice-backed queue.

var verifErrPeer = errors.New("peer failure")

// verifC26State builds an arbitrary valid buffer and its abstract queue.
func verifC26State(maxSize int) (*Buffer, []byte) {
	size := vRange(0, maxSize)
	b := &Buffer{size: size}
	if size > 0 {
		b.storage = vBytes(size)
		vLabel("start")
		b.start = vInt(0, size-1)
		vLabel("used")
		b.used = vInt(0, size)
		vLabel("")
		vAssume(b.used != 0 || b.start == 0)
	}
	// abstraction function
	used := vConcretize(b.used)
	q := make([]byte, 0, used)
	for i := 0; i < used; i++ {
		q = append(q, b.storage[(b.start+i)%size])
	}
	return b, q
}

func verifC26Invariant(b *Buffer, size int) {
	vAssert(b.size == size, "inv: size unchanged")
	vAssert(len(b.storage) == size, "inv: storage length")
	vAssert(b.used >= 0 && b.used <= size, "inv: used in range")
	if size == 0 {
		vAssert(b.start == 0, "inv: start in range")
	} else {
		vAssert(b.start >= 0 && b.start < size, "inv: start in range")
	}
	vAssert(b.used != 0 || b.start == 0, "inv: drained buffer is reset")
}

// verifC26Contents compares the buffer's abstract contents with q.
func verifC26Contents(b *Buffer, q []byte, what string) {
	vAssert(b.used == len(q), what+": length")
	if b.used != len(q) {
		return
	}
	for i := range q {
		vAssert(b.storage[(b.start+i)%b.size] == q[i], what+": content")
	}
}

type verifReader struct {
	delivered []byte
	calls     int
	maxLen    int // largest buffer it may be handed
	over      bool
	zeroLen   bool
}

func (r *verifReader) Read(p []byte) (int, error) {
	r.calls++
	if len(p) > r.maxLen {
		r.over = true
	}
	if len(p) == 0 {
		r.zeroLen = true
	}
	n := vRange(0, len(p))
	for i := 0; i < n; i++ {
		c := vU8()
		p[i] = c
		r.delivered = append(r.delivered, c)
	}
	var err error
	switch vChoose(3) {
	case 1:
		err = io.EOF
	case 2:
		err = verifErrPeer
	}
	// a reader that returns (0, nil) forever makes any consumer spin: excluded
	vAssume(n > 0 || err != nil)
	return n, err
}

type verifWriter struct {
	accepted []byte
	calls    int
}

func (w *verifWriter) Write(p []byte) (int, error) {
	w.calls++
	n := vRange(0, len(p))
	w.accepted = append(w.accepted, p[:n]...)
	var err error
	if n < len(p) {
		err = io.ErrShortWrite
		if vBool() {
			err = verifErrPeer
		}
	} else if vChoose(2) == 1 {
		err = verifErrPeer
	}
	return n, err
}

func VerifC26Step() {
	maxSize := vParam("maxsize", 3)
	b, q := verifC26State(maxSize)
	size := b.size
	free := size - len(q)

	switch vChoose(9) {
	case 0: // Write
		data := vBytes(vRange(0, size+1))
		orig := append([]byte(nil), data...)
		n, err := b.Write(data)
		vCover("write")
		want := len(orig)
		if want > free {
			want = free
		}
		vAssert(n == want, "Write: count")
		if len(orig) > free {
			vAssert(err == ErrBufferFull, "Write: ErrBufferFull exactly when data does not fit")
		} else {
			vAssert(err == nil, "Write: no error when data fits")
		}
		verifC26Contents(b, append(append([]byte(nil), q...), orig[:want]...), "Write")
	case 1: // WriteByte
		c := vU8()
		err := b.WriteByte(c)
		vCover("writebyte")
		if free == 0 {
			vAssert(err == ErrBufferFull, "WriteByte: full")
			verifC26Contents(b, q, "WriteByte(full)")
		} else {
			vAssert(err == nil, "WriteByte: ok")
			verifC26Contents(b, append(append([]byte(nil), q...), c), "WriteByte")
		}
	case 2: // Read
		buf := make([]byte, vRange(0, size+1))
		n, err := b.Read(buf)
		vCover("read")
		switch {
		case len(buf) == 0:
			vAssert(n == 0 && err == nil, "Read: zero-length destination")
			verifC26Contents(b, q, "Read(0)")
		case len(q) == 0:
			vAssert(n == 0 && err == io.EOF, "Read: EOF exactly when empty")
		default:
			want := len(buf)
			if want > len(q) {
				want = len(q)
			}
			vAssert(n == want && err == nil, "Read: count")
			for i := 0; i < want && i < n; i++ {
				vAssert(buf[i] == q[i], "Read: bytes in FIFO order")
			}
			verifC26Contents(b, q[want:], "Read")
		}
	case 3: // ReadByte
		c, err := b.ReadByte()
		vCover("readbyte")
		if len(q) == 0 {
			vAssert(err == io.EOF, "ReadByte: EOF exactly when empty")
		} else {
			vAssert(err == nil && c == q[0], "ReadByte: first byte")
			verifC26Contents(b, q[1:], "ReadByte")
		}
	case 4: // ReadNFrom with a short-reading, failing peer
		n := vRange(0, size+1)
		r := &verifReader{maxLen: n}
		if free < r.maxLen {
			r.maxLen = free
		}
		got, err := b.ReadNFrom(r, n)
		vCover("readnfrom")
		vAssert(!r.over, "ReadNFrom: never asks the reader for more than requested or storable")
		vAssert(!r.zeroLen, "ReadNFrom: never issues a zero-length read")
		vAssert(got == len(r.delivered), "ReadNFrom: count equals bytes delivered by the reader")
		vAssert(got <= n && got <= free, "ReadNFrom: count within request and capacity")
		verifC26Contents(b, append(append([]byte(nil), q...), r.delivered...), "ReadNFrom")
		if err == nil {
			vAssert(got == n, "ReadNFrom: nil error only when the request completed")
		}
		if err == ErrBufferFull {
			vAssert(got < n && b.used == size, "ReadNFrom: ErrBufferFull only when storage ran out first")
		}
		if got == n {
			vAssert(err == nil || err == verifErrPeer, "ReadNFrom: EOF cleared when simultaneous with completion")
		}
	case 5: // WriteTo with a short-writing, failing peer
		w := &verifWriter{}
		n, err := b.WriteTo(w)
		vCover("writeto")
		vAssert(int(n) == len(w.accepted), "WriteTo: count equals bytes accepted by the writer")
		vAssert(len(w.accepted) <= len(q), "WriteTo: never writes more than stored")
		for i := range w.accepted {
			if i < len(q) {
				vAssert(w.accepted[i] == q[i], "WriteTo: bytes in FIFO order")
			}
		}
		if len(w.accepted) <= len(q) {
			verifC26Contents(b, q[len(w.accepted):], "WriteTo")
		}
		if err == nil {
			vAssert(len(w.accepted) == len(q), "WriteTo: nil error only when drained")
		}
	case 6: // Reset
		b.Reset()
		vCover("reset")
		verifC26Contents(b, nil, "Reset")
	case 7: // accessors
		vCover("accessors")
		vAssert(b.Size() == size && b.Used() == len(q) && b.Free() == free, "accessors")
	case 8: // NewBuffer establishes the invariant
		n := vRange(-1, maxSize)
		b = NewBuffer(n)
		vCover("new")
		size = n
		if size < 0 {
			size = 0
		}
		verifC26Contents(b, nil, "NewBuffer")
	}
	verifC26Invariant(b, size)
}

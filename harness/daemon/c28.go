package daemon

import (
	"os"
	"runtime"
	"time"

	"golang.org/x/sys/unix"
)

// C28 (partial): at most one process holds the daemon lock, and it becomes
// available again when its holder releases it or dies.
//
// The guarantee is the kernel's; what mutagen contributes is the sequence of
// calls it makes.  So the REAL user-level code (daemon.AcquireLock, Lock.Release,
// locking.NewLocker, Locker.Lock/Unlock/Close with the EINTR retry loop) is
// executed by several model *processes* against a model of POSIX record locks
// (fcntl F_SETLK/F_SETLKW/F_UNLCK): locks are owned by (process, inode) and
// cover byte ranges; a write lock conflicts with any other process's lock on an
// overlapping range, read locks are shared; closing ANY descriptor of the file
// drops all of the process's locks on it; a process that dies closes all its
// descriptors.  The property is judged on the model: two live processes are
// never both told they hold the daemon lock, and once the holder has released or
// died the next attempt succeeds.

type vtLockRange struct {
	pid        int
	start, end int64 // end < 0: to infinity
	write      bool
}

type vtOpenFile struct {
	file *os.File
	fd   uintptr
	pid  int
	path string
	open bool
}

var (
	vtPid    int // the process currently executing
	vtFiles  []*vtOpenFile
	vtLocks  []vtLockRange // on the single lock file
	vtEINTR  int           // remaining EINTR injections
	vtNextFd uintptr
	vtPaths  []string // paths opened (must all be the daemon lock)
)

func vtSubpath(name string) (string, error) { return "/data/daemon/" + name, nil }

func vtOpen(name string, flag int, perm os.FileMode) (*os.File, error) {
	vtNextFd++
	f := &vtOpenFile{file: &os.File{}, fd: vtNextFd, pid: vtPid, path: name, open: true}
	vtFiles = append(vtFiles, f)
	vtPaths = append(vtPaths, name)
	return f.file, nil
}

func vtLookup(file *os.File) *vtOpenFile {
	for _, f := range vtFiles {
		if f.file == file {
			return f
		}
	}
	return nil
}

func vtFd(file *os.File) uintptr {
	f := vtLookup(file)
	if f == nil || !f.open {
		return ^uintptr(0)
	}
	return f.fd
}

func vtName1(file *os.File) string {
	if f := vtLookup(file); f != nil {
		return f.path
	}
	return ""
}

func vtDropLocks(pid int) {
	var keep []vtLockRange
	for _, l := range vtLocks {
		if l.pid != pid {
			keep = append(keep, l)
		}
	}
	vtLocks = keep
}

func vtClose(file *os.File) error {
	f := vtLookup(file)
	if f == nil || !f.open {
		return os.ErrClosed
	}
	f.open = false
	// POSIX: closing any descriptor of the file releases all of the process's
	// record locks on it
	vtDropLocks(f.pid)
	return nil
}

func vtOverlap(aStart, aEnd, bStart, bEnd int64) bool {
	if aEnd >= 0 && aEnd <= bStart {
		return false
	}
	if bEnd >= 0 && bEnd <= aStart {
		return false
	}
	return true
}

func vtFcntlFlock(fd uintptr, cmd int, lk *unix.Flock_t) error {
	var f *vtOpenFile
	for _, x := range vtFiles {
		if x.open && x.fd == fd && x.pid == vtPid {
			f = x
		}
	}
	if f == nil {
		return unix.EBADF
	}
	if vtEINTR > 0 && vChoose(2) == 1 {
		vtEINTR--
		return unix.EINTR
	}
	if lk.Whence != 0 || lk.Start < 0 || lk.Len < 0 {
		return unix.EINVAL
	}
	start, end := lk.Start, int64(-1)
	if lk.Len > 0 {
		end = lk.Start + lk.Len
	}
	switch lk.Type {
	case unix.F_UNLCK:
		if cmd != unix.F_SETLK && cmd != unix.F_SETLKW {
			return unix.EINVAL
		}
		// (whole-range unlock is all the model needs: partial unlocks of a range
		// would split it; the code under test only ever uses one range)
		var keep []vtLockRange
		for _, l := range vtLocks {
			if l.pid == vtPid && vtOverlap(l.start, l.end, start, end) {
				continue
			}
			keep = append(keep, l)
		}
		vtLocks = keep
		return nil
	case unix.F_WRLCK, unix.F_RDLCK:
		write := lk.Type == unix.F_WRLCK
		for _, l := range vtLocks {
			if l.pid != vtPid && vtOverlap(l.start, l.end, start, end) && (write || l.write) {
				if cmd == unix.F_SETLKW {
					// would sleep until the other process lets go: in this
					// one-thread-per-step model that is a hang
					vFail("the lock attempt blocks instead of failing while another process holds the lock")
				}
				return unix.EAGAIN
			}
		}
		if cmd != unix.F_SETLK && cmd != unix.F_SETLKW {
			return unix.EINVAL
		}
		// replace this process's locks on the range
		var keep []vtLockRange
		for _, l := range vtLocks {
			if l.pid == vtPid && vtOverlap(l.start, l.end, start, end) {
				continue
			}
			keep = append(keep, l)
		}
		vtLocks = append(keep, vtLockRange{vtPid, start, end, write})
		return nil
	}
	return unix.EINVAL
}

var verifStubs = map[string]any{
	"github.com/mutagen-io/mutagen/pkg/daemon.subpath": vtSubpath,
	"os.OpenFile":                        vtOpen,
	"(*os.File).Fd":                      vtFd,
	"(*os.File).Close":                   vtClose,
	"(*os.File).Name":                    vtName1,
	"golang.org/x/sys/unix.FcntlFlock":   vtFcntlFlock,
}

func vtKill(pid int) {
	for _, f := range vtFiles {
		if f.pid == pid && f.open {
			f.open = false
		}
	}
	vtDropLocks(pid)
}

func VerifC28Lock() {
	vtPid, vtFiles, vtLocks, vtNextFd, vtPaths = 0, nil, nil, 2, nil
	vtEINTR = vParam("eintr", 1)
	nproc := vParam("processes", 2)
	steps := vParam("steps", 4)
	held := make([]*Lock, nproc) // what each process believes it holds
	alive := make([]bool, nproc)
	for i := range alive {
		alive[i] = true
	}
	holder := -1 // own bookkeeping: who was told it holds the lock
	for s := 0; s < steps; s++ {
		p := vChoose(nproc)
		if !alive[p] {
			continue
		}
		vtPid = p
		switch vChoose(3) {
		case 0: // try to become the daemon
			if held[p] != nil {
				continue
			}
			eintrBefore := vtEINTR
			l, err := AcquireLock()
			if err == nil {
				vAssert(l != nil, "a successful acquisition returns a lock")
				vAssert(holder < 0, "two live processes hold the daemon lock at the same time")
				holder = p
				held[p] = l
				vCover("acquired")
			} else {
				vAssert(l == nil, "a failed acquisition returns no lock")
				if holder >= 0 {
					vCover("refused while held")
				} else {
					_ = eintrBefore
					vFail("the daemon lock is free (released, or its holder died) but cannot be acquired")
				}
			}
		case 1: // stop being the daemon
			if held[p] == nil {
				continue
			}
			// whatever Release reports (an interrupted unlock is reported as an
			// error), the lock must be free afterwards: judged by the next attempt
			held[p].Release()
			held[p] = nil
			if holder == p {
				holder = -1
			}
			vCover("released")
		case 2: // killed
			vtKill(p)
			alive[p] = false
			held[p] = nil
			if holder == p {
				holder = -1
				vCover("holder killed")
			}
		}
	}
	for _, path := range vtPaths {
		vAssert(path == "/data/daemon/daemon.lock", "only the daemon lock file is opened")
	}
}

// ---------- concurrent processes (bounded-schedule mode) ----------
//
// Each model process is a goroutine; every model system call is a scheduling
// point, so calls of different processes interleave at system-call granularity
// (within the preemption bound).  The file namespace is modelled as well: a
// path names an inode, open(O_CREATE) creates one if the path is unbound,
// unlink/rename rebind paths, and record locks belong to (process, inode).

type vtInode struct{ id int }

type vtFile2 struct {
	file  *os.File
	fd    uintptr
	pid   int
	inode *vtInode
	open  bool
	name  string
}

type vtLock2 struct {
	pid   int
	inode *vtInode
	write bool
}

var (
	vtNames  map[string]*vtInode
	vtFiles2 []*vtFile2
	vtLocks2 []vtLock2
	vtInodes int
	vtHolds  []bool // own bookkeeping: process p was told it holds the lock and has not begun to release it
)

func vtMe() int { return vGoroutine() }

func vtOpen2(name string, flag int, perm os.FileMode) (*os.File, error) {
	runtime.Gosched()
	ino := vtNames[name]
	if ino == nil {
		if flag&os.O_CREATE == 0 {
			return nil, os.ErrNotExist
		}
		vtInodes++
		ino = &vtInode{vtInodes}
		vtNames[name] = ino
	}
	vtNextFd++
	f := &vtFile2{file: &os.File{}, fd: vtNextFd, pid: vtMe(), inode: ino, open: true, name: name}
	vtFiles2 = append(vtFiles2, f)
	return f.file, nil
}

func vtLookup2(file *os.File) *vtFile2 {
	for _, f := range vtFiles2 {
		if f.file == file {
			return f
		}
	}
	return nil
}

func vtFd2(file *os.File) uintptr {
	if f := vtLookup2(file); f != nil && f.open {
		return f.fd
	}
	return ^uintptr(0)
}

func vtDrop2(pid int, ino *vtInode) {
	var keep []vtLock2
	for _, l := range vtLocks2 {
		if !(l.pid == pid && l.inode == ino) {
			keep = append(keep, l)
		}
	}
	vtLocks2 = keep
}

func vtClose2(file *os.File) error {
	runtime.Gosched()
	f := vtLookup2(file)
	if f == nil || !f.open {
		return os.ErrClosed
	}
	f.open = false
	vtDrop2(f.pid, f.inode)
	return nil
}

func vtRemove2(name string) error {
	runtime.Gosched()
	if vtNames[name] == nil {
		return os.ErrNotExist
	}
	delete(vtNames, name)
	return nil
}

type vtInfo struct{ name string }

func (i vtInfo) Name() string       { return i.name }
func (i vtInfo) Size() int64        { return 0 }
func (i vtInfo) Mode() os.FileMode  { return 0600 }
func (i vtInfo) ModTime() time.Time { return time.Time{} }
func (i vtInfo) IsDir() bool        { return false }
func (i vtInfo) Sys() any           { return nil }

func vtLstat2(name string) (os.FileInfo, error) {
	runtime.Gosched()
	if vtNames[name] == nil {
		return nil, os.ErrNotExist
	}
	return vtInfo{name}, nil
}

func vtName2(file *os.File) string {
	if f := vtLookup2(file); f != nil {
		return f.name
	}
	return ""
}

// vtWriteFileAtomic2: a new file (a new inode) replaces whatever the path named.
func vtWriteFileAtomic2(path string, data []byte, permissions os.FileMode) error {
	runtime.Gosched()
	vtInodes++
	vtNames[path] = &vtInode{vtInodes}
	return nil
}

func vtRename2(oldpath, newpath string) error {
	runtime.Gosched()
	ino := vtNames[oldpath]
	if ino == nil {
		return os.ErrNotExist
	}
	vtNames[newpath] = ino
	delete(vtNames, oldpath)
	return nil
}

func vtFcntl2(fd uintptr, cmd int, lk *unix.Flock_t) error {
	runtime.Gosched()
	var f *vtFile2
	for _, x := range vtFiles2 {
		if x.open && x.fd == fd && x.pid == vtMe() {
			f = x
		}
	}
	if f == nil {
		return unix.EBADF
	}
	// whole-file locks only (what the code under test uses); anything else is
	// outside this model
	if lk.Whence != 0 || lk.Start != 0 || lk.Len != 0 {
		vFail("record-lock model: only whole-file locks are modelled in the concurrent harness")
	}
	switch lk.Type {
	case unix.F_UNLCK:
		vtDrop2(f.pid, f.inode)
		return nil
	case unix.F_WRLCK, unix.F_RDLCK:
		write := lk.Type == unix.F_WRLCK
		for _, l := range vtLocks2 {
			if l.pid != f.pid && l.inode == f.inode && (write || l.write) {
				if cmd == unix.F_SETLKW {
					vFail("the lock attempt blocks instead of failing while another process holds the lock")
				}
				return unix.EAGAIN
			}
		}
		vtDrop2(f.pid, f.inode)
		vtLocks2 = append(vtLocks2, vtLock2{f.pid, f.inode, write})
		return nil
	}
	return unix.EINVAL
}

var verifStubs_VerifC28Concurrent = map[string]any{
	"github.com/mutagen-io/mutagen/pkg/daemon.subpath": vtSubpath,
	"os.OpenFile":                      vtOpen2,
	"(*os.File).Fd":                    vtFd2,
	"(*os.File).Close":                 vtClose2,
	"os.Remove":                        vtRemove2,
	"os.Rename":                        vtRename2,
	"os.Lstat":                         vtLstat2,
	"os.Stat":                          vtLstat2,
	"(*os.File).Name":                  vtName2,
	"github.com/mutagen-io/mutagen/pkg/filesystem.WriteFileAtomic": vtWriteFileAtomic2,
	"golang.org/x/sys/unix.FcntlFlock": vtFcntl2,
}

func vtProcess(done chan struct{}, rounds int) {
	me := vtMe()
	for r := 0; r < rounds; r++ {
		l, err := AcquireLock()
		if err != nil {
			continue
		}
		for q, h := range vtHolds {
			vAssert(q == me || !h, "two live processes hold the daemon lock at the same time")
		}
		vtHolds[me] = true
		vCover("acquired concurrently")
		runtime.Gosched() // the daemon does its work
		vtHolds[me] = false
		l.Release()
	}
	done <- struct{}{}
}

// VerifC28Concurrent: n processes each try `rounds` times to become the daemon
// and release again, their system calls interleaving arbitrarily (within the
// preemption bound): never two holders at once.
func VerifC28Concurrent() {
	n := vParam("processes", 2)
	vtNames = map[string]*vtInode{}
	vtFiles2, vtLocks2, vtInodes, vtNextFd = nil, nil, 0, 2
	if vChoose(2) == 1 {
		// the lock file exists already (normal case); otherwise a fresh data directory
		vtInodes++
		vtNames["/data/daemon/daemon.lock"] = &vtInode{vtInodes}
		vCover("lock file exists")
	} else {
		vCover("fresh data directory")
	}
	vtHolds = make([]bool, n+1)
	done := make(chan struct{}, n)
	for i := 0; i < n; i++ {
		go vtProcess(done, vParam("rounds", 2))
	}
	for i := 0; i < n; i++ {
		<-done
	}
}

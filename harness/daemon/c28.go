package daemon

import (
	"os"

	"golang.org/x/sys/unix"
)

// C28 (partial): at most one process holds the daemon lock, and it becomes
// available again when its holder releases it or dies.
//
// The guarantee is the kernel's; what mutagen contributes is the sequence of
// calls it makes.  So the REAL user-level code (daemon.AcquireLock, Lock.Release,
// locking.NewLocker, Locker.Lock/Unlock/Close with the EINTR retry loop) is
// executed by several model *processes* against a model of POSIX record locks
// (fcntl F_SETLK/F_SETLKW/F_UNLCK): locks are owned by (process, inode) and
// cover byte ranges; a write lock conflicts with any other process's lock on an
// overlapping range, read locks are shared; closing ANY descriptor of the file
// drops all of the process's locks on it; a process that dies closes all its
// descriptors.  The property is judged on the model: two live processes are
// never both told they hold the daemon lock, and once the holder has released or
// died the next attempt succeeds.

type vtLockRange struct {
	pid        int
	start, end int64 // end < 0: to infinity
	write      bool
}

type vtOpenFile struct {
	file *os.File
	fd   uintptr
	pid  int
	path string
	open bool
}

var (
	vtPid    int // the process currently executing
	vtFiles  []*vtOpenFile
	vtLocks  []vtLockRange // on the single lock file
	vtEINTR  int           // remaining EINTR injections
	vtNextFd uintptr
	vtPaths  []string // paths opened (must all be the daemon lock)
)

func vtSubpath(name string) (string, error) { return "/data/daemon/" + name, nil }

func vtOpen(name string, flag int, perm os.FileMode) (*os.File, error) {
	vtNextFd++
	f := &vtOpenFile{file: &os.File{}, fd: vtNextFd, pid: vtPid, path: name, open: true}
	vtFiles = append(vtFiles, f)
	vtPaths = append(vtPaths, name)
	return f.file, nil
}

func vtLookup(file *os.File) *vtOpenFile {
	for _, f := range vtFiles {
		if f.file == file {
			return f
		}
	}
	return nil
}

func vtFd(file *os.File) uintptr {
	f := vtLookup(file)
	if f == nil || !f.open {
		return ^uintptr(0)
	}
	return f.fd
}

func vtDropLocks(pid int) {
	var keep []vtLockRange
	for _, l := range vtLocks {
		if l.pid != pid {
			keep = append(keep, l)
		}
	}
	vtLocks = keep
}

func vtClose(file *os.File) error {
	f := vtLookup(file)
	if f == nil || !f.open {
		return os.ErrClosed
	}
	f.open = false
	// POSIX: closing any descriptor of the file releases all of the process's
	// record locks on it
	vtDropLocks(f.pid)
	return nil
}

func vtOverlap(aStart, aEnd, bStart, bEnd int64) bool {
	if aEnd >= 0 && aEnd <= bStart {
		return false
	}
	if bEnd >= 0 && bEnd <= aStart {
		return false
	}
	return true
}

func vtFcntlFlock(fd uintptr, cmd int, lk *unix.Flock_t) error {
	var f *vtOpenFile
	for _, x := range vtFiles {
		if x.open && x.fd == fd && x.pid == vtPid {
			f = x
		}
	}
	if f == nil {
		return unix.EBADF
	}
	if vtEINTR > 0 && vChoose(2) == 1 {
		vtEINTR--
		return unix.EINTR
	}
	if lk.Whence != 0 || lk.Start < 0 || lk.Len < 0 {
		return unix.EINVAL
	}
	start, end := lk.Start, int64(-1)
	if lk.Len > 0 {
		end = lk.Start + lk.Len
	}
	switch lk.Type {
	case unix.F_UNLCK:
		if cmd != unix.F_SETLK && cmd != unix.F_SETLKW {
			return unix.EINVAL
		}
		// (whole-range unlock is all the model needs: partial unlocks of a range
		// would split it; the code under test only ever uses one range)
		var keep []vtLockRange
		for _, l := range vtLocks {
			if l.pid == vtPid && vtOverlap(l.start, l.end, start, end) {
				continue
			}
			keep = append(keep, l)
		}
		vtLocks = keep
		return nil
	case unix.F_WRLCK, unix.F_RDLCK:
		write := lk.Type == unix.F_WRLCK
		for _, l := range vtLocks {
			if l.pid != vtPid && vtOverlap(l.start, l.end, start, end) && (write || l.write) {
				if cmd == unix.F_SETLKW {
					// would sleep until the other process lets go: in this
					// one-thread-per-step model that is a hang
					vFail("the lock attempt blocks instead of failing while another process holds the lock")
				}
				return unix.EAGAIN
			}
		}
		if cmd != unix.F_SETLK && cmd != unix.F_SETLKW {
			return unix.EINVAL
		}
		// replace this process's locks on the range
		var keep []vtLockRange
		for _, l := range vtLocks {
			if l.pid == vtPid && vtOverlap(l.start, l.end, start, end) {
				continue
			}
			keep = append(keep, l)
		}
		vtLocks = append(keep, vtLockRange{vtPid, start, end, write})
		return nil
	}
	return unix.EINVAL
}

var verifStubs = map[string]any{
	"github.com/mutagen-io/mutagen/pkg/daemon.subpath": vtSubpath,
	"os.OpenFile":                        vtOpen,
	"(*os.File).Fd":                      vtFd,
	"(*os.File).Close":                   vtClose,
	"golang.org/x/sys/unix.FcntlFlock":   vtFcntlFlock,
}

func vtKill(pid int) {
	for _, f := range vtFiles {
		if f.pid == pid && f.open {
			f.open = false
		}
	}
	vtDropLocks(pid)
}

func VerifC28Lock() {
	vtPid, vtFiles, vtLocks, vtNextFd, vtPaths = 0, nil, nil, 2, nil
	vtEINTR = vParam("eintr", 1)
	nproc := vParam("processes", 2)
	steps := vParam("steps", 4)
	held := make([]*Lock, nproc) // what each process believes it holds
	alive := make([]bool, nproc)
	for i := range alive {
		alive[i] = true
	}
	holder := -1 // own bookkeeping: who was told it holds the lock
	for s := 0; s < steps; s++ {
		p := vChoose(nproc)
		if !alive[p] {
			continue
		}
		vtPid = p
		switch vChoose(3) {
		case 0: // try to become the daemon
			if held[p] != nil {
				continue
			}
			eintrBefore := vtEINTR
			l, err := AcquireLock()
			if err == nil {
				vAssert(l != nil, "a successful acquisition returns a lock")
				vAssert(holder < 0, "two live processes hold the daemon lock at the same time")
				holder = p
				held[p] = l
				vCover("acquired")
			} else {
				vAssert(l == nil, "a failed acquisition returns no lock")
				if holder >= 0 {
					vCover("refused while held")
				} else {
					_ = eintrBefore
					vFail("the daemon lock is free (released, or its holder died) but cannot be acquired")
				}
			}
		case 1: // stop being the daemon
			if held[p] == nil {
				continue
			}
			// whatever Release reports (an interrupted unlock is reported as an
			// error), the lock must be free afterwards: judged by the next attempt
			held[p].Release()
			held[p] = nil
			if holder == p {
				holder = -1
			}
			vCover("released")
		case 2: // killed
			vtKill(p)
			alive[p] = false
			held[p] = nil
			if holder == p {
				holder = -1
				vCover("holder killed")
			}
		}
	}
	for _, path := range vtPaths {
		vAssert(path == "/data/daemon/daemon.lock", "only the daemon lock file is opened")
	}
}

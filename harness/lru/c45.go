package lru

// The engine needs package runtime in the loaded program; lru itself imports
// only container/list, which does not pull it in.
import _ "runtime"

// C45: lru.Cache against a slice-backed model.  Operation kinds are forked,
// keys and values are symbolic (keys restricted to a small range so that
// collisions are likely).  After every operation the cache's observable
// results (Get value/hit, Len), its recency order (walked front to back), its
// index and the eviction callback log are compared with the model.

type verifKV struct{ k, v uint8 }

// verifModel: order[0] is the most recently used entry.
type verifModel struct {
	capacity int // 0 = unlimited (documented)
	order    []verifKV
	evicted  []verifKV
}

func (m *verifModel) find(k uint8) int {
	for i := range m.order {
		if m.order[i].k == k {
			return i
		}
	}
	return -1
}

func (m *verifModel) removeAt(i int) verifKV {
	e := m.order[i]
	n := make([]verifKV, 0, len(m.order))
	n = append(n, m.order[:i]...)
	n = append(n, m.order[i+1:]...)
	m.order = n
	return e
}

func (m *verifModel) pushFront(e verifKV) {
	n := make([]verifKV, 0, len(m.order)+1)
	n = append(n, e)
	n = append(n, m.order...)
	m.order = n
}

func (m *verifModel) add(k, v uint8) {
	if i := m.find(k); i >= 0 {
		m.removeAt(i)
		m.pushFront(verifKV{k, v})
		return
	}
	m.pushFront(verifKV{k, v})
	if m.capacity != 0 && len(m.order) > m.capacity {
		// least recently used leaves, exactly one callback
		m.evicted = append(m.evicted, m.removeAt(len(m.order)-1))
	}
}

func (m *verifModel) get(k uint8) (uint8, bool) {
	if i := m.find(k); i >= 0 {
		e := m.removeAt(i)
		m.pushFront(e)
		return e.v, true
	}
	return 0, false
}

func (m *verifModel) remove(k uint8) {
	if i := m.find(k); i >= 0 {
		m.evicted = append(m.evicted, m.removeAt(i))
	}
}

// verifC45Compare checks cache state and callback log against the model.
func verifC45Compare(c *Cache[uint8, uint8], m *verifModel, log []verifKV, withCallback bool) {
	vAssert(c.Len() == len(m.order), "Len equals model size")
	if m.capacity != 0 {
		vAssert(c.Len() <= m.capacity, "never more entries than the capacity")
	}
	vAssert(len(c.index) == len(m.order), "index size equals model size")
	// recency order, most recent first
	e := c.entries.Front()
	for i := range m.order {
		if e == nil {
			vFail("recency list shorter than model")
			return
		}
		kv := e.Value.(*entry[uint8, uint8])
		vAssert(kv.key == m.order[i].k, "recency order: key")
		vAssert(kv.value == m.order[i].v, "recency order: value")
		ie, ok := c.index[m.order[i].k]
		vAssert(ok && ie == e, "index points at the entry's list element")
		e = e.Next()
	}
	vAssert(e == nil, "recency list longer than model")
	// callback log
	if withCallback {
		vAssert(len(log) == len(m.evicted), "eviction callback count (exactly once per leaving entry)")
		if len(log) == len(m.evicted) {
			for i := range log {
				vAssert(log[i].k == m.evicted[i].k, "eviction callback order/key (least recently used first)")
				vAssert(log[i].v == m.evicted[i].v, "eviction callback value")
			}
		}
	}
}

func VerifC45Model() {
	maxCap := vParam("maxcap", 3)
	maxOps := vParam("maxops", 4)
	keys := vParam("keys", 4)

	capacity := verifRange(0, maxCap)
	withCallback := vChoose(2) == 0
	var log []verifKV
	var cb func(k, v uint8)
	if withCallback {
		cb = func(k, v uint8) { log = append(log, verifKV{k, v}) }
	}
	c := New[uint8, uint8](capacity, cb)
	m := &verifModel{capacity: capacity}
	vAssert(c.Len() == 0, "New: empty")
	verifC45Compare(c, m, log, withCallback)

	nops := verifRange(0, maxOps)
	for step := 0; step < nops; step++ {
		k := vU8()
		vAssume(int(k) < keys)
		switch vChoose(3) {
		case 0:
			v := vU8()
			c.Add(k, v)
			m.add(k, v)
			vCover("add")
		case 1:
			got, ok := c.Get(k)
			want, wok := m.get(k)
			vAssert(ok == wok, "Get: hit exactly when the model holds the key")
			if wok {
				vCover("get-hit")
				vAssert(got == want, "Get: value")
			} else {
				vCover("get-miss")
				vAssert(got == 0, "Get: zero value on miss")
			}
		case 2:
			c.Remove(k)
			m.remove(k)
			vCover("remove")
		}
		verifC45Compare(c, m, log, withCallback)
	}
	if len(m.evicted) > 0 {
		vCover("evicted")
	}

	// Black-box epilogue: every model entry is retrievable with its value
	// (oldest first, so the recency order is exercised once more).
	snapshot := append([]verifKV(nil), m.order...)
	for i := len(snapshot) - 1; i >= 0; i-- {
		got, ok := c.Get(snapshot[i].k)
		vAssert(ok, "final Get: model key present")
		vAssert(got == snapshot[i].v, "final Get: value")
		m.get(snapshot[i].k)
	}
	verifC45Compare(c, m, log, withCallback)
}

// verifRange is vRange that does not consume a choice for a one-value range
// (the engine records none there, the native replay runtime would read one).
func verifRange(lo, hi int) int {
	if hi <= lo {
		return lo
	}
	return vRange(lo, hi)
}

package url

// C38: every URL produced by Parse is valid, and Parse(Format(u)) yields the
// same URL, for local, SSH and Docker URLs of both kinds.
//
// The raw text is a symbolic ASCII string, optionally framed by constant
// pieces (the "docker://" prefix, a forwarding protocol name) so that the
// deeper grammar is reached within small symbolic lengths.

// Environment model (assumptions, see props/C38.json).
var verifStubs = map[string]any{
	// home/working-directory resolution: absolute paths are returned as they
	// are, anything else is made absolute below "/".  Like the real function
	// the model is idempotent and always returns an absolute path.
	"github.com/mutagen-io/mutagen/pkg/filesystem.Normalize": verifNormalize,
	// no Docker / MUTAGEN_* environment variables are set.
	"os.LookupEnv": verifLookupEnv,
	"os.Getenv":    verifGetenv,
}

func verifNormalize(path string) (string, error) {
	if len(path) > 0 && path[0] == '/' {
		return path, nil
	}
	return "/" + path, nil
}

func verifLookupEnv(name string) (string, bool) { return "", false }
func verifGetenv(name string) string            { return "" }

var verifForwardingProtocols = []string{"tcp", "tcp4", "tcp6", "unix", "npipe"}

// verifASCII returns n symbolic bytes, each assumed to be 7-bit ASCII.
func verifASCII(n int) string {
	s := vString(n)
	for i := 0; i < n; i++ {
		vAssume(s[i] < 0x80)
	}
	return s
}

// verifC38Raw builds the raw text for the chosen shape.
func verifC38Raw(maxLen int) string {
	switch vChoose(6) {
	case 5:
		// SCP-style text with an explicit zero port: "h:0:" + free text.  The
		// path that follows may itself look like a port specification (long digit
		// runs included), which Format has to protect.
		vLabel("zero-port-rest")
		return "h:0:" + verifASCII(vRange(0, vParam("maxzeroport", 6)))
	case 4:
		// <the Docker scheme word as a host name>:<free text> - SCP-style SSH
		// text whose host spells the Docker scheme
		w := []string{"docker", "DoCkEr"}[vChoose(2)]
		vLabel("docker-host-rest")
		return w + ":" + verifASCII(vRange(0, vParam("maxdockerhost", maxLen)))
	case 0:
		// free text
		vLabel("raw")
		return verifASCII(vRange(1, maxLen))
	case 1:
		// docker://<free text>
		vLabel("docker-rest")
		return dockerURLPrefix + verifASCII(vRange(0, maxLen))
	case 2:
		// <free prefix><forwarding protocol>:<free suffix>
		p := verifForwardingProtocols[vChoose(len(verifForwardingProtocols))]
		vLabel("prefix")
		pre := verifASCII(vRange(0, vParam("maxpre", 4)))
		vLabel("suffix")
		suf := verifASCII(vRange(0, vParam("maxsuf", 2)))
		return pre + p + ":" + suf
	default:
		// docker://<free prefix><forwarding protocol>:<free suffix>
		p := verifForwardingProtocols[vChoose(len(verifForwardingProtocols))]
		vLabel("docker-prefix")
		pre := verifASCII(vRange(0, vParam("maxpre", 4)))
		vLabel("docker-suffix")
		suf := verifASCII(vRange(0, vParam("maxsuf", 2)))
		return dockerURLPrefix + pre + p + ":" + suf
	}
}

func verifMapsEqual(a, b map[string]string) bool {
	if len(a) != len(b) {
		return false
	}
	for k, v := range a {
		if w, ok := b[k]; !ok || w != v {
			return false
		}
	}
	return true
}

// verifDigitsThenColon: s = digit* ':' ...
func verifDigitsThenColon(s string) bool {
	for i := 0; i < len(s); i++ {
		if s[i] == ':' {
			return true
		}
		if s[i] < '0' || s[i] > '9' {
			return false
		}
	}
	return false
}

func verifHasByte(s string, c byte) bool {
	for i := 0; i < len(s); i++ {
		if s[i] == c {
			return true
		}
	}
	return false
}

func VerifC38RoundTrip() {
	maxLen := vParam("maxlen", 6)
	kind := Kind_Synchronization
	if vChoose(2) == 1 {
		kind = Kind_Forwarding
	}
	first := vBool()
	raw := verifC38Raw(maxLen)
	vLabel("")

	u, err := Parse(raw, kind, first)
	if err != nil {
		vCover("rejected")
		return
	}
	vAssert(u != nil, "successful parse returns a URL")
	if u == nil {
		return
	}
	switch u.Protocol {
	case Protocol_Local:
		vCover("local")
	case Protocol_SSH:
		vCover("ssh")
		if u.Port != 0 {
			vCover("ssh-port")
		}
		if u.User != "" {
			vCover("ssh-user")
		}
	case Protocol_Docker:
		vCover("docker")
		if u.User != "" {
			vCover("docker-user")
		}
	}
	if kind == Kind_Forwarding {
		vCover("forwarding")
	}

	vAssert(u.Kind == kind, "parsed URL has the requested kind")
	vAssert(u.EnsureValid() == nil, "every URL produced by parsing is valid")

	text := u.Format("")
	// Describe the shape of the parsed URL so that a counterexample can be
	// attributed to a cause (the conditions are on the first parse only); the
	// class is part of the assertion labels.
	class := ""
	switch {
	case u.Protocol == Protocol_SSH && u.Port == 0 && verifDigitsThenColon(u.Path):
		class = "[ssh zero port] "
		vNote("SSH URL with explicit port 0 and a path that begins with digits and ':' (if Format drops the zero port, the path's digits are re-parsed as the port)")
	case u.Protocol == Protocol_Docker && u.User == "" && verifHasByte(u.Host, '@'):
		class = "[docker empty user] "
		vNote("Docker URL with empty user name ('docker://@...') whose container name contains '@' (if Format drops the empty user, the container is re-split at '@')")
	default:
		vNote("URL text produced by parsing does not re-parse to the same URL")
	}
	u2, err2 := Parse(text, kind, first)
	vAssert(err2 == nil, class+"formatted URL parses again")
	if err2 != nil || u2 == nil {
		return
	}
	vAssert(u2.Kind == u.Kind, class+"round trip: kind")
	vAssert(u2.Protocol == u.Protocol, class+"round trip: protocol")
	vAssert(u2.User == u.User, class+"round trip: user")
	vAssert(u2.Host == u.Host, class+"round trip: host")
	vAssert(u2.Port == u.Port, class+"round trip: port")
	vAssert(u2.Path == u.Path, class+"round trip: path")
	vAssert(verifMapsEqual(u.Environment, u2.Environment), class+"round trip: environment")
	vAssert(verifMapsEqual(u.Parameters, u2.Parameters), class+"round trip: parameters")
}

package compression

import (
	"bufio"
	"io"

	"google.golang.org/protobuf/proto"
	"google.golang.org/protobuf/reflect/protoreflect"

	"github.com/mutagen-io/mutagen/pkg/encoding"
	"github.com/mutagen-io/mutagen/pkg/stream"
)

// C22 (pipeline): the control-stream pipeline as it is assembled by the
// endpoint client and server (pkg/synchronization/endpoint/remote):
//
//   encoder -> bufio.Writer -> Algorithm.Compress -> bufio.Writer -> wire
//   wire -> bufio.Reader -> Algorithm.Decompress -> bufio.Reader -> decoder
//
// with stream.NewMultiFlusher(outbound, compressor, compressedOutbound) as the
// flush mechanism.  Messages are opaque payloads (protobuf marshalling is the
// identity, see verifStubs).

type verifC22Msg struct {
	payload []byte
	set     int
}

func (m *verifC22Msg) ProtoReflect() protoreflect.Message { return nil }

var verifStubs = map[string]any{
	"(google.golang.org/protobuf/proto.MarshalOptions).Size":          verifC22Size,
	"(google.golang.org/protobuf/proto.MarshalOptions).MarshalAppend": verifC22MarshalAppend,
	"google.golang.org/protobuf/proto.Unmarshal":                      verifC22Unmarshal,
}

func verifC22Size(o proto.MarshalOptions, m proto.Message) int {
	return len(m.(*verifC22Msg).payload)
}

func verifC22MarshalAppend(o proto.MarshalOptions, b []byte, m proto.Message) ([]byte, error) {
	return append(b, m.(*verifC22Msg).payload...), nil
}

func verifC22Unmarshal(b []byte, m proto.Message) error {
	t := m.(*verifC22Msg)
	t.payload = append([]byte(nil), b...)
	t.set++
	return nil
}

// verifC22Wire: see harness/encoding/c22.go.
type verifC22Wire struct {
	data    []byte
	pos     int
	starved bool
	small   int
	budget  int
}

func (w *verifC22Wire) Write(p []byte) (int, error) {
	w.data = append(w.data, p...)
	return len(p), nil
}

func (w *verifC22Wire) Read(p []byte) (int, error) {
	if len(p) == 0 {
		return 0, nil
	}
	rem := len(w.data) - w.pos
	if rem == 0 {
		w.starved = true
		return 0, io.EOF
	}
	max := len(p)
	if rem < max {
		max = rem
	}
	n := w.fragment(max)
	copy(p, w.data[w.pos:w.pos+n])
	w.pos += n
	return n, nil
}

func (w *verifC22Wire) fragment(max int) int {
	if max <= 1 {
		return max
	}
	if max <= w.small {
		return vRange(1, max)
	}
	if w.budget > 0 {
		w.budget--
		switch vChoose(4) {
		case 0:
			return 1
		case 1:
			return max / 2
		case 2:
			return max - 1
		}
	}
	return max
}

func verifC22BytesEq(a, b []byte) bool {
	if len(a) != len(b) {
		return false
	}
	eq := true
	for i := range a {
		eq = vAnd(eq, a[i] == b[i])
	}
	return eq
}

func verifC22Range(lo, hi int) int {
	if hi <= lo {
		return lo
	}
	return vRange(lo, hi)
}

func verifC22Pipeline(algorithm Algorithm) {
	big := vParam("big", 0)
	maxMsgs := vParam("msgs", 2)
	maxLen := vParam("len", 3)
	w := &verifC22Wire{small: vParam("small", 4), budget: vParam("budget", 1)}

	// buffer sizes: the real ones (64 KiB) or small ones that messages overflow
	ub, cb := 64*1024, 64*1024
	switch vChoose(vParam("bufs", 3)) {
	case 1:
		ub, cb = 2, 5
	case 2:
		ub, cb = 5, 2
	}

	// inbound (as in client.go / server.go)
	compressedInbound := bufio.NewReaderSize(w, cb)
	decompressor := algorithm.Decompress(compressedInbound)
	inbound := bufio.NewReaderSize(decompressor, ub)

	// outbound
	compressedOutbound := bufio.NewWriterSize(w, cb)
	compressor := algorithm.Compress(compressedOutbound)
	outbound := bufio.NewWriterSize(compressor, ub)
	flusher := stream.NewMultiFlusher(outbound, compressor, compressedOutbound)

	enc := encoding.NewProtobufEncoder(outbound)
	dec := encoding.NewProtobufDecoder(inbound)

	count := verifC22Range(1, maxMsgs)
	var sent [][]byte
	decoded := 0
	flushAndDecode := func() {
		err := flusher.Flush()
		vAssert(err == nil, "flushing a working pipeline succeeds")
		if len(sent)-decoded >= 2 {
			vCover("several-per-flush")
		}
		for decoded < len(sent) {
			// the receiving message may hold earlier content (messages are reused)
			got := verifC22Msg{payload: []byte{0xAA, 0x55}}
			derr := dec.Decode(&got)
			vAssert(!w.starved, "after a flush everything written so far decodes without further data")
			vAssert(derr == nil, "a flushed message decodes without error")
			if derr != nil {
				vStop()
			}
			vAssert(got.set == 1, "exactly one message delivered per Decode")
			vAssert(verifC22BytesEq(got.payload, sent[decoded]), "decoded message equals the message written at the same position")
			decoded++
		}
	}
	for i := 0; i < count; i++ {
		n := verifC22Range(0, maxLen)
		var payload []byte
		if big > 0 {
			// fixed content only (DEFLATE block coding beyond 32 bytes depends
			// on the content): a tiny, a short and a longer message with
			// repetitions, different for every message
			switch vChoose(3) {
			case 0:
				n = 1
			case 1:
				n = 40
				vCover("big")
			default:
				n = big
				vCover("big")
			}
			payload = make([]byte, n)
			for j := range payload {
				payload[j] = byte(17*i + 5*(j%23) + j/97 + 1)
			}
		} else {
			payload = vBytes(n)
		}
		if n == 0 {
			vCover("empty")
		}
		sent = append(sent, append([]byte(nil), payload...))
		err := enc.Encode(&verifC22Msg{payload: payload})
		vAssert(err == nil, "encoding into a working pipeline succeeds")
		if vBool() {
			vCover("flush-point")
			flushAndDecode()
		}
	}
	if decoded < len(sent) {
		vCover("late-flush")
		flushAndDecode()
	}
	vCover("done")
}

func VerifC22PipelineNone() {
	verifC22Pipeline(Algorithm_AlgorithmNone)
}

func VerifC22PipelineDeflate() {
	verifC22Pipeline(Algorithm_AlgorithmDeflate)
}

// VerifC22PipelineDeflateBig: parameter "big" > 0 adds fixed-content messages
// of 40 and <big> bytes.
func VerifC22PipelineDeflateBig() {
	verifC22Pipeline(Algorithm_AlgorithmDeflate)
}

// ---------------------------------------------------------------- flush order

type verifC22Flusher struct {
	id    int
	err   error
	order *[]int
}

func (f *verifC22Flusher) Flush() error {
	*f.order = append(*f.order, f.id)
	return f.err
}

var (
	verifC22ErrA = io.ErrClosedPipe
	verifC22ErrB = io.ErrShortWrite
)

// VerifC22FlushOrder: NewMultiFlusher flushes the layers in the order given
// (higher layers first) and halts at the first failure, which it returns.
func VerifC22FlushOrder() {
	count := verifC22Range(0, vParam("layers", 3))
	var order []int
	flushers := make([]stream.Flusher, count)
	firstFail := count
	var first error
	for i := range flushers {
		var err error
		switch vChoose(3) {
		case 1:
			err = verifC22ErrA
		case 2:
			err = verifC22ErrB
		}
		flushers[i] = &verifC22Flusher{id: i, err: err, order: &order}
		if first == nil && err != nil {
			first, firstFail = err, i
		}
	}
	err := stream.NewMultiFlusher(flushers...).Flush()
	vCover("flush-order")
	if first != nil {
		vCover("flush-error")
	}
	vAssert(err == first, "multi-flusher returns the first failure (nil if none)")
	want := firstFail + 1
	if want > count {
		want = count
	}
	vAssert(len(order) == want, "multi-flusher flushes every layer up to the first failure and none after it")
	for i := range order {
		vAssert(order[i] == i, "multi-flusher flushes in the order specified")
	}
}

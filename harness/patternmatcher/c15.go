package patternmatcher

// C15(a): the trinary last-match-wins loop and the traversal-continuation rule
// of (*PatternMatcher).MatchesForMutagen, with the per-pattern match result
// replaced by a symbolic Boolean.

var verifC15Patterns []*Pattern
var verifC15Match []bool
var verifC15Calls []int

func verifC15StubMatch(p *Pattern, path string) (bool, error) {
	for k, q := range verifC15Patterns {
		if q == p {
			verifC15Calls[k]++
			return verifC15Match[k], nil
		}
	}
	panic("verif: match on an unknown pattern")
}

var verifStubs = map[string]any{
	"(*github.com/mutagen-io/mutagen/pkg/synchronization/core/ignore/docker/internal/third_party/patternmatcher.Pattern).match": verifC15StubMatch,
}

// verifC15Texts are the cleaned pattern texts (before a possible '!').
var verifC15Texts = []string{"a", "a/b", "ab", "b/a", "a/b/a", "b"}

func verifC15Split(s string) []string {
	var out []string
	start := 0
	for i := 0; i <= len(s); i++ {
		if i == len(s) || s[i] == '/' {
			out = append(out, s[start:i])
			start = i + 1
		}
	}
	return out
}

// verifC15Path: valid root-relative path of 1..maxlen bytes over {a,b,'/'}.
func verifC15Path(maxlen int) string {
	n := vRange(1, maxlen)
	vLabel("path")
	path := vString(n)
	vLabel("")
	for i := 0; i < n; i++ {
		vAssume(vOr(path[i] == 'a', path[i] == 'b', path[i] == '/'))
		if i > 0 {
			vAssume(!vAnd(path[i] == '/', path[i-1] == '/'))
		}
	}
	vAssume(path[0] != '/')
	vAssume(path[n-1] != '/')
	return path
}

func verifC15Check(pm *PatternMatcher, texts []string, exclusion []bool) {
	n := len(texts)
	verifC15Patterns = pm.patterns
	verifC15Match = make([]bool, n)
	verifC15Calls = make([]int, n)
	for k := 0; k < n; k++ {
		vLabel("match")
		verifC15Match[k] = vBool()
	}
	path := verifC15Path(vParam("maxpath", 3))
	vLabel("directory")
	directory := vBool()
	vLabel("")

	status, cont := pm.MatchesForMutagen(path, directory)

	// specification: the last matching pattern decides
	want := MatchStatusNominal
	for k := 0; k < n; k++ {
		if verifC15Match[k] {
			if exclusion[k] {
				want = MatchStatusInverted
			} else {
				want = MatchStatusMatched
			}
		}
	}
	switch want {
	case MatchStatusNominal:
		vCover("nominal")
	case MatchStatusMatched:
		vCover("matched")
	case MatchStatusInverted:
		vCover("inverted")
	}
	vAssert(status == want, "status is decided by the last matching pattern (matched iff it is a plain pattern, inverted iff it is an exclusion, nominal iff none matches)")
	for k := 0; k < n; k++ {
		vAssert(verifC15Calls[k] <= 1, "a pattern is evaluated at most once per query")
	}

	// continuation: directory, not explicitly re-included itself, and some
	// exclusion pattern lies at or below the path (component-wise prefix)
	pc := verifC15Split(path)
	below := false
	for k := 0; k < n; k++ {
		if !exclusion[k] {
			continue
		}
		tc := verifC15Split(texts[k])
		if len(pc) > len(tc) {
			continue
		}
		same := true
		for i := range pc {
			if pc[i] != tc[i] {
				same = false
			}
		}
		if same {
			below = true
		}
	}
	wantCont := directory && want != MatchStatusInverted && below
	if wantCont {
		vCover("continue")
	}
	if below && !wantCont {
		vCover("no-continue despite exclusion below")
	}
	vAssert(cont == wantCont, "traversal continues exactly for a directory that is not itself re-included and has an exclusion pattern at or below its path")
}

// VerifC15Loop: PatternMatcher literal; exclusion flags symbolic; the
// exclusions/exclusionCount bookkeeping is the one New establishes.
func VerifC15Loop() {
	n := vRange(0, vParam("maxpatterns", 4))
	offset := vChoose(len(verifC15Texts))
	pm := &PatternMatcher{}
	texts := make([]string, n)
	exclusion := make([]bool, n)
	for k := 0; k < n; k++ {
		texts[k] = verifC15Texts[(offset+k)%len(verifC15Texts)]
		vLabel("exclusion")
		exclusion[k] = vBool()
		pm.patterns = append(pm.patterns, &Pattern{cleanedPattern: texts[k], exclusion: exclusion[k]})
		if exclusion[k] {
			pm.exclusions = true
			pm.exclusionCount++
		}
	}
	vLabel("")
	verifC15Check(pm, texts, exclusion)
}

// VerifC15New: the matcher comes from the real New on "<text>" / "!<text>".
func VerifC15New() {
	n := vRange(0, vParam("maxpatterns", 4))
	offset := vChoose(len(verifC15Texts))
	texts := make([]string, n)
	given := make([]string, n)
	exclusion := make([]bool, n)
	cnt := uint(0)
	for k := 0; k < n; k++ {
		texts[k] = verifC15Texts[(offset+k)%len(verifC15Texts)]
		given[k] = texts[k]
		vLabel("exclusion")
		exclusion[k] = vBool()
		if exclusion[k] {
			given[k] = "!" + texts[k]
			cnt++
		}
	}
	vLabel("")
	pm, err := New(given)
	vAssert(err == nil && pm != nil, "literal patterns are accepted")
	if err != nil || pm == nil {
		return
	}
	vAssert(len(pm.patterns) == n, "one parsed pattern per given pattern")
	if len(pm.patterns) != n {
		return
	}
	for k := 0; k < n; k++ {
		vAssert(pm.patterns[k].exclusion == exclusion[k] && pm.patterns[k].cleanedPattern == texts[k], "patterns keep their order, text and exclusion flag")
	}
	vAssert(pm.exclusionCount == cnt && pm.exclusions == (cnt > 0), "exclusion bookkeeping equals the number of exclusion patterns")
	verifC15Check(pm, texts, exclusion)
}

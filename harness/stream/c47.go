package stream

import (
	"errors"
	"io"
)

// C47: stream helper writers against a downstream that short-writes and fails
// nondeterministically.  Every oracle below is written from the property text
// and the constructors' documentation.

var (
	verifErrPeer = errors.New("peer failure")
	verifErrA    = errors.New("failure A")
	verifErrB    = errors.New("failure B")
	verifErrC    = errors.New("failure C")
)

// verifWriter accepts an arbitrary prefix of each write; a short write always
// carries an error (io.Writer contract), a full write may fail as well.
type verifWriter struct {
	accepted []byte
	calls    int
	lastN    int
	lastErr  error
	lastLen  int
	reliable bool // accept everything, never fail
}

func (w *verifWriter) Write(p []byte) (int, error) {
	w.calls++
	w.lastLen = len(p)
	if w.reliable {
		w.accepted = append(w.accepted, p...)
		w.lastN, w.lastErr = len(p), nil
		return len(p), nil
	}
	n := verifRange(0, len(p))
	w.accepted = append(w.accepted, p[:n]...)
	var err error
	if n < len(p) {
		err = io.ErrShortWrite
		if vBool() {
			err = verifErrPeer
		}
	} else if vChoose(2) == 1 {
		err = verifErrPeer
	}
	w.lastN, w.lastErr = n, err
	return n, err
}

func verifBytesEq(a, b []byte) bool {
	if len(a) != len(b) {
		return false
	}
	eq := true
	for i := range a {
		eq = vAnd(eq, a[i] == b[i])
	}
	return eq
}

// verifData returns a fresh symbolic write argument of 0..maxLen bytes and an
// independent copy (to detect wrappers that modify the caller's buffer).
func verifData(maxLen int) ([]byte, []byte) {
	d := vBytes(verifRange(0, maxLen))
	return d, append([]byte(nil), d...)
}

// ---------------------------------------------------------------- cutoff

func VerifC47Cutoff() {
	maxWrites := vParam("writes", 3)
	maxLen := vParam("len", 3)
	n := verifRange(0, vParam("cutoff", 4))
	down := &verifWriter{}
	w := NewCutoffWriter(down, uint(n))
	var reported []byte // bytes the cutoff writer reported as written
	writes := verifRange(1, maxWrites)
	for i := 0; i < writes; i++ {
		data, orig := verifData(maxLen)
		callsBefore := down.calls
		cutBefore := len(down.accepted) >= n
		got, err := w.Write(data)
		vAssert(verifBytesEq(data, orig), "cutoff: caller's buffer not modified")
		vAssert(got >= 0 && got <= len(orig), "cutoff: count within the buffer")
		if got < 0 || got > len(orig) {
			return
		}
		if err == nil {
			vAssert(got == len(orig), "cutoff: nil error only with a full count")
		}
		reported = append(reported, orig[:got]...)
		called := down.calls - callsBefore
		vAssert(called <= 1, "cutoff: at most one downstream write per Write")
		if cutBefore {
			vCover("cutoff-past")
			vAssert(called == 0, "cutoff: nothing forwarded once N bytes went through")
			vAssert(got == len(orig) && err == nil, "cutoff: later bytes reported as written")
		}
		if err != nil {
			vCover("cutoff-error")
			vAssert(called == 1 && down.lastErr == err, "cutoff: errors only come from the downstream writer")
		} else if called == 1 {
			vAssert(down.lastErr == nil, "cutoff: downstream failure is reported")
		}
		// what reached the downstream writer: exactly the first N reported bytes
		want := reported
		if len(want) > n {
			vCover("cutoff-truncated")
			want = want[:n]
		}
		vAssert(len(down.accepted) <= n, "cutoff: never more than N bytes forwarded")
		vAssert(verifBytesEq(down.accepted, want), "cutoff: forwards exactly the first N bytes")
	}
}

// ---------------------------------------------------------------- hashed

// verifHasher records what it is asked to digest.
type verifHasher struct {
	input []byte
}

func (h *verifHasher) Write(p []byte) (int, error) {
	h.input = append(h.input, p...)
	return len(p), nil
}
func (h *verifHasher) Sum(b []byte) []byte { return append(b, h.input...) }
func (h *verifHasher) Reset()              { h.input = nil }
func (h *verifHasher) Size() int           { return 0 }
func (h *verifHasher) BlockSize() int      { return 1 }

func VerifC47Hashed() {
	maxWrites := vParam("writes", 3)
	maxLen := vParam("len", 3)
	down := &verifWriter{}
	h := &verifHasher{}
	w := NewHashedWriter(down, h)
	writes := verifRange(1, maxWrites)
	for i := 0; i < writes; i++ {
		data, orig := verifData(maxLen)
		got, err := w.Write(data)
		vCover("hashed")
		vAssert(verifBytesEq(data, orig), "hashed: caller's buffer not modified")
		vAssert(got == down.lastN && err == down.lastErr, "hashed: count and error are the downstream writer's")
		vAssert(verifBytesEq(h.input, down.accepted), "hashed: digest input is exactly the bytes accepted downstream")
	}
}

// ---------------------------------------------------------------- valve

func VerifC47Valve() {
	maxWrites := vParam("writes", 3)
	maxLen := vParam("len", 3)
	down := &verifWriter{}
	var w *ValveWriter
	shut := false
	if vBool() {
		w = NewValveWriter(nil) // documented: starts pre-shut
		shut = true
		vCover("valve-nil")
	} else {
		w = NewValveWriter(down)
	}
	writes := verifRange(1, maxWrites)
	for i := 0; i < writes; i++ {
		if !shut && vBool() {
			w.Shut()
			shut = true
		}
		data, orig := verifData(maxLen)
		callsBefore := down.calls
		acceptedBefore := len(down.accepted)
		got, err := w.Write(data)
		vAssert(verifBytesEq(data, orig), "valve: caller's buffer not modified")
		if shut {
			vCover("valve-shut")
			vAssert(down.calls == callsBefore && len(down.accepted) == acceptedBefore, "valve: shut valve forwards nothing")
			vAssert(got == len(orig) && err == nil, "valve: shut valve reports success")
		} else {
			vCover("valve-open")
			vAssert(down.calls == callsBefore+1 && down.lastLen == len(orig), "valve: open valve forwards the write")
			vAssert(got == down.lastN && err == down.lastErr, "valve: open valve returns the downstream result")
		}
	}
	if shut {
		w.Shut() // idempotent
		got, err := w.Write([]byte{1})
		vAssert(got == 1 && err == nil, "valve: second Shut harmless")
	}
}

// ---------------------------------------------------------------- closers / flushers

type verifCloser struct {
	err    error
	closed int
	order  *[]int
	id     int
}

func (c *verifCloser) Close() error {
	c.closed++
	*c.order = append(*c.order, c.id)
	return c.err
}

func (c *verifCloser) Flush() error { return c.Close() }

func verifPickErr() error {
	switch vChoose(4) {
	case 1:
		return verifErrA
	case 2:
		return verifErrB
	case 3:
		return verifErrC
	}
	return nil
}

func VerifC47MultiCloser() {
	count := verifRange(0, vParam("closers", 3))
	var order []int
	items := make([]*verifCloser, count)
	closers := make([]io.Closer, count)
	var first error
	for i := range items {
		items[i] = &verifCloser{err: verifPickErr(), order: &order, id: i}
		closers[i] = items[i]
		if first == nil {
			first = items[i].err
		}
	}
	err := NewMultiCloser(closers...).Close()
	vCover("multicloser")
	for i := range items {
		vAssert(items[i].closed == 1, "multi-closer: every closer closed exactly once")
	}
	vAssert(len(order) == count, "multi-closer: closes everything")
	for i := range order {
		vAssert(order[i] == i, "multi-closer: closes in the order specified")
	}
	vAssert(err == first, "multi-closer: reports the first error (nil if none)")
	if first != nil {
		vCover("multicloser-error")
	}
}

func VerifC47MultiFlusher() {
	count := verifRange(0, vParam("closers", 3))
	var order []int
	items := make([]*verifCloser, count)
	flushers := make([]Flusher, count)
	firstFail := count
	var first error
	for i := range items {
		items[i] = &verifCloser{err: verifPickErr(), order: &order, id: i}
		flushers[i] = items[i]
		if first == nil && items[i].err != nil {
			first = items[i].err
			firstFail = i
		}
	}
	err := NewMultiFlusher(flushers...).Flush()
	vCover("multiflusher")
	vAssert(err == first, "multi-flusher: reports the first error (nil if none)")
	for i := range items {
		if i <= firstFail {
			vAssert(items[i].closed == 1, "multi-flusher: flushes in order up to the first failure")
		} else {
			vAssert(items[i].closed == 0, "multi-flusher: halts after the first failure")
		}
	}
	for i := range order {
		vAssert(order[i] == i, "multi-flusher: flushes in the order specified")
	}
	// flush-closer aliases Close to Flush
	if count > 0 {
		before := items[0].closed
		cerr := NewFlushCloser(items[0]).Close()
		vAssert(items[0].closed == before+1 && cerr == items[0].err, "flush-closer: Close flushes and returns the flush result")
	}
}

// ---------------------------------------------------------------- audit

func VerifC47Audit() {
	maxWrites := vParam("writes", 3)
	maxLen := vParam("len", 3)
	down := &verifWriter{}
	vAssert(NewAuditWriter(down, nil) == io.Writer(down), "audit: nil auditor returns the writer itself")
	var total uint64
	audits := 0
	var last uint64
	w := NewAuditWriter(down, func(n uint64) { total += n; audits++; last = n })
	writes := verifRange(1, maxWrites)
	for i := 0; i < writes; i++ {
		data, orig := verifData(maxLen)
		got, err := w.Write(data)
		vCover("audit")
		vAssert(verifBytesEq(data, orig), "audit: caller's buffer not modified")
		vAssert(got == down.lastN && err == down.lastErr, "audit: count and error are the downstream writer's")
		vAssert(audits == i+1 && last == uint64(got), "audit: auditor called once per write with the written count")
		vAssert(total == uint64(len(down.accepted)), "audit: audited total equals bytes accepted downstream")
	}
}

// ---------------------------------------------------------------- preemptable

func VerifC47Preempt() {
	maxWrites := vParam("pwrites", 4)
	maxLen := vParam("len", 3)
	interval := verifRange(0, vParam("interval", 2))
	down := &verifWriter{}
	if vBool() {
		down.reliable = true
	}
	cancelled := make(chan struct{})
	w := NewPreemptableWriter(down, cancelled, uint(interval))
	writes := verifRange(1, maxWrites)
	cancelAt := verifRange(0, writes) // cancel before write #cancelAt (== writes: never)
	isCancelled := false
	afterCancel := 0 // writes that reached downstream after cancellation
	preempted := false
	for i := 0; i < writes; i++ {
		if i == cancelAt {
			close(cancelled)
			isCancelled = true
		}
		data, orig := verifData(maxLen)
		callsBefore := down.calls
		got, err := w.Write(data)
		vAssert(verifBytesEq(data, orig), "preemptable: caller's buffer not modified")
		forwarded := down.calls - callsBefore
		vAssert(forwarded <= 1, "preemptable: at most one downstream write per Write")
		if forwarded == 1 {
			vAssert(down.lastLen == len(orig), "preemptable: forwards the whole buffer")
			vAssert(got == down.lastN && err == down.lastErr, "preemptable: forwarded write returns the downstream result")
			vAssert(err != ErrWritePreempted, "preemptable: forwarded write is not reported preempted")
		} else {
			vCover("preempted")
			vAssert(got == 0 && err == ErrWritePreempted, "preemptable: unforwarded write reports preemption with count 0")
			vAssert(isCancelled, "preemptable: no preemption before cancellation")
		}
		if !isCancelled {
			vCover("not-cancelled")
			vAssert(forwarded == 1, "preemptable: transparent before cancellation")
		}
		if isCancelled && forwarded == 1 {
			afterCancel++
			vCover("after-cancel")
			vAssert(afterCancel <= interval, "preemptable: stops within its check interval after cancellation")
			vAssert(!preempted, "preemptable: stays stopped once preempted")
		}
		if forwarded == 0 {
			preempted = true
		}
	}
}

// ---------------------------------------------------------------- line splitter

// verifSplit is the model: it consumes data after the pending fragment and
// returns the completed lines (terminator "\n" or "\r\n" removed) and the new
// pending fragment.
func verifSplit(pending, data []byte) ([][]byte, []byte) {
	var lines [][]byte
	cur := append([]byte(nil), pending...)
	for _, b := range data {
		if b != '\n' {
			cur = append(cur, b)
			continue
		}
		line := cur
		if len(line) > 0 && line[len(line)-1] == '\r' {
			vCover("lines-cr")
			line = line[:len(line)-1]
		}
		lines = append(lines, line)
		cur = nil
	}
	return lines, cur
}

func verifLinesEq(got []string, want [][]byte) {
	vAssert(len(got) == len(want), "lines: one callback per newline-terminated line")
	if len(got) != len(want) {
		return
	}
	for j := range want {
		vAssert(got[j] == string(want[j]), "lines: callback receives the line without its terminator")
	}
}

func verifLimit() int {
	switch vChoose(3) {
	case 1:
		return 0 // default limit (64 KiB): never reached here
	case 2:
		vCover("lines-limited")
		return vParam("limit", 2)
	}
	return -1
}

// VerifC47Lines: bounded write sequences from the empty processor.
func VerifC47Lines() {
	maxWrites := vParam("writes", 2)
	maxLen := vParam("len", 2)
	var got []string
	p := &LineProcessor{Callback: func(l string) { got = append(got, l) }}
	limit := verifLimit()
	p.MaximumBufferSize = limit

	var want [][]byte
	var pending []byte
	writes := verifRange(1, maxWrites)
	for i := 0; i < writes; i++ {
		data, orig := verifData(maxLen)
		n, err := p.Write(data)
		vAssert(verifBytesEq(data, orig), "lines: caller's buffer not modified")
		if limit > 0 && len(pending)+len(orig) > limit {
			// documented: a write that would exceed the maximum buffer size is refused
			vCover("lines-overflow")
			vAssert(n == 0 && err == ErrMaximumBufferSizeExceeded, "lines: oversize write refused")
		} else {
			vAssert(n == len(orig) && err == nil, "lines: write accepted in full")
			var lines [][]byte
			lines, pending = verifSplit(pending, orig)
			want = append(want, lines...)
		}
		verifLinesEq(got, want)
		vAssert(verifBytesEq(p.buffer, pending), "lines: the incomplete remainder stays buffered")
	}
	if len(want) > 1 {
		vCover("lines-multi")
	}
}

// VerifC47LinesStep: ONE Write from an arbitrary processor state.  The state
// invariant is "the buffered remainder contains no newline" (assumed before,
// asserted after), so histories of any length follow by induction.
func VerifC47LinesStep() {
	maxBuf := vParam("buf", 3)
	maxLen := vParam("len", 4)
	var got []string
	p := &LineProcessor{Callback: func(l string) { got = append(got, l) }}
	limit := verifLimit()
	p.MaximumBufferSize = limit
	nb := verifRange(0, maxBuf)
	pending := vBytes(nb)
	for _, b := range pending {
		vAssume(b != '\n')
	}
	// the remainder lives in a buffer with or without spare capacity
	p.buffer = make([]byte, nb, nb+vChoose(2)*(maxLen+1))
	copy(p.buffer, pending)

	data, orig := verifData(maxLen)
	n, err := p.Write(data)
	vCover("lines-step")
	vAssert(verifBytesEq(data, orig), "lines: caller's buffer not modified")
	var want [][]byte
	if limit > 0 && len(pending)+len(orig) > limit {
		vCover("lines-overflow")
		vAssert(n == 0 && err == ErrMaximumBufferSizeExceeded, "lines: oversize write refused")
	} else {
		vAssert(n == len(orig) && err == nil, "lines: write accepted in full")
		want, pending = verifSplit(pending, orig)
	}
	verifLinesEq(got, want)
	if len(want) > 1 {
		vCover("lines-multi")
	}
	vAssert(verifBytesEq(p.buffer, pending), "lines: the incomplete remainder stays buffered")
	for _, b := range p.buffer {
		vAssert(b != '\n', "lines: invariant — no newline stays buffered")
	}
}

// verifRange is vRange that does not consume a choice for a one-value range
// (the engine records none there, the native replay runtime would read one).
func verifRange(lo, hi int) int {
	if hi <= lo {
		return lo
	}
	return vRange(lo, hi)
}

package staging

import (
	"encoding/hex"
	"errors"
	"hash"
	"io/fs"
	"os"
	"path/filepath"
	"time"

	"github.com/zeebo/xxh3"

	"github.com/mutagen-io/mutagen/pkg/filesystem"
)

// C10 (staging half): whatever a transfer writes into a staging sink - any
// bytes, any chunking, cut short at any point, with any filesystem operation
// failing - a node that the provider can hand to the transition
// (Stager.Provide(path, digest)) is a regular file whose content hashes to
// exactly that digest.  The real Stager/Sink/Store/Storage code (and bufio,
// stream.hashedWriter, path/filepath) runs against an in-memory directory
// tree; the content hash and the path hash are injective encodings.

// ---------------------------------------------------------------- hash model

// vsHasher: Sum = length byte followed by the bytes written (injective for
// contents shorter than 256 bytes).
type vsHasher struct{ data []byte }

func (h *vsHasher) Write(p []byte) (int, error) {
	h.data = append(h.data, p...)
	return len(p), nil
}
func (h *vsHasher) Sum(b []byte) []byte {
	b = append(b, byte(len(h.data)))
	return append(b, h.data...)
}
func (h *vsHasher) Reset()         { h.data = nil }
func (h *vsHasher) Size() int      { return 1 + len(h.data) }
func (h *vsHasher) BlockSize() int { return 1 }

// vsDigest is the oracle's own statement of the same injective encoding.
func vsDigest(content []byte) []byte {
	out := make([]byte, 0, len(content)+1)
	out = append(out, byte(len(content)))
	for i := 0; i < len(content); i++ {
		out = append(out, content[i])
	}
	return out
}

func vsBytesEq(a, b []byte) bool {
	if len(a) != len(b) {
		return false
	}
	eq := true
	for i := range a {
		eq = vAnd(eq, a[i] == b[i])
	}
	return eq
}

// path hash model: Sum128 = (length, bytes packed big-endian) - injective for
// paths of at most 8 bytes.
var vsPathHashers map[*xxh3.Hasher][]byte

func vsXXReset(h *xxh3.Hasher) { delete(vsPathHashers, h) }
func vsXXWriteString(h *xxh3.Hasher, s string) (int, error) {
	vsPathHashers[h] = append(vsPathHashers[h], s...)
	return len(s), nil
}
func vsXXSum128(h *xxh3.Hasher) xxh3.Uint128 {
	d := vsPathHashers[h]
	if len(d) > 8 {
		vFail("model: path longer than the injective path hash supports")
	}
	var lo uint64
	for i := 0; i < len(d); i++ {
		lo = lo<<8 | uint64(d[i])
	}
	return xxh3.Uint128{Hi: uint64(len(d)), Lo: lo}
}

// vsHexEncodeToString is encoding/hex.EncodeToString without the table lookup
// (one arithmetic term per character instead of a 16-way fork).
func vsHexEncodeToString(src []byte) string {
	dst := make([]byte, 0, 2*len(src))
	for i := 0; i < len(src); i++ {
		hi, lo := src[i]>>4, src[i]&0x0f
		dst = append(dst, hi+'0'+39*((hi+6)>>4), lo+'0'+39*((lo+6)>>4))
	}
	return string(dst)
}

// ---------------------------------------------------------------- filesystem model

const (
	vsKDir = iota
	vsKFile
	vsKOther // symbolic link / device / anything that is neither file nor directory
)

const vsRoot = "/s"

type vsNode struct {
	kind    int
	content []byte
	foreign bool // put there by the environment, not by the code under test
}

type vsWorld struct {
	names       []string // absolute paths: "/s", "/s/<name>", "/s/<pp>/<name>"
	nodes       []*vsNode
	open        map[*os.File]*vsNode
	openName    map[*os.File]string
	closed      map[*os.File]bool
	faults      int
	faultsTaken int
	tmpSeq      int
	shortWrites int
	closeLoss   int
}

var vsw *vsWorld

var vsErrIO = errors.New("model: i/o failure")

func vsNewWorld(faults int) *vsWorld {
	vsPathHashers = map[*xxh3.Hasher][]byte{}
	vsw = &vsWorld{
		open:     map[*os.File]*vsNode{},
		openName: map[*os.File]string{},
		closed:   map[*os.File]bool{},
		faults:   faults,
	}
	return vsw
}

// vsStep: every model operation may fail (within the budget) leaving the
// model unchanged.
func vsStep() bool {
	w := vsw
	if w.faults > 0 && vChoose(2) == 1 {
		w.faults--
		w.faultsTaken++
		return true
	}
	return false
}

func (w *vsWorld) find(path string) int {
	for i := range w.names {
		if len(w.names[i]) != len(path) {
			continue
		}
		if w.names[i] == path {
			return i
		}
	}
	return -1
}

func (w *vsWorld) lookup(path string) *vsNode {
	if i := w.find(path); i >= 0 {
		return w.nodes[i]
	}
	return nil
}

func (w *vsWorld) put(path string, n *vsNode) {
	if i := w.find(path); i >= 0 {
		w.nodes[i] = n
		return
	}
	w.names = append(w.names, path)
	w.nodes = append(w.nodes, n)
}

func (w *vsWorld) del(path string) {
	if i := w.find(path); i >= 0 {
		w.names = append(w.names[:i:i], w.names[i+1:]...)
		w.nodes = append(w.nodes[:i:i], w.nodes[i+1:]...)
	}
}

// vsParent: the model only ever sees "/s", "/s/<name>" and "/s/<pp>/<name>"
// (<pp> two characters); anything else is a modelling error.
func vsParent(path string) string {
	if path == vsRoot {
		return ""
	}
	if len(path) <= len(vsRoot)+1 || path[:len(vsRoot)+1] != vsRoot+"/" {
		vFail("model: path outside the staging root")
		return ""
	}
	if len(path) > len(vsRoot)+4 && path[len(vsRoot)+3] == '/' {
		return path[:len(vsRoot)+3]
	}
	return vsRoot
}

// parentIsDir: does the directory that would hold path exist?
func (w *vsWorld) parentIsDir(path string) bool {
	p := vsParent(path)
	if p == "" {
		return true // the directory holding the staging root exists
	}
	n := w.lookup(p)
	return n != nil && n.kind == vsKDir
}

func (w *vsWorld) hasChildren(path string) bool {
	for i := range w.names {
		if len(w.names[i]) > len(path) && vsParent(w.names[i]) == path {
			return true
		}
	}
	return false
}

// ---------- stubs

type vsInfo struct {
	name string
	kind int
}

func (i vsInfo) Name() string { return i.name }
func (i vsInfo) Size() int64  { return 0 }
func (i vsInfo) Mode() fs.FileMode {
	switch i.kind {
	case vsKDir:
		return fs.ModeDir | 0700
	case vsKFile:
		return 0600
	}
	return fs.ModeSymlink | 0777
}
func (i vsInfo) ModTime() time.Time         { return time.Time{} }
func (i vsInfo) IsDir() bool                { return i.kind == vsKDir }
func (i vsInfo) Sys() any                   { return nil }
func (i vsInfo) Type() fs.FileMode          { return i.Mode() & fs.ModeType }
func (i vsInfo) Info() (fs.FileInfo, error) { return i, nil }

func vsMkdir(name string, perm os.FileMode) error {
	w := vsw
	if vsStep() {
		return vsErrIO
	}
	if !w.parentIsDir(name) {
		return fs.ErrNotExist
	}
	if w.lookup(name) != nil {
		return fs.ErrExist
	}
	w.put(name, &vsNode{kind: vsKDir})
	return nil
}

func vsLstat(name string) (fs.FileInfo, error) {
	w := vsw
	if vsStep() {
		return nil, vsErrIO
	}
	if !w.parentIsDir(name) {
		return nil, fs.ErrNotExist
	}
	n := w.lookup(name)
	if n == nil {
		return nil, fs.ErrNotExist
	}
	return vsInfo{name: name, kind: n.kind}, nil
}

func vsReadDir(name string) ([]os.DirEntry, error) {
	w := vsw
	if vsStep() {
		return nil, vsErrIO
	}
	n := w.lookup(name)
	if n == nil {
		return nil, fs.ErrNotExist
	}
	if n.kind != vsKDir {
		return nil, vsErrIO
	}
	var out []os.DirEntry
	for i := range w.names {
		if len(w.names[i]) > len(name) && vsParent(w.names[i]) == name {
			out = append(out, vsInfo{name: w.names[i][len(name)+1:], kind: w.nodes[i].kind})
		}
	}
	return out, nil
}

func vsCreateTemp(dir, pattern string) (*os.File, error) {
	w := vsw
	if vsStep() {
		return nil, vsErrIO
	}
	d := w.lookup(dir)
	if d == nil || d.kind != vsKDir {
		return nil, fs.ErrNotExist
	}
	w.tmpSeq++
	name := dir + "/" + pattern + string(rune('0'+w.tmpSeq))
	n := &vsNode{kind: vsKFile}
	w.put(name, n)
	f := &os.File{}
	w.open[f] = n
	w.openName[f] = name
	return f, nil
}

func vsFileWrite(f *os.File, data []byte) (int, error) {
	w := vsw
	n := w.open[f]
	vAssert(n != nil, "model: write to an unknown file handle")
	vAssert(!w.closed[f], "model: write to a closed file")
	if n == nil {
		return 0, vsErrIO
	}
	if vsStep() {
		k := vRange(0, len(data)) // short write
		n.content = append(n.content, data[:k]...)
		w.shortWrites++
		return k, vsErrIO
	}
	n.content = append(n.content, data...)
	return len(data), nil
}

// vsFileClose: a failing close(2) reports a deferred write error - an
// arbitrary tail of what was written may not have reached the file.
func vsFileClose(f *os.File) error {
	w := vsw
	n := w.open[f]
	vAssert(n != nil, "model: close of an unknown file handle")
	w.closed[f] = true
	if vsStep() {
		if n != nil && len(n.content) > 0 {
			k := vRange(0, len(n.content))
			if k < len(n.content) {
				w.closeLoss++
			}
			n.content = n.content[:k:k]
		}
		return vsErrIO
	}
	return nil
}

func vsFileName(f *os.File) string { return vsw.openName[f] }

func vsRemove(name string) error {
	w := vsw
	if vsStep() {
		return vsErrIO
	}
	n := w.lookup(name)
	if n == nil {
		return fs.ErrNotExist
	}
	if n.kind == vsKDir && w.hasChildren(name) {
		return vsErrIO
	}
	w.del(name)
	return nil
}

func vsRename(sourceDirectory *filesystem.Directory, source string, targetDirectory *filesystem.Directory, target string, replace bool) error {
	w := vsw
	if sourceDirectory != nil || targetDirectory != nil {
		vFail("model: the store renames by path")
		return vsErrIO
	}
	if vsStep() {
		return vsErrIO
	}
	n := w.lookup(source)
	if n == nil {
		return fs.ErrNotExist
	}
	if !w.parentIsDir(target) {
		return fs.ErrNotExist
	}
	if existing := w.lookup(target); existing != nil {
		if !replace {
			return fs.ErrExist
		}
		if existing.kind == vsKDir || n.kind == vsKDir {
			return vsErrIO // rename(2) never replaces a directory by a file
		}
	}
	// atomic replace
	w.del(source)
	w.put(target, n)
	return nil
}

// vsJoin is path/filepath.Join for the only shape the store uses it with: a
// clean absolute first element and further elements that are non-empty and
// free of separators and dots (checked) - then Join is concatenation with "/".
// (The library version compares every byte with '/' and '.', one solver-decided
// branch per byte of a symbolic name.)
func vsJoin(elem ...string) string {
	out := ""
	for i, e := range elem {
		if i == 0 {
			if e != vsRoot {
				vFail("model: Join whose first element is not the staging root")
			}
			out = e
			continue
		}
		if len(e) == 0 {
			vFail("model: Join with an empty element")
		}
		clean := true
		for k := 0; k < len(e); k++ {
			clean = vAnd(clean, e[k] != '/', e[k] != '.')
		}
		vAssert(clean, "model: Join elements below the staging root contain neither separators nor dots")
		out = out + "/" + e
	}
	return out
}

var vsStubs = map[string]any{
	"path/filepath.Join": vsJoin,
	"encoding/hex.EncodeToString": vsHexEncodeToString,
	"os.Mkdir":           vsMkdir,
	"os.Lstat":           vsLstat,
	"os.ReadDir":         vsReadDir,
	"os.CreateTemp":      vsCreateTemp,
	"os.Remove":          vsRemove,
	"(*os.File).Write":   vsFileWrite,
	"(*os.File).Close":   vsFileClose,
	"(*os.File).Name":    vsFileName,
	"github.com/mutagen-io/mutagen/pkg/filesystem.Rename": vsRename,
	"(*github.com/zeebo/xxh3.Hasher).Reset":               vsXXReset,
	"(*github.com/zeebo/xxh3.Hasher).WriteString":         vsXXWriteString,
	"(*github.com/zeebo/xxh3.Hasher).Sum128":              vsXXSum128,
}

var verifStubs_VerifC10Store = vsStubs
var verifStubs_VerifC10Foreign = vsStubs

// VerifC10Models runs WITHOUT stubs: the two library stand-ins used above
// agree with the library on every input of the shape they are used with.
func VerifC10Models() {
	src := vBytes(2)
	vAssert(vsHexEncodeToString(src) == hex.EncodeToString(src), "hex stand-in equals encoding/hex.EncodeToString")
	vAssert(vsHexEncodeToString(nil) == hex.EncodeToString(nil), "hex stand-in equals encoding/hex.EncodeToString (empty)")
	a, b := vString(2), vString(3)
	clean := true
	for k := 0; k < len(a); k++ {
		clean = vAnd(clean, a[k] != '/', a[k] != '.')
	}
	for k := 0; k < len(b); k++ {
		clean = vAnd(clean, b[k] != '/', b[k] != '.')
	}
	vAssume(clean)
	vsw = nil
	vAssert(vsJoin(vsRoot, a, b) == filepath.Join(vsRoot, a, b), "Join stand-in equals path/filepath.Join")
	vAssert(vsJoin(vsRoot, a) == filepath.Join(vsRoot, a), "Join stand-in equals path/filepath.Join (two elements)")
	vCover("models-agree")
}

// ---------------------------------------------------------------- harness

var vsPaths = []string{"a", "d/b"}

// vsPooled models sync.Pool recycling: the engine's Pool.Get always calls New,
// so the factory itself hands back the hasher used by the previous storage,
// exactly as it was Put (not reset).
var vsPooled *vsHasher
var vsRecycle bool

func vsHasherFactory() hash.Hash {
	if vsRecycle && vsPooled != nil {
		return vsPooled
	}
	vsPooled = &vsHasher{}
	return vsPooled
}

// vsQuery: the oracle.  For plan items (q, e) - q each path, e an arbitrary
// digest of every length up to the bound: whatever Provide(q, e) names is
// absent or a regular file with digest e (and within the size limit);
// Contains(q, e) only if such a file is there.
func vsQuery(st *Stager, limit uint64, initialized bool) {
	w := vsw
	w.faults = 0 // queries after the transfer run without further faults
	maxDigest := vParam("sinks", 1)*vParam("chunks", 2)*vParam("maxlen", 2) + 1
	// the first digest byte is concrete per path (engine: a [256]bool cannot
	// be indexed by a symbolic byte): well-formed (length byte) or, if
	// "malformed" is set, also one that no content hashes to
	skew := 0
	if vParam("malformed", 0) == 1 {
		skew = vChoose(2)
	}
	for qi := 0; qi < len(vsPaths); qi++ {
		q := vsPaths[qi]
		for elen := 1; elen <= maxDigest; elen++ {
			vLabel("expected-digest")
			e := make([]byte, 0, elen)
			e = append(e, byte(elen-1+skew))
			e = append(e, vBytes(elen-1)...)
			vLabel("")
			eCopy := append([]byte(nil), e...)

			loc, perr := st.Provide(q, e)
			ok, cerr := st.Contains(q, e)
			if !initialized {
				vAssert(perr != nil && !ok, "an uninitialised stager provides nothing")
				continue
			}
			if perr != nil {
				vAssert(!ok, "content without a provider location is not reported as staged")
				continue
			}
			n := w.lookup(loc)
			if n != nil {
				vCover("provided-node-exists")
				vAssert(n.kind == vsKFile, "what the provider hands out is a regular file")
				vAssert(vsBytesEq(vsDigest(n.content), eCopy), "the staged file's digest equals the digest it is provided for")
				vAssert(uint64(len(n.content)) <= limit, "a staged file never exceeds the maximum file size")
			}
			if ok {
				vCover("contains-true")
				vAssert(cerr == nil, "Contains reports true without an error")
				vAssert(n != nil && n.kind == vsKFile, "Contains reports true only for a regular file at the provider location")
				if n != nil {
					vAssert(vsBytesEq(vsDigest(n.content), eCopy), "Contains reports true only for content with the requested digest")
				}
			}
		}
	}
}

func VerifC10Store() {
	w := vsNewWorld(vParam("faults", 1))
	maxLen := vParam("maxlen", 2)
	chunks := vParam("chunks", 2)
	maxSinks := vParam("sinks", 1)
	vsPooled = nil
	vsRecycle = vParam("recycle", 1) == 1

	// maximum staging file size: any value
	vLabel("maximum-file-size")
	limit := vU64()
	vLabel("")

	// what is already there
	switch vChoose(3) {
	case 0: // nothing
	case 1: // an empty staging root left behind
		w.put(vsRoot, &vsNode{kind: vsKDir})
		vCover("root-existed")
	case 2: // something else occupies the staging root's name
		w.put(vsRoot, &vsNode{kind: vsKFile, foreign: true})
		vCover("root-not-a-directory")
	}

	st := NewStager(vsRoot, false, limit, vsHasherFactory)
	if err := st.Initialize(); err != nil {
		vCover("initialize-failed")
		vsQuery(st, limit, false)
		return
	}

	var sent []byte
	sinks := vRange(1, maxSinks)
	for i := 0; i < sinks; i++ {
		path := vsPaths[0]
		if i > 0 {
			path = vsPaths[vChoose(len(vsPaths))]
			if vBool() {
				// the endpoint is re-created over the same staging directory
				vCover("restart")
				st = NewStager(vsRoot, false, limit, vsHasherFactory)
				if err := st.Initialize(); err != nil {
					vsQuery(st, limit, false)
					return
				}
			}
		}
		sink, err := st.Sink(path)
		if err != nil {
			vCover("sink-failed")
			continue
		}
		sent = nil
		writes := vRange(0, chunks)
		for j := 0; j < writes; j++ {
			vLabel("chunk")
			data := vBytes(vRange(0, maxLen))
			vLabel("")
			orig := append([]byte(nil), data...)
			n, werr := sink.Write(data)
			vAssert(n >= 0 && n <= len(orig), "Write reports a count within the buffer")
			if n < 0 || n > len(orig) {
				return
			}
			sent = append(sent, orig[:n]...)
			if werr != nil {
				// rsync receiver / stageFromRoot: a failed write ends the transfer, the sink is closed
				vCover("write-refused")
				break
			}
		}
		if cerr := sink.Close(); cerr != nil {
			vCover("commit-failed")
		} else {
			vCover("commit-succeeded")
			// reachability witness for the good case (not part of the property)
			if loc, perr := st.Provide(path, vsDigest(sent)); perr == nil {
				if n := w.lookup(loc); n != nil && n.kind == vsKFile && vsBytesEq(n.content, sent) {
					vCover("committed-content-staged")
				}
			}
		}
	}
	if w.faultsTaken > 0 {
		vCover("fault-taken")
	}
	if w.shortWrites > 0 {
		vCover("short-write")
	}
	if w.closeLoss > 0 {
		vCover("close-lost-data")
	}
	vsQuery(st, limit, true)
	if len(sent) > 0 && uint64(len(sent)) == limit {
		vCover("exactly-at-limit")
	}
}

// VerifC10Foreign: a node that is not a regular file sits where staged content
// would be (left by something else); after a restart the stager must not
// report that content as staged.
func VerifC10Foreign() {
	w := vsNewWorld(0)
	vsPooled = nil
	limit := ^uint64(0)
	st := NewStager(vsRoot, false, limit, vsHasherFactory)
	if err := st.Initialize(); err != nil {
		return
	}
	q := vsPaths[vChoose(len(vsPaths))]
	elen := vRange(1, 3)
	vLabel("expected-digest")
	e := append([]byte{byte(elen - 1)}, vBytes(elen-1)...)
	vLabel("")
	loc, err := st.Provide(q, e)
	if err != nil {
		return
	}
	// the environment: prefix directory plus a non-file node at the location
	if p := vsParent(loc); w.lookup(p) == nil {
		w.put(p, &vsNode{kind: vsKDir, foreign: true})
	}
	kind := vsKDir
	if vBool() {
		kind = vsKOther
	}
	w.put(loc, &vsNode{kind: kind, foreign: true})
	st = NewStager(vsRoot, false, limit, vsHasherFactory)
	if err := st.Initialize(); err != nil {
		return
	}
	ok, _ := st.Contains(q, e)
	vCover("foreign-node-queried")
	vAssert(!ok, "a directory or special node at a provider location is not reported as staged content")
}

package forwarding

import (
	"context"
	"errors"
	"io"
	"net"
	"time"

	"github.com/mutagen-io/mutagen/pkg/state"
)

// C33: forwarded connections relay both directions exactly.
//
// The two connections are in-memory models: each has a script of chunks its
// remote peer sends (symbolic bytes), optionally followed by a half-close,
// records what is written to it, may fail a write, and unblocks readers when it
// is closed.

type vtCtx struct {
	done      chan struct{}
	cancelled *bool
}

func (c *vtCtx) Deadline() (time.Time, bool) { return time.Time{}, false }
func (c *vtCtx) Done() <-chan struct{}       { return c.done }
func (c *vtCtx) Err() error {
	if *c.cancelled {
		return context.Canceled
	}
	return nil
}
func (c *vtCtx) Value(any) any { return nil }

func vtBackground() context.Context { return &vtCtx{cancelled: new(bool)} }
func vtWithCancel(parent context.Context) (context.Context, context.CancelFunc) {
	c := &vtCtx{done: make(chan struct{}), cancelled: new(bool)}
	return c, func() {
		if !*c.cancelled {
			*c.cancelled = true
			close(c.done)
		}
	}
}

var verifStubs = map[string]any{
	"context.Background": vtBackground,
	"context.WithCancel": vtWithCancel,
}

type vtAddr struct{}

func (vtAddr) Network() string { return "model" }
func (vtAddr) String() string  { return "model" }

type vtConn struct {
	name        string
	incoming    chan []byte // chunks sent by the remote peer; closed = peer half-closed
	closed      chan struct{}
	isClosed    bool
	closeCount  int
	pending     []byte // rest of a chunk not yet read
	out         []byte // bytes written to this connection (= delivered to the remote peer)
	wroteClosed bool   // CloseWrite was called
	outAtClose  int    // len(out) when CloseWrite was called
	failWriteAt int    // fail the write that would make len(out) exceed this (-1 = never)
	shortWrite  bool   // the failing write delivers a prefix first
	lateWrite   bool   // a write arrived after CloseWrite or Close
}

func (c *vtConn) Read(b []byte) (int, error) {
	if len(c.pending) == 0 {
		select {
		case chunk, ok := <-c.incoming:
			if !ok {
				return 0, io.EOF
			}
			c.pending = chunk
		case <-c.closed:
			return 0, net.ErrClosed
		}
	}
	n := copy(b, c.pending)
	c.pending = c.pending[n:]
	return n, nil
}

func (c *vtConn) Write(b []byte) (int, error) {
	if c.isClosed {
		return 0, net.ErrClosed
	}
	if c.wroteClosed {
		c.lateWrite = true
		return 0, errors.New("write after CloseWrite")
	}
	if c.failWriteAt >= 0 && len(c.out)+len(b) > c.failWriteAt {
		n := 0
		if c.shortWrite {
			n = c.failWriteAt - len(c.out)
			c.out = append(c.out, b[:n]...)
		}
		return n, errors.New("write failed")
	}
	c.out = append(c.out, b...)
	return len(b), nil
}

func (c *vtConn) CloseWrite() error {
	if !c.wroteClosed {
		c.wroteClosed = true
		c.outAtClose = len(c.out)
	}
	return nil
}

func (c *vtConn) Close() error {
	c.closeCount++
	if !c.isClosed {
		c.isClosed = true
		close(c.closed)
	}
	return nil
}

func (c *vtConn) LocalAddr() net.Addr                { return vtAddr{} }
func (c *vtConn) RemoteAddr() net.Addr               { return vtAddr{} }
func (c *vtConn) SetDeadline(t time.Time) error      { return nil }
func (c *vtConn) SetReadDeadline(t time.Time) error  { return nil }
func (c *vtConn) SetWriteDeadline(t time.Time) error { return nil }

// vtScript builds a connection whose peer sends 0..maxchunks chunks of 1..2
// symbolic bytes and then (symbolically) half-closes.  Returns the connection,
// the concatenation of what the peer sends, and whether it half-closes.
func vtScript(name string, maxChunks int) (*vtConn, []byte, bool) {
	c := &vtConn{name: name, incoming: make(chan []byte, maxChunks), closed: make(chan struct{}), failWriteAt: -1}
	var all []byte
	n := vRange(0, maxChunks)
	for i := 0; i < n; i++ {
		chunk := vBytes(vRange(1, vParam("maxchunk", 2)))
		all = append(all, chunk...)
		c.incoming <- chunk
	}
	half := vChoose(2) == 1
	if half {
		close(c.incoming)
	}
	return c, all, half
}

func vtIsPrefix(p, s []byte) bool {
	if len(p) > len(s) {
		return false
	}
	for i := range p {
		if p[i] != s[i] {
			return false
		}
	}
	return true
}

func VerifC33Forward() {
	maxChunks := vParam("maxchunks", 2)
	first, fromFirst, firstHalf := vtScript("first", maxChunks)
	second, fromSecond, secondHalf := vtScript("second", maxChunks)

	// fault: at most one connection fails a write
	fault := vChoose(3)
	offsets := vParam("faultoffsets", 1) != 0
	switch fault {
	case 1:
		second.failWriteAt = 0
		if offsets {
			second.failWriteAt = vRange(0, len(fromFirst))
			second.shortWrite = vChoose(2) == 1
		}
	case 2:
		first.failWriteAt = 0
		if offsets {
			first.failWriteAt = vRange(0, len(fromSecond))
			first.shortWrite = vChoose(2) == 1
		}
	}
	faultHits := fault == 1 && second.failWriteAt < len(fromFirst) || fault == 2 && first.failWriteAt < len(fromSecond)

	ctx, cancel := context.WithCancel(context.Background())
	cancelling := vChoose(2) == 1
	// forwarding ends by itself only if both sides half-close or a write fails;
	// otherwise somebody has to cancel (or it rightly runs forever)
	if !(firstHalf && secondHalf) && !faultHits {
		cancelling = true
	}
	if cancelling {
		go cancel()
	}

	var toFirst, toSecond uint64
	ForwardAndClose(ctx, first, second,
		func(n uint64) { toFirst += n },
		func(n uint64) { toSecond += n })
	// ForwardAndClose returned (a deadlock above = forwarding hangs)

	vAssert(first.isClosed && second.isClosed, "both connections are closed when forwarding ends")
	// whatever reached a connection is a prefix of what the other side sent: no
	// loss in the middle, no duplication, no reordering, no cross-talk
	vAssert(vtIsPrefix(second.out, fromFirst), "bytes delivered to the second connection are a prefix of the bytes sent by the first")
	vAssert(vtIsPrefix(first.out, fromSecond), "bytes delivered to the first connection are a prefix of the bytes sent by the second")
	vAssert(toSecond == uint64(len(second.out)) && toFirst == uint64(len(first.out)), "auditors count exactly the forwarded bytes")
	vAssert(!first.lateWrite && !second.lateWrite, "no data is written after the half-close")
	// a half-close is forwarded only after everything sent before it
	if second.wroteClosed {
		vAssert(firstHalf, "second connection is half-closed only if the first side half-closed")
		vAssert(second.outAtClose == len(fromFirst), "the half-close follows all bytes of that direction")
	}
	if first.wroteClosed {
		vAssert(secondHalf, "first connection is half-closed only if the second side half-closed")
		vAssert(first.outAtClose == len(fromSecond), "the half-close follows all bytes of that direction")
	}
	if !cancelling && !faultHits {
		// clean run: both directions complete
		vCover("clean run")
		vAssert(len(second.out) == len(fromFirst) && len(first.out) == len(fromSecond), "clean run: every byte is delivered in both directions")
		vAssert(first.wroteClosed && second.wroteClosed, "clean run: both half-closes are forwarded")
	}
	if !cancelling && faultHits {
		vCover("write failure ends forwarding")
	}
	if cancelling {
		vCover("cancelled")
	}
	if firstHalf != secondHalf {
		vCover("one side half-closes")
	}
	cancel()
}

// ---------- session statistics (controller.run / controller.forward) ----------

type vtEndpoint struct {
	name     string
	conns    []*vtConn // connections still to hand out
	handed   []*vtConn
	down     chan struct{}
	isDown   bool
	failOpen bool
}

func (e *vtEndpoint) TransportErrors() <-chan error { return nil }

func (e *vtEndpoint) Open() (net.Conn, error) {
	if e.failOpen {
		return nil, errors.New("model: cannot open")
	}
	if len(e.conns) > 0 {
		c := e.conns[0]
		e.conns = e.conns[1:]
		e.handed = append(e.handed, c)
		return c, nil
	}
	// no further connection arrives: wait until the endpoint is shut down
	<-e.down
	return nil, errors.New("model: endpoint shut down")
}

func (e *vtEndpoint) Shutdown() error {
	if !e.isDown {
		e.isDown = true
		close(e.down)
	}
	// the transport goes away: every connection it carried dies
	for _, c := range e.handed {
		c.Close()
	}
	return nil
}

func vtUnlockQuietly(l *state.TrackingLock) { l.UnlockWithoutNotify() }

var verifStubs_VerifC33Statistics = map[string]any{
	"context.Background": vtBackground,
	"context.WithCancel": vtWithCancel,
	"(*github.com/mutagen-io/mutagen/pkg/state.TrackingLock).Unlock": vtUnlockQuietly,
}

// VerifC33Statistics: the real controller.run with already-connected model
// endpoints: k connections are accepted and forwarded (each with its own
// payload), then the session is cancelled.  When everything has come to rest:
// the state object that was current while forwarding counted every connection
// and every forwarded byte and its open-connection count is back to zero; the
// controller's current state shows no open connection either.
func VerifC33Statistics() {
	k := vRange(1, vParam("connections", 1))
	src := &vtEndpoint{name: "source", down: make(chan struct{})}
	dst := &vtEndpoint{name: "destination", down: make(chan struct{})}
	var in, out uint64
	for i := 0; i < k; i++ {
		a, fromA, _ := vtScript("incoming", vParam("maxchunks", 1))
		b, fromB, _ := vtScript("outgoing", vParam("maxchunks", 1))
		src.conns = append(src.conns, a)
		dst.conns = append(dst.conns, b)
		_ = fromA
		_ = fromB
	}
	c := &controller{
		stateLock: &state.TrackingLock{},
		session:   &Session{},
		state:     &State{SourceState: &EndpointState{}, DestinationState: &EndpointState{}},
		done:      make(chan struct{}),
	}
	during := c.state
	ctx, cancel := context.WithCancel(context.Background())
	go c.run(ctx, src, dst)
	go cancel()
	<-c.done
	// let everything come to rest: this timer fires only when every other
	// goroutine is blocked or finished
	time.Sleep(time.Hour)
	for _, x := range src.handed {
		vAssert(x.isClosed, "every accepted connection is closed when the session ends")
		in += uint64(len(x.out))
	}
	for _, x := range dst.handed {
		vAssert(x.isClosed, "every opened connection is closed when the session ends")
		out += uint64(len(x.out))
	}
	vAssert(during.OpenConnections == 0, "the open-connection count returns to zero")
	vAssert(c.state.OpenConnections == 0, "the current session state shows no open connection after forwarding ended")
	vAssert(during.TotalConnections == uint64(len(dst.handed)), "every forwarded connection is counted")
	vAssert(during.TotalInboundData == in && during.TotalOutboundData == out, "every forwarded byte is counted")
	if len(dst.handed) > 0 {
		vCover("a connection was forwarded")
	}
	vCover("session ended")
}

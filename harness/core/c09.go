package core

import (
	"google.golang.org/protobuf/types/known/timestamppb"

	"github.com/mutagen-io/mutagen/pkg/filesystem"
)

var verifStubs_VerifC09 = verifStubsFS
var verifStubs_VerifC08File = verifStubsFS
var verifStubs_VerifC08Link = verifStubsFS
var verifStubs_VerifC08Directory = verifStubsFS

func vfCacheEntryFor(n *vfNode) *CacheEntry {
	return &CacheEntry{
		Mode:             uint32(n.mode()),
		ModificationTime: &timestamppb.Timestamp{Seconds: n.mSec, Nanos: int32(n.mNsec)},
		Size:             n.size,
		FileID:           n.fileID,
		Digest:           append([]byte(nil), n.content...),
	}
}

// vfPlace puts the materialised old entry at the transition path; returns the
// directory node that holds it and the leaf name.
func vfPlace(where int, old *Entry, cache *Cache) (path string) {
	w := vfw
	root := &vfNode{kind: vfKDir, perm: 0700, fileID: 1}
	switch where {
	case 0: // the root itself
		path = ""
		if old != nil {
			w.top.add("root", vfMaterialize(old, "", cache))
		}
		return
	case 1:
		path = "x"
		w.top.add("root", root)
		if old != nil {
			root.add("x", vfMaterialize(old, "x", cache))
		}
	default:
		path = "d/x"
		w.top.add("root", root)
		d := &vfNode{kind: vfKDir, perm: 0700, fileID: 2}
		root.add("d", d)
		if old != nil {
			d.add("x", vfMaterialize(old, "d/x", cache))
		}
	}
	return
}

// vfStage makes staged files available for the files of the new entry
// (each independently present or absent).
func vfStage(n *Entry, path string) {
	if n == nil {
		return
	}
	if n.Kind == EntryKind_File {
		if vBool() {
			vfw.staged["/staging/"+path] = &vfNode{kind: vfKFile, perm: 0600, content: append([]byte(nil), n.Digest...), size: uint64(len(n.Digest)), fileID: 999}
		} else {
			vCover("staged-file-absent")
		}
		return
	}
	for name, c := range n.Contents {
		vfStage(c, vtJoin(path, name))
	}
}

func VerifC09() {
	w := vfNewWorld(vParam("faults", 1), vParam("cancel", 1) == 1)
	w.crossDevice = vBool()
	shape := vParam("shape", 1)
	old := vtGenTree(shape, 0)
	nw := vtGenTree(shape, 0)
	vAssume(!vtDeepEqual(old, nw)) // a change has Old != New
	where := vParam("where", -1)
	if where < 0 {
		where = vChoose(3)
	}
	var ownership *filesystem.OwnershipSpecification
	if vBool() {
		// an explicit owner/group: ownership system calls are made (and may fail)
		ownership = &filesystem.OwnershipSpecification{}
		vNote("explicit default ownership")
	}
	cache := &Cache{Entries: map[string]*CacheEntry{}}
	path := vfPlace(where, old, cache)
	vfStage(nw, path)
	vNote("path=" + path + " old=" + vtShow(old) + " new=" + vtShow(nw))

	results, problems, missing := Transition(vfCtx{w.cancelCh}, "/p/root", []*Change{{Path: path, Old: old, New: nw}}, cache,
		SymbolicLinkMode_SymbolicLinkModePortable, filesystem.Mode(0600), filesystem.Mode(0700), ownership, false, vfProvider{})

	vAssert(len(results) == 1, "one result per transition")
	if len(results) != 1 {
		return
	}
	r := results[0]
	onDisk := vfScan(vfLookup(path))
	if w.faultsTaken > 0 {
		vCover("fault-taken")
	}
	if w.cancelled {
		vCover("cancelled")
	}
	if vtDeepEqual(r, nw) {
		vCover("complete")
	} else {
		vCover("incomplete")
		vAssert(len(problems) > 0, "an incomplete transition records at least one problem")
	}
	vAssert(vtDeepEqual(r, onDisk), "the reported entry describes exactly what is on disk at the path afterwards")
	vAssert(vtValid(r, true), "the reported entry is valid synchronizable content")
	if missing {
		vAssert(w.stagedAbsent, "missing files are reported only when a staged file was absent")
	}
	if w.stagedAbsent {
		vCover("missing-detected")
		vAssert(missing, "an absent staged file is reported as missing files")
	}
}

package core

import (
	"strings"

	"github.com/mutagen-io/mutagen/pkg/filesystem"
)

// C10 (transition half): Transition against the filesystem model (fsmodel.go)
// with a provider that behaves like the content-addressed stager: the location
// it names is an injective function of (path, digest), and the staging area
// holds - per the staging half of this check - at such a location either
// nothing or a file whose content hashes to that digest.  The staging area
// also holds content staged for the same paths under OTHER digests (earlier
// plans, the old content).  Oracle: every file that the transition created or
// replaced below the root carries exactly the content the plan names for its
// path; a staged file that was needed and absent is reported as missing.
// (As in fsmodel.go a file's content is its digest: identity = injective hash.)

var verifStubs_VerifC10Transition = verifStubsFS

func vcLocation(path string, digest []byte) string {
	return "/staging/" + path + "#" + string(digest)
}

type vcProvider struct{}

func (vcProvider) Provide(path string, digest []byte) (string, error) {
	if vfStep() {
		return "", vfErrIO
	}
	return vcLocation(path, digest), nil
}

func vcHasFile(e *Entry) bool {
	if e == nil {
		return false
	}
	if e.Kind == EntryKind_File {
		return true
	}
	for _, c := range e.Contents {
		if vcHasFile(c) {
			return true
		}
	}
	return false
}

// vcStage fills the staging area for the files of the new entry: the planned
// content present or absent, plus content for the same path under another
// digest.
func vcStage(n *Entry, path string) {
	if n == nil {
		return
	}
	if n.Kind == EntryKind_File {
		if vBool() {
			vfw.staged[vcLocation(path, n.Digest)] = &vfNode{kind: vfKFile, perm: 0600, content: append([]byte(nil), n.Digest...), size: uint64(len(n.Digest)), fileID: 999}
		} else {
			vCover("planned-content-not-staged")
		}
		vLabel("other-staged-digest")
		other := []byte{vU8()}
		vLabel("")
		vAssume(!vtBytesEq(other, n.Digest))
		vfw.staged[vcLocation(path, other)] = &vfNode{kind: vfKFile, perm: 0600, content: other, size: 1, fileID: 998}
		return
	}
	for _, name := range []string{"a", "b"} {
		if c, ok := n.Contents[name]; ok {
			vcStage(c, vtJoin(path, name))
		}
	}
}

// vcCollect gathers every node reachable from n (to tell pre-existing nodes
// from those the transition put there).
func vcCollect(n *vfNode, into []*vfNode) []*vfNode {
	if n == nil {
		return into
	}
	into = append(into, n)
	for _, name := range n.names {
		into = vcCollect(n.kids[name], into)
	}
	return into
}

func vcKnown(set []*vfNode, n *vfNode) bool {
	for _, x := range set {
		if x == n {
			return true
		}
	}
	return false
}

// vcCheck walks the model below the root: a file that was not there before
// must be the planned content for its path.
func vcCheck(n *vfNode, path string, planRoot *Entry, planPath string, before []*vfNode) {
	if n == nil {
		return
	}
	switch n.kind {
	case vfKDir:
		for _, name := range n.names {
			if strings.HasPrefix(name, filesystem.TemporaryNamePrefix) {
				vCover("temporary-left-behind")
				continue
			}
			vcCheck(n.kids[name], vtJoin(path, name), planRoot, planPath, before)
		}
	case vfKFile:
		if vcKnown(before, n) {
			return
		}
		vCover("file-written-into-root")
		// the plan entry for this path: only paths at or below the transition path are planned
		var planned *Entry
		if path == planPath {
			planned = planRoot
		} else if planPath == "" || strings.HasPrefix(path, planPath+"/") {
			rel := path
			if planPath != "" {
				rel = path[len(planPath)+1:]
			}
			planned, _ = vtAt(planRoot, rel)
		}
		vAssert(planned != nil && planned.Kind == EntryKind_File, "a file is written into the root only where the plan has a file")
		if planned != nil && planned.Kind == EntryKind_File {
			vAssert(vtBytesEq(n.content, planned.Digest), "a file written into the root has the content (digest) named in the plan")
		}
	}
}

// vcPlanned: every file of the plan is on disk with the planned content.
func vcPlanned(e *Entry, path string) {
	if e == nil {
		return
	}
	if e.Kind == EntryKind_File {
		n := vfLookup(path)
		vAssert(n != nil && n.kind == vfKFile, "a change reported as applied left a file where the plan has one")
		if n != nil && n.kind == vfKFile {
			vAssert(vtBytesEq(n.content, e.Digest), "a change reported as applied left the planned content (digest) on disk")
		}
		return
	}
	for _, name := range []string{"a", "b"} {
		if c, ok := e.Contents[name]; ok {
			vcPlanned(c, vtJoin(path, name))
		}
	}
}

func VerifC10Transition() {
	w := vfNewWorld(vParam("faults", 1), vParam("cancel", 0) == 1)
	w.crossDevice = vBool()
	shape := vParam("shape", 1)
	old := vtGenTree(vParam("oldshape", shape), 0)
	var nw *Entry
	if shape == 1 {
		vLabel("digest")
		d := vU8()
		vLabel("executable")
		x := vBool()
		vLabel("")
		nw = &Entry{Kind: EntryKind_File, Digest: []byte{d}, Executable: x}
	} else {
		nw = vtGenTree(shape, 0)
		if !vcHasFile(nw) {
			return // nothing is staged for such a change
		}
	}
	vAssume(!vtDeepEqual(old, nw)) // a change has Old != New
	where := vParam("where", -1)
	if where < 0 {
		where = vChoose(3)
	}
	cache := &Cache{Entries: map[string]*CacheEntry{}}
	path := vfPlace(where, old, cache)
	vcStage(nw, path)
	vNote("path=" + path + " old=" + vtShow(old) + " new=" + vtShow(nw))
	before := vcCollect(w.top, nil)

	results, _, missing := Transition(vfCtx{w.cancelCh}, "/p/root", []*Change{{Path: path, Old: old, New: nw}}, cache,
		SymbolicLinkMode_SymbolicLinkModePortable, filesystem.Mode(0600), filesystem.Mode(0700), nil, false, vcProvider{})

	if w.faultsTaken > 0 {
		vCover("fault-taken")
	}
	if w.cancelled {
		vCover("cancelled")
	}
	if w.crossDevice {
		vCover("cross-device")
	}
	vcCheck(w.top.kids["root"], "", nw, path, before)
	if len(results) == 1 && vtDeepEqual(results[0], nw) {
		// the change is reported as fully applied: every planned file is on disk with the planned content
		vCover("reported-applied")
		vcPlanned(nw, path)
	}
	if w.stagedAbsent {
		vCover("missing-detected")
		vAssert(missing, "a transfer that did not produce the planned content is reported as missing files")
	}
}

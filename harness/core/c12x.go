package core

import (
	"io"

	"github.com/mutagen-io/mutagen/pkg/filesystem"
	"github.com/mutagen-io/mutagen/pkg/filesystem/behavior"
	"github.com/mutagen-io/mutagen/pkg/synchronization/core/ignore"
)

// C12, targeted input classes on top of the general tree harness (c12.go).
// Both entries run the real Scan on the filesystem model and compare with the
// own statement of the snapshot (vfExpectedScan / vfSnapshotEqual of c12.go).
//
//   VerifC12Names   name-based rules hold for entries of EVERY kind, at the
//                   root and one level down: a temporary-prefixed name is
//                   omitted whether it names a file, a directory (with
//                   content), a symbolic link or a FIFO; names that merely
//                   resemble the prefix are listed; a non-UTF-8 name is a
//                   problem whatever it names.
//   VerifC12Faults  the hasher handed to Scan is in an arbitrary state (an
//                   endpoint reuses one hasher for all its scans), and one
//                   entry is unreadable (open / read after k bytes / listing /
//                   readlink fails): the unreadable entry is a problem, and
//                   every other entry - in particular the file hashed right
//                   after an abandoned hashing attempt - is still described
//                   exactly.

// ---------- fault injection on one chosen node ----------

const (
	vxNone = iota
	vxOpenFails
	vxReadFails
	vxListFails
	vxReadlinkFails
)

var (
	vxFaultNode  *vfNode
	vxFaultKind  int
	vxFailAfter  int // vxReadFails: bytes delivered before the failure
	vxFaultTaken bool
)

type vxFailingReader struct {
	n   *vfNode
	pos int
}

func (r *vxFailingReader) Read(p []byte) (int, error) {
	if r.pos >= vxFailAfter {
		vxFaultTaken = true
		return 0, vfErrIO
	}
	k := copy(p, r.n.content[r.pos:vxFailAfter])
	r.pos += k
	return k, nil
}
func (r *vxFailingReader) Seek(offset int64, whence int) (int64, error) {
	return 0, vfErrIO
}
func (r *vxFailingReader) Close() error { return nil }

func vxChild(d *filesystem.Directory, name string) *vfNode {
	if n := vfw.handles[d]; n != nil && n.kids != nil {
		return n.kids[name]
	}
	return nil
}

func vxOpenFile(d *filesystem.Directory, name string) (io.ReadSeekCloser, *filesystem.Metadata, error) {
	if c := vxChild(d, name); c != nil && c == vxFaultNode {
		switch vxFaultKind {
		case vxOpenFails:
			vxFaultTaken = true
			return nil, nil, vfErrIO
		case vxReadFails:
			return &vxFailingReader{n: c}, c.metadata(name), nil
		}
	}
	return vfOpenFile(d, name)
}

func vxOpenDirectory(d *filesystem.Directory, name string) (*filesystem.Directory, error) {
	if c := vxChild(d, name); c != nil && c == vxFaultNode && vxFaultKind == vxOpenFails {
		vxFaultTaken = true
		return nil, vfErrIO
	}
	return vfOpenDirectoryLogged(d, name)
}

func vxReadContents(d *filesystem.Directory) ([]*filesystem.Metadata, error) {
	if n := vfw.handles[d]; n != nil && n == vxFaultNode && vxFaultKind == vxListFails {
		vxFaultTaken = true
		return nil, vfErrIO
	}
	return vfReadContents(d)
}

func vxReadSymbolicLink(d *filesystem.Directory, name string) (string, error) {
	if c := vxChild(d, name); c != nil && c == vxFaultNode && vxFaultKind == vxReadlinkFails {
		vxFaultTaken = true
		return "", vfErrIO
	}
	return vfReadSymbolicLink(d, name)
}

var verifStubs_VerifC12Names = verifStubsScan

var verifStubs_VerifC12Faults = vfMergeStubs(verifStubsScan, map[string]any{
	"(*github.com/mutagen-io/mutagen/pkg/filesystem.Directory).OpenFile":         vxOpenFile,
	"(*github.com/mutagen-io/mutagen/pkg/filesystem.Directory).OpenDirectory":    vxOpenDirectory,
	"(*github.com/mutagen-io/mutagen/pkg/filesystem.Directory).ReadContents":     vxReadContents,
	"(*github.com/mutagen-io/mutagen/pkg/filesystem.Directory).ReadSymbolicLink": vxReadSymbolicLink,
})

// ---------- shared: run the scan and state the property ----------

// vxCheckScan runs Scan with the given hasher and compares the snapshot with
// the own statement.  unreadable (may be nil) is a node that must be reported
// as a problem instead of being described; it is the root's entry of that name
// (with a nominal ignore status).
func vxCheckScan(root *vfNode, m vfScanModes, g *vfIgnorer, hasher *vfHasher, unreadable *vfNode, unreadableName string) {
	w := vfw
	snap, cache, _, err := Scan(vfCtx{w.cancelCh}, "/p/root", nil, nil, hasher, nil, g, nil,
		behavior.ProbeMode_ProbeModeProbe, m.symlinks, m.permissions)
	vAssert(err == nil, "scan of a listable root succeeds")
	if err != nil {
		return
	}
	vCover("scanned")
	var c vfCounts
	var want *Entry
	if unreadable == nil {
		want = vfExpectedScan(root, "", g, m, &c)
	} else {
		// state the snapshot with a contentless stand-in (counts nothing) in
		// place of the unreadable root-level entry, then put the problem there
		stand := &vfNode{kind: vfKOther, perm: 0600, fileID: unreadable.fileID}
		root.kids[unreadableName] = stand
		want = vfExpectedScan(root, "", g, m, &c)
		root.kids[unreadableName] = unreadable
		if unreadable.kind == vfKLink && m.symlinks == SymbolicLinkMode_SymbolicLinkModeIgnore {
			// the target of an ignored link is not needed
			want.Contents[unreadableName] = &Entry{Kind: EntryKind_Untracked}
		} else {
			want.Contents[unreadableName] = &Entry{Kind: EntryKind_Problematic, Problem: "*"}
		}
	}
	vAssert(vfSnapshotEqual(snap.Content, want), "snapshot lists every entry with its kind, digest, executability and target")
	vAssert(snap.Content.EnsureValid(false) == nil, "snapshot content is valid")
	vAssert(snap.Directories == c.dirs, "directory count matches the content")
	vAssert(snap.Files == c.files, "file count matches the content")
	vAssert(snap.SymbolicLinks == c.links, "symbolic link count matches the content")
	vAssert(snap.TotalFileSize == c.bytes, "byte count matches the content")
	vtVisit(snap.Content, "", func(p string, e *Entry) {
		if e.Kind == EntryKind_File {
			ce, ok := cache.Entries[p]
			vAssert(ok && vtBytesEq(ce.Digest, e.Digest), "every scanned file has a cache entry carrying its digest")
		}
	})
}

// ---------- VerifC12Names ----------

func vxSpecialNode(kind int) *vfNode {
	w := vfw
	switch kind {
	case 0:
		return vfGenFile(1)
	case 1:
		w.nextID++
		d := &vfNode{kind: vfKDir, perm: 0700, fileID: w.nextID}
		d.add("f", vfGenFile(1))
		return d
	case 2:
		return vfGenLink(1)
	}
	w.nextID++
	return &vfNode{kind: vfKOther, perm: 0600, fileID: w.nextID}
}

func VerifC12Names() {
	w := vfNewWorld(0, false)
	vfOpenedDirs = nil
	w.nextID++
	root := &vfNode{kind: vfKDir, perm: 0700, fileID: w.nextID}
	w.top.add("root", root)
	g := &vfIgnorer{decided: map[string]ignore.IgnoreStatus{}}

	// where: in the root, or 1..levels directories down
	parent, ppath := root, ""
	for depth := vRange(0, vParam("levels", 1)); depth > 0; depth-- {
		w.nextID++
		d := &vfNode{kind: vfKDir, perm: 0700, fileID: w.nextID}
		parent.add("d", d)
		parent, ppath = d, vtJoin(ppath, "d")
		g.decided[ppath] = ignore.IgnoreStatusNominal
		vCover("nested")
	}

	// the name
	var name string
	class := vChoose(5)
	switch class {
	case 0:
		name = filesystem.TemporaryNamePrefix + "x"
	case 1: // the shape of an internal staging root / an atomic-write temporary
		name = filesystem.TemporaryNamePrefix + "staging-0123-alpha"
	case 2: // the prefix occurs, but not at the start
		name = "x" + filesystem.TemporaryNamePrefix + "y"
	case 3: // all but the last byte of the prefix
		name = filesystem.TemporaryNamePrefix[:len(filesystem.TemporaryNamePrefix)-1] + "x"
	default:
		name = "\xffz"
	}

	// what it names
	kind := vChoose(4)
	special := vxSpecialNode(kind)
	parent.add(name, special)
	if class <= 1 {
		vCover([]string{"temporary-file", "temporary-directory", "temporary-link", "temporary-fifo"}[kind])
	} else if class <= 3 {
		vCover("near-miss-name")
	} else {
		vCover([]string{"non-utf8-file", "non-utf8-directory", "non-utf8-link", "non-utf8-fifo"}[kind])
	}

	// an ordinary file listed after it
	w.nextID++
	parent.add("b", &vfNode{kind: vfKFile, perm: 0600, content: []byte{7, 8}, size: 2, fileID: w.nextID, mSec: 1000, mNsec: 7})
	g.decided[vtJoin(ppath, "b")] = ignore.IgnoreStatusNominal

	vfPreserves = vBool()
	m := vfModes()
	vNote("disk=" + vfShowDisk(root) + " special=" + vfShowDisk(special))
	vxCheckScan(root, m, g, &vfHasher{}, nil, "")
}

// ---------- VerifC12Faults ----------

func VerifC12Faults() {
	w := vfNewWorld(0, false)
	vfOpenedDirs = nil
	vxFaultNode, vxFaultKind, vxFailAfter, vxFaultTaken = nil, vxNone, 0, false
	w.nextID++
	root := &vfNode{kind: vfKDir, perm: 0700, fileID: w.nextID}
	w.top.add("root", root)
	g := &vfIgnorer{decided: map[string]ignore.IgnoreStatus{"a": ignore.IgnoreStatusNominal, "b": ignore.IgnoreStatusNominal, "a/f": ignore.IgnoreStatusNominal}}

	// entry "a": possibly unreadable
	var a *vfNode
	switch vChoose(3) {
	case 0:
		w.nextID++
		vLabel("a")
		c := vBytes(2)
		vLabel("")
		a = &vfNode{kind: vfKFile, perm: 0644, content: c, size: 2, fileID: w.nextID, mSec: 1001, mNsec: 7}
		switch vChoose(3) {
		case 0:
			vCover("readable")
		case 1:
			vxFaultNode, vxFaultKind = a, vxOpenFails
			vCover("file-open-fails")
			vNote("fault: opening file a fails")
		default:
			vxFaultNode, vxFaultKind = a, vxReadFails
			vxFailAfter = vRange(0, 2)
			vCover("file-read-fails")
			vNote("fault: reading file a fails after " + []string{"0", "1", "2"}[vxFailAfter] + " of 2 bytes")
			if vxFailAfter > 0 {
				vCover("file-read-fails-part-way")
			}
		}
	case 1:
		w.nextID++
		a = &vfNode{kind: vfKDir, perm: 0700, fileID: w.nextID}
		a.add("f", vfGenFile(1))
		if vChoose(2) == 0 {
			vxFaultNode, vxFaultKind = a, vxOpenFails
			vCover("directory-open-fails")
			vNote("fault: opening directory a fails")
		} else {
			vxFaultNode, vxFaultKind = a, vxListFails
			vCover("directory-listing-fails")
			vNote("fault: listing directory a fails")
		}
	default:
		a = vfGenLink(1)
		vxFaultNode, vxFaultKind = a, vxReadlinkFails
		vCover("link-read-fails")
		vNote("fault: reading the target of link a fails")
	}
	root.add("a", a)

	// entry "b": an ordinary file, hashed after whatever happened to "a"
	w.nextID++
	vLabel("b")
	bc := vBytes(vRange(0, 2))
	vLabel("")
	root.add("b", &vfNode{kind: vfKFile, perm: 0600, content: bc, size: uint64(len(bc)), fileID: w.nextID, mSec: 1002, mNsec: 7})

	// the hasher arrives in an arbitrary state
	vLabel("hasher-state")
	hasher := &vfHasher{buf: vBytes(vRange(0, vParam("dirty", 1)))}
	vLabel("")
	if len(hasher.buf) > 0 {
		vCover("hasher-used-before")
		vNote("the hasher handed to Scan has been written to before")
	}

	vfPreserves = vBool()
	m := vfModes()
	vNote("disk=" + vfShowDisk(root))
	vxCheckScan(root, m, g, hasher, vxFaultNode, "a")
	if vxFaultNode != nil && !(a.kind == vfKLink && m.symlinks == SymbolicLinkMode_SymbolicLinkModeIgnore) {
		vAssert(vxFaultTaken, "model: the injected failure was met")
	}
}

package core

// C15(b): ReifyPhantomDirectories against the documented rule.
//
// Rule (phantom.go, entry.proto, property text): a phantom directory is
// reified to a tracked directory exactly when tracked content exists below it
// (on either side of the conjoined traversal - tracked content is any entry
// other than an untracked one: files, symbolic links, problematic entries and
// tracked directories, "a problematic entry is implicitly a tracked entry") or
// when the ancestor holds a directory at its path; otherwise it becomes an
// untracked entry without contents.  Nothing else changes, the inputs are not
// mutated, and the returned directory counts are those of the results.
//
// That exact ("if and only if", problematic entries included) reading is
// asserted on the triples without a *mixed level* (a path holding a directory
// kind on one side and a file, symbolic link or problematic entry on the
// other).  On triples with a mixed level the property itself says less - "an
// excluded directory is synchronized ONLY IF it holds synchronized content or
// was synchronized before", and no synchronized file or link is lost - and
// that is what is asserted there (vtC15Conforms): a phantom directory MUST
// become tracked when a file, a symbolic link or a tracked directory lies
// below it on either side (or the ancestor has a directory), it MAY become
// tracked when only a problematic entry does, and must become untracked
// otherwise.  Triples that two scans sharing one ignore list cannot produce
// (vtC15Incoherent) are not part of that harness.

func vtC15DirKind(e *Entry) bool {
	return e != nil && (e.Kind == EntryKind_Directory || e.Kind == EntryKind_PhantomDirectory)
}

func vtC15Child(e *Entry, name string) *Entry {
	if !vtC15DirKind(e) {
		return nil
	}
	return e.Contents[name]
}

// vtC15Names: names below the conjoined level (either side).
func vtC15Names(a, b *Entry) []string {
	var out []string
	seen := map[string]bool{}
	for _, e := range []*Entry{a, b} {
		if !vtC15DirKind(e) {
			continue
		}
		for n := range e.Contents {
			if !seen[n] {
				seen[n] = true
				out = append(out, n)
			}
		}
	}
	return out
}

// vtC15TrackedBelow: a phantom directory at this conjoined level is to become
// tracked.
func vtC15TrackedBelow(anc, a, b *Entry) bool {
	if anc != nil && anc.Kind == EntryKind_Directory {
		return true
	}
	for _, n := range vtC15Names(a, b) {
		if vtC15TrackedAt(vtC15Child(anc, n), vtC15Child(a, n), vtC15Child(b, n)) {
			return true
		}
	}
	return false
}

// vtC15TrackedAt: tracked content exists at or below this conjoined level.
func vtC15TrackedAt(anc, a, b *Entry) bool {
	for _, e := range []*Entry{a, b} {
		if e == nil {
			continue
		}
		switch e.Kind {
		case EntryKind_Untracked:
		case EntryKind_PhantomDirectory:
			if vtC15TrackedBelow(anc, a, b) {
				return true
			}
		default: // file, symbolic link, problematic, tracked directory
			return true
		}
	}
	return false
}

// vtC15Expected builds the documented result for one side.
func vtC15Expected(anc, a, b *Entry, side *Entry) *Entry {
	if side == nil {
		return nil
	}
	switch side.Kind {
	case EntryKind_Directory, EntryKind_PhantomDirectory:
		if side.Kind == EntryKind_PhantomDirectory && !vtC15TrackedBelow(anc, a, b) {
			return &Entry{Kind: EntryKind_Untracked}
		}
		r := &Entry{Kind: EntryKind_Directory}
		for name, c := range side.Contents {
			if r.Contents == nil {
				r.Contents = make(map[string]*Entry)
			}
			r.Contents[name] = vtC15Expected(vtC15Child(anc, name), vtC15Child(a, name), vtC15Child(b, name), c)
		}
		return r
	default:
		return vtClone(side)
	}
}

// vtC15IsMust: an entry kind that every reading of the rule counts as tracked
// content (a file, a symbolic link, a tracked directory).
func vtC15IsMust(e *Entry) bool {
	return e != nil && (e.Kind == EntryKind_File || e.Kind == EntryKind_SymbolicLink || e.Kind == EntryKind_Directory)
}

// vtC15ContentBelow: content lies below this conjoined level that obliges
// (must) or at least permits (!must: problematic entries count too) a phantom
// directory at this level to become tracked.
func vtC15ContentBelow(anc, a, b *Entry, must bool) bool {
	if anc != nil && anc.Kind == EntryKind_Directory {
		return true
	}
	for _, n := range vtC15Names(a, b) {
		ca, cb := vtC15Child(a, n), vtC15Child(b, n)
		for _, e := range []*Entry{ca, cb} {
			if vtC15IsMust(e) || (!must && e != nil && e.Kind == EntryKind_Problematic) {
				return true
			}
		}
		if (vtC15DirKind(ca) || vtC15DirKind(cb)) && vtC15ContentBelow(vtC15Child(anc, n), ca, cb, must) {
			return true
		}
	}
	return false
}

// vtC15Conforms: res is an admissible reification of side (one of a, b) at
// this conjoined level: non-directory entries and tracked directories are
// kept as they are; a phantom directory becomes an untracked entry without
// contents only if nothing obliges it to be tracked, and a tracked directory
// (with the same names, each conforming in turn) only if something permits it.
func vtC15Conforms(anc, a, b, side, res *Entry) bool {
	if side == nil || res == nil {
		return side == nil && res == nil
	}
	if !vtC15DirKind(side) {
		return vtDeepEqual(res, side)
	}
	if side.Kind == EntryKind_PhantomDirectory {
		if res.Kind == EntryKind_Untracked {
			return !vtC15ContentBelow(anc, a, b, true) && len(res.Contents) == 0 &&
				vtSameNode(res, &Entry{Kind: EntryKind_Untracked})
		}
		if !vtC15ContentBelow(anc, a, b, false) {
			return false
		}
	}
	if !vtSameNode(res, &Entry{Kind: EntryKind_Directory}) || len(res.Contents) != len(side.Contents) {
		return false
	}
	ok := true
	for name, c := range side.Contents {
		rc, present := res.Contents[name]
		if !present {
			return false
		}
		ok = vAnd(ok, vtC15Conforms(vtC15Child(anc, name), vtC15Child(a, name), vtC15Child(b, name), c, rc))
	}
	return ok
}

// vtC15Incoherent: some path holds a phantom directory on one side and a
// tracked file, symbolic link or directory on the other.  Two scans that share
// one ignore list (ignores cannot be endpoint-specific) cannot produce this:
// the ignore status of a path is a function of the path alone, a phantom
// directory is a directory under an ignore mask and a tracked file, link or
// directory is content outside any mask (scan.go).
func vtC15Incoherent(a, b *Entry) bool {
	ph := func(e *Entry) bool { return e != nil && e.Kind == EntryKind_PhantomDirectory }
	if (ph(a) && vtC15IsMust(b)) || (ph(b) && vtC15IsMust(a)) {
		return true
	}
	for _, n := range vtC15Names(a, b) {
		if vtC15Incoherent(vtC15Child(a, n), vtC15Child(b, n)) {
			return true
		}
	}
	return false
}

func vtC15CountKind(e *Entry, k EntryKind) uint64 {
	n := uint64(0)
	var walk func(e *Entry)
	walk = func(e *Entry) {
		if e == nil {
			return
		}
		if e.Kind == k {
			n++
		}
		for _, c := range e.Contents {
			walk(c)
		}
	}
	walk(e)
	return n
}

// vtC15MixedLevel: somewhere one side holds a directory kind where the other
// side holds tracked non-directory content (file, link, problematic).
func vtC15MixedLevel(a, b *Entry) bool {
	nd := func(e *Entry) bool { return e != nil && !vtC15DirKind(e) && e.Kind != EntryKind_Untracked }
	if (vtC15DirKind(a) && nd(b)) || (vtC15DirKind(b) && nd(a)) {
		return true
	}
	for _, n := range vtC15Names(a, b) {
		if vtC15MixedLevel(vtC15Child(a, n), vtC15Child(b, n)) {
			return true
		}
	}
	return false
}

func VerifC15Reify() {
	shape := vParam("shape", 3)
	anc := vtGenTree(shape, 0)
	alpha := vtGenTree(shape, vtAllowUnsync|vtAllowPhantom)
	beta := vtGenTree(shape, vtAllowUnsync|vtAllowPhantom)
	// without a phantom directory the function must be the identity; keep one
	// representative of that case per shape by requiring a phantom otherwise
	phantoms := vtC15CountKind(alpha, EntryKind_PhantomDirectory) + vtC15CountKind(beta, EntryKind_PhantomDirectory)
	if vParam("onlyphantom", 1) == 1 {
		vAssume(phantoms > 0)
	}
	// mixed = 0: no conjoined level where one side holds a directory kind and
	// the other tracked non-directory content (exact oracle); 1: only triples
	// with such a level that two scans sharing an ignore list can produce
	// (only-if oracle, see the head of this file).
	mixed := vParam("mixed", 0) == 1
	if mixed {
		vAssume(vtC15MixedLevel(alpha, beta))
		vAssume(!vtC15Incoherent(alpha, beta))
	} else {
		vAssume(!vtC15MixedLevel(alpha, beta))
	}
	vNote("ancestor=" + vtShow(anc) + " alpha=" + vtShow(alpha) + " beta=" + vtShow(beta))
	ancBefore, alphaBefore, betaBefore := vtClone(anc), vtClone(alpha), vtClone(beta)

	ra, rb, na, nb := ReifyPhantomDirectories(anc, alpha, beta)
	vCover("reified")

	vAssert(vtDeepEqual(anc, ancBefore), "the ancestor is not mutated")
	vAssert(vtDeepEqual(alpha, alphaBefore), "the alpha snapshot is not mutated")
	vAssert(vtDeepEqual(beta, betaBefore), "the beta snapshot is not mutated")

	vAssert(vtC15CountKind(ra, EntryKind_PhantomDirectory) == 0, "no phantom directory remains in alpha")
	vAssert(vtC15CountKind(rb, EntryKind_PhantomDirectory) == 0, "no phantom directory remains in beta")
	vAssert(na == vtC15CountKind(ra, EntryKind_Directory), "alpha directory count equals a recount of the result")
	vAssert(nb == vtC15CountKind(rb, EntryKind_Directory), "beta directory count equals a recount of the result")

	if mixed {
		if vtC15CountKind(ra, EntryKind_Directory)+vtC15CountKind(rb, EntryKind_Directory) >
			vtC15CountKind(alpha, EntryKind_Directory)+vtC15CountKind(beta, EntryKind_Directory) {
			vCover("to-tracked")
		}
		if vtC15CountKind(ra, EntryKind_Untracked)+vtC15CountKind(rb, EntryKind_Untracked) >
			vtC15CountKind(alpha, EntryKind_Untracked)+vtC15CountKind(beta, EntryKind_Untracked) {
			vCover("to-untracked")
		}
		vAssert(vtC15Conforms(anc, alpha, beta, alpha, ra), "alpha: a phantom directory becomes tracked only if tracked content lies below or the ancestor has a directory there, and always if that content is a file, link or tracked directory; otherwise untracked without contents; nothing else changes")
		vAssert(vtC15Conforms(anc, alpha, beta, beta, rb), "beta: a phantom directory becomes tracked only if tracked content lies below or the ancestor has a directory there, and always if that content is a file, link or tracked directory; otherwise untracked without contents; nothing else changes")
		return
	}

	wa := vtC15Expected(anc, alpha, beta, alpha)
	wb := vtC15Expected(anc, alpha, beta, beta)
	if vtC15CountKind(wa, EntryKind_Directory)+vtC15CountKind(wb, EntryKind_Directory) >
		vtC15CountKind(alpha, EntryKind_Directory)+vtC15CountKind(beta, EntryKind_Directory) {
		vCover("to-tracked")
	}
	if vtC15CountKind(wa, EntryKind_Untracked)+vtC15CountKind(wb, EntryKind_Untracked) >
		vtC15CountKind(alpha, EntryKind_Untracked)+vtC15CountKind(beta, EntryKind_Untracked) {
		vCover("to-untracked")
	}
	vAssert(vtDeepEqual(ra, wa), "alpha: phantom directories become tracked exactly when tracked content lies below or the ancestor has a directory there, otherwise untracked without contents; nothing else changes")
	vAssert(vtDeepEqual(rb, wb), "beta: phantom directories become tracked exactly when tracked content lies below or the ancestor has a directory there, otherwise untracked without contents; nothing else changes")
}

// VerifC15ProblematicUnderMask: the one mixed level that honest endpoints can
// produce, as a concrete scenario.  Ignore rules "p", "!p/a/keep": p and p/a
// are ignore-masked directories (phantom); on alpha p/a cannot be scanned
// (mount point / permission denied) and is recorded as problematic, on beta p/a
// is either absent or an ordinary directory holding only ignored content.
// Whether the problematic entry makes alpha's p a tracked directory is not
// fixed by the property (the code's answer differs between the two variants);
// what is: the result conforms to the only-if rule, the problematic entry is
// either kept as it is or hidden together with its untracked parent, and nothing
// is invented.
func VerifC15ProblematicUnderMask() {
	mk := func(withBetaSub bool) (*Entry, *Entry) {
		alpha := &Entry{Kind: EntryKind_Directory, Contents: map[string]*Entry{
			"a": {Kind: EntryKind_PhantomDirectory, Contents: map[string]*Entry{
				"a": {Kind: EntryKind_Problematic, Problem: "scan crossed filesystem boundary"},
			}},
		}}
		beta := &Entry{Kind: EntryKind_Directory, Contents: map[string]*Entry{
			"a": {Kind: EntryKind_PhantomDirectory},
		}}
		if withBetaSub {
			beta.Contents["a"].Contents = map[string]*Entry{
				"a": {Kind: EntryKind_PhantomDirectory, Contents: map[string]*Entry{"b": {Kind: EntryKind_Untracked}}},
			}
		}
		return alpha, beta
	}
	for _, withBetaSub := range []bool{false, true} {
		alpha, beta := mk(withBetaSub)
		vNote("alpha=" + vtShow(alpha) + " beta=" + vtShow(beta))
		ra, rb, na, nb := ReifyPhantomDirectories(nil, alpha, beta)
		if withBetaSub {
			vCover("beta has the sub-directory")
		} else {
			vCover("beta lacks the sub-directory")
		}
		vAssert(vtC15Conforms(nil, alpha, beta, alpha, ra), "problematic entry under an ignore mask: alpha result conforms to the only-if rule")
		vAssert(vtC15Conforms(nil, alpha, beta, beta, rb), "problematic entry under an ignore mask: beta result conforms to the only-if rule")
		vAssert(na == vtC15CountKind(ra, EntryKind_Directory), "problematic entry under an ignore mask: alpha directory count equals a recount of the result")
		vAssert(nb == vtC15CountKind(rb, EntryKind_Directory), "problematic entry under an ignore mask: beta directory count equals a recount of the result")
	}
}

package core

// C15(b): ReifyPhantomDirectories against the documented rule.
//
// Rule (phantom.go, entry.proto, property text): a phantom directory is
// reified to a tracked directory exactly when tracked content exists below it
// (on either side of the conjoined traversal - tracked content is any entry
// other than an untracked one: files, symbolic links, problematic entries and
// tracked directories, "a problematic entry is implicitly a tracked entry") or
// when the ancestor holds a directory at its path; otherwise it becomes an
// untracked entry without contents.  Nothing else changes, the inputs are not
// mutated, and the returned directory counts are those of the results.

func vtC15DirKind(e *Entry) bool {
	return e != nil && (e.Kind == EntryKind_Directory || e.Kind == EntryKind_PhantomDirectory)
}

func vtC15Child(e *Entry, name string) *Entry {
	if !vtC15DirKind(e) {
		return nil
	}
	return e.Contents[name]
}

// vtC15Names: names below the conjoined level (either side).
func vtC15Names(a, b *Entry) []string {
	var out []string
	seen := map[string]bool{}
	for _, e := range []*Entry{a, b} {
		if !vtC15DirKind(e) {
			continue
		}
		for n := range e.Contents {
			if !seen[n] {
				seen[n] = true
				out = append(out, n)
			}
		}
	}
	return out
}

// vtC15TrackedBelow: a phantom directory at this conjoined level is to become
// tracked.
func vtC15TrackedBelow(anc, a, b *Entry) bool {
	if anc != nil && anc.Kind == EntryKind_Directory {
		return true
	}
	for _, n := range vtC15Names(a, b) {
		if vtC15TrackedAt(vtC15Child(anc, n), vtC15Child(a, n), vtC15Child(b, n)) {
			return true
		}
	}
	return false
}

// vtC15TrackedAt: tracked content exists at or below this conjoined level.
func vtC15TrackedAt(anc, a, b *Entry) bool {
	for _, e := range []*Entry{a, b} {
		if e == nil {
			continue
		}
		switch e.Kind {
		case EntryKind_Untracked:
		case EntryKind_PhantomDirectory:
			if vtC15TrackedBelow(anc, a, b) {
				return true
			}
		default: // file, symbolic link, problematic, tracked directory
			return true
		}
	}
	return false
}

// vtC15Expected builds the documented result for one side.
func vtC15Expected(anc, a, b *Entry, side *Entry) *Entry {
	if side == nil {
		return nil
	}
	switch side.Kind {
	case EntryKind_Directory, EntryKind_PhantomDirectory:
		if side.Kind == EntryKind_PhantomDirectory && !vtC15TrackedBelow(anc, a, b) {
			return &Entry{Kind: EntryKind_Untracked}
		}
		r := &Entry{Kind: EntryKind_Directory}
		for name, c := range side.Contents {
			if r.Contents == nil {
				r.Contents = make(map[string]*Entry)
			}
			r.Contents[name] = vtC15Expected(vtC15Child(anc, name), vtC15Child(a, name), vtC15Child(b, name), c)
		}
		return r
	default:
		return vtClone(side)
	}
}

func vtC15CountKind(e *Entry, k EntryKind) uint64 {
	n := uint64(0)
	var walk func(e *Entry)
	walk = func(e *Entry) {
		if e == nil {
			return
		}
		if e.Kind == k {
			n++
		}
		for _, c := range e.Contents {
			walk(c)
		}
	}
	walk(e)
	return n
}

// vtC15MixedLevel: somewhere one side holds a directory kind where the other
// side holds tracked non-directory content (file, link, problematic).
func vtC15MixedLevel(a, b *Entry) bool {
	nd := func(e *Entry) bool { return e != nil && !vtC15DirKind(e) && e.Kind != EntryKind_Untracked }
	if (vtC15DirKind(a) && nd(b)) || (vtC15DirKind(b) && nd(a)) {
		return true
	}
	for _, n := range vtC15Names(a, b) {
		if vtC15MixedLevel(vtC15Child(a, n), vtC15Child(b, n)) {
			return true
		}
	}
	return false
}

func VerifC15Reify() {
	shape := vParam("shape", 3)
	anc := vtGenTree(shape, 0)
	alpha := vtGenTree(shape, vtAllowUnsync|vtAllowPhantom)
	beta := vtGenTree(shape, vtAllowUnsync|vtAllowPhantom)
	// without a phantom directory the function must be the identity; keep one
	// representative of that case per shape by requiring a phantom otherwise
	phantoms := vtC15CountKind(alpha, EntryKind_PhantomDirectory) + vtC15CountKind(beta, EntryKind_PhantomDirectory)
	if vParam("onlyphantom", 1) == 1 {
		vAssume(phantoms > 0)
	}
	// mixed = 0: exclude conjoined levels where one side holds a directory
	// kind and the other tracked non-directory content; 1: only those; 2: all.
	switch vParam("mixed", 2) {
	case 0:
		vAssume(!vtC15MixedLevel(alpha, beta))
	case 1:
		vAssume(vtC15MixedLevel(alpha, beta))
	}
	vNote("ancestor=" + vtShow(anc) + " alpha=" + vtShow(alpha) + " beta=" + vtShow(beta))
	ancBefore, alphaBefore, betaBefore := vtClone(anc), vtClone(alpha), vtClone(beta)

	ra, rb, na, nb := ReifyPhantomDirectories(anc, alpha, beta)
	vCover("reified")

	vAssert(vtDeepEqual(anc, ancBefore), "the ancestor is not mutated")
	vAssert(vtDeepEqual(alpha, alphaBefore), "the alpha snapshot is not mutated")
	vAssert(vtDeepEqual(beta, betaBefore), "the beta snapshot is not mutated")

	vAssert(vtC15CountKind(ra, EntryKind_PhantomDirectory) == 0, "no phantom directory remains in alpha")
	vAssert(vtC15CountKind(rb, EntryKind_PhantomDirectory) == 0, "no phantom directory remains in beta")
	vAssert(na == vtC15CountKind(ra, EntryKind_Directory), "alpha directory count equals a recount of the result")
	vAssert(nb == vtC15CountKind(rb, EntryKind_Directory), "beta directory count equals a recount of the result")

	wa := vtC15Expected(anc, alpha, beta, alpha)
	wb := vtC15Expected(anc, alpha, beta, beta)
	if vtC15CountKind(wa, EntryKind_Directory)+vtC15CountKind(wb, EntryKind_Directory) >
		vtC15CountKind(alpha, EntryKind_Directory)+vtC15CountKind(beta, EntryKind_Directory) {
		vCover("to-tracked")
	}
	if vtC15CountKind(wa, EntryKind_Untracked)+vtC15CountKind(wb, EntryKind_Untracked) >
		vtC15CountKind(alpha, EntryKind_Untracked)+vtC15CountKind(beta, EntryKind_Untracked) {
		vCover("to-untracked")
	}
	vAssert(vtDeepEqual(ra, wa), "alpha: phantom directories become tracked exactly when tracked content lies below or the ancestor has a directory there, otherwise untracked without contents; nothing else changes")
	vAssert(vtDeepEqual(rb, wb), "beta: phantom directories become tracked exactly when tracked content lies below or the ancestor has a directory there, otherwise untracked without contents; nothing else changes")
}

// VerifC15ProblematicUnderMask: the concrete scenario behind the mixed-level
// violations that honest endpoints can produce.  Ignore rules "p", "!p/a/keep":
// p and p/a are ignore-masked directories (phantom); on alpha p/a cannot be
// scanned (mount point / permission denied) and is recorded as problematic, on
// beta p/a is an ordinary directory holding only ignored content.  By the
// documented rule a problematic entry is tracked content, so alpha's p must be
// reified to a tracked directory (as it is when beta has no p/a at all).
func VerifC15ProblematicUnderMask() {
	mk := func(withBetaSub bool) (*Entry, *Entry) {
		alpha := &Entry{Kind: EntryKind_Directory, Contents: map[string]*Entry{
			"a": {Kind: EntryKind_PhantomDirectory, Contents: map[string]*Entry{
				"a": {Kind: EntryKind_Problematic, Problem: "scan crossed filesystem boundary"},
			}},
		}}
		beta := &Entry{Kind: EntryKind_Directory, Contents: map[string]*Entry{
			"a": {Kind: EntryKind_PhantomDirectory},
		}}
		if withBetaSub {
			beta.Contents["a"].Contents = map[string]*Entry{
				"a": {Kind: EntryKind_PhantomDirectory, Contents: map[string]*Entry{"b": {Kind: EntryKind_Untracked}}},
			}
		}
		return alpha, beta
	}
	want := &Entry{Kind: EntryKind_Directory, Contents: map[string]*Entry{
		"a": {Kind: EntryKind_Directory, Contents: map[string]*Entry{
			"a": {Kind: EntryKind_Problematic, Problem: "scan crossed filesystem boundary"},
		}},
	}}

	alpha, beta := mk(false)
	ra, _, _, _ := ReifyPhantomDirectories(nil, alpha, beta)
	vCover("beta lacks the sub-directory")
	vAssert(vtDeepEqual(ra, want), "beta lacks p/a: alpha's masked directory holding a problematic entry becomes tracked")

	alpha, beta = mk(true)
	vNote("alpha=" + vtShow(alpha) + " beta=" + vtShow(beta))
	ra, _, _, _ = ReifyPhantomDirectories(nil, alpha, beta)
	vCover("beta has the sub-directory")
	vAssert(vtDeepEqual(ra, want), "beta holds an ignored-only p/a: alpha's masked directory holding a problematic entry becomes tracked all the same")
}

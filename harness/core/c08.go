package core

import (
	"google.golang.org/protobuf/types/known/timestamppb"

	"github.com/mutagen-io/mutagen/pkg/filesystem"
)

// C08: transitions never destroy content changed after the scan.  The on-disk
// node and the scan-time record (cache entry / expected entry) are independent
// symbolic values; whenever the node is gone or replaced afterwards, every
// recorded attribute must have matched.

func vfRunOne(path string, old, nw *Entry, cache *Cache) ([]*Entry, []*Problem) {
	results, problems, _ := Transition(vfCtx{vfw.cancelCh}, "/p/root", []*Change{{Path: path, Old: old, New: nw}}, cache,
		SymbolicLinkMode_SymbolicLinkModePortable, filesystem.Mode(0600), filesystem.Mode(0700), nil, false, vfProvider{})
	return results, problems
}

func VerifC08File() {
	w := vfNewWorld(0, false)
	root := &vfNode{kind: vfKDir, perm: 0700, fileID: 1}
	w.top.add("root", root)

	// what the scan recorded
	vLabel("expected-digest")
	old := &Entry{Kind: EntryKind_File, Digest: []byte{vU8()}, Executable: vBool()}
	vLabel("cached")
	cMode, cSize, cID := vU32(), vU64(), vU64()
	cSec, cNsec := int64(vInt(0, 1<<20)), int32(vInt(0, 999999999))
	cDigest := []byte{vU8()}
	// reachable-state precondition: cache entries are only ever recorded by
	// scanner.file from the metadata of a regular file
	vAssume(filesystem.Mode(cMode)&filesystem.ModeTypeMask == filesystem.ModeTypeFile)
	cache := &Cache{Entries: map[string]*CacheEntry{"x": {
		Mode: cMode, Size: cSize, FileID: cID, Digest: cDigest,
		ModificationTime: &timestamppb.Timestamp{Seconds: cSec, Nanos: cNsec},
	}}}

	// what is on disk now
	vLabel("disk")
	var node *vfNode
	switch vChoose(4) {
	case 0:
		node = &vfNode{kind: vfKFile, perm: filesystem.Mode(vU32()) & 0777, size: vU64(), fileID: vU64(),
			mSec: int64(vInt(0, 1<<20)), mNsec: int64(vInt(0, 999999999)), content: []byte{vU8()}}
	case 1:
		node = &vfNode{kind: vfKDir, perm: 0700, fileID: 7}
	case 2:
		node = &vfNode{kind: vfKLink, target: "t", fileID: 7}
	default:
		node = &vfNode{kind: vfKOther, perm: 0600, fileID: 7}
	}
	vLabel("")
	root.add("x", node)

	// removal, or replacement by other content (staged and present)
	var nw *Entry
	if vBool() {
		nw = &Entry{Kind: EntryKind_File, Digest: []byte{vU8()}, Executable: vBool()}
		w.staged["/staging/x"] = &vfNode{kind: vfKFile, perm: 0600, content: append([]byte(nil), nw.Digest...), size: 1, fileID: 999}
		vAssume(!vtDeepEqual(old, nw))
	}
	permBefore := node.perm
	results, problems := vfRunOne("x", old, nw, cache)

	after := root.kids["x"]
	destroyed := after != node
	modified := after == node && node.kind == vfKFile && node.perm != permBefore
	if destroyed || modified {
		vCover("destroyed-or-modified")
		vAssert(node.kind == vfKFile, "only a regular file is removed or replaced where a file was recorded")
		if node.kind == vfKFile {
			vAssert(uint32(filesystem.ModeTypeFile|permBefore) == cMode, "removed/replaced file had the recorded type and permissions")
			vAssert(node.size == cSize, "removed/replaced file had the recorded size")
			vAssert(node.mSec == cSec && node.mNsec == int64(cNsec), "removed/replaced file had the recorded modification time")
			vAssert(node.fileID == cID, "removed/replaced file had the recorded file identity")
		}
	} else if len(results) == 1 && nw != nil && vtDeepEqual(results[0], nw) {
		// a permission-only swap whose target mode the file already had
		vCover("no-visible-change")
	} else {
		vCover("left-alone")
		vAssert(len(problems) > 0, "a path left as it is is reported as a problem")
		vAssert(len(results) == 1 && vtDeepEqual(results[0], old), "a refused transition reports the old entry")
	}
}

func VerifC08Link() {
	w := vfNewWorld(0, false)
	root := &vfNode{kind: vfKDir, perm: 0700, fileID: 1}
	w.top.add("root", root)
	vLabel("expected-target")
	n := vRange(1, vParam("maxlen", 2))
	old := &Entry{Kind: EntryKind_SymbolicLink, Target: vString(n)}
	vLabel("disk-target")
	var node *vfNode
	if vChoose(3) > 0 {
		node = &vfNode{kind: vfKLink, target: vString(vRange(1, vParam("maxlen", 2))), fileID: 7}
	} else {
		node = &vfNode{kind: vfKFile, perm: 0600, content: []byte{1}, size: 1, fileID: 7}
	}
	vLabel("")
	root.add("x", node)
	results, problems := vfRunOne("x", old, nil, &Cache{Entries: map[string]*CacheEntry{}})
	if root.kids["x"] != node {
		vCover("removed")
		vAssert(node.kind == vfKLink && node.target == old.Target, "a removed symbolic link had exactly the recorded target")
	} else {
		vCover("left-alone")
		vAssert(len(problems) > 0, "a link left as it is is reported as a problem")
		vAssert(len(results) == 1 && vtDeepEqual(results[0], old), "a refused removal reports the old entry")
	}
}

// VerifC08Directory: a directory is removed only if every on-disk child was
// known to the plan; unknown children (and their ancestors) stay and are
// reported as problems.  This is also the execution half of C03.
func VerifC08Directory() {
	w := vfNewWorld(vParam("faults", 0), false)
	root := &vfNode{kind: vfKDir, perm: 0700, fileID: 1}
	w.top.add("root", root)
	shape := vParam("shape", 2)
	old := vtGenNode(shape-1, []string{"a", "b"}, 0, false)
	vAssume(old.Kind == EntryKind_Directory)
	cache := &Cache{Entries: map[string]*CacheEntry{}}
	dir := vfMaterialize(old, "x", cache)
	root.add("x", dir)
	// content the plan does not know about, at the top or one level down
	type unk struct {
		holder *vfNode
		name   string
		node   *vfNode
		path   string
	}
	var unknown []unk
	mk := func() *vfNode {
		switch vChoose(3) {
		case 0:
			return &vfNode{kind: vfKFile, perm: 0600, content: []byte{9}, size: 1, fileID: 50}
		case 1:
			return &vfNode{kind: vfKOther, perm: 0600, fileID: 51}
		default:
			return &vfNode{kind: vfKDir, perm: 0700, fileID: 52}
		}
	}
	if vBool() {
		u := mk()
		dir.add("u", u)
		unknown = append(unknown, unk{dir, "u", u, "x/u"})
	}
	if sub := dir.kids["a"]; sub != nil && sub.kind == vfKDir && vBool() {
		u := mk()
		sub.add("u", u)
		unknown = append(unknown, unk{sub, "u", u, "x/a/u"})
	}
	vNote("old=" + vtShow(old))
	results, problems := vfRunOne("x", old, nil, cache)
	if len(unknown) == 0 {
		vCover("no-unknown")
		if root.kids["x"] == nil {
			vCover("removed")
			vAssert(len(results) == 1 && results[0] == nil, "a removed directory is reported as gone")
		}
		return
	}
	vCover("unknown-content")
	vAssert(root.kids["x"] == dir, "a directory holding unknown content is not removed")
	for _, u := range unknown {
		vAssert(u.holder.kids[u.name] == u.node, "unknown content stays where it is")
		reported := false
		for _, p := range problems {
			if p.Path == u.path {
				reported = true
			}
			// an injected I/O fault may keep an enclosing directory from being
			// opened or listed: the unknown entry is then never seen and the
			// problem is reported for that directory
			if w.faultsTaken > 0 && vtAtOrBelow(p.Path, u.path) {
				reported = true
			}
		}
		vAssert(reported, "unknown content is reported as a problem at its path (or, after an I/O fault, at an enclosing directory)")
	}
	if sub := dir.kids["a"]; len(unknown) > 0 && unknown[len(unknown)-1].holder != dir {
		vAssert(sub == unknown[len(unknown)-1].holder, "the parent of unknown content stays")
	}
	vAssert(len(results) == 1 && results[0] != nil && results[0].Kind == EntryKind_Directory, "the reported entry still lists the directory")
}

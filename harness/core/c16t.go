package core

import (
	"github.com/mutagen-io/mutagen/pkg/filesystem"
)

// C16, transition side: "every link accepted for synchronization, whether
// found by a scan or created by a transition, resolves to a location inside
// the synchronization root".  VerifC16Normalize (c16.go) drives the portable
// check alone; that says nothing about how the transition code USES it - which
// path it hands over, whether the check is made for every creation, whether a
// decision taken for one link leaks into the next one.  Here the real
// core.Transition (whole function, portable mode) is executed on the
// filesystem model for a plan of SEVERAL symbolic link creations at different
// depths, every target symbolic, and the property is asserted on the model
// afterwards: every symbolic link that exists below the root - wherever
// Transition put it - has a target of none of the rejected classes and
// resolves (own lexical POSIX resolution, from the directory that really
// holds the link) inside the root.  The oracle does not look at the results or
// at what the gate said: a link on disk IS a link created by the transition.
//
// The directories root/d, root/d/d, ... are a constant frame; the plan's
// changes are ordered (Transition processes them in order), so "deep link
// first, shallow link second" and the reverse are both explored, with equal
// and with different targets (the solver chooses the bytes).

var verifStubs_VerifC16Transition = verifStubsFS

// vc16Classes says which of the rejected classes named by the property a
// target belongs to.
func vc16Classes(target string) (empty, long, absolute, colon, backslash bool) {
	n := len(target)
	if n == 0 {
		return true, false, false, false, false
	}
	long = n > 247
	absolute = target[0] == '/'
	for i := 0; i < n; i++ {
		if target[i] == ':' {
			colon = true
		}
		if target[i] == '\\' {
			backslash = true
		}
	}
	return
}

// vc16Escapes is the own lexical POSIX resolution of a target relative to the
// directory holding the link, which lies `level` directories below the
// synchronization root: consecutive and trailing slashes collapse, "." stays,
// ".." goes up, anything else goes down.  True if the walk leaves the root.
func vc16Escapes(level int, target string) bool {
	n := len(target)
	start := 0
	for i := 0; i <= n; i++ {
		if i < n && target[i] != '/' {
			continue
		}
		clen := i - start
		switch {
		case clen == 0:
		case clen == 1 && target[start] == '.':
		case clen == 2 && target[start] == '.' && target[start+1] == '.':
			level--
			vCover("dotdot")
			if level < 0 {
				return true
			}
		default:
			level++
		}
		start = i + 1
	}
	return false
}

// vc16Frame puts constant "../" pieces, one per directory between the root and
// the link, in front of the symbolic part of a target, so that the symbolic
// part is resolved exactly at the root boundary whatever the depth of the link
// (a gate that is handed a path one level too deep shows with 2 symbolic bytes
// instead of 3*depth+2).  up=0: never, up=1: always, up=2: either.
func vc16Frame(up, depth int, target string) string {
	if up == 0 || depth == 0 || (up == 2 && vBool()) {
		return target
	}
	vCover("framed-to-the-root-boundary")
	for i := 0; i < depth; i++ {
		target = "../" + target
	}
	return target
}

// vc16LinkHeld asserts the property for one link that exists on disk after a
// transition; its holding directory is `level` directories below the root.
func vc16LinkHeld(level int, target string) {
	empty, long, absolute, colon, backslash := vc16Classes(target)
	vAssert(!empty, "no link with an empty target is created")
	vAssert(!long, "no link with an over-long target is created")
	vAssert(!absolute, "no link with an absolute target is created")
	vAssert(!colon, "no link with a colon-containing target is created")
	vAssert(!backslash, "no link with a backslash-containing target is created")
	if empty || absolute {
		return
	}
	vAssert(!vc16Escapes(level, target), "a link created by the transition never resolves outside the synchronization root")
}

// vc16Walk applies vc16LinkHeld to every link below the directory node n
// (level = number of directories between the root and n) and counts them.
func vc16Walk(n *vfNode, level int) int {
	count := 0
	for _, name := range n.names {
		c := n.kids[name]
		switch c.kind {
		case vfKLink:
			count++
			vc16LinkHeld(level, c.target)
		case vfKDir:
			count += vc16Walk(c, level+1)
		}
	}
	return count
}

func VerifC16Transition() {
	maxDepth := vParam("maxdepth", 1)
	maxLen := vParam("maxlen", 2)
	minLen := vParam("minlen", 1)
	links := vParam("links", 2)
	wrap := vParam("wrap", 0) == 1
	pad := vParam("pad", 0)
	up := vParam("up", 0)

	w := vfNewWorld(0, false)
	root := &vfNode{kind: vfKDir, perm: 0700, fileID: 1}
	w.top.add("root", root)
	dirs := []string{""}
	cur := root
	for i := 0; i < maxDepth; i++ {
		c := &vfNode{kind: vfKDir, perm: 0700, fileID: uint64(2 + i)}
		cur.add("d", c)
		cur = c
		dirs = append(dirs, vtJoin(dirs[i], "d"))
	}

	names := []string{"x", "y", "z"}
	labels := []string{"target-1", "target-2", "target-3"}
	var changes []*Change
	var depths []int
	var targets []string
	for i := 0; i < links && i < len(names); i++ {
		depth := vRange(0, maxDepth)
		n := vRange(minLen, maxLen)
		vLabel(labels[i])
		target := vString(n)
		vLabel("")
		if pad > 0 {
			// a constant run of name bytes in front: the length limit is reached
			// with few symbolic bytes
			b := make([]byte, pad)
			for j := range b {
				b[j] = 'a'
			}
			target = string(b) + target
			vCover("long-target")
		}
		path := vtJoin(dirs[depth], names[i])
		wrapped := wrap && vBool()
		if wrapped {
			depth++
		}
		target = vc16Frame(up, depth, target)
		link := &Entry{Kind: EntryKind_SymbolicLink, Target: target}
		nw := link
		if wrapped {
			// the link arrives as content of a created directory (createDirectory
			// computes the content path)
			nw = &Entry{Kind: EntryKind_Directory, Contents: map[string]*Entry{"a": link}}
			vCover("link-inside-created-directory")
		}
		vNote("change: create " + vtShow(nw) + " at " + path)
		changes = append(changes, &Change{Path: path, New: nw})
		depths = append(depths, depth)
		targets = append(targets, target)
	}

	results, _, _ := Transition(vfCtx{w.cancelCh}, "/p/root", changes, &Cache{Entries: map[string]*CacheEntry{}},
		SymbolicLinkMode_SymbolicLinkModePortable, filesystem.Mode(0600), filesystem.Mode(0700), nil, false, vfProvider{})

	vAssert(len(results) == len(changes), "one result per transition")

	// The property, on what is on disk now.
	created := vc16Walk(root, 0)

	// Reachability witnesses (structure of the explored plans).
	if created == 0 {
		vCover("nothing-created")
	}
	if created < len(changes) {
		vCover("creation-refused")
	}
	if created >= 1 {
		vCover("link-created")
	}
	if created >= 2 {
		vCover("two-links-created")
		if len(changes) == 2 {
			if depths[0] > depths[1] {
				vCover("deeper-then-shallower")
			}
			if depths[0] < depths[1] {
				vCover("shallower-then-deeper")
			}
			if targets[0] == targets[1] {
				vCover("same-target-twice")
			}
		}
	}
	if len(changes) == 2 && created == 1 && depths[0] != depths[1] && targets[0] == targets[1] {
		vCover("same-target-accepted-at-one-depth-only")
	}
}

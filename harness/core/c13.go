package core

import (
	"google.golang.org/protobuf/types/known/timestamppb"

	"github.com/mutagen-io/mutagen/pkg/filesystem"
	"github.com/mutagen-io/mutagen/pkg/filesystem/behavior"
	"github.com/mutagen-io/mutagen/pkg/synchronization/core/ignore"
)

// C13: an accelerated scan (baseline + caches + recheck paths) equals a cold
// scan, for one edit whose path is reported in the recheck set.

func vfColdScan(m vfScanModes, g *vfIgnorer) (*Snapshot, *Cache, ignore.IgnoreCache, error) {
	return Scan(vfCtx{vfw.cancelCh}, "/p/root", nil, nil, &vfHasher{}, nil, g, nil, behavior.ProbeMode_ProbeModeProbe, m.symlinks, m.permissions)
}

// vfEdit applies one filesystem edit below the root and returns its path.
func vfEdit(root *vfNode) string {
	w := vfw
	// choose a target among: a, b, a/a (if a is a directory)
	paths := []string{"a", "b"}
	if a := root.kids["a"]; a != nil && a.kind == vfKDir {
		paths = append(paths, "a/a")
	}
	p := paths[vChoose(len(paths))]
	comps := vtSplit(p)
	parent := root
	if len(comps) == 2 {
		parent = root.kids["a"]
	}
	name := comps[len(comps)-1]
	cur := parent.kids[name]
	w.nextID++
	switch vChoose(6) {
	case 0: // delete
		vAssume(cur != nil)
		parent.del(name)
		vNote("edit: delete " + p)
	case 1: // create / replace by a new file
		parent.add(name, vfGenFile(1))
		vNote("edit: new file at " + p)
	case 2: // content edit (changes modification time)
		vAssume(cur != nil && cur.kind == vfKFile)
		cur.content = vBytes(vRange(0, 1))
		cur.size = uint64(len(cur.content))
		cur.mSec += 1
		vNote("edit: content of " + p)
	case 3: // chmod
		vAssume(cur != nil && cur.kind == vfKFile)
		cur.perm = filesystem.Mode(vU16()) & 0777
		vNote("edit: mode of " + p)
	case 4: // replace by a directory (possibly with a child)
		d := &vfNode{kind: vfKDir, perm: 0700, fileID: w.nextID}
		if vBool() {
			d.add("a", vfGenFile(1))
		}
		parent.add(name, d)
		vNote("edit: directory at " + p)
	default: // link (re)target
		parent.add(name, vfGenLink(2))
		vNote("edit: link at " + p)
	}
	return p
}

func vfCachesEqual(a, b *Cache) bool {
	if len(a.Entries) != len(b.Entries) {
		return false
	}
	for p, x := range a.Entries {
		y, ok := b.Entries[p]
		if !ok {
			return false
		}
		if !vAnd(x.Mode == y.Mode, x.Size == y.Size, x.FileID == y.FileID, vtBytesEq(x.Digest, y.Digest),
			x.ModificationTime.GetSeconds() == y.ModificationTime.GetSeconds(), x.ModificationTime.GetNanos() == y.ModificationTime.GetNanos()) {
			return false
		}
	}
	return true
}

func VerifC13() {
	w := vfNewWorld(0, false)
	root := vfGenDisk(vParam("depth", 1))
	w.top.add("root", root)
	vfPreserves = vBool()
	m := vfModes()
	g := &vfIgnorer{decided: map[string]ignore.IgnoreStatus{}}
	vNote("disk=" + vfShowDisk(root))
	snap0, cache0, icache0, err := vfColdScan(m, g)
	vAssert(err == nil, "initial scan succeeds")
	if err != nil {
		return
	}
	p := vfEdit(root)
	recheck := map[string]bool{p: true}
	if vBool() {
		recheck["b"] = true // extra paths are allowed
	}
	vNote("after=" + vfShowDisk(root))
	acc, accCache, _, err1 := Scan(vfCtx{w.cancelCh}, "/p/root", snap0, recheck, &vfHasher{}, cache0, g, icache0,
		behavior.ProbeMode_ProbeModeProbe, m.symlinks, m.permissions)
	cold, coldCache, _, err2 := vfColdScan(m, g)
	vAssert(err1 == nil && err2 == nil, "both scans succeed")
	if err1 != nil || err2 != nil {
		return
	}
	vCover("compared")
	vAssert(vtDeepEqual(acc.Content, cold.Content), "accelerated scan content equals a fresh full scan")
	vAssert(acc.Directories == cold.Directories && acc.Files == cold.Files && acc.SymbolicLinks == cold.SymbolicLinks && acc.TotalFileSize == cold.TotalFileSize, "accelerated scan counts equal a fresh full scan")
	vAssert(vfCachesEqual(accCache, coldCache), "accelerated scan cache equals a fresh full scan's cache")
}

// VerifC13File: digest reuse in scanner.file is keyed on type, modification
// time, size and file identity; cache entry reuse additionally on the full mode.
func VerifC13File() {
	w := vfNewWorld(0, false)
	root := &vfNode{kind: vfKDir, perm: 0700, fileID: 1}
	w.top.add("root", root)
	vLabel("disk")
	f := &vfNode{kind: vfKFile, perm: filesystem.Mode(vU16()) & 0777, content: []byte{vU8()}, size: 1, fileID: vU64(),
		mSec: int64(vInt(0, 1<<20)), mNsec: int64(vInt(0, 999999999))}
	root.add("f", f)
	vLabel("cached")
	cMode, cSize, cID := vU32(), vU64(), vU64()
	cSec, cNsec := int64(vInt(0, 1<<20)), int32(vInt(0, 999999999))
	cDigest := []byte{0x5a, vU8()}
	vLabel("")
	vAssume(filesystem.Mode(cMode)&filesystem.ModeTypeMask == filesystem.ModeTypeFile)
	old := &CacheEntry{Mode: cMode, Size: cSize, FileID: cID, Digest: cDigest, ModificationTime: &timestamppb.Timestamp{Seconds: cSec, Nanos: cNsec}}
	baseline := &Snapshot{Content: &Entry{Kind: EntryKind_Directory, Contents: map[string]*Entry{"f": {Kind: EntryKind_File, Digest: cDigest}}}}
	vfPreserves = false
	baseline.PreservesExecutability = false
	g := &vfIgnorer{decided: map[string]ignore.IgnoreStatus{"f": ignore.IgnoreStatusNominal}}
	snap, newCache, _, err := Scan(vfCtx{w.cancelCh}, "/p/root", baseline, map[string]bool{"f": true}, &vfHasher{}, &Cache{Entries: map[string]*CacheEntry{"f": old}}, g, nil,
		behavior.ProbeMode_ProbeModeProbe, SymbolicLinkMode_SymbolicLinkModePortable, PermissionsMode_PermissionsModePortable)
	vAssert(err == nil, "scan succeeds")
	if err != nil {
		return
	}
	e := snap.Content.Contents["f"]
	vAssert(e != nil && e.Kind == EntryKind_File, "the file is listed")
	if e == nil {
		return
	}
	attrsMatch := vAnd(f.size == cSize, f.fileID == cID, f.mSec == cSec, f.mNsec == int64(cNsec))
	if !vtBytesEq(e.Digest, vfDigestOf(f.content)) {
		vCover("digest-reused")
		vAssert(attrsMatch, "a cached digest is reused only if type, modification time, size and file identity all match")
	} else {
		vCover("digest-computed")
	}
	if !attrsMatch {
		vAssert(vtBytesEq(e.Digest, vfDigestOf(f.content)), "changed metadata forces the content to be rehashed")
	}
	ne := newCache.Entries["f"]
	vAssert(ne != nil, "the file has a new cache entry")
	if ne != nil {
		vAssert(ne.Mode == uint32(f.mode()), "new cache entry records the current mode")
		vAssert(ne.Size == f.size && ne.FileID == f.fileID, "new cache entry records the current size and identity")
		vAssert(ne.ModificationTime.GetSeconds() == f.mSec && int64(ne.ModificationTime.GetNanos()) == f.mNsec, "new cache entry records the current modification time")
		vAssert(vtBytesEq(ne.Digest, e.Digest), "new cache entry carries the reported digest")
	}
}

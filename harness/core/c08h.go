package core

import (
	"google.golang.org/protobuf/types/known/timestamppb"

	"github.com/mutagen-io/mutagen/pkg/filesystem"
	"github.com/mutagen-io/mutagen/pkg/filesystem/behavior"
	"github.com/mutagen-io/mutagen/pkg/synchronization/core/ignore"
)

// C08, scan and transition composed: "what the preceding scan recorded" is
// produced by the real Scan (with a cold or a warm digest cache) instead of
// being handed to Transition as a free value.  The harness keeps its own copy
// of the file's attributes as they were on disk when that scan ran; the file
// is then modified arbitrarily; whenever the transition destroys or alters it,
// every attribute must still have had its scan-time value.
//
// The digest cache given to the preceding scan is
//   - absent (cold scan), or
//   - the cache returned by a real earlier Scan, after which the file's
//     permissions (and possibly content, times, identity) changed, or
//   - an arbitrary cache entry (any longer history of scans; over-approximation).

var verifStubs_VerifC08History = verifStubsScan

func vhScan(cache *Cache, baseline *Snapshot, recheck map[string]bool) (*Snapshot, *Cache, error) {
	g := &vfIgnorer{decided: map[string]ignore.IgnoreStatus{"x": ignore.IgnoreStatusNominal}}
	snap, newCache, _, err := Scan(vfCtx{vfw.cancelCh}, "/p/root", baseline, recheck, &vfHasher{}, cache, g, nil,
		behavior.ProbeMode_ProbeModeProbe, SymbolicLinkMode_SymbolicLinkModePortable, PermissionsMode_PermissionsModePortable)
	return snap, newCache, err
}

func VerifC08History() {
	w := vfNewWorld(0, false)
	root := &vfNode{kind: vfKDir, perm: 0700, fileID: 1}
	w.top.add("root", root)
	vfPreserves = true

	vLabel("disk-at-first")
	f := &vfNode{kind: vfKFile, perm: filesystem.Mode(vU16()) & 0777, content: []byte{vU8()}, size: 1, fileID: vU64(),
		mSec: int64(vInt(0, 1<<20)), mNsec: int64(vInt(0, 999999999))}
	vLabel("")
	root.add("x", f)

	// the digest cache (and possibly baseline) the preceding scan starts from
	var cache *Cache
	var baseline *Snapshot
	var recheck map[string]bool
	history := vChoose(vParam("histories", 3))
	switch history {
	case 0:
		vNote("preceding scan is cold")
	case 1:
		snap0, cache0, err := vhScan(nil, nil, nil)
		vAssert(err == nil, "earlier scan succeeds")
		if err != nil {
			return
		}
		cache = cache0
		// between the two scans: chmod, and possibly a content edit or a
		// replacement (which alters modification time or identity)
		vLabel("disk-at-scan")
		f.perm = filesystem.Mode(vU16()) & 0777
		if vBool() {
			oSec, oNsec, oID := f.mSec, f.mNsec, f.fileID
			f.content = []byte{vU8()}
			f.mSec, f.mNsec, f.fileID = int64(vInt(0, 1<<20)), int64(vInt(0, 999999999)), vU64()
			vAssume(vOr(f.mSec != oSec, f.mNsec != oNsec, f.fileID != oID))
		}
		vLabel("")
		if vBool() {
			// accelerated: the earlier snapshot as baseline, the path reported as changed
			baseline, recheck = snap0, map[string]bool{"x": true}
			vNote("preceding scan is accelerated (baseline + recheck path), cache from a real earlier scan")
		} else {
			vNote("preceding scan is a full scan with the cache of a real earlier scan")
		}
	default:
		vLabel("older-cache-entry")
		cMode := vU32()
		vAssume(filesystem.Mode(cMode)&filesystem.ModeTypeMask == filesystem.ModeTypeFile)
		cache = &Cache{Entries: map[string]*CacheEntry{"x": {
			Mode: cMode, Size: vU64(), FileID: vU64(), Digest: []byte{0x5a, vU8()},
			ModificationTime: &timestamppb.Timestamp{Seconds: int64(vInt(0, 1<<20)), Nanos: int32(vInt(0, 999999999))},
		}}}
		vLabel("")
		vNote("preceding scan is a full scan with an arbitrary older cache entry")
	}

	// the preceding scan, and the harness' own record of what it saw
	snap, newCache, err := vhScan(cache, baseline, recheck)
	vAssert(err == nil, "preceding scan succeeds")
	if err != nil {
		return
	}
	sPerm, sSize, sSec, sNsec, sID := f.perm, f.size, f.mSec, f.mNsec, f.fileID
	var old *Entry
	if snap.Content != nil && snap.Content.Kind == EntryKind_Directory {
		old = snap.Content.Contents["x"]
	}
	vAssert(old != nil && old.Kind == EntryKind_File, "the scan lists the file")
	if old == nil || old.Kind != EntryKind_File {
		return
	}

	// arbitrary modification between the scan and the transition
	vLabel("disk-at-transition")
	node := f
	switch vChoose(4) {
	case 0:
		// same directory entry: chmod / edit / touch; a new identity stands
		// for replacement by another file
		f.perm = filesystem.Mode(vU16()) & 0777
		f.size, f.fileID = vU64(), vU64()
		f.mSec, f.mNsec = int64(vInt(0, 1<<20)), int64(vInt(0, 999999999))
		f.content = []byte{vU8()}
	case 1:
		node = &vfNode{kind: vfKDir, perm: 0700, fileID: 7}
	case 2:
		node = &vfNode{kind: vfKLink, target: "t", fileID: 7}
	default:
		node = &vfNode{kind: vfKOther, perm: 0600, fileID: 7}
	}
	vLabel("")
	root.add("x", node)

	// removal, or replacement by other content (staged, maybe on another device)
	var nw *Entry
	if vBool() {
		nw = &Entry{Kind: EntryKind_File, Digest: []byte{0x5a, vU8()}, Executable: vBool()}
		w.staged["/staging/x"] = &vfNode{kind: vfKFile, perm: 0600, content: []byte{nw.Digest[1]}, size: 1, fileID: 999}
		vAssume(!vtDeepEqual(old, nw))
		w.crossDevice = vBool()
	}
	permBefore := node.perm
	results, problems := vfRunOne("x", old, nw, newCache)

	after := root.kids["x"]
	if after != node || (node.kind == vfKFile && node.perm != permBefore) {
		vCover("destroyed-or-modified")
		switch history {
		case 1:
			vCover("destroyed-after-warm-scan")
		case 2:
			vCover("destroyed-after-scan-with-arbitrary-cache")
		}
		vAssert(node.kind == vfKFile, "only a regular file is removed or replaced where the scan saw a file")
		if node.kind == vfKFile {
			vAssert(permBefore == sPerm, "removed/replaced file had the permissions the preceding scan saw")
			vAssert(node.size == sSize, "removed/replaced file had the size the preceding scan saw")
			vAssert(vAnd(node.mSec == sSec, node.mNsec == sNsec), "removed/replaced file had the modification time the preceding scan saw")
			vAssert(node.fileID == sID, "removed/replaced file had the file identity the preceding scan saw")
		}
	} else if len(results) == 1 && nw != nil && vtDeepEqual(results[0], nw) {
		// a permission-only swap whose target mode the file already had
		vCover("no-visible-change")
	} else {
		vCover("left-alone")
		vAssert(len(problems) > 0, "a path left as it is is reported as a problem")
	}
}

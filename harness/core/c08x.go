package core

import (
	"github.com/mutagen-io/mutagen/pkg/filesystem"
)

// C08, creation side: the scan recorded nothing at a path (Old == nil), the
// plan creates content there, and meanwhile something appeared on disk at that
// path.  Whatever is there now differs from what the scan recorded (nothing),
// so it must be neither replaced nor removed nor altered; the path is reported
// as a problem.  The staged file may live on another device (the first rename
// then fails with a cross-device error before the destination is looked at, and
// the copy-to-temporary-then-rename fallback runs).

var verifStubs_VerifC08Create = verifStubsFS

// vfStagePresent makes a staged file available for every file of the entry.
func vfStagePresent(n *Entry, path string) {
	if n == nil {
		return
	}
	if n.Kind == EntryKind_File {
		vfw.staged["/staging/"+path] = &vfNode{kind: vfKFile, perm: 0600, content: append([]byte(nil), n.Digest...), size: uint64(len(n.Digest)), fileID: 999}
		return
	}
	for name, c := range n.Contents {
		vfStagePresent(c, vtJoin(path, name))
	}
}

func VerifC08Create() {
	w := vfNewWorld(vParam("faults", 0), false)
	// what the plan creates: a file, a symbolic link, or a directory with an
	// optional child (file, link or directory)
	nw := vtGenNode(1, []string{"a"}, 0, false)
	if vtHasFile(nw) {
		// only staged files are moved: same device or another one
		w.crossDevice = vBool()
		if w.crossDevice {
			vNote("staging area on another device")
		}
	}

	// where: the root itself, a child of the root, a grandchild
	where := vChoose(3)
	path := vfPlace(where, nil, nil)
	var holder *vfNode
	name := "x"
	switch where {
	case 0:
		holder, name = w.top, "root"
	case 1:
		holder = w.top.kids["root"]
	default:
		holder = w.top.kids["root"].kids["d"]
	}

	// what has meanwhile appeared at the path
	vLabel("appeared")
	var u, uChild *vfNode
	switch vChoose(5) {
	case 0:
	case 1:
		u = &vfNode{kind: vfKFile, perm: filesystem.Mode(vU16()) & 0777, content: []byte{vU8()}, size: 1, fileID: vU64(),
			mSec: int64(vInt(0, 1<<20)), mNsec: int64(vInt(0, 999999999))}
	case 2:
		u = &vfNode{kind: vfKLink, target: vString(1), fileID: 7}
	case 3:
		u = &vfNode{kind: vfKOther, perm: 0600, fileID: 7}
	default:
		u = &vfNode{kind: vfKDir, perm: 0700, fileID: 7}
		if vBool() {
			uChild = &vfNode{kind: vfKFile, perm: 0600, content: []byte{9}, size: 1, fileID: 8}
			u.add("a", uChild)
		}
	}
	vLabel("")
	if u != nil {
		holder.add(name, u)
	}
	vfStagePresent(nw, path)
	vNote("path=" + path + " new=" + vtShow(nw))

	var uPerm filesystem.Mode
	var uContent byte
	var uTarget string
	if u != nil {
		uPerm, uTarget = u.perm, u.target
		if u.kind == vfKFile {
			uContent = u.content[0]
		}
	}

	results, problems := vfRunOne(path, nil, nw, &Cache{Entries: map[string]*CacheEntry{}})

	if u == nil {
		if len(results) == 1 && vtDeepEqual(results[0], nw) {
			vCover("created")
			if w.crossDevice {
				vCover("created-across-devices")
			}
		}
		return
	}
	vCover("unexpected-content")
	if w.crossDevice && nw.Kind == EntryKind_File {
		vCover("unexpected-content-file-across-devices")
	}
	vAssert(holder.kids[name] == u, "content that appeared after the scan where nothing was recorded is neither replaced nor removed")
	same := vAnd(u.perm == uPerm, u.target == uTarget)
	if u.kind == vfKFile {
		same = vAnd(same, len(u.content) == 1 && u.content[0] == uContent, u.size == 1)
	}
	vAssert(same, "content that appeared after the scan is left as it is")
	if uChild != nil {
		vAssert(u.kids["a"] == uChild, "entries of a directory that appeared after the scan stay")
	}
	reported := false
	for _, p := range problems {
		if p.Path == path {
			reported = true
		}
	}
	vAssert(reported, "a creation path holding unexpected content is reported as a problem")
}

func vtHasFile(e *Entry) bool {
	if e == nil {
		return false
	}
	if e.Kind == EntryKind_File {
		return true
	}
	for _, c := range e.Contents {
		if vtHasFile(c) {
			return true
		}
	}
	return false
}

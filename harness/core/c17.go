package core

// C17 at the transition level: the real walkToParentAndComputeLeafName and the
// real Transition (remove / create / swap, recursion included) run on top of
// the real pkg/filesystem code, with the kernel model of c17kernel.go
// underneath and an adversary that replaces in-root entries by symbolic links
// into the canary between any two kernel calls.

import (
	"context"
	"io"
	"os"

	"golang.org/x/sys/unix"

	"github.com/mutagen-io/mutagen/pkg/filesystem"
)

const vcRefused = "C17: an operation whose path crosses an in-root symbolic link must fail"

// --- additional environment for the transition: the staging area ---

// os.Chmod (used by filesystem.SetPermissionsByPath on the staged file) is
// chmod(2) by path: every component, the last one included, is followed.
func vcOsChmod(name string, mode os.FileMode) error {
	vNote("chmod")
	vCover("kernel: chmod by path")
	if e := vkEnter("chmod", true); e != 0 {
		return e
	}
	r := vkAt(unix.AT_FDCWD, name, true)
	if r.err != 0 {
		return r.err
	}
	if r.node == nil {
		return unix.ENOENT
	}
	r.node.perm = uint32(mode) & 0777
	return nil
}

func vcOsOpen(name string) (*os.File, error) {
	fd, err := vkOpenat(unix.AT_FDCWD, name, unix.O_RDONLY|unix.O_CLOEXEC, 0)
	if err != nil {
		return nil, err
	}
	return vkNewFile(uintptr(fd), name), nil
}

func vcOsRemove(name string) error { return vkUnlinkat(unix.AT_FDCWD, name, 0) }

func vcCopyBuffer(dst io.Writer, src io.Reader, buf []byte) (int64, error) { return 0, nil }

func vcStubTable() map[string]any {
	m := vkStubTable()
	m["os.Chmod"] = vcOsChmod
	m["os.Open"] = vcOsOpen
	m["os.Remove"] = vcOsRemove
	m["io.CopyBuffer"] = vcCopyBuffer
	return m
}

var verifStubs_VerifC17Walk = vcStubTable()
var verifStubs_VerifC17Transition = vcStubTable()

type vcProvider struct{}

func (vcProvider) Provide(path string, digest []byte) (string, error) { return "/s/t", nil }

func vcDir(contents map[string]*Entry) *Entry {
	return &Entry{Kind: EntryKind_Directory, Contents: contents}
}
func vcFile(digest byte) *Entry { return &Entry{Kind: EntryKind_File, Digest: []byte{digest}} }
func vcLink(target string) *Entry {
	return &Entry{Kind: EntryKind_SymbolicLink, Target: target}
}

// vcCache records the on-disk files of the world the way a scan would have.
func vcCache() *Cache {
	c := &Cache{Entries: map[string]*CacheEntry{}}
	f := vkw.root.lookup("f")
	g := vkw.root.lookup("d").lookup("x")
	c.Entries["f"] = &CacheEntry{Mode: unix.S_IFREG | 0644, FileID: f.ino, Digest: []byte{1}}
	c.Entries["d/x"] = &CacheEntry{Mode: unix.S_IFREG | 0644, FileID: g.ino, Digest: []byte{2}}
	return c
}

// VerifC17Walk: walkToParentAndComputeLeafName with a symbolic root-relative
// path, followed by one operation on the (parent, leaf) pair it returns.
func VerifC17Walk() {
	w := vkNewWorld()
	w.swapBudget = vParam("swaps", 1)
	w.faultBudget = vParam("faults", 0)
	maxPath := vParam("maxpath", 3)

	// the root is named through the outside link /q -> /p (allowed), or directly
	root := "/q/r"
	if vParam("roots", 2) == 2 && vChoose(2) == 1 {
		root = "/p/r"
	}
	t := &transitioner{root: root, cancelled: make(chan struct{})}
	path := vkSymbolicPath(maxPath, vParam("deep", 1) == 1)
	validate := vChoose(2) == 1

	parent, leaf, err := t.walkToParentAndComputeLeafName(path, validate)
	static := w.swapsTaken == 0 || w.opsAtSwap == 0
	if static && path != "" && vkWouldCross(w.root, path, false) {
		vCover("walk: a parent component is an in-root link")
		vAssert(err != nil, vcRefused)
	}
	if err == nil {
		vCover("walk: succeeded")
		if path == "" {
			vCover("walk: root path (parent of the root opened, outside link followed or not)")
		}
		leafToo := false
		var err2 error
		switch vChoose(4) {
		case 0:
			leafToo = true
			var f io.ReadSeekCloser
			f, _, err2 = parent.OpenFile(leaf)
			if err2 == nil {
				vCover("walk: leaf file opened")
				f.Close()
			}
		case 1:
			leafToo = true
			var d *filesystem.Directory
			d, err2 = parent.OpenDirectory(leaf)
			if err2 == nil {
				d.Close()
			}
		case 2:
			err2 = parent.RemoveFile(leaf)
			if err2 == nil {
				vCover("walk: leaf removed")
			}
		case 3:
			err2 = parent.CreateDirectory(leaf)
			if err2 == nil {
				vCover("walk: directory created at the leaf")
			}
		}
		static = w.swapsTaken == 0 || w.opsAtSwap == 0
		if static && path != "" && vkWouldCross(w.root, path, leafToo) {
			vCover("walk: the leaf is an in-root link")
			vAssert(err2 != nil, vcRefused)
		}
		parent.Close()
	}
	vAssert(vkCanaryIntact(), vkCanaryLabel)
}

// VerifC17Transition: Transition with one change on the world, the adversary
// active.  Scenarios:
//
//	0 remove the directory d {x file, s dir, m link}          (recursive removal)
//	1 create the directory n {a dir {b dir}, k link, h file}  at "n" or "d/n"
//	2 swap the file f (same digest: permissions only / new digest: staged file moved in)
//	3 replace the link l by a file, or the file f by a link   (remove + create)
func VerifC17Transition() {
	w := vkNewWorld()
	w.swapBudget = vParam("swaps", 1)
	w.faultBudget = vParam("faults", 0)
	cache := vcCache()

	var change *Change
	switch vChoose(4) {
	case 0:
		vNote("scenario: remove d")
		w.swapCands = []vkSwap{{nil, "d", "/c"}, {[]string{"d"}, "s", "/c/s"}, {[]string{"d"}, "x", "/c/x"}}
		change = &Change{Path: "d", Old: vcDir(map[string]*Entry{
			"x": vcFile(2), "s": vcDir(nil), "m": vcLink("../../../c"),
		})}
	case 1:
		vNote("scenario: create n")
		content := vcDir(map[string]*Entry{
			"a": vcDir(map[string]*Entry{"b": vcDir(nil)}), "k": vcLink("/c"), "h": vcFile(3),
		})
		w.crossDevice = vChoose(2) == 1
		if vChoose(2) == 0 {
			w.swapCands = []vkSwap{{nil, "n", "/c"}, {[]string{"n"}, "a", "/c/s"}, {[]string{"n"}, "h", "/c/x"}}
			change = &Change{Path: "n", New: content}
		} else {
			w.swapCands = []vkSwap{{nil, "d", "/c"}, {[]string{"d"}, "n", "/c"}, {[]string{"d", "n"}, "a", "/c/s"}}
			change = &Change{Path: "d/n", New: content}
		}
	case 2:
		vNote("scenario: swap f")
		w.swapCands = []vkSwap{{nil, "f", "/c/x"}}
		w.crossDevice = vChoose(2) == 1
		if vChoose(2) == 0 {
			change = &Change{Path: "f", Old: vcFile(1), New: &Entry{Kind: EntryKind_File, Digest: []byte{1}, Executable: true}}
		} else {
			change = &Change{Path: "f", Old: vcFile(1), New: vcFile(4)}
		}
	case 3:
		vNote("scenario: change of kind")
		w.swapCands = []vkSwap{{nil, "f", "/c/x"}, {nil, "l", "/c/s"}}
		if vChoose(2) == 0 {
			change = &Change{Path: "l", Old: vcLink("/c"), New: vcFile(5)}
		} else {
			change = &Change{Path: "f", Old: vcFile(1), New: vcLink("/c/x")}
		}
	}

	results, problems, _ := Transition(
		context.Background(), "/p/r", []*Change{change}, cache,
		SymbolicLinkMode_SymbolicLinkModePOSIXRaw, 0600, 0700, nil, false, vcProvider{},
	)
	vAssert(len(results) == 1, "model: one result per change")
	if len(problems) == 0 && w.swapsTaken == 0 {
		switch {
		case change.Path == "d" && change.New == nil:
			vAssert(w.root.lookup("d") == nil, "model: d is gone after an undisturbed removal")
			vCover("transition: recursive removal completed")
		case change.Old == nil:
			n := w.root.lookup("n")
			if change.Path == "d/n" {
				n = w.root.lookup("d").lookup("n")
			}
			vAssert(n != nil && n.lookup("a") != nil && n.lookup("a").lookup("b") != nil && n.lookup("k") != nil && n.lookup("h") != nil,
				"model: n and its content exist after an undisturbed creation")
			vCover("transition: recursive creation completed")
		case change.Path == "f" && change.New.Kind == EntryKind_File:
			vCover("transition: file swapped")
		default:
			vCover("transition: kind changed")
		}
	}
	if len(problems) == 0 {
		vCover("transition: applied without problems")
	} else {
		vCover("transition: problems reported")
	}
	if w.swapsTaken > 0 && len(problems) > 0 {
		vCover("transition: an entry replaced by a link made the transition fail")
	}
	vAssert(vkCanaryIntact(), vkCanaryLabel)
}

package core

import (
	"github.com/mutagen-io/mutagen/pkg/filesystem"
	"github.com/mutagen-io/mutagen/pkg/filesystem/behavior"
	"github.com/mutagen-io/mutagen/pkg/synchronization/core/ignore"
)

// C13: an accelerated scan (previous snapshot + digest cache + ignore cache +
// recheck paths) yields exactly the snapshot of a fresh full scan, whenever
// every created, deleted or modified path is in the recheck set and every
// content change alters size, modification time, identity or type.
//
// VerifC13Tree runs the real Scan three times on the filesystem model: cold on
// a tree, then - after one edit - accelerated (baseline, caches, recheck set
// = exactly the changed paths [+ an extra path]) and cold again, and compares.
// The trees are deep enough that unchanged, non-empty directories off the dirty
// chain are taken over from the baseline (with count and cache propagation) at
// the root, at depth 1 and at depth 2.

var verifStubs_VerifC13Tree = verifStubsScan

// vcIgnorer: deterministic per (path, directory) as a real ignorer is; at most
// `budget` keys are ignored, chosen among the candidate paths (all = any path).
// The other keys are nominal, or unignored when the name ends in 'b' (the two
// behave alike without ignore masks, so no fork is spent on them).
type vcIgnorer struct {
	decided    map[ignore.IgnoreCacheKey]ignore.IgnoreStatus
	candidates map[string]bool
	all        bool
	budget     int
}

func (g *vcIgnorer) Ignore(path string, directory bool) (ignore.IgnoreStatus, bool) {
	k := ignore.IgnoreCacheKey{Path: path, Directory: directory}
	if s, ok := g.decided[k]; ok {
		return s, false
	}
	s := ignore.IgnoreStatusNominal
	if len(path) > 0 && path[len(path)-1] == 'b' {
		s = ignore.IgnoreStatusUnignored
	}
	if g.budget > 0 && (g.all || g.candidates[path]) && vChoose(2) == 1 {
		g.budget--
		s = ignore.IgnoreStatusIgnored
		vCover("ignored")
		vNote("ignored: " + path)
	}
	g.decided[k] = s
	return s, false
}

func vcFile(n int, perm filesystem.Mode) *vfNode {
	w := vfw
	w.nextID++
	return &vfNode{kind: vfKFile, perm: perm, content: vBytes(n), size: uint64(n), fileID: w.nextID, mSec: 1000 + int64(w.nextID), mNsec: 7}
}

func vcLink(target string) *vfNode {
	w := vfw
	w.nextID++
	return &vfNode{kind: vfKLink, target: target, fileID: w.nextID}
}

func vcDir() *vfNode {
	w := vfw
	w.nextID++
	return &vfNode{kind: vfKDir, perm: 0700, fileID: w.nextID, kids: map[string]*vfNode{}}
}

// vcSlot: a node of a forked kind (absent / file / link / empty directory /
// directory with one file).
func vcSlot(d *vfNode, name string, small bool) {
	switch vChoose(5) {
	case 0:
	case 1:
		if small {
			d.add(name, vcFile(1, filesystem.Mode(vU16())&0777))
		} else {
			d.add(name, vcFile(vRange(0, 1), filesystem.Mode(vU16())&0777))
		}
	case 2:
		if small {
			d.add(name, vcLink("t"))
		} else {
			d.add(name, vcLink(vString(1)))
		}
	case 3:
		d.add(name, vcDir())
	default:
		x := vcDir()
		x.add("a", vcFile(1, 0644))
		d.add(name, x)
	}
}

// vcShape builds the tree of a shape and returns the edit positions.
//
// shape 1 (fixed):
//
//	root{ a{ a{a:file b:link} b{a:file b:{} c{a:file0}} }  b{a:file(x) b:link}  c:file  <temporary>  <non-UTF-8> }
//
// a/a carries its parent's name (a baseline handed down from the wrong level
// would match it), a/b does not (a dirty lookup by name instead of by path
// would miss it).  shape 2: the same skeleton with forked kinds at a/b/a and
// c.  shape 3: a two-level tree root{a{a:slot b:slot} b:slot} with every kind
// at every slot.
func vcShape(shape int) (*vfNode, []string) {
	root := vcDir()
	if shape == 3 {
		a := vcDir()
		vcSlot(a, "a", true)
		vcSlot(a, "b", true)
		root.add("a", a)
		vcSlot(root, "b", true)
		return root, []string{"a/a", "a/b", "b", "a/b/a"}
	}
	a, aa, ab, abc, b := vcDir(), vcDir(), vcDir(), vcDir(), vcDir()
	aa.add("a", vcFile(1, 0644))
	aa.add("b", vcLink("x"))
	abc.add("a", vcFile(0, 0600))
	if shape == 2 {
		vcSlot(ab, "a", false)
	} else {
		ab.add("a", vcFile(1, 0644))
	}
	ab.add("b", vcDir())
	ab.add("c", abc)
	a.add("a", aa)
	a.add("b", ab)
	b.add("a", vcFile(1, 0755))
	b.add("b", vcLink("../c"))
	root.add("a", a)
	root.add("b", b)
	if shape == 2 {
		vcSlot(root, "c", true)
	} else {
		root.add("c", vcFile(1, 0644))
	}
	w := vfw
	w.nextID++
	root.add(filesystem.TemporaryNamePrefix+"x", &vfNode{kind: vfKFile, perm: 0600, content: []byte{1}, size: 1, fileID: w.nextID})
	w.nextID++
	root.add("\xffz", &vfNode{kind: vfKFile, perm: 0600, content: []byte{1}, size: 1, fileID: w.nextID})
	return root, []string{"c", "b", "d", "a/b/a", "a/b/b", "a/b/c", "a/b/d", "a/a/b"}
}

func vcParentOf(path string) (*vfNode, string) {
	comps := vtSplit(path)
	n := vfw.top.kids["root"]
	for _, c := range comps[:len(comps)-1] {
		if n == nil || n.kind != vfKDir {
			return nil, ""
		}
		n = n.kids[c]
	}
	if n == nil || n.kind != vfKDir {
		return nil, ""
	}
	return n, comps[len(comps)-1]
}

func vcDirOf(path string) string {
	for i := len(path) - 1; i >= 0; i-- {
		if path[i] == '/' {
			return path[:i]
		}
	}
	return ""
}

// vcPaths adds the path of n and of everything below it.
func vcPaths(n *vfNode, path string, out map[string]bool) {
	if n == nil {
		return
	}
	out[path] = true
	if n.kind == vfKDir {
		for _, name := range n.names {
			vcPaths(n.kids[name], vtJoin(path, name), out)
		}
	}
}

// vcScanned: size and modification time, as of the last scan, of the files
// whose content was edited in place since.  The property's precondition is
// about the change a scan gets to see: several in-place edits between two
// scans must together alter size or modification time (vcEditsVisible).
type vcAttrs struct {
	size        uint64
	mSec, mNsec int64
}

var vcScanned map[*vfNode]vcAttrs

// the file replaced by a new-file edit and its replacement (cover witness)
var vcReplaced, vcReplacedBy *vfNode

func vcEditsVisible() {
	for n, a := range vcScanned {
		vAssume(n.size != a.size || n.mSec != a.mSec || n.mNsec != a.mNsec)
	}
	vcScanned = map[*vfNode]vcAttrs{}
}

const (
	vcEditDelete = iota
	vcEditNewFile
	vcEditContent
	vcEditChmod
	vcEditEmptyDir
	vcEditDir
	vcEditLink
	vcEditRenameFile
	vcEditRenameDir
	vcEditNone
	vcEditProbeFlip
	vcEditKinds
)

// vcEdit applies one edit at path p and returns the set of created, deleted
// and modified paths (nil for "nothing changed").
func vcEdit(p string, kind int) map[string]bool {
	parent, name := vcParentOf(p)
	vAssume(parent != nil)
	cur := parent.kids[name]
	changed := map[string]bool{}
	switch kind {
	case vcEditDelete:
		vAssume(cur != nil)
		vcPaths(cur, p, changed)
		parent.del(name)
		vNote("edit: delete " + p)
	case vcEditNewFile:
		// a different file appears at p (created, or renamed into place from
		// outside the root): new identity; when it replaces a file it may keep
		// that file's size and modification time (identity alone changes)
		vcPaths(cur, p, changed)
		n := vcFile(1, 0644)
		if cur != nil && cur.kind == vfKFile {
			n.mSec = cur.mSec + int64(vInt(0, 1))
			n.mNsec = cur.mNsec
			n.perm = cur.perm
			vcReplaced, vcReplacedBy = cur, n
		}
		parent.add(name, n)
		changed[p] = true
		vNote("edit: new file at " + p)
	case vcEditContent:
		// in-place content change: identity kept; it alters the modification
		// time (seconds or nanoseconds only) or the size only
		vAssume(cur != nil && cur.kind == vfKFile)
		if _, ok := vcScanned[cur]; !ok {
			vcScanned[cur] = vcAttrs{cur.size, cur.mSec, cur.mNsec}
		}
		switch vChoose(3) {
		case 0:
			cur.content = vBytes(len(cur.content))
			cur.mSec++
			vCover("content-edit-changes-seconds-only")
		case 1:
			cur.content = vBytes(len(cur.content))
			cur.mNsec++
			vCover("content-edit-changes-nanoseconds-only")
		default:
			cur.content = vBytes(1 - len(cur.content))
			cur.size = uint64(len(cur.content))
			vCover("content-edit-changes-size-only")
		}
		changed[p] = true
		vNote("edit: content of " + p)
	case vcEditChmod:
		vAssume(cur != nil && cur.kind == vfKFile)
		cur.perm = filesystem.Mode(vU16()) & 0777
		changed[p] = true
		vNote("edit: mode of " + p)
	case vcEditEmptyDir:
		vcPaths(cur, p, changed)
		parent.add(name, vcDir())
		changed[p] = true
		vNote("edit: empty directory at " + p)
	case vcEditDir:
		// a different, non-empty directory (a child of the same name as an old
		// child, if any, has another kind or content)
		vcPaths(cur, p, changed)
		d := vcDir()
		sub := vcDir()
		sub.add("b", vcFile(1, 0755))
		d.add("a", sub)
		d.add("c", vcLink("y"))
		parent.add(name, d)
		vcPaths(d, p, changed)
		vNote("edit: new directory tree at " + p)
	case vcEditLink:
		vcPaths(cur, p, changed)
		if vParam("symtarget", 0) == 1 {
			parent.add(name, vcLink(vString(1)))
		} else {
			parent.add(name, vcLink("z"))
		}
		changed[p] = true
		vNote("edit: link at " + p)
	case vcEditRenameFile, vcEditRenameDir:
		// rename within the root: the node keeps identity, times and content
		src := "b/a"
		if kind == vcEditRenameDir {
			src = "a/a"
		}
		vAssume(!vtPathRelated(src, p))
		sp, sn := vcParentOf(src)
		vAssume(sp != nil && sp.kids[sn] != nil)
		moved := sp.kids[sn]
		if cur != nil && cur.kind == vfKDir {
			// rename(2) replaces only an empty directory, and only by a directory
			vAssume(moved.kind == vfKDir && len(cur.names) == 0)
		} else if cur != nil {
			vAssume(moved.kind != vfKDir)
		}
		vcPaths(cur, p, changed)
		vcPaths(moved, src, changed)
		sp.del(sn)
		parent.add(name, moved)
		vcPaths(moved, p, changed)
		vNote("edit: rename " + src + " -> " + p)
	case vcEditNone:
		vNote("edit: none")
		return nil
	case vcEditProbeFlip:
		// nothing on disk changes, but the executability probe answers
		// differently (the baseline must then not be trusted)
		vfPreserves = !vfPreserves
		changed[p] = true
		vNote("edit: none; executability probe flips; recheck " + p)
	}
	return changed
}

func vcScan(m vfScanModes, g ignore.Ignorer, baseline *Snapshot, recheck map[string]bool, cache *Cache, icache ignore.IgnoreCache) (*Snapshot, *Cache, ignore.IgnoreCache, error) {
	return Scan(vfCtx{vfw.cancelCh}, "/p/root", baseline, recheck, &vfHasher{}, cache, g, icache,
		behavior.ProbeMode_ProbeModeProbe, m.symlinks, m.permissions)
}

// vcCachesDescribeDisk: what the next accelerated scan relies on - every file
// of the snapshot has a digest cache entry carrying the snapshot's digest and
// the file's current type, size, modification time and identity; every ignore
// cache entry says what the ignorer says.
func vcCachesDescribeDisk(snap *Snapshot, cache *Cache, icache ignore.IgnoreCache, g *vcIgnorer) {
	vtVisit(snap.Content, "", func(p string, e *Entry) {
		if e.Kind != EntryKind_File {
			return
		}
		ce := cache.Entries[p]
		n := vfLookup(p)
		vAssert(ce != nil && n != nil && n.kind == vfKFile, "accelerated scan: every file has a digest cache entry")
		if ce == nil || n == nil {
			return
		}
		vAssert(vAnd(filesystem.Mode(ce.Mode)&filesystem.ModeTypeMask == filesystem.ModeTypeFile,
			ce.Size == n.size, ce.FileID == n.fileID,
			ce.ModificationTime.GetSeconds() == n.mSec, int64(ce.ModificationTime.GetNanos()) == n.mNsec,
			vtBytesEq(ce.Digest, e.Digest)),
			"accelerated scan: digest cache entry carries the file's current size, time, identity and digest")
	})
	for k, v := range icache {
		d, ok := g.decided[k]
		vAssert(ok && d == v.Status && !v.ContinueTraversal, "accelerated scan: ignore cache entries agree with the ignorer")
	}
}

func VerifC13Tree() {
	w := vfNewWorld(0, false)
	root, positions := vcShape(vParam("shape", 1))
	w.top.add("root", root)
	vfPreserves = true
	if vParam("preserves", 1) == 2 {
		vfPreserves = vBool()
	}
	m := vfModes()
	p := positions[vChoose(len(positions))]
	kind := vChoose(vcEditKinds)
	if vParam("nosecondary", 0) == 1 {
		vAssume(kind != vcEditNone && kind != vcEditProbeFlip && kind != vcEditRenameDir)
	}
	g := &vcIgnorer{decided: map[ignore.IgnoreCacheKey]ignore.IgnoreStatus{}, budget: vParam("ignores", 1)}
	if vParam("ignoreany", 0) == 1 {
		g.all = true
	} else {
		// the edited path, its parent, a directory that is taken over from the
		// baseline and a file inside one
		g.candidates = map[string]bool{p: true, vcDirOf(p): true}
		if vParam("shape", 1) != 3 {
			g.candidates["a/a"] = true
			g.candidates["b/a"] = true
		}
	}
	vNote("disk=" + vfShowDisk(root))
	snap0, cache0, icache0, err := vcScan(m, g, nil, nil, nil, nil)
	vAssert(err == nil, "initial scan succeeds")
	if err != nil {
		return
	}

	vcScanned = map[*vfNode]vcAttrs{}
	vcReplaced, vcReplacedBy = nil, nil
	changed := vcEdit(p, kind)
	vcEditsVisible()
	recheck := map[string]bool{}
	for q := range changed {
		recheck[q] = true
	}
	switch vChoose(vParam("extras", 2)) {
	case 1:
		recheck["b/q/r"] = true // extra paths are allowed (here: nothing exists there)
		vNote("extra recheck path b/q/r")
	case 2:
		recheck["a/a/a"] = true
		vNote("extra recheck path a/a/a")
	}
	vNote("after=" + vfShowDisk(root))

	acc, accCache, accIgnore, err1 := vcScan(m, g, snap0, recheck, cache0, icache0)
	cold, _, _, err2 := vcScan(m, g, nil, nil, nil, nil)
	vAssert(err1 == nil && err2 == nil, "both scans succeed")
	if err1 != nil || err2 != nil {
		return
	}
	vCover("compared")
	switch kind {
	case vcEditDelete:
		vCover("edit-delete")
	case vcEditNewFile:
		vCover("edit-new-file")
		if vcReplaced != nil && vcReplaced.size == vcReplacedBy.size && vcReplaced.mSec == vcReplacedBy.mSec {
			vCover("replacement-file-differs-in-identity-only")
		}
	case vcEditContent:
		vCover("edit-content")
	case vcEditChmod:
		vCover("edit-mode")
	case vcEditEmptyDir:
		vCover("edit-empty-directory")
	case vcEditDir:
		vCover("edit-directory-tree")
	case vcEditLink:
		vCover("edit-link")
	case vcEditRenameFile:
		vCover("edit-rename-file")
	case vcEditRenameDir:
		vCover("edit-rename-directory")
	case vcEditNone:
		vCover("no-edit")
	case vcEditProbeFlip:
		vCover("probe-flip")
	}
	if acc.Content != nil && snap0.Content != nil {
		// witness that something was really taken over from the baseline
		for _, q := range []string{"a", "b", "a/a", "a/b", "a/b/c"} {
			x, _ := vtAt(acc.Content, q)
			y, _ := vtAt(snap0.Content, q)
			if x != nil && x == y && x.Kind == EntryKind_Directory {
				vCover("baseline-subtree-reused")
				px, _ := vtAt(acc.Content, vcDirOf(q))
				py, _ := vtAt(snap0.Content, vcDirOf(q))
				if len(vtSplit(q)) == 2 && px != py {
					vCover("baseline-subtree-reused-below-rescanned-directory")
				}
			}
		}
	}
	vcCompare(acc, cold)
	vcCachesDescribeDisk(acc, accCache, accIgnore, g)
}

func vcCompare(acc, cold *Snapshot) {
	vAssert(vtDeepEqual(acc.Content, cold.Content), "accelerated scan content equals a fresh full scan")
	vAssert(vAnd(acc.Directories == cold.Directories, acc.Files == cold.Files, acc.SymbolicLinks == cold.SymbolicLinks, acc.TotalFileSize == cold.TotalFileSize),
		"accelerated scan counts equal a fresh full scan")
	vAssert(acc.PreservesExecutability == cold.PreservesExecutability && acc.DecomposesUnicode == cold.DecomposesUnicode,
		"accelerated scan behaviour flags equal a fresh full scan")
}

// VerifC13Steps: two edits.  Either an accelerated scan runs between them (the
// second accelerated scan then builds on the snapshot and caches the first one
// returned - a history), or both edits precede one accelerated scan whose
// recheck set is the union of the changed paths.
var verifStubs_VerifC13Steps = verifStubsScan

func VerifC13Steps() {
	w := vfNewWorld(0, false)
	root, _ := vcShape(1)
	w.top.add("root", root)
	vfPreserves = true
	m := vfModes()
	positions := []string{"c", "a/b/a", "a/b/c", "a/b/d"}
	kinds := []int{vcEditDelete, vcEditNewFile, vcEditContent, vcEditEmptyDir, vcEditDir, vcEditLink}
	p1 := positions[vChoose(len(positions))]
	k1 := kinds[vChoose(len(kinds))]
	p2 := positions[vChoose(len(positions))]
	k2 := kinds[vChoose(len(kinds))]
	between := vChoose(2) == 1
	g := &vcIgnorer{decided: map[ignore.IgnoreCacheKey]ignore.IgnoreStatus{}, budget: vParam("ignores", 1),
		candidates: map[string]bool{p1: true, p2: true, "a/b": true, "a/a": true}}
	snap, cache, icache, err := vcScan(m, g, nil, nil, nil, nil)
	vAssert(err == nil, "initial scan succeeds")
	if err != nil {
		return
	}
	recheck := map[string]bool{}
	vcScanned = map[*vfNode]vcAttrs{}
	for q := range vcEdit(p1, k1) {
		recheck[q] = true
	}
	if between {
		vcEditsVisible()
		snap, cache, icache, err = vcScan(m, g, snap, recheck, cache, icache)
		vAssert(err == nil, "first accelerated scan succeeds")
		if err != nil {
			return
		}
		recheck = map[string]bool{}
		vNote("accelerated scan between the edits")
	}
	for q := range vcEdit(p2, k2) {
		recheck[q] = true
	}
	vcEditsVisible()
	acc, accCache, accIgnore, err1 := vcScan(m, g, snap, recheck, cache, icache)
	cold, _, _, err2 := vcScan(m, g, nil, nil, nil, nil)
	vAssert(err1 == nil && err2 == nil, "both scans succeed")
	if err1 != nil || err2 != nil {
		return
	}
	if between {
		vCover("history-of-two-accelerated-scans")
	} else {
		vCover("two-edits-one-scan")
	}
	if p1 == p2 {
		vCover("same-path-edited-twice")
	}
	vcCompare(acc, cold)
	vcCachesDescribeDisk(acc, accCache, accIgnore, g)
}

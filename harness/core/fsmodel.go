package core

import (
	"errors"
	"io"
	"io/fs"
	"os"
	"strings"
	"time"

	"github.com/mutagen-io/mutagen/pkg/filesystem"
)

// In-memory filesystem model behind the *filesystem.Directory methods and the
// path-based helpers used by the transition code.  POSIX behaviour relied on:
// names are looked up one component at a time, symbolic links are never
// followed, mkdirat fails on existing names, unlinkat/rmdir fail on the wrong
// kind or a non-empty directory, renameat replaces atomically, handles stay
// valid.  Every operation may additionally fail with an I/O error leaving the
// model unchanged (bounded by a fault budget), and the transition may be
// cancelled before any operation (once).

const (
	vfKDir = iota
	vfKFile
	vfKLink
	vfKOther
)

type vfNode struct {
	kind    int
	names   []string
	kids    map[string]*vfNode
	perm    filesystem.Mode
	size    uint64
	mSec    int64
	mNsec   int64
	fileID  uint64
	content []byte
	target  string
}

type vfWorld struct {
	top         *vfNode // holds the synchronization root as "root"
	handles     map[*filesystem.Directory]*vfNode
	closed      map[*filesystem.Directory]bool
	files       map[*os.File]*vfNode
	filesClosed map[*os.File]bool
	staged      map[string]*vfNode // staging area, by staged path
	crossDevice bool
	faults      int
	faultsTaken int
	cancelCh    chan struct{}
	cancelArmed bool
	cancelled   bool
	nextID      uint64
	removed     []string // log: "kind:path-ish name" of removed nodes
	stagedAbsent bool    // some Provide'd file was absent when needed
}

var vfw *vfWorld

var (
	vfErrIO   = errors.New("model: i/o failure")
	vfErrXDev = errors.New("model: cross-device link")
	vfErrKind = errors.New("model: wrong kind of entry")
)

func vfNewWorld(faults int, cancellable bool) *vfWorld {
	w := &vfWorld{
		top:         &vfNode{kind: vfKDir, kids: map[string]*vfNode{}, perm: 0700},
		handles:     map[*filesystem.Directory]*vfNode{},
		closed:      map[*filesystem.Directory]bool{},
		files:       map[*os.File]*vfNode{},
		filesClosed: map[*os.File]bool{},
		staged:      map[string]*vfNode{},
		faults:      faults,
		cancelCh:    make(chan struct{}),
		cancelArmed: cancellable,
		nextID:      100,
	}
	vfw = w
	return w
}

// vfStep is called at the start of every model operation: it may cancel the
// transition (once) and may inject a fault (within the budget).
func vfStep() bool {
	w := vfw
	if w.cancelArmed && !w.cancelled && vChoose(2) == 1 {
		w.cancelled = true
		close(w.cancelCh)
	}
	if w.faults > 0 && vChoose(2) == 1 {
		w.faults--
		w.faultsTaken++
		return true
	}
	return false
}

func (n *vfNode) mode() filesystem.Mode {
	switch n.kind {
	case vfKDir:
		return filesystem.ModeTypeDirectory | n.perm
	case vfKFile:
		return filesystem.ModeTypeFile | n.perm
	case vfKLink:
		return filesystem.ModeTypeSymbolicLink | 0777
	}
	return filesystem.Mode(0010000) | n.perm // FIFO
}

func (n *vfNode) add(name string, c *vfNode) {
	if n.kids == nil {
		n.kids = map[string]*vfNode{}
	}
	if _, ok := n.kids[name]; !ok {
		n.names = append(n.names, name)
	}
	n.kids[name] = c
}

func (n *vfNode) del(name string) {
	delete(n.kids, name)
	for i, x := range n.names {
		if x == name {
			n.names = append(n.names[:i:i], n.names[i+1:]...)
			break
		}
	}
}

func (n *vfNode) metadata(name string) *filesystem.Metadata {
	return &filesystem.Metadata{
		Name:             name,
		Mode:             n.mode(),
		Size:             n.size,
		ModificationTime: time.Unix(n.mSec, n.mNsec),
		FileID:           n.fileID,
	}
}

func vfValidName(name string) bool {
	return name != "" && name != "." && name != ".." && strings.IndexByte(name, '/') == -1
}

func (w *vfWorld) newHandle(n *vfNode) *filesystem.Directory {
	h := &filesystem.Directory{}
	w.handles[h] = n
	return h
}

func (w *vfWorld) node(d *filesystem.Directory) *vfNode {
	n := w.handles[d]
	vAssert(n != nil, "model: operation on an unknown directory handle")
	vAssert(!w.closed[d], "model: operation on a closed directory handle")
	return n
}

// ---------- stubs: path based ----------

func vfOpenDirectoryByPath(path string, allowSymbolicLinkLeaf bool) (*filesystem.Directory, *filesystem.Metadata, error) {
	w := vfw
	if vfStep() {
		return nil, nil, vfErrIO
	}
	switch path {
	case "/p/", "/p":
		return w.newHandle(w.top), w.top.metadata("p"), nil
	case "/p/root":
		r := w.top.kids["root"]
		if r == nil {
			return nil, nil, fs.ErrNotExist
		}
		if r.kind != vfKDir {
			return nil, nil, vfErrKind
		}
		return w.newHandle(r), r.metadata("root"), nil
	}
	vFail("model: unexpected path opened as directory")
	return nil, nil, vfErrIO
}

func vfSetPermissionsByPath(path string, ownership *filesystem.OwnershipSpecification, mode filesystem.Mode) error {
	w := vfw
	// the real function performs no system call (and cannot fail) when neither
	// ownership nor permission bits are given
	if (ownership != nil || mode&filesystem.ModePermissionsMask != 0) && vfStep() {
		return vfErrIO
	}
	n := w.staged[path]
	if n == nil {
		w.stagedAbsent = true
		return fs.ErrNotExist
	}
	mode &= filesystem.ModePermissionsMask
	if mode != 0 {
		n.perm = mode
	}
	return nil
}

func vfIsCrossDeviceError(err error) bool { return err == vfErrXDev }

func vfRename(sourceDirectory *filesystem.Directory, sourceNameOrPath string, targetDirectory *filesystem.Directory, targetNameOrPath string, replace bool) error {
	w := vfw
	if vfStep() {
		return vfErrIO
	}
	// source
	var src *vfNode
	var srcParent *vfNode
	if sourceDirectory == nil {
		src = w.staged[sourceNameOrPath]
		if src == nil {
			w.stagedAbsent = true
			return fs.ErrNotExist
		}
		if w.crossDevice {
			return vfErrXDev
		}
	} else {
		if !vfValidName(sourceNameOrPath) {
			return vfErrKind
		}
		srcParent = w.node(sourceDirectory)
		src = srcParent.kids[sourceNameOrPath]
		if src == nil {
			return fs.ErrNotExist
		}
	}
	vAssert(targetDirectory != nil, "model: rename into the root always goes through a directory handle")
	if targetDirectory == nil {
		return vfErrIO
	}
	if !vfValidName(targetNameOrPath) {
		return vfErrKind
	}
	dst := w.node(targetDirectory)
	if existing := dst.kids[targetNameOrPath]; existing != nil {
		if !replace {
			return os.ErrExist
		}
		if existing.kind == vfKDir {
			return vfErrKind // cannot rename a file over a directory
		}
		w.removed = append(w.removed, "replaced:"+targetNameOrPath)
	}
	if sourceDirectory == nil {
		delete(w.staged, sourceNameOrPath)
	} else {
		srcParent.del(sourceNameOrPath)
	}
	dst.add(targetNameOrPath, src)
	return nil
}

func vfOsOpen(path string) (*os.File, error) {
	w := vfw
	if vfStep() {
		return nil, vfErrIO
	}
	n := w.staged[path]
	if n == nil {
		w.stagedAbsent = true
		return nil, fs.ErrNotExist
	}
	f := &os.File{}
	w.files[f] = n
	return f, nil
}

func vfFileWriteTo(f *os.File, dst io.Writer) (int64, error) {
	w := vfw
	n := w.files[f]
	if vfStep() {
		return 0, vfErrIO
	}
	k, err := dst.Write(n.content)
	return int64(k), err
}

func vfFileRead(f *os.File, p []byte) (int, error) {
	vFail("model: unexpected (*os.File).Read")
	return 0, io.EOF
}

func vfFileClose(f *os.File) error {
	vfw.filesClosed[f] = true
	return nil
}

func vfOsRemove(path string) error {
	w := vfw
	if vfStep() {
		return vfErrIO
	}
	if w.staged[path] == nil {
		return fs.ErrNotExist
	}
	delete(w.staged, path)
	return nil
}

// ---------- stubs: *filesystem.Directory methods ----------

func vfDirClose(d *filesystem.Directory) error {
	w := vfw
	vAssert(w.handles[d] != nil, "model: close of unknown handle")
	vAssert(!w.closed[d], "model: directory handle closed twice")
	w.closed[d] = true
	return nil
}

func vfReadContentNames(d *filesystem.Directory) ([]string, error) {
	n := vfw.node(d)
	if vfStep() {
		return nil, vfErrIO
	}
	return append([]string(nil), n.names...), nil
}

func vfOpenDirectory(d *filesystem.Directory, name string) (*filesystem.Directory, error) {
	w := vfw
	n := w.node(d)
	if !vfValidName(name) {
		return nil, vfErrKind
	}
	if vfStep() {
		return nil, vfErrIO
	}
	c := n.kids[name]
	if c == nil {
		return nil, fs.ErrNotExist
	}
	if c.kind != vfKDir {
		return nil, vfErrKind // O_DIRECTORY|O_NOFOLLOW: links are not followed
	}
	return w.newHandle(c), nil
}

func vfReadContentMetadata(d *filesystem.Directory, name string) (*filesystem.Metadata, error) {
	n := vfw.node(d)
	if !vfValidName(name) {
		return nil, vfErrKind
	}
	if vfStep() {
		return nil, vfErrIO
	}
	c := n.kids[name]
	if c == nil {
		return nil, fs.ErrNotExist
	}
	return c.metadata(name), nil
}

func vfReadContents(d *filesystem.Directory) ([]*filesystem.Metadata, error) {
	n := vfw.node(d)
	if vfStep() {
		return nil, vfErrIO
	}
	var out []*filesystem.Metadata
	for _, name := range n.names {
		out = append(out, n.kids[name].metadata(name))
	}
	return out, nil
}

func vfReadSymbolicLink(d *filesystem.Directory, name string) (string, error) {
	n := vfw.node(d)
	if !vfValidName(name) {
		return "", vfErrKind
	}
	if vfStep() {
		return "", vfErrIO
	}
	c := n.kids[name]
	if c == nil {
		return "", fs.ErrNotExist
	}
	if c.kind != vfKLink {
		return "", vfErrKind
	}
	return c.target, nil
}

func vfRemoveFile(d *filesystem.Directory, name string) error {
	w := vfw
	n := w.node(d)
	if !vfValidName(name) {
		return vfErrKind
	}
	if vfStep() {
		return vfErrIO
	}
	c := n.kids[name]
	if c == nil {
		return fs.ErrNotExist
	}
	if c.kind == vfKDir {
		return vfErrKind
	}
	n.del(name)
	w.removed = append(w.removed, "unlink:"+name)
	return nil
}

func vfRemoveDirectory(d *filesystem.Directory, name string) error {
	w := vfw
	n := w.node(d)
	if !vfValidName(name) {
		return vfErrKind
	}
	if vfStep() {
		return vfErrIO
	}
	c := n.kids[name]
	if c == nil {
		return fs.ErrNotExist
	}
	if c.kind != vfKDir || len(c.names) > 0 {
		return vfErrKind
	}
	n.del(name)
	w.removed = append(w.removed, "rmdir:"+name)
	return nil
}

func vfCreateDirectory(d *filesystem.Directory, name string) error {
	w := vfw
	n := w.node(d)
	if !vfValidName(name) {
		return vfErrKind
	}
	if vfStep() {
		return vfErrIO
	}
	if n.kids[name] != nil {
		return os.ErrExist
	}
	w.nextID++
	n.add(name, &vfNode{kind: vfKDir, perm: 0700, fileID: w.nextID})
	return nil
}

func vfCreateSymbolicLink(d *filesystem.Directory, name, target string) error {
	w := vfw
	n := w.node(d)
	if !vfValidName(name) {
		return vfErrKind
	}
	if vfStep() {
		return vfErrIO
	}
	if n.kids[name] != nil {
		return os.ErrExist
	}
	w.nextID++
	n.add(name, &vfNode{kind: vfKLink, target: target, fileID: w.nextID})
	return nil
}

func vfSetPermissions(d *filesystem.Directory, name string, ownership *filesystem.OwnershipSpecification, mode filesystem.Mode) error {
	n := vfw.node(d)
	if !vfValidName(name) {
		return vfErrKind
	}
	// the real method performs no system call (and cannot fail) when neither
	// ownership nor permission bits are given
	if (ownership != nil || mode&filesystem.ModePermissionsMask != 0) && vfStep() {
		return vfErrIO
	}
	c := n.kids[name]
	if c == nil {
		return fs.ErrNotExist
	}
	mode &= filesystem.ModePermissionsMask
	if mode != 0 {
		if c.kind == vfKLink {
			return vfErrKind // Linux: open(O_NOFOLLOW) on a link fails
		}
		c.perm = mode
	}
	return nil
}

type vfTempWriter struct {
	n      *vfNode
	closed bool
}

func (t *vfTempWriter) Write(p []byte) (int, error) {
	if vfStep() {
		k := vRange(0, len(p))
		t.n.content = append(t.n.content, p[:k]...)
		t.n.size = uint64(len(t.n.content))
		return k, vfErrIO
	}
	t.n.content = append(t.n.content, p...)
	t.n.size = uint64(len(t.n.content))
	return len(p), nil
}

func (t *vfTempWriter) Close() error {
	t.closed = true
	return nil
}

func vfCreateTemporaryFile(d *filesystem.Directory, pattern string) (string, io.WriteCloser, error) {
	w := vfw
	n := w.node(d)
	if !vfValidName(pattern) {
		return "", nil, vfErrKind
	}
	if vfStep() {
		return "", nil, vfErrIO
	}
	name := pattern + "7"
	w.nextID++
	c := &vfNode{kind: vfKFile, perm: 0600, fileID: w.nextID}
	n.add(name, c)
	return name, &vfTempWriter{n: c}, nil
}

var verifStubsFS = map[string]any{
	"github.com/mutagen-io/mutagen/pkg/filesystem.OpenDirectory":              vfOpenDirectoryByPath,
	"github.com/mutagen-io/mutagen/pkg/filesystem.SetPermissionsByPath":       vfSetPermissionsByPath,
	"github.com/mutagen-io/mutagen/pkg/filesystem.IsCrossDeviceError":         vfIsCrossDeviceError,
	"github.com/mutagen-io/mutagen/pkg/filesystem.Rename":                     vfRename,
	"os.Open":              vfOsOpen,
	"os.Remove":            vfOsRemove,
	"(*os.File).WriteTo":   vfFileWriteTo,
	"(*os.File).Read":      vfFileRead,
	"(*os.File).Close":     vfFileClose,
	"(*github.com/mutagen-io/mutagen/pkg/filesystem.Directory).Close":               vfDirClose,
	"(*github.com/mutagen-io/mutagen/pkg/filesystem.Directory).ReadContentNames":    vfReadContentNames,
	"(*github.com/mutagen-io/mutagen/pkg/filesystem.Directory).OpenDirectory":       vfOpenDirectory,
	"(*github.com/mutagen-io/mutagen/pkg/filesystem.Directory).ReadContentMetadata": vfReadContentMetadata,
	"(*github.com/mutagen-io/mutagen/pkg/filesystem.Directory).ReadContents":        vfReadContents,
	"(*github.com/mutagen-io/mutagen/pkg/filesystem.Directory).ReadSymbolicLink":    vfReadSymbolicLink,
	"(*github.com/mutagen-io/mutagen/pkg/filesystem.Directory).RemoveFile":          vfRemoveFile,
	"(*github.com/mutagen-io/mutagen/pkg/filesystem.Directory).RemoveDirectory":     vfRemoveDirectory,
	"(*github.com/mutagen-io/mutagen/pkg/filesystem.Directory).CreateDirectory":     vfCreateDirectory,
	"(*github.com/mutagen-io/mutagen/pkg/filesystem.Directory).CreateSymbolicLink":  vfCreateSymbolicLink,
	"(*github.com/mutagen-io/mutagen/pkg/filesystem.Directory).SetPermissions":      vfSetPermissions,
	"(*github.com/mutagen-io/mutagen/pkg/filesystem.Directory).CreateTemporaryFile": vfCreateTemporaryFile,
}

// ---------- materialising entries and scanning the model ----------

// vfMaterialize builds model nodes for a synchronizable entry and fills cache
// entries for its files (metadata concrete and matching).
func vfMaterialize(e *Entry, path string, cache *Cache) *vfNode {
	w := vfw
	w.nextID++
	switch e.Kind {
	case EntryKind_Directory:
		n := &vfNode{kind: vfKDir, perm: 0700, fileID: w.nextID}
		for _, name := range []string{"a", "b"} {
			if c, ok := e.Contents[name]; ok {
				n.add(name, vfMaterialize(c, vtJoin(path, name), cache))
			}
		}
		return n
	case EntryKind_File:
		perm := filesystem.Mode(0600)
		if e.Executable {
			perm = 0700
		}
		n := &vfNode{kind: vfKFile, perm: perm, fileID: w.nextID, content: append([]byte(nil), e.Digest...), size: uint64(len(e.Digest)), mSec: 1000 + int64(w.nextID), mNsec: 5}
		if cache != nil {
			cache.Entries[path] = vfCacheEntryFor(n)
		}
		return n
	case EntryKind_SymbolicLink:
		return &vfNode{kind: vfKLink, target: e.Target, fileID: w.nextID}
	}
	return &vfNode{kind: vfKOther, perm: 0600, fileID: w.nextID}
}

// vfScan is the own scan of the model: what a snapshot of the node would say.
func vfScan(n *vfNode) *Entry {
	if n == nil {
		return nil
	}
	switch n.kind {
	case vfKDir:
		e := &Entry{Kind: EntryKind_Directory}
		for _, name := range n.names {
			if strings.HasPrefix(name, filesystem.TemporaryNamePrefix) {
				continue
			}
			if e.Contents == nil {
				e.Contents = map[string]*Entry{}
			}
			e.Contents[name] = vfScan(n.kids[name])
		}
		return e
	case vfKFile:
		return &Entry{Kind: EntryKind_File, Digest: append([]byte(nil), n.content...), Executable: n.perm&0111 != 0}
	case vfKLink:
		return &Entry{Kind: EntryKind_SymbolicLink, Target: n.target}
	}
	return &Entry{Kind: EntryKind_Untracked}
}

// vfLookup resolves a root-relative path in the model ("" = the root itself).
func vfLookup(path string) *vfNode {
	n := vfw.top.kids["root"]
	for _, c := range vtSplit(path) {
		if n == nil || n.kind != vfKDir {
			return nil
		}
		n = n.kids[c]
	}
	return n
}

type vfProvider struct{}

func (vfProvider) Provide(path string, digest []byte) (string, error) {
	if vfStep() {
		return "", vfErrIO
	}
	return "/staging/" + path, nil
}

type vfCtx struct{ ch chan struct{} }

func (c vfCtx) Deadline() (time.Time, bool) { return time.Time{}, false }
func (c vfCtx) Done() <-chan struct{}       { return c.ch }
func (c vfCtx) Err() error                  { return nil }
func (c vfCtx) Value(key any) any           { return nil }

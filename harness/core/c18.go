package core

// C18: executability survives synchronization through an endpoint that cannot
// store it.  One side preserves executable bits (arbitrary bits), the other
// does not (a scan there reports every bit as false).  As the controller does,
// the non-preserving side's snapshot is first passed through
// PropagateExecutability, then Reconcile plans the cycle.

func VerifC18() {
	shape := vParam("shape", 1)
	betaPreserves := vParam("betapreserves", 0) == 1
	ancestor := vtGenTree(shape, 0)
	pres := vtGenTree(shape, vtAllowUnsync)            // preserving side
	nonp := vtGenTree(shape, vtAllowUnsync|vtNoExec)   // non-preserving side: bits all false
	mode := vtModeFromParam(0)
	vNote("ancestor=" + vtShow(ancestor) + " preserving=" + vtShow(pres) + " nonpreserving=" + vtShow(nonp))
	if nonp == nil {
		return // the controller propagates only when the target has content
	}
	nonpBefore := vtClone(nonp)
	ancBefore := vtClone(ancestor)
	presBefore := vtClone(pres)
	prop := PropagateExecutability(ancestor, pres, nonp)
	vCover("propagated")
	vAssert(vtDeepEqual(nonp, nonpBefore), "the snapshot handed to PropagateExecutability is not mutated")
	vAssert(vtDeepEqual(ancestor, ancBefore) && vtDeepEqual(pres, presBefore), "ancestor and source are not mutated")
	// propagation changes nothing but executable bits of files
	vtSameExceptExec(prop, nonp)

	var alpha, beta *Entry
	if betaPreserves {
		alpha, beta = prop, pres
	} else {
		alpha, beta = pres, prop
	}
	_, alphaChanges, betaChanges, _ := Reconcile(ancestor, alpha, beta, mode)
	changes := alphaChanges
	if betaPreserves {
		changes = betaChanges
	}
	// The preserving side's bit is never changed while the file exists on both sides.
	for _, c := range changes {
		S, ok := vtAt(pres, c.Path)
		if !ok {
			continue
		}
		vtVisit(S, "", func(rel string, n *Entry) {
			if n.Kind != EntryKind_File {
				return
			}
			full := rel
			if c.Path != "" {
				full = c.Path
				if rel != "" {
					full = c.Path + "/" + rel
				}
			}
			other, ok2 := vtAt(nonp, full)
			nw, ok3 := vtAt(c.New, rel)
			if !ok2 || !ok3 || other == nil || nw == nil || other.Kind != EntryKind_File || nw.Kind != EntryKind_File {
				return
			}
			vCover("file-on-both-sides-changed")
			// Where may the bit of the rewritten file come from?  (property: "the
			// non-preserving side only ever takes its notion of executability from
			// matching content on the preserving side or in the last-synchronized
			// state", and the bit on the preserving side survives an edit on the
			// other endpoint.)
			anc, _ := vtAt(ancestor, full)
			ancFile := anc != nil && anc.Kind == EntryKind_File
			switch {
			case vtBytesEq(nw.Digest, n.Digest):
				// same content as the preserving side holds: its own bit
				vAssert(nw.Executable == n.Executable, "a change planned for the preserving side keeps the file's executable bit")
			case ancFile && vtBytesEq(nw.Digest, anc.Digest):
				// the preserving side's own edit is being reverted to the
				// last-synchronized version (a mode in which the other side wins):
				// the bit recorded with that version
				vCover("reverted-to-last-synchronized")
				vAssert(nw.Executable == anc.Executable, "a file reverted to its last-synchronized content takes the executable bit recorded with it")
			case !ancFile || !vtBytesEq(anc.Digest, n.Digest):
				// Known finding (DESIGN.md §11.5): content modified on BOTH sides and
				// the non-preserving side wins - mutagen deliberately propagates no
				// executability, the preserving side's file loses its bit.  Own label,
				// so that this class - and only it - can be listed in known_findings.json.
				vCover("file-modified-on-both-sides")
				vAssert(nw.Executable == n.Executable, "a change planned for the preserving side keeps the file's executable bit [file content modified on both sides]")
			default:
				// content edited on the non-preserving side only
				vCover("edited-on-the-other-endpoint")
				vAssert(nw.Executable == n.Executable, "a change planned for the preserving side keeps the file's executable bit")
			}
		})
	}
	// With identical content on both sides, no action at all is planned for the file.
	vtVisit(pres, "", func(p string, n *Entry) {
		if n.Kind != EntryKind_File {
			return
		}
		o, ok := vtAt(nonp, p)
		if !ok || o == nil || o.Kind != EntryKind_File {
			return
		}
		if !vtBytesEq(o.Digest, n.Digest) {
			return
		}
		vCover("same-content")
		for _, c := range alphaChanges {
			vAssert(c.Path != p, "same content on both sides: no alpha change for the file")
		}
		for _, c := range betaChanges {
			vAssert(c.Path != p, "same content on both sides: no beta change for the file")
		}
	})
}

func vtSameExceptExec(a, b *Entry) {
	if a == nil || b == nil {
		vAssert(a == nil && b == nil, "propagation keeps the tree structure")
		return
	}
	vAssert(a.Kind == b.Kind && vtBytesEq(a.Digest, b.Digest) && a.Target == b.Target && a.Problem == b.Problem, "propagation changes nothing but executable bits")
	if a.Kind != EntryKind_File {
		vAssert(a.Executable == b.Executable, "propagation changes executable bits of files only")
	}
	vAssert(len(a.Contents) == len(b.Contents), "propagation keeps the tree structure")
	for name, ca := range a.Contents {
		cb, ok := b.Contents[name]
		vAssert(ok, "propagation keeps the tree structure")
		if ok {
			vtSameExceptExec(ca, cb)
		}
	}
}

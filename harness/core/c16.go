package core

// C16: a target accepted by normalizeSymbolicLinkAndEnsurePortable never
// resolves (lexically, POSIX rules) to a location outside the root, and the
// documented rejection classes are rejected.

func VerifC16Normalize() {
	maxDepth := vParam("maxdepth", 2)
	maxLen := vParam("maxlen", 5)
	depth := vRange(0, maxDepth)
	path := "l"
	for i := 0; i < depth; i++ {
		path = "d/" + path
	}
	n := vRange(0, maxLen)
	target := vString(n)

	out, err := normalizeSymbolicLinkAndEnsurePortable(path, target)
	accepted := err == nil

	// Rejection classes stated by the property.
	if n == 0 {
		vCover("empty")
		vAssert(!accepted, "empty target rejected")
		return
	}
	hasColon, hasBackslash := false, false
	for i := 0; i < n; i++ {
		if target[i] == ':' {
			hasColon = true
		}
		if target[i] == '\\' {
			hasBackslash = true
		}
	}
	if hasColon {
		vCover("colon")
		vAssert(!accepted, "colon-containing target rejected")
	}
	if hasBackslash {
		vCover("backslash")
		vAssert(!accepted, "backslash-containing target rejected")
	}
	if target[0] == '/' {
		vCover("absolute")
		vAssert(!accepted, "absolute target rejected")
	}
	if !accepted {
		return
	}
	vCover("accepted")
	vAssert(out == target, "accepted target is returned unchanged on POSIX")

	// Own lexical resolution relative to the directory holding the link:
	// level = number of directories below the root; consecutive and trailing
	// slashes collapse, "." stays, ".." goes up.
	level := depth
	start := 0
	for i := 0; i <= n; i++ {
		if i < n && target[i] != '/' {
			continue
		}
		// component target[start:i]
		clen := i - start
		switch {
		case clen == 0:
			// empty component: no movement
		case clen == 1 && target[start] == '.':
			// current directory
		case clen == 2 && target[start] == '.' && target[start+1] == '.':
			level--
			vCover("dotdot")
			vAssert(level >= 0, "accepted target never leaves the synchronization root")
			if level < 0 {
				return
			}
		default:
			level++
		}
		start = i + 1
	}
}

// VerifC16TooLong: targets longer than the portable maximum are rejected.
func VerifC16TooLong() {
	extra := vRange(1, 2)
	b := make([]byte, maximumPortableSymbolicLinkTargetLength+extra)
	for i := range b {
		b[i] = 'a'
	}
	// a few symbolic positions
	b[0] = vU8()
	b[len(b)-1] = vU8()
	_, err := normalizeSymbolicLinkAndEnsurePortable("l", string(b))
	vCover("toolong")
	vAssert(err != nil, "over-long target rejected")
	// and the maximum length itself is not rejected for length
	ok := make([]byte, maximumPortableSymbolicLinkTargetLength)
	for i := range ok {
		ok[i] = 'a'
	}
	_, err = normalizeSymbolicLinkAndEnsurePortable("l", string(ok))
	vAssert(err == nil, "maximum-length plain target accepted")
}

package core

import (
	"github.com/mutagen-io/mutagen/pkg/filesystem"
)

// C09, nested shapes and plans.  The S1/S2 entries (c09.go) bound the trees to
// one directory level; the entries here put the symbolic leaves into a
// constant two-level frame so that the recursion of removeDirectory /
// createDirectory (a directory handled as *content* of another directory) is
// reached at small symbolic sizes, with a fault, a missing staged file or the
// cancellation arriving strictly inside the nested directory.  The oracle is
// the one of c09.go: the reported entry equals the own scan of the model.

var verifStubs_VerifC09Nested = verifStubsFS
var verifStubs_VerifC09Plan = verifStubsFS

// vnFrame generates dir{a: dir{a: X, b: Y}, b: Z}; X is a file, a symbolic
// link or an empty directory, Y and Z may also be absent.
func vnFrame() *Entry {
	inner := &Entry{Kind: EntryKind_Directory, Contents: map[string]*Entry{}}
	inner.Contents["a"] = vtGenNode(0, nil, 0, false)
	if y := vtGenNode(0, nil, 0, true); y != nil {
		inner.Contents["b"] = y
	}
	outer := &Entry{Kind: EntryKind_Directory, Contents: map[string]*Entry{}}
	outer.Contents["a"] = inner
	if z := vtGenNode(0, nil, 0, true); z != nil {
		outer.Contents["b"] = z
	}
	return outer
}

// vnCount is the number of nodes of a tree.
func vnCount(e *Entry) int {
	if e == nil {
		return 0
	}
	n := 1
	for _, c := range e.Contents {
		n += vnCount(c)
	}
	return n
}

// vnBudget reads the fault/cancellation parameters; with split=1 a path has
// either the fault budget or the cancellation, not both.
func vnBudget() (int, bool) {
	faults := vParam("faults", 1)
	cancel := vParam("cancel", 1) == 1
	if vParam("split", 0) == 1 && faults > 0 && cancel {
		if vBool() {
			faults = 0
		} else {
			cancel = false
		}
	}
	return faults, cancel
}

// vnOracle is the property for one transition: the reported entry is what the
// own scan of the model finds at the path; anything short of New comes with a
// problem.
func vnOracle(path string, r, nw *Entry, problems []*Problem) {
	onDisk := vfScan(vfLookup(path))
	if vtDeepEqual(r, nw) {
		vCover("complete")
	} else {
		vCover("incomplete")
		vAssert(len(problems) > 0, "an incomplete transition records at least one problem")
	}
	vAssert(vtDeepEqual(r, onDisk), "the reported entry describes exactly what is on disk at the path afterwards")
	vAssert(vtValid(r, true), "the reported entry is valid synchronizable content")
}

func vnMissingOracle(missing bool) {
	w := vfw
	if missing {
		vAssert(w.stagedAbsent, "missing files are reported only when a staged file was absent")
	}
	if w.stagedAbsent {
		vCover("missing-detected")
		vAssert(missing, "an absent staged file is reported as missing files")
	}
}

// VerifC09Nested: one transition at path x that removes (dir=0) or creates
// (dir=1) the two-level frame.
func VerifC09Nested() {
	faults, cancel := vnBudget()
	w := vfNewWorld(faults, cancel)
	if vParam("xdev", 0) == 1 {
		w.crossDevice = vBool()
	}
	frame := vnFrame()
	total := vnCount(frame)
	innerTotal := vnCount(frame.Contents["a"])
	var old, nw *Entry
	removal := vParam("dir", 0) == 0
	if removal {
		old = frame
	} else {
		nw = frame
	}
	var ownership *filesystem.OwnershipSpecification
	if vParam("own", 0) == 1 && vBool() {
		ownership = &filesystem.OwnershipSpecification{}
		vNote("explicit default ownership")
	}
	cache := &Cache{Entries: map[string]*CacheEntry{}}
	path := vfPlace(1, old, cache)
	vfStage(nw, path)
	vNote("path=" + path + " old=" + vtShow(old) + " new=" + vtShow(nw))
	if cancel && vBool() {
		// cancelled before Transition is entered
		w.cancelled = true
		close(w.cancelCh)
		vCover("cancelled-before-start")
		vNote("cancelled before the transition started")
	}

	results, problems, missing := Transition(vfCtx{w.cancelCh}, "/p/root", []*Change{{Path: path, Old: old, New: nw}}, cache,
		SymbolicLinkMode_SymbolicLinkModePortable, filesystem.Mode(0600), filesystem.Mode(0700), ownership, false, vfProvider{})

	vAssert(len(results) == 1, "one result per transition")
	if len(results) != 1 {
		return
	}
	r := results[0]
	if w.faultsTaken > 0 {
		vCover("fault-taken")
	}
	if w.cancelled {
		vCover("cancelled")
	}
	// reachability witnesses for the nested cases (structure only)
	if r != nil && r.Kind == EntryKind_Directory {
		in := r.Contents["a"]
		if in != nil && vnCount(in) < innerTotal {
			if removal {
				vCover("nested-directory-partially-removed")
			} else {
				vCover("nested-directory-partially-created")
			}
		}
		if w.cancelled && vnCount(r) < total && vnCount(r) > 1 {
			vCover("cancelled-midway")
		}
	}
	vnOracle(path, r, nw, problems)
	vnMissingOracle(missing)
}

// vnSimpleChange is one of three representative single-node changes: removal
// of a file, creation of a symbolic link, replacement of a file's content.
func vnSimpleChange() (old, nw *Entry) {
	switch vChoose(3) {
	case 0:
		return &Entry{Kind: EntryKind_File, Digest: []byte{vU8()}, Executable: vBool()}, nil
	case 1:
		return nil, &Entry{Kind: EntryKind_SymbolicLink, Target: vString(1)}
	}
	old = &Entry{Kind: EntryKind_File, Digest: []byte{vU8()}, Executable: vBool()}
	nw = &Entry{Kind: EntryKind_File, Digest: []byte{vU8()}, Executable: vBool()}
	return
}

// VerifC09Plan: a plan of two transitions (paths x and y).  One of them (either
// position) ranges over the S1 shapes with its staged file present or absent,
// the other over three representative changes with its staged file present.  A
// fault or the cancellation may arrive anywhere in the plan, also before it
// starts or between the two transitions.  Every result is compared with the
// scan of its own path.
func VerifC09Plan() {
	faults, cancel := vnBudget()
	w := vfNewWorld(faults, cancel)
	if vParam("xdev", 0) == 1 {
		w.crossDevice = vBool()
	}
	root := &vfNode{kind: vfKDir, perm: 0700, fileID: 1}
	w.top.add("root", root)
	cache := &Cache{Entries: map[string]*CacheEntry{}}
	paths := []string{"x", "y"}
	rich := vChoose(2)
	var changes []*Change
	for i, p := range paths {
		var old, nw *Entry
		if i == rich {
			old = vtGenTree(1, 0)
			nw = vtGenTree(1, 0)
		} else {
			old, nw = vnSimpleChange()
		}
		vAssume(!vtDeepEqual(old, nw)) // a change has Old != New
		if old != nil {
			root.add(p, vfMaterialize(old, p, cache))
		}
		if i == rich {
			vfStage(nw, p)
		} else if nw != nil && nw.Kind == EntryKind_File {
			w.staged["/staging/"+p] = &vfNode{kind: vfKFile, perm: 0600, content: append([]byte(nil), nw.Digest...), size: uint64(len(nw.Digest)), fileID: 998}
		}
		vNote("path=" + p + " old=" + vtShow(old) + " new=" + vtShow(nw))
		changes = append(changes, &Change{Path: p, Old: old, New: nw})
	}
	if cancel && vBool() {
		// cancelled before Transition is entered
		w.cancelled = true
		close(w.cancelCh)
		vCover("cancelled-before-start")
		vNote("cancelled before the transition started")
	}

	results, problems, missing := Transition(vfCtx{w.cancelCh}, "/p/root", changes, cache,
		SymbolicLinkMode_SymbolicLinkModePortable, filesystem.Mode(0600), filesystem.Mode(0700), nil, false, vfProvider{})

	vAssert(len(results) == len(changes), "one result per transition")
	if len(results) != len(changes) {
		return
	}
	if w.faultsTaken > 0 {
		vCover("fault-taken")
	}
	if w.cancelled {
		vCover("cancelled")
	}
	for i, c := range changes {
		vnOracle(c.Path, results[i], c.New, problems)
	}
	vnMissingOracle(missing)
}

package core

import (
	"github.com/mutagen-io/mutagen/pkg/filesystem/behavior"
	"github.com/mutagen-io/mutagen/pkg/synchronization/core/ignore"
)

// C15(c): ignore masks and phantom directories in the real Scan
// (scanner.directory), followed by the real ReifyPhantomDirectories.
//
// The real Scan runs on the filesystem model (fsmodel.go, stubs of c12.go) with
// a Docker-style stub ignorer: every path gets one arbitrary but fixed answer
// (status Nominal / Ignored / Unignored, and for directories that are not
// unignored an arbitrary traversal-continuation flag - the contract of
// ignore.Ignorer).  The model tree holds a directory "e" with content at depth
// 1..3 below it, some of it absent:
//
//	root / o                 file outside
//	root / e                 directory
//	root / e / f             absent | file
//	root / e / s             absent | directory
//	root / e / s / n         absent | file
//	root / e / s / k         absent | file | symbolic link | directory
//	root / e / s / k / f     absent | file
//
// Own statement (from the property text, the ignore.Ignorer contract and
// entry.proto - not from scan.go):
//
//   - the explicit status closest to an entry on its path decides whether it is
//     excluded (Nominal inherits from the parent; the root is included);
//   - an excluded directory is walked only if its answer carries the
//     continuation flag (Docker: some exclusion pattern points below it),
//     otherwise nothing below it is recorded;
//   - the scan reports an excluded directory that it walks as a PHANTOM
//     directory and one that it does not walk as untracked - NEVER as a tracked
//     directory; an included directory is tracked; a file or link is tracked
//     exactly when it is included (and reached);
//   - after ReifyPhantomDirectories an excluded directory is synchronized (a
//     tracked directory in the result) ONLY IF it holds synchronized content
//     (an included file, link or directory somewhere below it, on either
//     endpoint) or was synchronized before (the ancestor has a directory at its
//     path) - and, so that no synchronized file or link is lost, it IS
//     synchronized when it holds synchronized content.
//
// The reification statement is checked first, the statement about the scan's
// own report afterwards (so that a counterexample carries the property-level
// label whenever the property itself is broken).

type vcDecision struct {
	status ignore.IgnoreStatus
	cont   bool
}

type vcIgnorer struct {
	decided map[string]vcDecision
	order   []string
}

func (g *vcIgnorer) Ignore(path string, directory bool) (ignore.IgnoreStatus, bool) {
	if d, ok := g.decided[path]; ok {
		return d.status, d.cont
	}
	d := vcDecision{status: ignore.IgnoreStatus(vChoose(3))}
	if directory && d.status != ignore.IgnoreStatusUnignored {
		d.cont = vChoose(2) == 1
	}
	g.decided[path] = d
	g.order = append(g.order, path)
	return d.status, d.cont
}

func vcShowDecisions(g *vcIgnorer) string {
	s := ""
	for _, p := range g.order {
		d := g.decided[p]
		s += " " + p + "="
		switch d.status {
		case ignore.IgnoreStatusNominal:
			s += "nominal"
		case ignore.IgnoreStatusIgnored:
			s += "ignored"
		default:
			s += "unignored"
		}
		if d.cont {
			s += "+continue"
		}
	}
	return s
}

// vcItem is one entry of the model tree as the own statement sees it.
type vcItem struct {
	path     string
	node     *vfNode
	excluded bool // under an ignore mask (own computation)
	walked   bool // directories: content looked at
	reached  bool // every directory above it is walked
}

// vcClassify lists every entry of the model tree with its own classification.
func vcClassify(n *vfNode, path string, excluded, reached bool, g *vcIgnorer, out *[]vcItem) {
	for _, name := range n.names {
		c := n.kids[name]
		cp := vtJoin(path, name)
		it := vcItem{path: cp, node: c, excluded: excluded, reached: reached}
		if reached {
			d, asked := g.decided[cp]
			vAssert(asked, "the scan consults the ignorer for every entry it reaches")
			switch d.status {
			case ignore.IgnoreStatusIgnored:
				it.excluded = true
			case ignore.IgnoreStatusUnignored:
				it.excluded = false
			}
			it.walked = c.kind == vfKDir && (!it.excluded || d.cont)
		}
		*out = append(*out, it)
		if c.kind == vfKDir {
			vcClassify(c, cp, it.excluded, reached && it.walked, g, out)
		}
	}
}

// vcHoldsSynchronized: some entry properly below path is reached and included.
func vcHoldsSynchronized(items []vcItem, path string) bool {
	for _, it := range items {
		if it.path != path && vtAtOrBelow(path, it.path) && it.reached && !it.excluded {
			return true
		}
	}
	return false
}

// vcShow renders the kinds of a tree over the names of this harness.
func vcShow(e *Entry) string {
	if e == nil {
		return "-"
	}
	var s string
	switch e.Kind {
	case EntryKind_File:
		return "file"
	case EntryKind_SymbolicLink:
		return "link"
	case EntryKind_Untracked:
		return "untracked"
	case EntryKind_Problematic:
		return "problematic"
	case EntryKind_Directory:
		s = "dir{"
	case EntryKind_PhantomDirectory:
		s = "phantom{"
	default:
		return "?"
	}
	first := true
	for _, name := range []string{"o", "e", "f", "s", "n", "k"} {
		if c, ok := e.Contents[name]; ok {
			if !first {
				s += ","
			}
			first = false
			s += name + ":" + vcShow(c)
		}
	}
	return s + "}"
}

func vcFile(content byte) *vfNode {
	w := vfw
	w.nextID++
	return &vfNode{kind: vfKFile, perm: 0644, content: []byte{content}, size: 1, fileID: w.nextID, mSec: 1000 + int64(w.nextID), mNsec: 7}
}

func vcDir() *vfNode {
	w := vfw
	w.nextID++
	return &vfNode{kind: vfKDir, perm: 0700, fileID: w.nextID}
}

var verifStubs_VerifC15Scan = verifStubsScan

func VerifC15Scan() {
	w := vfNewWorld(0, false)
	vfOpenedDirs = nil
	root := vcDir()
	w.top.add("root", root)

	// the model tree
	root.add("o", vcFile(1))
	e := vcDir()
	root.add("e", e)
	if vChoose(2) == 1 {
		e.add("f", vcFile(2))
	}
	if vChoose(2) == 1 {
		s := vcDir()
		e.add("s", s)
		if vParam("sibling", 1) == 1 && vChoose(2) == 1 {
			s.add("n", vcFile(3))
		}
		switch vChoose(4) {
		case 0: // the re-included target is absent
			vCover("target absent")
		case 1:
			s.add("k", vcFile(4))
		case 2:
			w.nextID++
			s.add("k", &vfNode{kind: vfKLink, target: "x", fileID: w.nextID})
		default:
			k := vcDir()
			s.add("k", k)
			if vChoose(2) == 1 {
				k.add("f", vcFile(5))
			}
		}
	}

	// "e" is excluded (walked or not) or, for comparison, nominal; everything
	// below is decided by the stub when the scan asks
	g := &vcIgnorer{decided: map[string]vcDecision{"o": {status: ignore.IgnoreStatusNominal}}}
	switch vChoose(3) {
	case 0:
		g.decided["e"] = vcDecision{status: ignore.IgnoreStatusIgnored, cont: true}
	case 1:
		g.decided["e"] = vcDecision{status: ignore.IgnoreStatusIgnored}
	default:
		g.decided["e"] = vcDecision{status: ignore.IgnoreStatusNominal}
	}
	g.order = []string{"e"}

	snap, _, _, err := Scan(vfCtx{w.cancelCh}, "/p/root", nil, nil, &vfHasher{}, nil, g, nil,
		behavior.ProbeMode_ProbeModeProbe, SymbolicLinkMode_SymbolicLinkModePortable, PermissionsMode_PermissionsModePortable)
	vNote("disk=" + vfShowDisk(root) + " ignorer:" + vcShowDecisions(g))
	vAssert(err == nil, "scan of a readable tree succeeds")
	if err != nil {
		return
	}
	vCover("scanned")
	vNote("snapshot=" + vcShow(snap.Content))

	var items []vcItem
	vcClassify(root, "", false, true, g, &items)

	// ---- after reification ----
	// ancestor: nothing below the root / e was a directory / e and e/s were;
	// other endpoint: an empty root / the same tree (scanned alike)
	for av := 0; av <= vParam("ancestors", 2); av++ {
		for bv := 0; bv <= vParam("betas", 1); bv++ {
			vcCheckReified(snap.Content, items, av, bv)
		}
	}
	vcCheckScanned(snap.Content, items)
}

// vcCheckScanned: what the scan itself reports.
func vcCheckScanned(content *Entry, items []vcItem) {
	vAssert(content != nil && content.Kind == EntryKind_Directory, "the root is a tracked directory")
	for _, it := range items {
		got, _ := vtAt(content, it.path)
		if !it.reached {
			vAssert(got == nil, "nothing is recorded below an excluded directory that is not walked")
			continue
		}
		vAssert(got != nil, "every entry the scan reaches is recorded")
		if got == nil {
			continue
		}
		if it.node.kind == vfKDir {
			if it.excluded {
				vCover("excluded directory")
				vAssert(got.Kind != EntryKind_Directory, "the scan never reports an excluded directory as a tracked directory")
				if it.walked {
					vCover("excluded directory walked")
					vAssert(got.Kind == EntryKind_PhantomDirectory, "the scan reports an excluded directory that it walks as a phantom directory")
				} else {
					vAssert(got.Kind == EntryKind_Untracked && len(got.Contents) == 0, "an excluded directory that is not walked is untracked, without contents")
				}
			} else {
				if len(vtSplit(it.path)) > 1 {
					vCover("re-included directory")
				}
				vAssert(got.Kind == EntryKind_Directory, "an included directory is a tracked directory")
			}
			continue
		}
		if it.excluded {
			vAssert(got.Kind == EntryKind_Untracked, "an excluded file or link is untracked")
		} else if it.node.kind == vfKFile {
			if len(vtSplit(it.path)) > 1 {
				vCover("re-included file")
			}
			vAssert(got.Kind == EntryKind_File, "an included file is tracked (re-inclusion beneath an excluded directory)")
		} else {
			vAssert(got.Kind == EntryKind_SymbolicLink, "an included link is tracked (re-inclusion beneath an excluded directory)")
		}
	}
}

func vcCheckReified(alpha *Entry, items []vcItem, av, bv int) {
	var anc *Entry
	switch av {
	case 0:
		anc = &Entry{Kind: EntryKind_Directory}
	case 1:
		anc = &Entry{Kind: EntryKind_Directory, Contents: map[string]*Entry{"e": {Kind: EntryKind_Directory}}}
	default:
		anc = &Entry{Kind: EntryKind_Directory, Contents: map[string]*Entry{"e": {Kind: EntryKind_Directory,
			Contents: map[string]*Entry{"s": {Kind: EntryKind_Directory}}}}}
	}
	var beta *Entry
	if bv == 0 {
		beta = &Entry{Kind: EntryKind_Directory}
	} else {
		beta = vtClone(alpha)
	}
	ra, rb, _, _ := ReifyPhantomDirectories(anc, alpha, beta)
	vNote("ancestor " + vcShow(anc) + []string{", other endpoint empty", ", other endpoint alike"}[bv] + " => " + vcShow(ra))
	for _, res := range []*Entry{ra, rb} {
		vAssert(vtC15CountKind(res, EntryKind_PhantomDirectory) == 0, "no phantom directory remains after reification")
	}
	for _, it := range items {
		if !(it.node.kind == vfKDir && it.excluded && it.reached) {
			continue
		}
		before, _ := vtAt(anc, it.path)
		held := vcHoldsSynchronized(items, it.path)
		was := before != nil && before.Kind == EntryKind_Directory
		got, _ := vtAt(ra, it.path)
		synchronized := got != nil && got.Kind == EntryKind_Directory
		if held {
			vCover("excluded directory holding synchronized content")
		} else if was {
			vCover("excluded directory synchronized before")
		} else {
			vCover("excluded directory without synchronized content")
			if it.walked {
				vCover("walked excluded directory without synchronized content")
			}
		}
		vAssert(!synchronized || held || was, "an excluded directory is synchronized only if it holds synchronized content or was synchronized before")
		vAssert(synchronized || !held, "an excluded directory that holds synchronized content is synchronized (nothing re-included is lost)")
	}
	// synchronized files and links survive reification exactly
	for _, it := range items {
		if it.node.kind == vfKDir || !it.reached {
			continue
		}
		got, _ := vtAt(ra, it.path)
		if it.excluded {
			vAssert(got == nil || got.Kind == EntryKind_Untracked, "an excluded file or link is not synchronized after reification")
		} else {
			vAssert(got != nil && (got.Kind == EntryKind_File || got.Kind == EntryKind_SymbolicLink), "an included file or link is still synchronized after reification")
		}
	}
}

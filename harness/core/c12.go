package core

import (
	"errors"
	"io"
	"io/fs"
	"strings"
	"unicode/utf8"

	"github.com/mutagen-io/mutagen/pkg/filesystem"
	"github.com/mutagen-io/mutagen/pkg/filesystem/behavior"
	"github.com/mutagen-io/mutagen/pkg/synchronization/core/ignore"
)

// C12 / C13: the real Scan() against the filesystem model.

func vfMergeStubs(ms ...map[string]any) map[string]any {
	r := map[string]any{}
	for _, m := range ms {
		for k, v := range m {
			r[k] = v
		}
	}
	return r
}

var vfPreserves bool

type vfFileReader struct {
	n   *vfNode
	pos int
}

func (r *vfFileReader) Read(p []byte) (int, error) {
	if r.pos >= len(r.n.content) {
		return 0, io.EOF
	}
	k := copy(p, r.n.content[r.pos:])
	r.pos += k
	return k, nil
}
func (r *vfFileReader) Seek(offset int64, whence int) (int64, error) {
	return 0, errors.New("model: seek unsupported")
}
func (r *vfFileReader) Close() error { return nil }

var vfOpenedDirs []*vfNode // nodes opened through OpenDirectory (to check pruning)

func vfOpenFile(d *filesystem.Directory, name string) (io.ReadSeekCloser, *filesystem.Metadata, error) {
	n := vfw.node(d)
	if !vfValidName(name) {
		return nil, nil, vfErrKind
	}
	if vfStep() {
		return nil, nil, vfErrIO
	}
	c := n.kids[name]
	if c == nil {
		return nil, nil, fs.ErrNotExist
	}
	if c.kind != vfKFile {
		return nil, nil, vfErrKind
	}
	return &vfFileReader{n: c}, c.metadata(name), nil
}

func vfOpenRoot(path string, allowSymbolicLinkLeaf bool) (io.Closer, *filesystem.Metadata, error) {
	w := vfw
	r := w.top.kids["root"]
	if r == nil {
		return nil, nil, fs.ErrNotExist
	}
	if r.kind != vfKDir {
		vFail("model: only directory roots are modelled")
	}
	return w.newHandle(r), r.metadata("root"), nil
}

func vfOpenDirectoryLogged(d *filesystem.Directory, name string) (*filesystem.Directory, error) {
	if n := vfw.handles[d]; n != nil && n.kids[name] != nil {
		vfOpenedDirs = append(vfOpenedDirs, n.kids[name])
	}
	return vfOpenDirectory(d, name)
}

func vfPreservesExecutability(directory *filesystem.Directory, probeMode behavior.ProbeMode) (bool, bool, error) {
	return vfPreserves, false, nil
}

func vfDecomposesUnicode(directory *filesystem.Directory, probeMode behavior.ProbeMode) (bool, bool, error) {
	return false, false, nil
}

var verifStubsScan = vfMergeStubs(verifStubsFS, map[string]any{
	"github.com/mutagen-io/mutagen/pkg/filesystem.Open": vfOpenRoot,
	"(*github.com/mutagen-io/mutagen/pkg/filesystem.Directory).OpenFile":      vfOpenFile,
	"(*github.com/mutagen-io/mutagen/pkg/filesystem.Directory).OpenDirectory": vfOpenDirectoryLogged,
	"github.com/mutagen-io/mutagen/pkg/filesystem/behavior.PreservesExecutability": vfPreservesExecutability,
	"github.com/mutagen-io/mutagen/pkg/filesystem/behavior.DecomposesUnicode":      vfDecomposesUnicode,
})

var verifStubs_VerifC12 = verifStubsScan
var verifStubs_VerifC13 = verifStubsScan
var verifStubs_VerifC13File = verifStubsScan

// vfHasher is the injective hash model: the digest is the content itself,
// prefixed by a marker byte so that it is never empty.
type vfHasher struct{ buf []byte }

func (h *vfHasher) Write(p []byte) (int, error) { h.buf = append(h.buf, p...); return len(p), nil }
func (h *vfHasher) Sum(b []byte) []byte          { return append(append(b, 0x5a), h.buf...) }
func (h *vfHasher) Reset()                       { h.buf = nil }
func (h *vfHasher) Size() int                    { return 0 }
func (h *vfHasher) BlockSize() int               { return 1 }

func vfDigestOf(content []byte) []byte { return append([]byte{0x5a}, content...) }

// vfIgnorer: Mutagen-style decisions (ignored => no traversal), fixed per path.
type vfIgnorer struct {
	decided map[string]ignore.IgnoreStatus
	asked   []string
}

func (g *vfIgnorer) Ignore(path string, directory bool) (ignore.IgnoreStatus, bool) {
	g.asked = append(g.asked, path)
	if s, ok := g.decided[path]; ok {
		return s, false
	}
	s := ignore.IgnoreStatus(vChoose(3))
	g.decided[path] = s
	return s, false
}

type vfScanModes struct {
	symlinks    SymbolicLinkMode
	permissions PermissionsMode
}

type vfCounts struct{ dirs, files, links, bytes uint64 }

// vfExpectedScan is the own statement of what a snapshot of node n must say.
func vfExpectedScan(n *vfNode, path string, g *vfIgnorer, m vfScanModes, c *vfCounts) *Entry {
	e := &Entry{Kind: EntryKind_Directory, Contents: map[string]*Entry{}}
	c.dirs++
	for _, name := range n.names {
		k := n.kids[name]
		if strings.HasPrefix(name, filesystem.TemporaryNamePrefix) {
			continue // Mutagen temporaries are omitted
		}
		if !utf8.ValidString(name) {
			e.Contents[strings.ToValidUTF8(name, "�")+" (non-UTF-8)"] = &Entry{Kind: EntryKind_Problematic, Problem: "non-UTF-8 filename"}
			continue
		}
		cp := vtJoin(path, name)
		if k.kind == vfKOther {
			e.Contents[name] = &Entry{Kind: EntryKind_Untracked}
			continue
		}
		if g.decided[cp] == ignore.IgnoreStatusIgnored {
			e.Contents[name] = &Entry{Kind: EntryKind_Untracked}
			continue
		}
		switch k.kind {
		case vfKDir:
			e.Contents[name] = vfExpectedScan(k, cp, g, m, c)
		case vfKFile:
			x := false
			if m.permissions == PermissionsMode_PermissionsModePortable {
				x = vfPreserves && k.perm&0111 != 0
			}
			c.files++
			c.bytes += k.size
			e.Contents[name] = &Entry{Kind: EntryKind_File, Digest: vfDigestOf(k.content), Executable: x}
		case vfKLink:
			switch m.symlinks {
			case SymbolicLinkMode_SymbolicLinkModeIgnore:
				e.Contents[name] = &Entry{Kind: EntryKind_Untracked}
			case SymbolicLinkMode_SymbolicLinkModePOSIXRaw:
				if k.target == "" {
					e.Contents[name] = &Entry{Kind: EntryKind_Problematic, Problem: "*"}
				} else {
					c.links++
					e.Contents[name] = &Entry{Kind: EntryKind_SymbolicLink, Target: k.target}
				}
			default:
				if vfPortableTarget(cp, k.target) {
					c.links++
					e.Contents[name] = &Entry{Kind: EntryKind_SymbolicLink, Target: k.target}
				} else {
					e.Contents[name] = &Entry{Kind: EntryKind_Problematic, Problem: "*"}
				}
			}
		}
	}
	return e
}

// vfPortableTarget: own statement of portability (POSIX): non-empty, relative,
// no ':' or '\\', at most 247 bytes, never leaves the root lexically.
func vfPortableTarget(path, target string) bool {
	if target == "" || len(target) > 247 || target[0] == '/' {
		return false
	}
	for i := 0; i < len(target); i++ {
		if target[i] == ':' || target[i] == '\\' {
			return false
		}
	}
	level := len(vtSplit(path)) - 1
	ok := true
	start := 0
	for i := 0; i <= len(target); i++ {
		if i < len(target) && target[i] != '/' {
			continue
		}
		comp := target[start:i]
		start = i + 1
		switch comp {
		case "", ".":
		case "..":
			level--
			if level < 0 {
				ok = false
			}
		default:
			level++
		}
	}
	return ok
}

// vtEqualProblems compares entries where expected problem text "*" matches any non-empty text.
func vfSnapshotEqual(got, want *Entry) bool {
	if got == nil || want == nil {
		return got == nil && want == nil
	}
	if got.Kind != want.Kind {
		return false
	}
	if want.Kind == EntryKind_Problematic {
		if want.Problem == "*" {
			return got.Problem != ""
		}
		return got.Problem == want.Problem
	}
	if !vAnd(got.Executable == want.Executable, vtBytesEq(got.Digest, want.Digest), got.Target == want.Target) {
		return false
	}
	if len(got.Contents) != len(want.Contents) {
		return false
	}
	for name, w := range want.Contents {
		g, ok := got.Contents[name]
		if !ok || !vfSnapshotEqual(g, w) {
			return false
		}
	}
	return true
}

func vfGenFile(maxContent int) *vfNode {
	w := vfw
	w.nextID++
	c := vBytes(vRange(0, maxContent))
	vLabel("perm")
	perm := filesystem.Mode(vU16()) & 0777
	vLabel("")
	return &vfNode{kind: vfKFile, perm: perm, content: c, size: uint64(len(c)), fileID: w.nextID, mSec: 1000 + int64(w.nextID), mNsec: 7}
}

func vfGenLink(maxTarget int) *vfNode {
	w := vfw
	w.nextID++
	vLabel("target")
	t := vString(vRange(1, maxTarget))
	vLabel("")
	return &vfNode{kind: vfKLink, target: t, fileID: w.nextID}
}

// vfGenDisk builds a root directory with entries a, b (+ optional nested a/a),
// a temporary-prefixed file and a non-UTF-8 name.
func vfGenDisk(depth int) *vfNode {
	w := vfw
	var gen func(d int) *vfNode
	gen = func(d int) *vfNode {
		w.nextID++
		n := &vfNode{kind: vfKDir, perm: 0700, fileID: w.nextID}
		names := []string{"a", "b"}
		if d < depth {
			names = []string{"a"}
		}
		for _, name := range names {
			kinds := 5
			if vParam("nofifo", 0) == 1 {
				kinds = 4
			}
			k := vChoose(kinds)
			if kinds == 4 && k == 3 {
				k = 4
			}
			switch k {
			case 0:
			case 1:
				n.add(name, vfGenFile(vParam("maxcontent", 1)))
			case 2:
				n.add(name, vfGenLink(vParam("maxtarget", 2)))
			case 3:
				w.nextID++
				n.add(name, &vfNode{kind: vfKOther, perm: 0600, fileID: w.nextID})
			default:
				if d > 0 {
					n.add(name, gen(d-1))
				} else {
					w.nextID++
					n.add(name, &vfNode{kind: vfKDir, perm: 0700, fileID: w.nextID})
				}
			}
		}
		return n
	}
	root := gen(depth)
	if vBool() {
		w.nextID++
		root.add(filesystem.TemporaryNamePrefix+"x", &vfNode{kind: vfKFile, perm: 0600, content: []byte{1}, size: 1, fileID: w.nextID})
		vCover("temporary-present")
	}
	if vBool() {
		w.nextID++
		root.add("\xffz", &vfNode{kind: vfKFile, perm: 0600, content: []byte{1}, size: 1, fileID: w.nextID})
		vCover("non-utf8-present")
	}
	return root
}

func vfShowDisk(n *vfNode) string {
	switch n.kind {
	case vfKFile:
		return "file"
	case vfKLink:
		return "link"
	case vfKOther:
		return "fifo"
	}
	s := "dir{"
	for i, name := range n.names {
		if i > 0 {
			s += ","
		}
		if utf8.ValidString(name) {
			s += name
		} else {
			s += "<non-utf8>"
		}
		s += ":" + vfShowDisk(n.kids[name])
	}
	return s + "}"
}

func vfModes() vfScanModes {
	m := vfScanModes{}
	if vParam("fixedmodes", 0) == 1 {
		m.symlinks, m.permissions = SymbolicLinkMode_SymbolicLinkModePortable, PermissionsMode_PermissionsModePortable
		return m
	}
	m.symlinks = []SymbolicLinkMode{SymbolicLinkMode_SymbolicLinkModePortable, SymbolicLinkMode_SymbolicLinkModeIgnore, SymbolicLinkMode_SymbolicLinkModePOSIXRaw}[vChoose(3)]
	m.permissions = []PermissionsMode{PermissionsMode_PermissionsModePortable, PermissionsMode_PermissionsModeManual}[vChoose(2)]
	return m
}

func VerifC12() {
	w := vfNewWorld(0, false)
	vfOpenedDirs = nil
	root := vfGenDisk(vParam("depth", 1))
	w.top.add("root", root)
	vfPreserves = vBool()
	m := vfModes()
	g := &vfIgnorer{decided: map[string]ignore.IgnoreStatus{}}
	vNote("disk=" + vfShowDisk(root))

	snap, cache, _, err := Scan(vfCtx{w.cancelCh}, "/p/root", nil, nil, &vfHasher{}, nil, g, nil,
		behavior.ProbeMode_ProbeModeProbe, m.symlinks, m.permissions)
	vAssert(err == nil, "scan of a readable tree succeeds")
	if err != nil {
		return
	}
	vCover("scanned")
	var c vfCounts
	want := vfExpectedScan(root, "", g, m, &c)
	vAssert(vfSnapshotEqual(snap.Content, want), "snapshot lists every entry with its kind, digest, executability and target")
	vAssert(snap.Content.EnsureValid(false) == nil, "snapshot content is valid")
	vAssert(snap.Directories == c.dirs, "directory count matches the content")
	vAssert(snap.Files == c.files, "file count matches the content")
	vAssert(snap.SymbolicLinks == c.links, "symbolic link count matches the content")
	vAssert(snap.TotalFileSize == c.bytes, "byte count matches the content")
	vAssert(snap.PreservesExecutability == vfPreserves, "snapshot records the filesystem's executability behaviour")
	// every file in the snapshot has a cache entry with its digest
	vtVisit(snap.Content, "", func(p string, e *Entry) {
		if e.Kind == EntryKind_File {
			ce, ok := cache.Entries[p]
			vAssert(ok && vtBytesEq(ce.Digest, e.Digest), "every scanned file has a cache entry carrying its digest")
		}
	})
	// ignored directories are pruned: never opened
	for p, s := range g.decided {
		if s == ignore.IgnoreStatusIgnored {
			vCover("ignored")
			n := vfLookup(p)
			if n != nil && n.kind == vfKDir {
				vCover("ignored-directory")
				for _, opened := range vfOpenedDirs {
					vAssert(opened != n, "an ignored directory is never opened")
				}
			}
		}
	}
}

package core

import (
	"github.com/mutagen-io/mutagen/pkg/filesystem/behavior"
	"github.com/mutagen-io/mutagen/pkg/synchronization/core/ignore"
)

// C03, scan half under an ignore mask (Docker-style ignores).
//
// Reconcile (the planning half of C03) refuses to remove what a snapshot lists
// as unsynchronizable, and the transition refuses to remove what a snapshot
// does not list at all.  Both rest on the scan: content that is ignored must
// reach them as untracked (or not at all) - if the scan lists an ignored file
// as an ordinary file, it is synchronized like one and deleted like one.
//
// VerifC03Scan runs the real core.Scan (scanner.directory with its ignore mask)
// on the filesystem model with a stub ignorer that answers like a Docker-style
// ignorer: one fixed answer per path (status, and for directories that are not
// unignored a traversal-continuation flag: the contract of ignore.Ignorer).
// The model tree:
//
//	root / o               file, nominal
//	root / e               directory, IGNORED + continue traversal
//	root / e / f           absent | file | link | FIFO          nominal | ignored
//	root / e / s           directory    nominal+continue | ignored+continue | nominal | unignored
//	root / e / s / n       absent | file | directory{f} | FIFO  nominal | ignored (directory: +/- continue)
//	root / e / s / k       absent | file | directory{f}         UNIGNORED (the re-included path)
//	root / e / s / <non-UTF-8 name>   absent | file
//
// Own statement (property text + the ignore.Ignorer contract; not scan.go):
// the explicit answer closest to an entry on its path decides whether it is
// ignored (nominal inherits from the parent, the root is not ignored); nothing
// below an ignored directory whose answer does not carry the continuation flag
// is looked at.  Then
//
//	(scan)  an ignored entry is never reported as a tracked file, directory or
//	        symbolic link (it is untracked, a phantom directory, or not listed);
//	        the same holds for entries of an unsupported type and entries whose
//	        name cannot be recorded;
//	(plan)  with that snapshot as one endpoint - the other endpoint lacks "e", has
//	        a file there, or has what was synchronized before minus "e/s/k";
//	        "e" never synchronized before / its synchronized part synchronized
//	        before; every mode - the real
//	        ReifyPhantomDirectories + Reconcile plan no change for this endpoint
//	        at or above the path of an ignored file, link, FIFO, unrecordable
//	        name or unwalked ignored directory: such content would be removed
//	        or replaced together with the directory that holds it.
//
// The plan statement is checked first, so that a counterexample carries the
// property-level label whenever the property itself is broken.

type vc3Decision struct {
	status ignore.IgnoreStatus
	cont   bool
}

type vc3Ignorer struct {
	decided map[string]vc3Decision
	order   []string
	wide    bool
}

func (g *vc3Ignorer) Ignore(path string, directory bool) (ignore.IgnoreStatus, bool) {
	if d, ok := g.decided[path]; ok {
		return d.status, d.cont
	}
	var d vc3Decision
	if g.wide {
		d.status = ignore.IgnoreStatus(vChoose(3))
	} else {
		d.status = ignore.IgnoreStatus(vChoose(2)) // nominal | ignored
	}
	if directory && d.status != ignore.IgnoreStatusUnignored {
		d.cont = vChoose(2) == 1
	}
	g.decided[path] = d
	g.order = append(g.order, path)
	return d.status, d.cont
}

func vc3ShowDecisions(g *vc3Ignorer) string {
	s := ""
	for _, p := range g.order {
		d := g.decided[p]
		s += " " + vc3Printable(p) + "="
		switch d.status {
		case ignore.IgnoreStatusNominal:
			s += "nominal"
		case ignore.IgnoreStatusIgnored:
			s += "ignored"
		default:
			s += "unignored"
		}
		if d.cont {
			s += "+continue"
		}
	}
	return s
}

func vc3Printable(p string) string {
	out := ""
	for i := 0; i < len(p); i++ {
		if p[i] >= 0x80 {
			out += "<ff>"
		} else {
			out += p[i : i+1]
		}
	}
	return out
}

// vc3Item: one entry of the model tree with the own classification.
type vc3Item struct {
	path      string
	node      *vfNode
	ignored   bool // closest explicit answer on the path is "ignored"
	reached   bool // every directory above it is walked
	walked    bool // directory whose content is looked at
	untracked bool // content that synchronization does not track as a whole
}

func vc3Classify(n *vfNode, path string, ignored, reached bool, g *vc3Ignorer, out *[]vc3Item) {
	for _, name := range n.names {
		c := n.kids[name]
		cp := vtJoin(path, name)
		it := vc3Item{path: cp, node: c, ignored: ignored, reached: reached}
		recordable := name != "\xffz"
		if reached && recordable && c.kind != vfKOther {
			if d, asked := g.decided[cp]; asked {
				switch d.status {
				case ignore.IgnoreStatusIgnored:
					it.ignored = true
				case ignore.IgnoreStatusUnignored:
					it.ignored = false
				}
				it.walked = c.kind == vfKDir && (!it.ignored || d.cont)
			} else {
				vFail("model: the scan did not consult the ignorer for an entry it reaches")
			}
		}
		// not tracked as a whole: unreachable, unsupported type, unrecordable
		// name, ignored file or link, ignored directory that is not walked
		it.untracked = !reached || !recordable || c.kind == vfKOther || (it.ignored && !it.walked)
		*out = append(*out, it)
		if c.kind == vfKDir {
			vc3Classify(c, cp, it.ignored, reached && it.walked, g, out)
		}
	}
}

// vc3SyncedBefore: the part of a snapshot that an earlier, fully applied cycle
// has put into the ancestor: tracked files and links, and the directories
// (phantom or not) that hold some.
func vc3SyncedBefore(e *Entry) *Entry {
	if e == nil {
		return nil
	}
	switch e.Kind {
	case EntryKind_File:
		return &Entry{Kind: EntryKind_File, Digest: e.Digest, Executable: e.Executable}
	case EntryKind_SymbolicLink:
		return &Entry{Kind: EntryKind_SymbolicLink, Target: e.Target}
	case EntryKind_Directory, EntryKind_PhantomDirectory:
		r := &Entry{Kind: EntryKind_Directory}
		for _, name := range []string{"o", "e", "f", "s", "n", "k"} {
			if c := vc3SyncedBefore(e.Contents[name]); c != nil {
				if r.Contents == nil {
					r.Contents = map[string]*Entry{}
				}
				r.Contents[name] = c
			}
		}
		if r.Contents == nil && e.Kind == EntryKind_PhantomDirectory {
			return nil
		}
		return r
	}
	return nil
}

func vc3Show(e *Entry) string {
	if e == nil {
		return "-"
	}
	var s string
	switch e.Kind {
	case EntryKind_File:
		return "file"
	case EntryKind_SymbolicLink:
		return "link"
	case EntryKind_Untracked:
		return "untracked"
	case EntryKind_Problematic:
		return "problematic"
	case EntryKind_Directory:
		s = "dir{"
	case EntryKind_PhantomDirectory:
		s = "phantom{"
	default:
		return "?"
	}
	first := true
	for _, name := range []string{"o", "e", "f", "s", "n", "k"} {
		if c, ok := e.Contents[name]; ok {
			if !first {
				s += ","
			}
			first = false
			s += name + ":" + vc3Show(c)
		}
	}
	if len(e.Contents) > 0 {
		for name := range e.Contents {
			if len(name) > 1 {
				s += ",<escaped non-UTF-8 name>:" + vc3Show(e.Contents[name])
			}
		}
	}
	return s + "}"
}

func vc3File(content byte) *vfNode {
	w := vfw
	w.nextID++
	return &vfNode{kind: vfKFile, perm: 0644, content: []byte{content}, size: 1, fileID: w.nextID, mSec: 1000 + int64(w.nextID), mNsec: 7}
}

func vc3Dir() *vfNode {
	w := vfw
	w.nextID++
	return &vfNode{kind: vfKDir, perm: 0700, fileID: w.nextID}
}

func vc3Other() *vfNode {
	w := vfw
	w.nextID++
	return &vfNode{kind: vfKOther, perm: 0600, fileID: w.nextID}
}

var verifStubs_VerifC03Scan = verifStubsScan

func VerifC03Scan() {
	w := vfNewWorld(0, false)
	vfOpenedDirs = nil
	vfPreserves = true
	root := vc3Dir()
	w.top.add("root", root)
	wide := vParam("wide", 0) == 1

	// the model tree
	root.add("o", vc3File(1))
	e := vc3Dir()
	root.add("e", e)
	switch vChoose(4) {
	case 0:
	case 1:
		e.add("f", vc3File(2))
	case 2:
		w.nextID++
		e.add("f", &vfNode{kind: vfKLink, target: "x", fileID: w.nextID})
	default:
		e.add("f", vc3Other())
	}
	s := vc3Dir()
	e.add("s", s)
	switch vChoose(4) {
	case 0:
	case 1:
		s.add("n", vc3File(3))
	case 2:
		n := vc3Dir()
		n.add("f", vc3File(6))
		s.add("n", n)
	default:
		s.add("n", vc3Other())
	}
	switch vChoose(3) {
	case 0:
	case 1:
		s.add("k", vc3File(4))
	default:
		k := vc3Dir()
		k.add("f", vc3File(5))
		s.add("k", k)
	}
	if vBool() {
		s.add("\xffz", vc3File(7))
	}

	// the ignorer's answers: "e" is ignored and walked because something below
	// it is re-included; "e/s" lies on the way to the re-included path "e/s/k"
	g := &vc3Ignorer{wide: wide, decided: map[string]vc3Decision{
		"o": {status: ignore.IgnoreStatusNominal},
		"e": {status: ignore.IgnoreStatusIgnored, cont: true},
	}}
	g.order = []string{"e"}
	switch vChoose(4) {
	case 0:
		g.decided["e/s"] = vc3Decision{status: ignore.IgnoreStatusNominal, cont: true}
	case 1:
		g.decided["e/s"] = vc3Decision{status: ignore.IgnoreStatusIgnored, cont: true}
	case 2:
		g.decided["e/s"] = vc3Decision{status: ignore.IgnoreStatusNominal}
	default:
		g.decided["e/s"] = vc3Decision{status: ignore.IgnoreStatusUnignored}
	}
	g.order = append(g.order, "e/s")
	if !wide {
		g.decided["e/s/k"] = vc3Decision{status: ignore.IgnoreStatusUnignored}
		g.order = append(g.order, "e/s/k")
	}

	snap, _, _, err := Scan(vfCtx{w.cancelCh}, "/p/root", nil, nil, &vfHasher{}, nil, g, nil,
		behavior.ProbeMode_ProbeModeProbe, SymbolicLinkMode_SymbolicLinkModePortable, PermissionsMode_PermissionsModePortable)
	vNote("disk=" + vfShowDisk(root) + " ignorer:" + vc3ShowDecisions(g))
	vAssert(err == nil, "scan of a readable tree succeeds")
	if err != nil {
		return
	}
	vCover("scanned")
	vNote("snapshot=" + vc3Show(snap.Content))

	var items []vc3Item
	vc3Classify(root, "", false, true, g, &items)

	// ---- (plan) ----
	for av := 0; av < 3; av++ {
		for nv := 0; nv < 2; nv++ {
			for mode := SynchronizationMode_SynchronizationModeTwoWaySafe; mode <= SynchronizationMode_SynchronizationModeOneWayReplica; mode++ {
				vc3CheckPlan(snap.Content, items, av, nv, mode)
			}
		}
	}

	// ---- (scan) ----
	for _, it := range items {
		got, _ := vtAt(snap.Content, it.path)
		tracked := got != nil && (got.Kind == EntryKind_File || got.Kind == EntryKind_Directory || got.Kind == EntryKind_SymbolicLink)
		switch {
		case it.node.kind == vfKOther:
			vCover("unsupported-type")
			vAssert(!tracked, "an entry of an unsupported type is never reported as tracked content")
		case !it.reached:
			vCover("below-unwalked-ignored-directory")
			vAssert(!tracked, "nothing below an ignored directory that is not walked is reported as tracked content")
		case it.ignored && it.node.kind == vfKDir:
			if it.walked {
				vCover("ignored-directory-walked")
			} else {
				vCover("ignored-directory-unwalked")
			}
			if it.path != "e" {
				vCover("ignored-directory-under-mask")
			}
			vAssert(!tracked, "the scan never reports an ignored directory as a tracked directory")
		case it.ignored:
			if it.node.kind == vfKFile {
				vCover("ignored-file")
			} else {
				vCover("ignored-link")
			}
			if d := g.decided[it.path]; d.status == ignore.IgnoreStatusNominal {
				vCover("ignored-by-mask-only")
			}
			vAssert(!tracked, "the scan never reports an ignored file or link as tracked content")
		case it.path == "e/s/\xffz":
			vCover("unrecordable-name")
		default:
			if tracked && len(vtSplit(it.path)) > 1 {
				if it.node.kind == vfKDir {
					vCover("re-included-directory-tracked")
				} else {
					vCover("re-included-file-tracked")
				}
			}
		}
	}
}

func vc3CheckPlan(scanned *Entry, items []vc3Item, av, nv int, mode SynchronizationMode) {
	// the other endpoint
	other := &Entry{Kind: EntryKind_Directory, Contents: map[string]*Entry{"o": vtClone(scanned.Contents["o"])}}
	switch av {
	case 1: // a file where the scanned endpoint has the directory "e"
		other.Contents["e"] = &Entry{Kind: EntryKind_File, Digest: []byte{0x5a, 0x21}}
	case 2: // what was synchronized before, with the re-included "e/s/k" deleted
		other = vc3SyncedBefore(scanned)
		if s, _ := vtAt(other, "e/s"); s != nil {
			delete(s.Contents, "k")
			if len(s.Contents) == 0 {
				s.Contents = nil
			}
		}
	}
	// the ancestor
	var anc *Entry
	if nv == 0 {
		anc = &Entry{Kind: EntryKind_Directory, Contents: map[string]*Entry{"o": vtClone(scanned.Contents["o"])}}
	} else {
		anc = vc3SyncedBefore(scanned)
	}
	vAssert(vtValid(anc, true), "model: the ancestor is valid synchronizable content")

	ro, rs, _, _ := ReifyPhantomDirectories(anc, other, scanned)
	_, _, changes, _ := Reconcile(anc, ro, rs, mode)
	if len(changes) > 0 {
		vCover("change-planned-for-scanned-endpoint")
		if changes[0].Path != "e" {
			vCover("change-planned-below-the-ignored-directory")
		}
	}
	for _, c := range changes {
		for _, it := range items {
			if !it.untracked {
				continue
			}
			if vtAtOrBelow(c.Path, it.path) {
				vNote("other endpoint " + vc3Show(other) + ", ancestor " + vc3Show(anc) + ", scanned endpoint after reification " + vc3Show(rs) +
					": change planned at \"" + c.Path + "\" covers " + vc3Printable(it.path))
			}
			vAssert(!vtAtOrBelow(c.Path, it.path), "no change is planned at or above content that synchronization does not track (ignored, unsupported type, unrecordable name)")
		}
	}
}

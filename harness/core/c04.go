package core

// C04: a fully applied cycle is a fixpoint; two-way endpoints converge.
// C05: the saved ancestor stays valid and faithful under any transition outcome.
// C07: Diff / Apply / Copy / synchronizable filter / Count consistency.

// vtIdealCycle applies a plan with ideal transition results and composes the
// new ancestor exactly as controller.synchronize does:
//   Apply(ancestor, ancestorChanges ++ alphaResults ++ betaResults).
func vtIdealCycle(p *vtPlan) (ancestor, alpha, beta *Entry, ok bool) {
	alpha, beta = p.t.alpha, p.t.beta
	changes := append([]*Change(nil), p.ancestorChanges...)
	for _, c := range p.alphaChanges {
		alpha = vtReplace(alpha, c.Path, c.New)
		changes = append(changes, &Change{Path: c.Path, New: c.New})
	}
	for _, c := range p.betaChanges {
		beta = vtReplace(beta, c.Path, c.New)
		changes = append(changes, &Change{Path: c.Path, New: c.New})
	}
	ancestor = p.t.ancestor
	if len(changes) > 0 {
		a, err := Apply(ancestor, changes)
		vAssert(err == nil, "updating the ancestor with the plan succeeds")
		if err != nil {
			return nil, nil, nil, false
		}
		ancestor = a
		vAssert(ancestor.EnsureValid(true) == nil, "new ancestor passes validation")
	}
	return ancestor, alpha, beta, true
}

func VerifC04() {
	shape := vParam("shape", 1)
	p := vtRunReconcile(shape, vtAllowUnsync, 0)
	anc, alpha, beta, ok := vtIdealCycle(p)
	if !ok {
		return
	}
	ac2, al2, be2, cf2 := Reconcile(anc, alpha, beta, p.t.mode)
	vCover("second-cycle")
	if len(p.alphaChanges)+len(p.betaChanges) > 0 {
		vCover("after-changes")
	}
	vAssert(len(al2) == 0, "fixpoint: no further alpha changes")
	vAssert(len(be2) == 0, "fixpoint: no further beta changes")
	vAssert(len(ac2) == 0, "fixpoint: no further ancestor changes")
	vAssert(len(cf2) == len(p.conflicts), "fixpoint: same number of conflicts")
	for _, k := range p.conflicts {
		found := false
		for _, k2 := range cf2 {
			if k2.Root == k.Root {
				found = true
			}
		}
		vAssert(found, "fixpoint: conflict persists at the same root")
	}
	// two-way convergence
	if p.t.mode == SynchronizationMode_SynchronizationModeTwoWaySafe || p.t.mode == SynchronizationMode_SynchronizationModeTwoWayResolved {
		vCover("two-way")
		roots := map[string]bool{}
		for _, k := range p.conflicts {
			roots[k.Root] = true
		}
		vtConverged("", alpha, beta, roots)
	}
}

func vtConverged(path string, a, b *Entry, conflictRoots map[string]bool) {
	if conflictRoots[path] {
		return
	}
	if a != nil && vtIsUnsyncKind(a.Kind) {
		return
	}
	if b != nil && vtIsUnsyncKind(b.Kind) {
		return
	}
	if a == nil && b == nil {
		return
	}
	vAssert(a != nil && b != nil && vtSameNode(a, b), "converged: both endpoints hold the same synchronizable entry")
	if a == nil || b == nil {
		return
	}
	names := map[string]bool{}
	for n := range a.Contents {
		names[n] = true
	}
	for n := range b.Contents {
		names[n] = true
	}
	for n := range names {
		vtConverged(vtJoin(path, n), a.Contents[n], b.Contents[n], conflictRoots)
	}
}

// vtOutcome picks a transition result for a planned change: the new content,
// the old content, nothing, or any prefix-closed sub-tree of old or new.
func vtOutcome(c *Change) *Entry {
	switch vChoose(5) {
	case 0:
		return c.New
	case 1:
		return c.Old
	case 2:
		return nil
	case 3:
		return vtSubTree(c.New)
	default:
		return vtSubTree(c.Old)
	}
}

// vtSubTree keeps the root of e and an arbitrary prefix-closed subset of its descendants.
func vtSubTree(e *Entry) *Entry {
	if e == nil {
		return nil
	}
	r := &Entry{Kind: e.Kind, Executable: e.Executable, Digest: e.Digest, Target: e.Target, Problem: e.Problem}
	for _, name := range []string{"a", "b"} {
		c, ok := e.Contents[name]
		if !ok {
			continue
		}
		if vBool() {
			if r.Contents == nil {
				r.Contents = make(map[string]*Entry)
			}
			r.Contents[name] = vtSubTree(c)
		}
	}
	return r
}

func VerifC05() {
	shape := vParam("shape", 1)
	p := vtRunReconcile(shape, vtAllowUnsync, 0)
	changes := append([]*Change(nil), p.ancestorChanges...)
	type res struct {
		path string
		e    *Entry
	}
	var results []res
	for _, c := range p.alphaChanges {
		r := vtOutcome(c)
		results = append(results, res{c.Path, r})
		changes = append(changes, &Change{Path: c.Path, New: r})
	}
	for _, c := range p.betaChanges {
		r := vtOutcome(c)
		results = append(results, res{c.Path, r})
		changes = append(changes, &Change{Path: c.Path, New: r})
	}
	if len(changes) == 0 {
		return
	}
	vCover("apply")
	before := vtClone(p.t.ancestor)
	anc, err := Apply(p.t.ancestor, changes)
	vAssert(err == nil, "updating the ancestor succeeds for every transition outcome")
	if err != nil {
		return
	}
	vAssert(anc.EnsureValid(true) == nil, "new ancestor passes validation")
	vAssert(vtValid(anc, true), "new ancestor holds only synchronizable, well-formed content")
	for _, r := range results {
		vCover("result")
		got, ok := vtAt(anc, r.path)
		vAssert(ok && vtDeepEqual(got, r.e), "new ancestor records exactly the reported result at the transitioned path")
	}
	vAssert(vtDeepEqual(before, p.t.ancestor), "the previous ancestor is not mutated by Apply")
}

func VerifC07() {
	shape := vParam("shape", 1)
	a := vtGenTree(shape, vtAllowUnsync|vtAllowPhantom)
	b := vtGenTree(shape, vtAllowUnsync|vtAllowPhantom)
	vNote("a=" + vtShow(a) + " b=" + vtShow(b))
	aBefore := vtClone(a)

	// Apply(a, Diff(a, b)) == b
	d := Diff(a, b)
	vCover("diff")
	got, err := Apply(a, d)
	vAssert(err == nil, "Apply(a, Diff(a,b)) succeeds")
	if err == nil {
		vAssert(vtDeepEqual(got, b), "Apply(a, Diff(a,b)) equals b")
	}
	vAssert(vtDeepEqual(a, aBefore), "Diff and Apply do not mutate their base")
	vAssert(len(d) == 0 == vtDeepEqual(a, b), "Diff is empty exactly when the trees are equal")

	// Diff(a, a) is empty
	vAssert(len(Diff(a, a)) == 0, "Diff(a,a) is empty")
	vAssert(len(Diff(a, vtClone(a))) == 0, "Diff(a, copy of a) is empty")

	// Equal agrees with the own comparison
	vAssert(a.Equal(b, true) == vtDeepEqual(a, b), "Equal(deep) agrees with field-by-field comparison")
	vAssert(a.Equal(b, false) == vtSameNode(a, b), "Equal(shallow) agrees with field comparison")

	// Copies
	for _, behavior := range []EntryCopyBehavior{EntryCopyBehaviorDeep, EntryCopyBehaviorDeepPreservingLeaves, EntryCopyBehaviorShallow} {
		c := a.Copy(behavior)
		vAssert(vtDeepEqual(c, a), "Copy equals the original")
	}
	if a != nil {
		vCover("copy")
		slim := a.Copy(EntryCopyBehaviorSlim)
		vAssert(vtSameNode(slim, a) && slim.Contents == nil, "slim copy keeps the node's own fields and no contents")
		deep := a.Copy(EntryCopyBehaviorDeep)
		vtNoSharedNodes(deep, a)
		// later changes to the original do not affect a deep copy
		snapshot := vtClone(deep)
		vtScramble(a)
		vAssert(vtDeepEqual(deep, snapshot), "deep copy is unaffected by later changes to the original")
	}

	// synchronizable filter and Count on b (a was scrambled)
	sb := b.synchronizable()
	vCover("filter")
	vAssert(vtDeepEqual(sb, vtSyncPart(b)), "synchronizable() removes exactly the untracked/problematic/phantom sub-trees")
	n := 0
	vtVisit(vtSyncPart(b), "", func(string, *Entry) { n++ })
	vAssert(b.Count() == uint64(n), "Count equals the number of synchronizable entries reachable through synchronizable ancestors")
}

func vtNoSharedNodes(c, o *Entry) {
	if c == nil || o == nil {
		return
	}
	vAssert(c != o, "deep copy shares no node with the original")
	for name, cc := range c.Contents {
		vtNoSharedNodes(cc, o.Contents[name])
	}
}

// vtScramble mutates every node of a tree in place.
func vtScramble(e *Entry) {
	if e == nil {
		return
	}
	for _, c := range e.Contents {
		vtScramble(c)
	}
	switch e.Kind {
	case EntryKind_File:
		e.Executable = !e.Executable
		e.Digest = []byte{e.Digest[0] ^ 0xff}
	case EntryKind_SymbolicLink:
		e.Target = e.Target + "x"
	case EntryKind_Problematic:
		e.Problem = e.Problem + "x"
	case EntryKind_Directory, EntryKind_PhantomDirectory:
		if e.Contents == nil {
			e.Contents = map[string]*Entry{}
		}
		delete(e.Contents, "a")
		e.Contents["zz"] = &Entry{Kind: EntryKind_Untracked}
	}
}

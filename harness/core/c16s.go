package core

import (
	"github.com/mutagen-io/mutagen/pkg/filesystem/behavior"
	"github.com/mutagen-io/mutagen/pkg/synchronization/core/ignore"
)

// C16, scan side: "every link accepted for synchronization, whether found by a
// scan ...".  The real core.Scan (scanner.directory / scanner.symbolicLink,
// portable mode) is executed on the filesystem model holding symbolic links at
// different depths with symbolic targets; the property is asserted on every
// SymbolicLink entry of the snapshot: the link that is really on disk at that
// path (its full on-disk target, from the directory really holding it) and the
// target recorded in the snapshot (the one that is propagated) are of none of
// the rejected classes and resolve inside the root.
//
// The model's Directory.ReadSymbolicLink returns the on-disk target exactly;
// that the real one does (no truncation at any buffer size) is discharged by
// the harnesses readlink / readlink-error in package filesystem.

var verifStubs_VerifC16Scan = verifStubsScan

// vc16Nominal ignores nothing.
type vc16Nominal struct{}

func (vc16Nominal) Ignore(path string, directory bool) (ignore.IgnoreStatus, bool) {
	return ignore.IgnoreStatusNominal, false
}

func vc16Found(level int, target string, disk bool) {
	empty, long, absolute, colon, backslash := vc16Classes(target)
	if disk {
		vAssert(!empty, "no link with an empty on-disk target is accepted by the scan")
		vAssert(!long, "no link with an over-long on-disk target is accepted by the scan")
		vAssert(!absolute, "no link with an absolute on-disk target is accepted by the scan")
		vAssert(!colon, "no link with a colon in its on-disk target is accepted by the scan")
		vAssert(!backslash, "no link with a backslash in its on-disk target is accepted by the scan")
	} else {
		vAssert(!empty, "no empty target is recorded by the scan")
		vAssert(!long, "no over-long target is recorded by the scan")
		vAssert(!absolute, "no absolute target is recorded by the scan")
		vAssert(!colon, "no colon-containing target is recorded by the scan")
		vAssert(!backslash, "no backslash-containing target is recorded by the scan")
	}
	if empty || absolute {
		return
	}
	esc := vc16Escapes(level, target)
	if disk {
		vAssert(!esc, "a link accepted by the scan never resolves (on disk) outside the synchronization root")
	} else {
		vAssert(!esc, "a target recorded by the scan never resolves outside the synchronization root")
	}
}

func VerifC16Scan() {
	maxDepth := vParam("maxdepth", 1)
	maxLen := vParam("maxlen", 2)
	minLen := vParam("minlen", 1)
	links := vParam("links", 2)
	pad := vParam("pad", 0)
	up := vParam("up", 0)

	w := vfNewWorld(0, false)
	vfOpenedDirs = nil
	vfPreserves = false
	root := &vfNode{kind: vfKDir, perm: 0700, fileID: 1}
	w.top.add("root", root)
	nodes := []*vfNode{root}
	for i := 0; i < maxDepth; i++ {
		c := &vfNode{kind: vfKDir, perm: 0700, fileID: uint64(2 + i)}
		nodes[i].add("d", c)
		nodes = append(nodes, c)
	}
	names := []string{"x", "y", "z"}
	labels := []string{"target-1", "target-2", "target-3"}
	var depths []int
	var targets []string
	for i := 0; i < links && i < len(names); i++ {
		depth := vRange(0, maxDepth)
		n := vRange(minLen, maxLen)
		vLabel(labels[i])
		target := vString(n)
		vLabel("")
		if pad > 0 {
			b := make([]byte, pad)
			for j := range b {
				b[j] = 'a'
			}
			target = string(b) + target
			vCover("long-target")
		}
		target = vc16Frame(up, depth, target)
		nodes[depth].add(names[i], &vfNode{kind: vfKLink, target: target, fileID: uint64(50 + i)})
		depths = append(depths, depth)
		targets = append(targets, target)
	}
	vNote("disk=" + vfShowDisk(root))

	snap, _, _, err := Scan(vfCtx{w.cancelCh}, "/p/root", nil, nil, &vfHasher{}, nil, vc16Nominal{}, nil,
		behavior.ProbeMode_ProbeModeProbe, SymbolicLinkMode_SymbolicLinkModePortable, PermissionsMode_PermissionsModePortable)
	vAssert(err == nil, "scan of a readable tree succeeds")
	if err != nil {
		return
	}

	accepted := 0
	vtVisit(snap.Content, "", func(p string, e *Entry) {
		if e == nil || e.Kind != EntryKind_SymbolicLink {
			return
		}
		accepted++
		level := len(vtSplit(p)) - 1
		if n := vfLookup(p); n != nil && n.kind == vfKLink {
			vc16Found(level, n.target, true)
		}
		vc16Found(level, e.Target, false)
	})

	if accepted >= 1 {
		vCover("link-accepted")
	}
	if accepted < len(targets) {
		vCover("link-rejected")
	}
	if accepted >= 2 {
		vCover("two-links-accepted")
		if len(targets) == 2 && depths[0] != depths[1] {
			vCover("accepted-at-two-depths")
			if targets[0] == targets[1] {
				vCover("same-target-twice")
			}
		}
	}
	if len(targets) == 2 && accepted == 1 && depths[0] != depths[1] && targets[0] == targets[1] {
		vCover("same-target-accepted-at-one-depth-only")
	}
}

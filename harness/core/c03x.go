package core

import (
	"github.com/mutagen-io/mutagen/pkg/filesystem"
)

// C03, execution half, by name class and kind.
//
// "Synchronization never deletes, replaces or moves aside filesystem content
// that it does not track."  What a transition may touch is what the plan lists
// (Change.Old); everything else that is on disk below the change path is content
// that synchronization does not track - whatever the reason it is not listed:
// ignored, of an unsupported type, created after the scan, or carrying a name
// that scans never record (Mutagen's temporary prefix; a non-UTF-8 name is
// recorded under a different, escaped name).  VerifC03Exec runs the real
// core.Transition (transitioner.remove / removeDirectory, and create for a
// replacement) on the filesystem model for the removal or replacement of a
// directory that holds ONE such entry:
//
//	name class   plain | differs from a listed name only in case | temporary-
//	             prefixed (two shapes) | non-UTF-8
//	kind         file | FIFO | empty directory | directory with a file | link
//	position     directly in the directory / one level down; listed by the
//	             filesystem before or after the entries the plan knows
//
// Own statement: afterwards the entry is where it was, unchanged, reachable
// from the root through the same directories; the transition reports a problem
// at or above its path (inside the change) and reports the directory as still
// present.

var verifStubs_VerifC03Exec = verifStubsFS

// vc3AddFirst lists name before everything else in the directory.
func vc3AddFirst(n *vfNode, name string, c *vfNode) {
	if n.kids == nil {
		n.kids = map[string]*vfNode{}
	}
	n.names = append([]string{name}, n.names...)
	n.kids[name] = c
}

func vc3UnknownName(class int) string {
	switch class {
	case 0:
		vCover("plain-name")
		return "u"
	case 1: // differs from a name the plan lists only in case
		vCover("case-variant-name")
		return "A"
	case 2:
		vCover("temporary-name")
		return filesystem.TemporaryNamePrefix + "x"
	case 3: // the shape of a cross-device rename intermediate / a staging root
		vCover("temporary-name")
		return filesystem.TemporaryNamePrefix + "cross-device-rename0123"
	}
	vCover("non-utf8-name")
	return "\xffz"
}

func vc3UnknownNode(kind int) (n *vfNode, inner *vfNode) {
	switch kind {
	case 0:
		vCover("unknown-file")
		return &vfNode{kind: vfKFile, perm: 0600, content: []byte{9}, size: 1, fileID: 50, mSec: 900, mNsec: 3}, nil
	case 1:
		vCover("unknown-fifo")
		return &vfNode{kind: vfKOther, perm: 0600, fileID: 51}, nil
	case 2:
		vCover("unknown-directory")
		return &vfNode{kind: vfKDir, perm: 0700, fileID: 52}, nil
	case 3:
		vCover("unknown-directory-with-content")
		d := &vfNode{kind: vfKDir, perm: 0700, fileID: 53}
		inner = &vfNode{kind: vfKFile, perm: 0600, content: []byte{8}, size: 1, fileID: 54, mSec: 901, mNsec: 3}
		d.add("f", inner)
		return d, inner
	}
	vCover("unknown-link")
	return &vfNode{kind: vfKLink, target: "t", fileID: 55}, nil
}

func VerifC03Exec() {
	w := vfNewWorld(vParam("faults", 0), false)
	root := &vfNode{kind: vfKDir, perm: 0700, fileID: 1}
	w.top.add("root", root)

	// what the plan lists: a directory over the names {a,b} - one fixed tree
	// (directory a holding a file, file b), or every tree of the given shape
	var old *Entry
	if shape := vParam("shape", 0); shape == 0 {
		old = &Entry{Kind: EntryKind_Directory, Contents: map[string]*Entry{
			"a": {Kind: EntryKind_Directory, Contents: map[string]*Entry{"a": {Kind: EntryKind_File, Digest: []byte{3}}}},
			"b": {Kind: EntryKind_File, Digest: []byte{4}, Executable: true},
		}}
	} else {
		old = vtGenNode(shape-1, []string{"a", "b"}, 0, false)
		vAssume(old.Kind == EntryKind_Directory)
	}
	cache := &Cache{Entries: map[string]*CacheEntry{}}
	dir := vfMaterialize(old, "x", cache)
	root.add("x", dir)

	// the one entry the plan does not list
	holder, hpath := dir, "x"
	if sub := dir.kids["a"]; sub != nil && sub.kind == vfKDir && vBool() {
		holder, hpath = sub, "x/a"
		vCover("one-level-down")
	}
	name := vc3UnknownName(vChoose(5))
	u, inner := vc3UnknownNode(vChoose(5))
	if len(holder.names) > 0 && vBool() {
		vc3AddFirst(holder, name, u)
		vCover("listed-before-known-content")
	} else {
		holder.add(name, u)
	}
	upath := hpath + "/" + name
	uKind, uPerm, uTarget := u.kind, u.perm, u.target

	// removal, or replacement by a file (staged and present)
	var nw *Entry
	if vBool() {
		vCover("replacement")
		nw = &Entry{Kind: EntryKind_File, Digest: []byte{7}}
		w.staged["/staging/x"] = &vfNode{kind: vfKFile, perm: 0600, content: []byte{7}, size: 1, fileID: 999}
	}
	vNote("old=" + vtShow(old) + " disk=" + vfShowDiskC03(dir))
	results, problems := vfRunOne("x", old, nw, cache)

	vCover("unknown-content")
	vAssert(root.kids["x"] == dir, "a directory holding content the plan does not list is neither removed nor replaced")
	if holder != dir {
		vAssert(dir.kids["a"] == holder, "the parent of content the plan does not list stays")
	}
	vAssert(holder.kids[name] == u, "content the plan does not list stays where it is")
	listed := false
	for _, n := range holder.names {
		if n == name {
			listed = true
		}
	}
	vAssert(listed, "content the plan does not list stays where it is")
	vAssert(u.kind == uKind && u.perm == uPerm && u.target == uTarget && (u.kind != vfKFile || (len(u.content) == 1 && u.content[0] == 9)),
		"content the plan does not list is not modified")
	if inner != nil {
		vAssert(u.kids["f"] == inner && len(u.names) == 1, "the content of a directory the plan does not list stays")
	}
	reported := false
	for _, p := range problems {
		if vtAtOrBelow("x", p.Path) && vtAtOrBelow(p.Path, upath) {
			reported = true
		}
	}
	vAssert(reported, "the refusal is reported as a problem at or above the path of the content that blocks the removal")
	vAssert(len(results) == 1 && results[0] != nil && results[0].Kind == EntryKind_Directory, "the reported entry still lists the directory")
}

// vfShowDiskC03 renders a model tree (names of every class printable).
func vfShowDiskC03(n *vfNode) string {
	switch n.kind {
	case vfKFile:
		return "file"
	case vfKLink:
		return "link"
	case vfKOther:
		return "fifo"
	}
	s := "dir{"
	for i, name := range n.names {
		if i > 0 {
			s += ","
		}
		if name == "\xffz" {
			s += "<non-utf8>"
		} else {
			s += name
		}
		s += ":" + vfShowDiskC03(n.kids[name])
	}
	return s + "}"
}

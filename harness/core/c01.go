package core

// C01 / C02 / C03(a) / C06: assertions over one Reconcile plan.

type vtPlan struct {
	t                vtTriple
	ancestorChanges  []*Change
	alphaChanges     []*Change
	betaChanges      []*Change
	conflicts        []*Conflict
	disagreements    []string
}

func vtRunReconcile(shape int, sideFlags int, modeDefault int) *vtPlan {
	t := vtGenTriple(shape, sideFlags)
	t.mode = vtModeFromParam(modeDefault)
	p := &vtPlan{t: t}
	p.ancestorChanges, p.alphaChanges, p.betaChanges, p.conflicts = Reconcile(t.ancestor, t.alpha, t.beta, t.mode)
	vtDisagreements("", t.alpha, t.beta, &p.disagreements)
	return p
}

// vtCheckChangeTarget asserts (i) and (ii) for a change planned for a side.
func vtCheckChangeTarget(c *Change, side *Entry, which string) *Entry {
	S, ok := vtAt(side, c.Path)
	vAssert(ok, which+": change path does not descend through a non-directory")
	if !ok {
		return nil
	}
	vAssert(!vtHasUnsync(S), which+": content to be replaced holds no untracked/problematic/phantom entry at any depth")
	vAssert(vtDeepEqual(c.Old, S), which+": change's expected old content describes the side exactly")
	return S
}

func VerifC01() {
	shape := vParam("shape", 1)
	p := vtRunReconcile(shape, vtAllowUnsync, int(SynchronizationMode_SynchronizationModeTwoWaySafe))
	t := p.t
	for _, c := range p.alphaChanges {
		vCover("alpha-change")
		S := vtCheckChangeTarget(c, t.alpha, "alpha")
		vtCheckDestroysOnlyUnchanged(t.ancestor, c, S, "alpha: content deleted or overwritten is unchanged since the last synchronization")
	}
	for _, c := range p.betaChanges {
		vCover("beta-change")
		S := vtCheckChangeTarget(c, t.beta, "beta")
		vtCheckDestroysOnlyUnchanged(t.ancestor, c, S, "beta: content deleted or overwritten is unchanged since the last synchronization")
	}
	// (iv) both sides created/modified content at a disagreeing path => conflict, both versions stay.
	for _, d := range p.disagreements {
		a, _ := vtAt(t.alpha, d)
		b, _ := vtAt(t.beta, d)
		if vtModified(t.ancestor, d, a) && vtModified(t.ancestor, d, b) {
			vCover("both-modified")
			found := false
			for _, k := range p.conflicts {
				if k.Root == d {
					found = true
				}
			}
			vAssert(found, "both sides modified: a conflict rooted at the disagreeing path is reported")
			for _, c := range p.alphaChanges {
				vAssert(!vtPathRelated(c.Path, d), "both sides modified: alpha keeps its version")
			}
			for _, c := range p.betaChanges {
				vAssert(!vtPathRelated(c.Path, d), "both sides modified: beta keeps its version")
			}
		}
	}
	if len(p.conflicts) > 0 {
		vCover("conflict")
	}
}

func VerifC02Plan() {
	shape := vParam("shape", 1)
	p := vtRunReconcile(shape, vtAllowUnsync, 0)
	t := p.t
	switch t.mode {
	case SynchronizationMode_SynchronizationModeOneWaySafe, SynchronizationMode_SynchronizationModeOneWayReplica:
		vCover("one-way")
		vAssert(len(p.alphaChanges) == 0, "one-way modes never plan a change for alpha")
	}
	if t.mode == SynchronizationMode_SynchronizationModeOneWaySafe {
		for _, c := range p.betaChanges {
			vCover("one-way-safe beta change")
			S, ok := vtAt(t.beta, c.Path)
			if ok {
				vtCheckDestroysOnlyUnchanged(t.ancestor, c, S, "one-way-safe: beta content deleted or overwritten is unchanged since the last synchronization")
			}
		}
	}
	if t.mode == SynchronizationMode_SynchronizationModeTwoWayResolved {
		for _, c := range p.alphaChanges {
			vCover("two-way-resolved alpha change")
			S, ok := vtAt(t.alpha, c.Path)
			if ok {
				vtCheckDestroysOnlyUnchanged(t.ancestor, c, S, "two-way-resolved: alpha content deleted or overwritten is unchanged since the last synchronization")
			}
		}
	}
}

func VerifC03Plan() {
	shape := vParam("shape", 1)
	p := vtRunReconcile(shape, vtAllowUnsync, 0)
	t := p.t
	for _, c := range p.alphaChanges {
		vCover("alpha-change")
		vtCheckChangeTarget(c, t.alpha, "alpha")
	}
	for _, c := range p.betaChanges {
		vCover("beta-change")
		vtCheckChangeTarget(c, t.beta, "beta")
	}
	// a path that is problematic on either side receives no action at all
	check := func(side *Entry) {
		vtVisit(side, "", func(path string, n *Entry) {
			if n.Kind != EntryKind_Problematic {
				return
			}
			vCover("problematic")
			for _, c := range p.alphaChanges {
				vAssert(c.Path != path, "no alpha change at a problematic path")
			}
			for _, c := range p.betaChanges {
				vAssert(c.Path != path, "no beta change at a problematic path")
			}
			for _, c := range p.ancestorChanges {
				vAssert(c.Path != path, "no ancestor change at a problematic path")
			}
		})
	}
	check(t.alpha)
	check(t.beta)
}

func VerifC06() {
	shape := vParam("shape", 1)
	p := vtRunReconcile(shape, vtAllowUnsync, 0)
	type act struct {
		path string
		kind int // 0 alpha change, 1 beta change, 2 conflict
	}
	var acts []act
	for _, c := range p.alphaChanges {
		acts = append(acts, act{c.Path, 0})
	}
	for _, c := range p.betaChanges {
		acts = append(acts, act{c.Path, 1})
	}
	for _, k := range p.conflicts {
		acts = append(acts, act{k.Root, 2})
	}
	for i := range acts {
		for j := i + 1; j < len(acts); j++ {
			vCover("two-actions")
			vAssert(!vtPathRelated(acts[i].path, acts[j].path), "no two actions at the same path or at a path and its descendant")
		}
	}
	for _, k := range p.conflicts {
		vCover("conflict")
		vAssert(len(k.AlphaChanges) > 0, "conflict names at least one alpha change")
		vAssert(len(k.BetaChanges) > 0, "conflict names at least one beta change")
		vAssert(k.EnsureValid() == nil, "conflict passes its own validation")
		for _, c := range k.AlphaChanges {
			vAssert(vtAtOrBelow(k.Root, c.Path), "conflict alpha change lies at or below the root")
			vAssert(vtValid(c.Old, false) && vtValid(c.New, false), "conflict alpha change entries are valid")
		}
		for _, c := range k.BetaChanges {
			vAssert(vtAtOrBelow(k.Root, c.Path), "conflict beta change lies at or below the root")
			vAssert(vtValid(c.Old, false) && vtValid(c.New, false), "conflict beta change entries are valid")
		}
		rooted := false
		for _, d := range p.disagreements {
			if d == k.Root {
				rooted = true
			}
		}
		vAssert(rooted, "conflict is rooted at a path where the endpoints shallowly disagree")
	}
	for _, c := range append(append([]*Change(nil), p.alphaChanges...), p.betaChanges...) {
		rooted := false
		for _, d := range p.disagreements {
			if d == c.Path {
				rooted = true
			}
		}
		vAssert(rooted, "change is planned at a path where the endpoints shallowly disagree")
	}
}

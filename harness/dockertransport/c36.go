package docker

import (
	"context"
	"errors"
	"os/exec"

	"github.com/mutagen-io/mutagen/pkg/url"
)

// C36 (Docker): container and user names taken from a valid endpoint URL
// reach the docker argument vectors only as operands (or option values).
//
// pkg/docker.Command (executable lookup + exec.Cmd construction) is replaced
// by a recorder that captures the argument vector and fails, so that only the
// argv-building code of the transport runs.  Container probing (which would
// run docker exec) is replaced by preset probe results.

var verifStubs = map[string]any{
	"github.com/mutagen-io/mutagen/pkg/docker.Command": verifDockerCommand,
	"os.Getenv":    verifGetenv,
	"os.LookupEnv": verifLookupEnv,
}

var verifErrRecorded = errors.New("recorded (command construction not modelled)")

var verifCalls [][]string

func verifDockerCommand(ctx context.Context, args ...string) (*exec.Cmd, error) {
	verifCalls = append(verifCalls, append([]string(nil), args...))
	return nil, verifErrRecorded
}

func verifGetenv(name string) string            { return "" }
func verifLookupEnv(name string) (string, bool) { return "", false }

// verifOperands: see the SSH harness; getopt/pflag-style reading of argv.
func verifOperands(argv []string, valueOptions []string, stopAtFirst bool) []string {
	var operands []string
	for i := 0; i < len(argv); i++ {
		a := argv[i]
		if a == "--" {
			return append(operands, argv[i+1:]...)
		}
		if len(a) > 1 && a[0] == '-' {
			for _, o := range valueOptions {
				if a == o {
					i++
					break
				}
			}
			continue
		}
		if stopAtFirst {
			return append(operands, argv[i:]...)
		}
		operands = append(operands, a)
	}
	return operands
}

func verifSameStrings(a, b []string) bool {
	if len(a) != len(b) {
		return false
	}
	for i := range a {
		if a[i] != b[i] {
			return false
		}
	}
	return true
}

// value-taking options of docker exec (the other subcommands used have none
// that mutagen passes).
var verifDockerExecValueOptions = []string{"--user", "-u", "--workdir", "-w", "--env", "-e", "--env-file", "--detach-keys"}

func VerifC36Docker() {
	maxLen := vParam("maxlen", 3)
	u := &url.URL{Kind: url.Kind_Synchronization, Protocol: url.Protocol_Docker, Path: "/p"}
	if vChoose(2) == 1 {
		u.Kind = url.Kind_Forwarding
		u.Path = "tcp:localhost:80"
	}
	vLabel("user")
	u.User = vString(vRange(0, maxLen))
	vLabel("container")
	u.Host = vString(vRange(0, maxLen))
	vLabel("")
	vAssume(u.EnsureValid() == nil)
	vCover("valid")

	verifCalls = nil
	tr, err := NewTransport(u.Host, u.User, u.Environment, u.Parameters, "")
	vAssert(err == nil && tr != nil, "transport created")
	if err != nil || tr == nil {
		return
	}
	t := tr.(*dockerTransport)
	// preset probe results: POSIX container
	t.containerProbed = true
	t.containerHomeDirectory = "/root"
	t.containerUser = "root"
	t.containerUserGroup = "root"

	container, user := u.Host, u.User
	class := ""
	if container[0] == '-' {
		class = "[leading '-'] "
		vCover("leading-dash-accepted")
		vNote("container name beginning with '-' is accepted by URL.EnsureValid and is placed in the docker argument vector before any -- terminator, where docker reads it as an option")
	} else {
		vNote("URL component not passed to docker as the intended operand")
	}

	var subcommand string
	var expected []string
	var valueOptions []string
	stopAtFirst := false
	switch vChoose(4) {
	case 0:
		vCover("exec")
		subcommand = "exec"
		_, err = t.Command("mutagen-agent synchronizer")
		expected = []string{container, "mutagen-agent", "synchronizer"}
		valueOptions = verifDockerExecValueOptions
		stopAtFirst = true
	case 1:
		vCover("exec-probe")
		subcommand = "exec"
		_, err = t.command("id -un", "", "")
		expected = []string{container, "id", "-un"}
		valueOptions = verifDockerExecValueOptions
		stopAtFirst = true
	case 2:
		vCover("cp")
		subcommand = "cp"
		err = t.Copy("/tmp/mutagen-agent", ".mutagen-agent-x")
		expected = []string{"/tmp/mutagen-agent", container + ":/root/.mutagen-agent-x"}
	default:
		vCover("stop")
		subcommand = "stop"
		err = t.changeContainerStatus(true)
		expected = []string{container}
	}
	vAssert(err != nil, "recorder error propagates")
	vAssert(len(verifCalls) == 1, "exactly one docker invocation is built")
	if len(verifCalls) != 1 {
		return
	}
	argv := verifCalls[0]
	vAssert(len(argv) >= 1 && argv[0] == subcommand, "docker subcommand")
	if len(argv) < 1 {
		return
	}
	operands := verifOperands(argv[1:], valueOptions, stopAtFirst)
	vAssert(verifSameStrings(operands, expected), class+"docker "+subcommand+": container reaches docker as an operand (the operand list docker extracts is exactly what mutagen means to pass)")

	// the URL's user is only ever the value of --user
	if subcommand == "exec" && user != "" {
		vCover("user")
		found := false
		for i := 1; i+1 < len(argv); i++ {
			if argv[i] == "--user" && argv[i+1] == user {
				found = true
				break
			}
			if !(len(argv[i]) > 1 && argv[i][0] == '-') {
				break
			}
		}
		vAssert(found, "docker exec: URL user is passed as the value of --user")
	}
}

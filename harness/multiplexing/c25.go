package multiplexing

import (
	"context"
	"errors"
	"io"
	"time"
)

// C25: multiplexer operations never hang and a slow stream never blocks others.
//
// PARTIAL check (see props/C25.json, outside_claim).  A whole connection runs
// >= 6 goroutines, which bounded schedule exploration cannot exhaust.  What is
// checked instead, all on the real code of stream.go / multiplexer.go:
//
//  (a) unblocking lemmas in bounded-schedule mode (goroutines explored
//      exhaustively within a preemption bound, deadline timers fired by the
//      environment): ONE blocked public operation -- Stream.Read, Stream.Write
//      (send window exhausted / no message buffer free), Multiplexer.OpenStream,
//      Multiplexer.AcceptStream -- on a Multiplexer built exactly as Multiplex
//      builds it but WITHOUT the background goroutines, plus one goroutine that
//      produces one unblocking event (deadline, stream closed locally,
//      multiplexer closed, peer's close message processed by the real reader
//      loop Multiplexer.read, ...), plus the one background loop the operation
//      needs to get out (Multiplexer.enqueue where the operation hands over a
//      close message, Multiplexer.write where it needs a buffer back).
//      The operation runs on the harness goroutine: a deadlock of the harness =
//      the operation hangs = violation (path status "blocked").
//  (b) head-of-line lemmas: a stream whose receive buffer is full (reader never
//      reads) does not stop Multiplexer.read from delivering data for another
//      stream; a writer stuck on an exhausted send window does not keep the
//      message buffer another stream's Write needs.
//  (c) an open beyond the accept backlog is answered with a close message by
//      the real reader + enqueue loops, is not queued and not registered, and
//      the close message marks the opener's stream as closed by the peer
//      (which by (a) makes OpenStream return an error).
//
// This file is self-contained (it does not use common.go, whose stub table
// replaces the timers by ones that never fire).

var (
	verifC25Future = time.Unix(1800000000, 0) // after the executor's clock (1700000000)
	verifC25Past   = time.Unix(1, 0)
)

// verifC25Wire is a harness Carrier.  Reading side: a byte queue that is
// refilled stage by stage; before stage i is loaded the hook is called (in the
// goroutine of the reader loop, at the point where it would wait for the
// carrier).  Writing side: everything written is appended to out.
type verifC25Wire struct {
	data   []byte
	stages [][]byte
	next   int
	before func(stage int)
	out    []byte
}

func (w *verifC25Wire) fill() {
	for len(w.data) == 0 && w.next < len(w.stages) {
		if w.before != nil {
			w.before(w.next)
		}
		w.data = w.stages[w.next]
		w.next++
	}
}

func (w *verifC25Wire) Read(p []byte) (int, error) {
	if len(p) == 0 {
		return 0, nil
	}
	if len(w.data) == 0 {
		return 0, io.EOF
	}
	n := copy(p, w.data)
	w.data = w.data[n:]
	return n, nil
}

func (w *verifC25Wire) ReadByte() (byte, error) {
	w.fill()
	if len(w.data) == 0 {
		return 0, io.EOF
	}
	b := w.data[0]
	w.data = w.data[1:]
	return b, nil
}

func (w *verifC25Wire) Discard(n int) (int, error) {
	if n > len(w.data) {
		d := len(w.data)
		w.data = w.data[d:]
		return d, io.EOF
	}
	w.data = w.data[n:]
	return n, nil
}

func (w *verifC25Wire) Write(p []byte) (int, error) {
	w.out = append(w.out, p...)
	return len(p), nil
}

func (w *verifC25Wire) Close() error { return nil }

// verifC25Mux builds a Multiplexer exactly as Multiplex does (unbuffered
// rendezvous channels towards the enqueue loop, both buffer channels of
// capacity WriteBufferCount, heartbeats off) but starts no goroutine.
func verifC25Mux(even bool, window, buffers, backlog int) *Multiplexer {
	configuration := &Configuration{
		StreamReceiveWindow: window,
		WriteBufferCount:    buffers,
		AcceptBacklog:       backlog,
	}
	configuration.normalize()
	m := &Multiplexer{
		even:                            even,
		configuration:                   configuration,
		closer:                          &verifC25Wire{},
		closed:                          make(chan struct{}),
		streams:                         make(map[uint64]*Stream),
		pendingInboundStreamIdentifiers: make(chan uint64, configuration.AcceptBacklog),
		writeBufferAvailable:            make(chan *messageBuffer, configuration.WriteBufferCount),
		writeBufferPending:              make(chan *messageBuffer, configuration.WriteBufferCount),
		enqueueWindowIncrement:          make(chan windowIncrement),
		enqueueCloseWrite:               make(chan uint64),
		enqueueClose:                    make(chan uint64),
	}
	if even {
		m.nextOutboundStreamIdentifier = 2
	} else {
		m.nextOutboundStreamIdentifier = 1
	}
	for i := 0; i < configuration.WriteBufferCount; i++ {
		m.writeBufferAvailable <- newMessageBuffer()
	}
	return m
}

// verifC25Stream registers a locally opened (outbound) stream the way OpenStream
// does and, if established, puts it into the state the reader loop leaves it in
// after the peer's accept message with the given window.
func verifC25Stream(m *Multiplexer, id uint64, established bool, sendWindow uint64) *Stream {
	s := newStream(m, id, m.configuration.StreamReceiveWindow)
	m.streams[id] = s
	if m.nextOutboundStreamIdentifier <= id {
		m.nextOutboundStreamIdentifier = id + 2
	}
	if established {
		s.sendWindow = sendWindow
		if sendWindow > 0 {
			s.sendWindowReady <- struct{}{}
		}
		close(s.established)
	}
	return s
}

// verifC25Msg returns the bytes of the messages encoded by f with the real
// messageBuffer encoders.
func verifC25Msg(f func(b *messageBuffer)) []byte {
	b := newMessageBuffer()
	f(b)
	w := &verifC25Wire{}
	b.WriteTo(w)
	return w.out
}

// verifC25Ctx is a cancellable context (the context package's own relies on
// runtime internals the executor does not run).
type verifC25Ctx struct {
	done      chan struct{}
	cancelled bool
}

func verifC25NewCtx() *verifC25Ctx                 { return &verifC25Ctx{done: make(chan struct{})} }
func (c *verifC25Ctx) Deadline() (time.Time, bool) { return time.Time{}, false }
func (c *verifC25Ctx) Done() <-chan struct{}       { return c.done }
func (c *verifC25Ctx) Value(any) any               { return nil }
func (c *verifC25Ctx) Err() error {
	if c.cancelled {
		return context.Canceled
	}
	return nil
}
func (c *verifC25Ctx) cancel() {
	if !c.cancelled {
		c.cancelled = true
		close(c.done)
	}
}

// verifC25Quiesce returns once every other goroutine is blocked: it sleeps, and
// the environment fires timers only when nothing else can run
// (sched_timers_eager = 0).
func verifC25Quiesce() { time.Sleep(time.Second) }

// verifC25Quiet decides whether the unblocking event is produced only after
// every goroutine is blocked (the operation under test is then parked at its
// wait) or races the operation.  Parameter quiet = 0 (used together with
// sched_timers_eager = 1, where a sleep may end at any point) switches the
// first kind off.
func verifC25Quiet(always bool) bool {
	if vParam("quiet", 1) == 0 {
		return false
	}
	return always || vChoose(2) == 1
}

func verifC25EOF(err error) bool {
	return err != nil && (errors.Is(err, io.EOF) || errors.Is(err, io.ErrUnexpectedEOF))
}

// verifC25Feed runs one activation of the real reader loop over the given bytes.
func verifC25Feed(m *Multiplexer, bytes []byte) error {
	return m.read(&verifC25Wire{data: bytes}, make(chan struct{}, 1))
}

// ---------------------------------------------------------------- (a) Read

const (
	verifC25EvDeadlinePreset = iota // deadline set before the call, expires while it waits
	verifC25EvDeadlineFuture        // Set*Deadline(future) from another goroutine, then it expires
	verifC25EvDeadlinePast          // Set*Deadline(past) from another goroutine
	verifC25EvClose                 // Stream.Close from another goroutine
	verifC25EvMuxClose              // Multiplexer.Close from another goroutine
	verifC25EvPeerClose             // the peer's close message goes through Multiplexer.read
	verifC25EvPeerCloseWrite        // Read: the peer's close-write message; Write: local CloseWrite
	verifC25EvResource              // Write: window increment / buffer handed back (the wait ends normally)
	verifC25EvCount
)

// VerifC25Read: a Stream.Read with nothing to read returns once ...
func VerifC25Read() {
	m := verifC25Mux(false, 2, 1, 1)
	s := verifC25Stream(m, 1, true, 0)
	event := vChoose(verifC25EvCount - 1)
	// quiet: the event is produced only after every goroutine is blocked, i.e.
	// the reader is parked inside Read; otherwise it races the call.
	quiet := verifC25Quiet(event == verifC25EvDeadlinePreset)
	vNote([...]string{"read deadline set before", "SetReadDeadline(future) meanwhile", "SetReadDeadline(past) meanwhile",
		"Stream.Close meanwhile", "Multiplexer.Close meanwhile", "peer's close message", "peer's close-write message"}[event])
	// second: another reader is already parked inside Read (it holds the read
	// semaphore); the call under test then waits for the semaphore
	second := vParam("second", 1) == 1 && vChoose(2) == 1
	if event == verifC25EvDeadlinePreset {
		vAssert(s.SetReadDeadline(verifC25Future) == nil, "harness: SetReadDeadline on an idle stream succeeds")
	}
	if second {
		vNote("another reader is already waiting inside Read")
		go func() { s.Read(make([]byte, 1)) }()
		verifC25Quiesce()
	}
	if event != verifC25EvDeadlinePreset {
		go func() {
			if quiet {
				verifC25Quiesce()
			}
			switch event {
			case verifC25EvDeadlineFuture:
				s.SetReadDeadline(verifC25Future)
			case verifC25EvDeadlinePast:
				s.SetReadDeadline(verifC25Past)
			case verifC25EvClose:
				s.Close()
			case verifC25EvMuxClose:
				m.Close()
			case verifC25EvPeerClose:
				verifC25Feed(m, verifC25Msg(func(b *messageBuffer) { b.encodeStreamClose(1) }))
			case verifC25EvPeerCloseWrite:
				verifC25Feed(m, verifC25Msg(func(b *messageBuffer) { b.encodeStreamCloseWrite(1) }))
			}
		}()
	}
	returned := false
	buffer := make([]byte, vRange(1, 2))
	s.Read(buffer) // a deadlock here = Read hangs
	returned = true
	vAssert(returned, "Read returned")
	vCover("read: returned")
	if quiet && second && event != verifC25EvDeadlinePreset {
		vCover("read: blocked behind another reader")
	}
	if quiet {
		switch event {
		case verifC25EvDeadlinePreset:
			vCover("read: blocked, deadline expires")
		case verifC25EvDeadlineFuture:
			vCover("read: blocked, deadline set meanwhile expires")
		case verifC25EvDeadlinePast:
			vCover("read: blocked, past deadline set meanwhile")
		case verifC25EvClose:
			vCover("read: blocked, stream closed")
		case verifC25EvMuxClose:
			vCover("read: blocked, multiplexer closed")
		case verifC25EvPeerClose:
			vCover("read: blocked, peer closes")
		case verifC25EvPeerCloseWrite:
			vCover("read: blocked, peer closes for writing")
		}
	}
}

// ---------------------------------------------------------------- (a) Write

// VerifC25Write: a Stream.Write that waits for send window or for a message
// buffer returns once ...
//
//	mode 0: send window 0
//	mode 1: send window 1, two bytes to write (one chunk goes out, then window 0)
//	mode 2: send window sufficient, but no message buffer free (writer loop stalled)
func VerifC25Write() {
	m := verifC25Mux(false, 2, 1, 1)
	mode := vChoose(3)
	window, length := uint64(0), vRange(1, 2)
	switch mode {
	case 1:
		window, length = 1, 2
	case 2:
		window = 2
	}
	s := verifC25Stream(m, 1, true, window)
	var taken *messageBuffer
	if mode == 2 {
		taken = <-m.writeBufferAvailable
	}
	// second: another writer is already parked inside Write (it holds the write
	// semaphore); the call under test then waits for the semaphore.  (Without
	// the "resource" event: the first writer would use the window up.)
	second := vParam("second", 1) == 1 && vChoose(2) == 1
	events := verifC25EvCount
	if second {
		events--
	}
	event := vChoose(events)
	quiet := verifC25Quiet(event == verifC25EvDeadlinePreset)
	vNote([...]string{"send window 0", "send window 1, 2 bytes", "no message buffer free"}[mode])
	vNote([...]string{"write deadline set before", "SetWriteDeadline(future) meanwhile", "SetWriteDeadline(past) meanwhile",
		"Stream.Close meanwhile", "Multiplexer.Close meanwhile", "peer's close message", "Stream.CloseWrite meanwhile",
		"window increment / buffer returned"}[event])
	if event == verifC25EvResource && mode == 1 {
		// the single message buffer is recycled by the real writer loop
		go m.write(&verifC25Wire{})
	}
	if event == verifC25EvDeadlinePreset {
		vAssert(s.SetWriteDeadline(verifC25Future) == nil, "harness: SetWriteDeadline on an idle stream succeeds")
	}
	if second {
		vNote("another writer is already waiting inside Write")
		go func() { s.Write(make([]byte, length)) }()
		verifC25Quiesce()
	}
	if event != verifC25EvDeadlinePreset {
		go func() {
			if quiet {
				verifC25Quiesce()
			}
			switch event {
			case verifC25EvDeadlineFuture:
				s.SetWriteDeadline(verifC25Future)
			case verifC25EvDeadlinePast:
				s.SetWriteDeadline(verifC25Past)
			case verifC25EvClose:
				s.Close()
			case verifC25EvMuxClose:
				m.Close()
			case verifC25EvPeerClose:
				verifC25Feed(m, verifC25Msg(func(b *messageBuffer) { b.encodeStreamClose(1) }))
			case verifC25EvPeerCloseWrite:
				s.CloseWrite()
			case verifC25EvResource:
				if mode == 2 {
					m.writeBufferAvailable <- taken
				} else {
					verifC25Feed(m, verifC25Msg(func(b *messageBuffer) { b.encodeStreamWindowIncrement(1, uint64(length)) }))
				}
			}
		}()
	}
	returned := false
	s.Write(make([]byte, length)) // a deadlock here = Write hangs
	returned = true
	vAssert(returned, "Write returned")
	vCover("write: returned")
	if mode == 2 && !second && event <= verifC25EvDeadlinePast {
		// The Write timed out while it waited for a message buffer, possibly
		// holding the stream's window token.  With the deadline cleared and the
		// buffer back, the next Write has everything it needs: it must not hang.
		s.SetWriteDeadline(time.Time{})
		m.writeBufferAvailable <- taken
		count, err := s.Write(make([]byte, length)) // a deadlock here = Write hangs with window and buffer available
		vCover("write: after a timed-out write")
		vAssert(count == length && err == nil, "progress: a Write after a timed-out Write completes when window and buffer are available")
	}
	if quiet && second && event != verifC25EvDeadlinePreset {
		vCover("write: blocked behind another writer")
	}
	if quiet {
		switch mode {
		case 0:
			vCover("write: blocked on an exhausted window")
		case 1:
			vCover("write: blocked after a partial write")
		case 2:
			vCover("write: blocked without a message buffer")
		}
		switch event {
		case verifC25EvDeadlinePreset:
			vCover("write: blocked, deadline expires")
		case verifC25EvDeadlineFuture:
			vCover("write: blocked, deadline set meanwhile expires")
		case verifC25EvDeadlinePast:
			vCover("write: blocked, past deadline set meanwhile")
		case verifC25EvClose:
			vCover("write: blocked, stream closed")
		case verifC25EvMuxClose:
			vCover("write: blocked, multiplexer closed")
		case verifC25EvPeerClose:
			vCover("write: blocked, peer closes")
		case verifC25EvPeerCloseWrite:
			vCover("write: blocked, closed for writing")
		case verifC25EvResource:
			vCover("write: blocked, window or buffer arrives")
		}
	}
}

// ---------------------------------------------------------------- (a) OpenStream

// VerifC25Open: an OpenStream that waits for a message buffer (mode 0) or for
// the peer's answer (mode 1) returns once its context is cancelled, the
// multiplexer is closed, or the peer accepts / rejects (closes) the stream.
// The real enqueue loop runs beside it: OpenStream hands it the close message
// of a stream it gives up.
func VerifC25Open() {
	m := verifC25Mux(false, 2, 1, 1)
	ctx := verifC25NewCtx()
	mode := vChoose(2)
	var taken *messageBuffer
	if mode == 0 {
		taken = <-m.writeBufferAvailable
	}
	// 0 cancel, 1 multiplexer closed, 2 (mode 0) buffer returned, then cancel / (mode 1) accepted, 3 (mode 1) rejected
	event := vChoose(3 + mode)
	quiet := verifC25Quiet(false)
	vNote([...]string{"waits for a message buffer", "waits for the peer's answer"}[mode])
	vNote([...]string{"context cancelled", "Multiplexer.Close", "buffer returned, then context cancelled / accept message", "close message (rejected)"}[event])
	// the peer answers an open message only after it has left: the goroutine
	// that delivers the answer first takes the open message off the pending
	// queue, as the writer loop does
	answer := func(bytes []byte) {
		buffer := <-m.writeBufferPending
		buffer.WriteTo(&verifC25Wire{})
		m.writeBufferAvailable <- buffer
		verifC25Feed(m, bytes)
	}
	go m.enqueue()
	go func() {
		if quiet {
			verifC25Quiesce()
		}
		switch event {
		case 0:
			ctx.cancel()
		case 1:
			m.Close()
		case 2:
			if mode == 0 {
				m.writeBufferAvailable <- taken
				if quiet {
					verifC25Quiesce()
				}
				ctx.cancel()
			} else {
				answer(verifC25Msg(func(b *messageBuffer) { b.encodeAcceptMessage(1, 2) }))
			}
		case 3:
			answer(verifC25Msg(func(b *messageBuffer) { b.encodeStreamClose(1) }))
		}
	}()
	returned := false
	stream, err := m.OpenStream(ctx) // a deadlock here = OpenStream hangs
	returned = true
	vAssert(returned, "OpenStream returned")
	if event == 3 {
		vAssert(err != nil && stream == nil, "OpenStream: an open the peer answered with a close message fails (is not left pending)")
	}
	if quiet {
		if mode == 0 {
			vCover("open: blocked without a message buffer")
		} else {
			vCover("open: blocked waiting for the answer")
		}
		switch event {
		case 0:
			vCover("open: blocked, context cancelled")
		case 1:
			vCover("open: blocked, multiplexer closed")
		case 2:
			if mode == 1 {
				vCover("open: blocked, peer accepts")
			}
		case 3:
			vCover("open: blocked, peer rejects")
		}
	}
}

// ---------------------------------------------------------------- (a) AcceptStream

// VerifC25Accept: an AcceptStream that waits for an inbound stream (mode 0) or,
// holding one, for a message buffer (mode 1) returns once its context is
// cancelled, the multiplexer is closed, an open message arrives (mode 0) / a
// buffer is handed back (mode 1); in mode 1 the peer's close of the pending
// stream sends it back to waiting, from where a cancellation gets it out.
func VerifC25Accept() {
	m := verifC25Mux(true, 2, 1, 1)
	ctx := verifC25NewCtx()
	mode := vChoose(2)
	var taken *messageBuffer
	if mode == 1 {
		taken = <-m.writeBufferAvailable
	}
	// 0 cancel, 1 multiplexer closed, 2 open message (mode 0) / buffer returned (mode 1), 3 (mode 1) peer closes, then cancel
	event := vChoose(3 + mode)
	quiet := verifC25Quiet(false)
	vNote([...]string{"waits for an inbound stream", "holds an inbound stream, waits for a message buffer"}[mode])
	vNote([...]string{"context cancelled", "Multiplexer.Close", "open message / buffer returned", "peer closes the pending stream, then context cancelled"}[event])
	go m.enqueue()
	open := verifC25Msg(func(b *messageBuffer) { b.encodeOpenMessage(1, 2) })
	act := func() {
		switch event {
		case 0:
			ctx.cancel()
		case 1:
			m.Close()
		case 2:
			m.writeBufferAvailable <- taken
		}
	}
	go func() {
		if mode == 0 {
			if quiet {
				verifC25Quiesce()
			}
			if event == 2 {
				verifC25Feed(m, open)
			} else {
				act()
			}
			return
		}
		// mode 1: one activation of the reader loop delivers the open message
		// and later (event 3) the close message of the same inbound stream
		wire := &verifC25Wire{stages: [][]byte{open}}
		if event == 3 {
			wire.stages = append(wire.stages, verifC25Msg(func(b *messageBuffer) { b.encodeStreamClose(1) }))
		}
		wire.before = func(stage int) {
			if stage == 1 && quiet {
				verifC25Quiesce()
			}
		}
		m.read(wire, make(chan struct{}, 1))
		if quiet {
			verifC25Quiesce()
		}
		if event == 3 {
			ctx.cancel()
		} else {
			act()
		}
	}()
	returned := false
	m.AcceptStream(ctx) // a deadlock here = AcceptStream hangs
	returned = true
	vAssert(returned, "AcceptStream returned")
	if quiet {
		if mode == 0 {
			vCover("accept: blocked without an inbound stream")
		} else {
			vCover("accept: blocked without a message buffer")
		}
		switch event {
		case 0:
			vCover("accept: blocked, context cancelled")
		case 1:
			vCover("accept: blocked, multiplexer closed")
		case 2:
			vCover("accept: blocked, open message or buffer arrives")
		case 3:
			vCover("accept: blocked, peer closes the pending stream")
		}
	}
}

// ---------------------------------------------------------------- (b) head of line

func verifC25BytesEq(a, b []byte) bool {
	if len(a) != len(b) {
		return false
	}
	eq := true
	for i := range a {
		eq = vAnd(eq, a[i] == b[i])
	}
	return eq
}

// VerifC25HolRecv: stream A's receive buffer is filled to the last byte (in one
// or two data messages) and its reader never reads.  Data for stream B --
// before, between or after A's messages -- goes through the same activation of
// Multiplexer.read and is readable on B; a second batch for B arrives as well
// after B's reader has consumed the first.
func VerifC25HolRecv() {
	window := vRange(1, vParam("maxwin", 2))
	m := verifC25Mux(false, window, 1, 1)
	a := verifC25Stream(m, 1, true, 0)
	b := verifC25Stream(m, 3, true, 0)

	first := vRange(1, window)
	forA := vBytes(window)
	nb := vRange(1, window)
	forB := vBytes(nb)
	position := vChoose(3)
	var bytes []byte
	msgB := verifC25Msg(func(x *messageBuffer) { x.encodeStreamDataMessage(3, forB) })
	if position == 0 {
		bytes = append(bytes, msgB...)
	}
	bytes = append(bytes, verifC25Msg(func(x *messageBuffer) { x.encodeStreamDataMessage(1, forA[:first]) })...)
	if position == 1 {
		bytes = append(bytes, msgB...)
	}
	if first < window {
		vCover("hol: stalled stream filled by two messages")
		bytes = append(bytes, verifC25Msg(func(x *messageBuffer) { x.encodeStreamDataMessage(1, forA[first:]) })...)
	}
	if position == 2 {
		bytes = append(bytes, msgB...)
	}
	go m.enqueue()                // takes B's window increments
	err := verifC25Feed(m, bytes) // a deadlock here = the reader loop is stuck behind A
	vAssert(verifC25EOF(err), "hol: the reader loop goes through everything a conforming peer sent")
	vAssert(a.receiveBuffer.Used() == window, "harness: A's receive buffer is full")
	got := make([]byte, window)
	count, err := b.Read(got) // a deadlock here = B's data never arrived
	vCover("hol: other stream read while A is full")
	vAssert(err == nil && count == nb, "hol: data for B is delivered while A's buffer is full and unread")
	if count == nb {
		vAssert(verifC25BytesEq(got[:count], forB), "hol: B receives its bytes")
	}
	// B's reader has consumed: the peer may send B another window's worth
	more := vBytes(nb)
	err = verifC25Feed(m, verifC25Msg(func(x *messageBuffer) { x.encodeStreamDataMessage(3, more) }))
	vAssert(verifC25EOF(err), "hol: the reader loop accepts B's next batch")
	count, err = b.Read(got)
	vAssert(err == nil && count == nb && verifC25BytesEq(got[:nb], more), "hol: B's next batch is delivered as well")
	vAssert(a.receiveBuffer.Used() == window, "hol: A's unread data is still buffered")
}

// VerifC25HolSend: stream A's writer is stuck because the peer's reader has
// stopped (send window exhausted; in mode 1 after a partial write that used the
// only message buffer, which the real writer loop recycles).  A Write on stream
// B, whose window is open, still completes and reaches the carrier.
func VerifC25HolSend() {
	m := verifC25Mux(false, 2, 1, 1)
	mode := vChoose(2)
	a := verifC25Stream(m, 1, true, uint64(mode))
	nb := vRange(1, 2)
	b := verifC25Stream(m, 3, true, uint64(nb+vRange(0, 1)))
	carrier := &verifC25Wire{}
	go m.write(carrier)
	go func() {
		a.Write(make([]byte, 1+mode))
		vFail("harness: A's Write cannot complete (its window is never opened)")
	}()
	verifC25Quiesce() // A's writer is parked
	if mode == 1 {
		vCover("hol: writer stuck after a partial write")
	} else {
		vCover("hol: writer stuck on an exhausted window")
	}
	data := vBytes(nb)
	sent := append([]byte(nil), data...)
	count, err := b.Write(data) // a deadlock here = B's Write is stuck behind A's
	vAssert(count == nb && err == nil, "hol: a Write on another stream completes while A's writer is stuck")
	verifC25Quiesce() // the writer loop has flushed
	// what reached the carrier: (mode 1: A's one byte,) then B's data message
	out := carrier.out
	if mode == 1 {
		vAssert(len(out) >= 5, "hol: A's partial write reached the carrier")
		if len(out) < 5 {
			return
		}
		out = out[5:]
	}
	vAssert(len(out) == 4+nb, "hol: B's data message reached the carrier")
	if len(out) == 4+nb {
		vAssert(out[0] == byte(messageKindStreamData) && out[1] == 3 && out[2] == 0 && int(out[3]) == nb, "hol: B's data message is well formed")
		vAssert(verifC25BytesEq(out[4:], sent), "hol: B's bytes reached the carrier")
	}
}

// ---------------------------------------------------------------- (c) backlog

// VerifC25Backlog: the peer sends backlog+extra open messages (increasing
// identifiers) and nobody accepts.  The real reader loop
// with the real enqueue loop beside it: goes through all of them (does not wait
// for an accept), queues the first `backlog`, and answers every further one
// with a close message -- which, processed by the opener's reader loop, marks
// exactly those streams as closed by the peer.
func VerifC25Backlog() {
	backlog := vRange(1, vParam("maxbacklog", 2))
	extra := vRange(1, vParam("maxextra", 2))
	n := backlog + extra
	R := verifC25Mux(true, 2, 1, backlog)
	S := verifC25Mux(false, 2, 1, 1)

	// identifiers the opener uses: odd, increasing, with gaps
	ids := make([]uint64, n)
	opened := make([]*Stream, n)
	var bytes []byte
	step := uint64(2 * vParam("idstep", 1))
	for i := 0; i < n; i++ {
		id := 1 + step*uint64(i)
		ids[i] = id
		bytes = append(bytes, verifC25Msg(func(b *messageBuffer) { b.encodeOpenMessage(id, 2) })...)
		// the opener's side of it, as OpenStream registers it
		opened[i] = verifC25Stream(S, id, false, 0)
	}
	go R.enqueue()
	err := verifC25Feed(R, bytes) // a deadlock here = the reader loop waits for an accept
	vAssert(verifC25EOF(err), "backlog: the reader loop goes through all open messages")
	vAssert(len(R.pendingInboundStreamIdentifiers) == backlog, "harness: the first opens fill the backlog exactly (the further ones are beyond it)")
	for i := 0; i < n; i++ {
		R.streamLock.Lock()
		_, registered := R.streams[ids[i]]
		R.streamLock.Unlock()
		if i < backlog {
			vAssert(registered, "harness: an open within the backlog is registered")
		} else {
			vAssert(!registered, "backlog: an open beyond the backlog is not kept (neither queued nor registered)")
		}
	}

	// what R answers (the real enqueue loop fills message buffers; the harness
	// stands in for the writer loop)
	var answer []byte
	for len(answer) < 2*extra {
		buffer := <-R.writeBufferPending // a deadlock here = a rejected open is never answered
		w := &verifC25Wire{}
		buffer.WriteTo(w)
		answer = append(answer, w.out...)
		R.writeBufferAvailable <- buffer
	}
	vCover("backlog: opens beyond the backlog answered")
	vAssert(len(answer) == 2*extra, "backlog: one two-byte message per rejected open")
	if len(answer) != 2*extra {
		return
	}
	for j := 0; j < extra; j++ {
		vAssert(answer[2*j] == byte(messageKindStreamClose), "backlog: the answer to an open beyond the backlog is a close message")
	}
	for i := backlog; i < n; i++ {
		hit := false
		for j := 0; j < extra; j++ {
			hit = vOr(hit, uint64(answer[2*j+1]) == ids[i])
		}
		vAssert(hit, "backlog: every open beyond the backlog is answered")
	}

	// the opener's reader loop
	err = verifC25Feed(S, answer)
	vAssert(verifC25EOF(err), "backlog: the opener's reader loop accepts the answers")
	for i := 0; i < n; i++ {
		if i < backlog {
			vAssert(!isClosed(opened[i].remoteClosed), "harness: an open within the backlog is still pending (nobody accepted it), not rejected")
		} else {
			vAssert(isClosed(opened[i].remoteClosed) && !isClosed(opened[i].established), "backlog: an open beyond the backlog is rejected at the opener")
		}
	}
	if extra > 1 {
		vCover("backlog: two rejections")
	}
	if backlog > 1 {
		vCover("backlog: backlog of two")
	}
}

package multiplexing

import (
	"context"
	"time"
)

// C24, concurrent opens (bounded-schedule mode): several goroutines call the
// real OpenStream at the same time.  The peer requires stream identifiers to
// arrive in increasing order; whatever the interleaving, the open messages must
// therefore be queued for transmission in identifier order.  The messages are
// taken from the pending queue (what the writer loop would send, in order) and
// fed to the peer's real reader loop, which must accept them all.

type verifC24Ctx struct{ done chan struct{} }

func (c *verifC24Ctx) Deadline() (deadline time.Time, ok bool) { return }
func (c *verifC24Ctx) Done() <-chan struct{}                   { return c.done }
func (c *verifC24Ctx) Err() error {
	if verifIsClosed(c.done) {
		return context.Canceled
	}
	return nil
}
func (c *verifC24Ctx) Value(any) any { return nil }

func VerifC24ConcurrentOpens() {
	n := vParam("openers", 2)
	opener := verifNewMux(false, 2, n, 2)
	ctx := &verifC24Ctx{make(chan struct{})}
	done := make(chan struct{}, n)
	for i := 0; i < n; i++ {
		go func() {
			opener.OpenStream(ctx) // waits for acceptance until the context ends
			done <- struct{}{}
		}()
	}
	// every opener has queued its message once the pending queue is full
	var wire verifWire
	for i := 0; i < n; i++ {
		b := <-opener.writeBufferPending
		b.WriteTo(&wire)
	}
	vCover("all open messages queued")
	close(ctx.done)
	for i := 0; i < n; i++ {
		<-done
	}
	// the peer reads what was queued, in queue order
	acceptor := verifNewMux(true, 2, n+2, n+2)
	err := acceptor.read(&wire, make(chan struct{}, 1))
	vAssert(verifEndOfInput(err), "the peer accepts the open messages of concurrent OpenStream calls (identifiers arrive in increasing order)")
}

package multiplexing

import (
	"errors"
	"io"
	"time"

	"github.com/mutagen-io/mutagen/pkg/multiplexing/ring"
)

// Shared helpers of the multiplexing checks (C23, C24).
//
// The multiplexer's three background loops (read, write, enqueue) are driven as
// plain functions on Multiplexer values built here exactly as Multiplex builds
// them, except that (a) no goroutine is started, (b) the three rendezvous
// channels enqueueWindowIncrement / enqueueCloseWrite / enqueueClose get a small
// capacity (a stream operation then hands its update over without waiting for
// the enqueue loop, which runs afterwards), (c) writeBufferPending has one
// spare slot for the stop marker of verifDriveWrite, (d) heartbeats are off.

var (
	// verifErrStop is the failure with which a harness carrier ends a write loop.
	verifErrStop = errors.New("verif: carrier stopped")
)

const verifQueue = 4

// Deadline timers are runtime objects the executor cannot run.  Model: a timer
// is an object whose channel C (capacity 1) never receives a value -- no
// deadline expires during a check -- and Stop/Reset report "the timer was
// active", which is what the runtime reports for a timer that has not fired.
var verifStubs = map[string]any{
	"time.NewTimer":       func(d time.Duration) *time.Timer { return &time.Timer{C: make(chan time.Time, 1)} },
	"(*time.Timer).Stop":  func(t *time.Timer) bool { return true },
	"(*time.Timer).Reset": func(t *time.Timer, d time.Duration) bool { return true },
}

// verifWire is a harness Carrier: a byte queue.  Bytes written are appended;
// reads consume from the front.  onEmpty (if set) is consulted when ReadByte
// finds the queue empty (the reader loop only asks for the first byte of a
// message and for varint bytes through ReadByte): it may produce more bytes.
type verifWire struct {
	data []byte
	// chunk > 0: Read delivers at most chunk bytes per call (short reads).
	chunk int
	// limited: Write fails with verifErrStop once budget bytes went through.
	limited bool
	budget  int
	onEmpty func()
	// total counts all bytes ever written.
	total int
}

func (w *verifWire) Read(p []byte) (int, error) {
	if len(p) == 0 {
		return 0, nil
	}
	if len(w.data) == 0 {
		return 0, io.EOF
	}
	n := len(p)
	if n > len(w.data) {
		n = len(w.data)
	}
	if w.chunk > 0 && n > w.chunk {
		n = w.chunk
	}
	copy(p, w.data[:n])
	w.data = w.data[n:]
	return n, nil
}

func (w *verifWire) ReadByte() (byte, error) {
	if len(w.data) == 0 && w.onEmpty != nil {
		w.onEmpty()
	}
	if len(w.data) == 0 {
		return 0, io.EOF
	}
	b := w.data[0]
	w.data = w.data[1:]
	return b, nil
}

func (w *verifWire) Discard(n int) (int, error) {
	if n > len(w.data) {
		d := len(w.data)
		w.data = w.data[d:]
		return d, io.EOF
	}
	w.data = w.data[n:]
	return n, nil
}

func (w *verifWire) Write(p []byte) (int, error) {
	if w.limited {
		if w.budget == 0 {
			return 0, verifErrStop
		}
		w.budget -= len(p)
		if w.budget < 0 {
			w.budget = 0
		}
	}
	w.data = append(w.data, p...)
	w.total += len(p)
	return len(p), nil
}

func (w *verifWire) Close() error { return nil }

// verifNewMux mirrors Multiplex (see the note at the top of the file).
func verifNewMux(even bool, window, buffers, backlog int) *Multiplexer {
	configuration := &Configuration{
		StreamReceiveWindow: window,
		WriteBufferCount:    buffers,
		AcceptBacklog:       backlog,
	}
	configuration.normalize()
	m := &Multiplexer{
		even:                            even,
		configuration:                   configuration,
		closed:                          make(chan struct{}),
		streams:                         make(map[uint64]*Stream),
		pendingInboundStreamIdentifiers: make(chan uint64, configuration.AcceptBacklog),
		writeBufferAvailable:            make(chan *messageBuffer, configuration.WriteBufferCount),
		writeBufferPending:              make(chan *messageBuffer, configuration.WriteBufferCount+1),
		enqueueWindowIncrement:          make(chan windowIncrement, verifQueue),
		enqueueCloseWrite:               make(chan uint64, verifQueue),
		enqueueClose:                    make(chan uint64, verifQueue),
	}
	if even {
		m.nextOutboundStreamIdentifier = 2
	} else {
		m.nextOutboundStreamIdentifier = 1
	}
	for i := 0; i < configuration.WriteBufferCount; i++ {
		m.writeBufferAvailable <- newMessageBuffer()
	}
	return m
}

// verifDriveWrite runs the real writer loop Multiplexer.write until every
// pending message buffer has been written to wire.  The loop is ended by a
// carrier failure: a one-byte marker buffer is queued behind the pending ones
// and the carrier refuses it (the marker never reaches the wire).
func verifDriveWrite(m *Multiplexer, wire *verifWire) {
	n := len(m.writeBufferPending)
	total := 0
	for i := 0; i < n; i++ {
		b := <-m.writeBufferPending
		total += b.buffer.Used()
		m.writeBufferPending <- b
	}
	marker := &messageBuffer{buffer: ring.NewBuffer(1)}
	marker.buffer.WriteByte(byte(messageKindMultiplexerHeartbeat))
	m.writeBufferPending <- marker
	wire.limited, wire.budget = true, total
	err := m.write(wire)
	wire.limited = false
	vAssert(errors.Is(err, verifErrStop), "writer loop ends only by the carrier failure")
	vAssert(len(m.writeBufferPending) == 0, "writer loop wrote every pending buffer")
}

// verifEnqueueItems is the number of updates waiting for the enqueue loop.
func verifEnqueueItems(m *Multiplexer) int {
	return len(m.enqueueWindowIncrement) + len(m.enqueueCloseWrite) + len(m.enqueueClose)
}

// verifQueuedFor reports whether a window increment or a close-write of the
// given stream is still waiting for the enqueue loop.
func verifQueuedFor(m *Multiplexer, stream uint64) bool {
	found := false
	for i, n := 0, len(m.enqueueWindowIncrement); i < n; i++ {
		u := <-m.enqueueWindowIncrement
		found = found || u.stream == stream
		m.enqueueWindowIncrement <- u
	}
	for i, n := 0, len(m.enqueueCloseWrite); i < n; i++ {
		u := <-m.enqueueCloseWrite
		found = found || u == stream
		m.enqueueCloseWrite <- u
	}
	return found
}

// verifRunEnqueue runs the real Multiplexer.enqueue loop with the multiplexer's
// closed channel replaced by a closed one for the duration of the call, so that
// every select of the loop may also take the termination case: all orders of
// consuming updates / flushing are explored, and the loop returns at an
// arbitrary point.
func verifRunEnqueue(m *Multiplexer) {
	open := m.closed
	closed := make(chan struct{})
	close(closed)
	m.closed = closed
	m.enqueue()
	m.closed = open
}

// verifEndOfInput: the reader loop stopped because the carrier had no more
// bytes at a message boundary or inside a message -- not because it rejected
// what it received.  (Every protocol-violation error of read is created with
// errors.New / fmt.Errorf without wrapping.)
func verifEndOfInput(err error) bool {
	return errors.Is(err, io.EOF) || errors.Is(err, io.ErrUnexpectedEOF)
}

func verifIsClosed(c chan struct{}) bool {
	select {
	case <-c:
		return true
	default:
		return false
	}
}

// verifBytesEq compares two byte strings as one term.
func verifBytesEq(a, b []byte) bool {
	if len(a) != len(b) {
		return false
	}
	eq := true
	for i := range a {
		eq = vAnd(eq, a[i] == b[i])
	}
	return eq
}

// verifOpenStream is the message-emitting half of Multiplexer.OpenStream (which as
// a whole waits for the peer's answer and cannot run in one goroutine).
func verifOpenStream(m *Multiplexer) *Stream {
	m.streamLock.Lock()
	stream := newStream(m, m.nextOutboundStreamIdentifier, m.configuration.StreamReceiveWindow)
	m.streams[m.nextOutboundStreamIdentifier] = stream
	m.nextOutboundStreamIdentifier += 2
	m.streamLock.Unlock()
	writeBuffer := <-m.writeBufferAvailable
	writeBuffer.encodeOpenMessage(stream.identifier, uint64(m.configuration.StreamReceiveWindow))
	m.writeBufferPending <- writeBuffer
	return stream
}


// verifIsEOF: a reader loop ended because its input ended.
func verifIsEOF(err error) bool {
	return err != nil && verifEndOfInput(err)
}


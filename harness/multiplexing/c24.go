package multiplexing

import (
	"context"
	"fmt"
	"time"
)

// C24: conforming multiplexers never tear each other down.
//
// Two multiplexers S and R joined by two harness wires (see common.go).  A
// bounded program of PUBLIC stream operations is run on both sides -- Write
// (any length from 0, also beyond the send window with a write deadline), Read
// (any buffer length from 0), CloseWrite, Close, opening streams (also more
// than the peer's accept backlog takes: rejected opens), accepting -- and every
// message either side emits reaches the peer's real reader loop
// Multiplexer.read.  Data and open/accept messages travel at once (they are
// written straight into message buffers); updates handed to the enqueue loop
// (window increments, close-write, close) wait until a "flush" step runs the
// real Multiplexer.enqueue, which may consume and flush them in any order and
// any grouping and may stop at any point (what it did not take stays queued).
//
// Oracle (from the property text): no reader loop ever ends with anything but
// the end of its input -- each error read returns for a received message is a
// protocol violation that would close the connection.
//
// All streams are opened by S: R's reader loop runs as ONE activation for the
// whole path (the wire calls back into the harness when it is drained), S's
// reader loop is started afresh for every batch of bytes, which is equivalent
// for identifiers S allocated itself (their range lives in the Multiplexer, not
// in the loop's local state).

type verifC24Side struct {
	m       *Multiplexer
	out     *verifWire
	streams []*Stream // by order of opening; nil: not (or no longer) usable here
	halfC   []bool    // CloseWrite or Close called here
	closed  []bool    // Close called here
}

type verifC24World struct {
	S, R       verifC24Side
	heartbeats chan struct{}
	steps      int
	maxLen     int
	minRead    int
	maxStreams int
	bigWrites  int
	flushes    int // enqueue runs still allowed after the program ended
	accepted   int // streams taken from R's backlog so far
}

func (w *verifC24World) side(k int) *verifC24Side {
	if k == 0 {
		return &w.S
	}
	return &w.R
}

// deliver writes side k's pending message buffers to its wire; bytes towards S
// are consumed by a fresh activation of S's reader loop, bytes towards R are
// consumed by R's reader loop when the harness returns to it.
func (w *verifC24World) deliver(k int) {
	x := w.side(k)
	if len(x.m.writeBufferPending) > 0 {
		verifDriveWrite(x.m, x.out)
	}
	if k == 1 && len(w.R.out.data) > 0 {
		err := w.S.m.read(w.R.out, w.heartbeats)
		vAssert(verifIsEOF(err), "S's reader loop accepts every message R sent (no protocol violation)")
	}
}

// flush runs the enqueue loop of side k (all orders, arbitrary stop); runs
// that made no progress at all are dropped (same as not flushing).
func (w *verifC24World) flush(k int) {
	x := w.side(k)
	items, pending := verifEnqueueItems(x.m), len(x.m.writeBufferPending)
	verifRunEnqueue(x.m)
	if verifEnqueueItems(x.m) == items && len(x.m.writeBufferPending) == pending {
		vStop()
	}
	vCover("flush")
	w.deliver(k)
}

type verifC24Op struct {
	kind   int // 0 write, 1 read, 2 close-write, 3 close, 4 open (S), 5 accept (R), 6 flush, 7 write beyond the window
	side   int
	stream int
	arg    int
}

func verifReadable(s *Stream) bool {
	return len(s.receiveBufferReady) > 0 || verifIsClosed(s.remoteClosedWrite) || verifIsClosed(s.remoteClosed)
}

func (w *verifC24World) ops() []verifC24Op {
	var ops []verifC24Op
	for k := 0; k < 2; k++ {
		x := w.side(k)
		for i, s := range x.streams {
			if s == nil || x.closed[i] {
				continue
			}
			established := verifIsClosed(s.established)
			if established && !x.halfC[i] {
				if !verifIsClosed(s.remoteClosed) {
					for n := 0; n <= w.maxLen; n++ {
						if uint64(n) <= s.sendWindow {
							ops = append(ops, verifC24Op{0, k, i, n})
						} else if w.bigWrites > 0 {
							ops = append(ops, verifC24Op{7, k, i, n})
							break
						}
					}
				}
				ops = append(ops, verifC24Op{2, k, i, 0})
			} else if established {
				// Write after CloseWrite: refused locally, nothing may be sent
				ops = append(ops, verifC24Op{0, k, i, 1})
			}
			if established && verifReadable(s) {
				for n := w.minRead; n <= w.maxLen; n++ {
					ops = append(ops, verifC24Op{1, k, i, n})
				}
			}
			// Close before establishment = OpenStream giving up (cancelled
			// context / rejection): it closes the stream the same way.
			// A stream operation hands its update to the enqueue loop by
			// rendezvous, so when Close is called the loop HAS taken the
			// stream's earlier updates: Close waits for a run that took them.
			if !verifQueuedFor(x.m, s.identifier) {
				ops = append(ops, verifC24Op{3, k, i, 0})
			}
		}
		if verifEnqueueItems(x.m) > 0 {
			ops = append(ops, verifC24Op{6, k, 0, 0})
		}
	}
	if len(w.S.streams) < w.maxStreams {
		ops = append(ops, verifC24Op{4, 0, 0, 0})
	}
	if len(w.R.m.pendingInboundStreamIdentifiers) > 0 {
		ops = append(ops, verifC24Op{5, 1, 0, 0})
	}
	return ops
}

func (w *verifC24World) step() {
	ops := w.ops()
	if len(ops) == 0 {
		w.steps = 0
		return
	}
	op := ops[vChoose(len(ops))]
	x := w.side(op.side)
	vNote(fmt.Sprintf("%s: %s stream#%d arg=%d", [2]string{"S", "R"}[op.side],
		[8]string{"Write", "Read", "CloseWrite", "Close", "open", "accept", "run-enqueue", "Write-beyond-window+deadline"}[op.kind], op.stream, op.arg))
	switch op.kind {
	case 0:
		if op.arg == 0 {
			vCover("zero-length-write")
		}
		x.streams[op.stream].Write(make([]byte, op.arg))
	case 7:
		w.bigWrites--
		s := x.streams[op.stream]
		saved := s.writeDeadlineSet
		s.writeDeadlineSet = make(chan time.Time, 1)
		s.writeDeadlineSet <- time.Unix(1, 0)
		s.Write(make([]byte, op.arg))
		s.writeDeadlineSet = saved
		s.SetWriteDeadline(time.Time{})
		vCover("write-deadline")
	case 1:
		if op.arg == 0 {
			vCover("zero-length-read")
		}
		x.streams[op.stream].Read(make([]byte, op.arg))
	case 2:
		x.halfC[op.stream] = true
		x.streams[op.stream].CloseWrite()
		vCover("close-write")
	case 3:
		x.halfC[op.stream] = true
		x.closed[op.stream] = true
		x.streams[op.stream].Close()
		vCover("close")
	case 4:
		if len(w.R.m.pendingInboundStreamIdentifiers) == w.R.m.configuration.AcceptBacklog {
			vCover("open-rejected")
		}
		w.S.streams = append(w.S.streams, verifOpenStream(w.S.m))
		w.S.halfC = append(w.S.halfC, false)
		w.S.closed = append(w.S.closed, false)
		w.R.streams = append(w.R.streams, nil)
		w.R.halfC = append(w.R.halfC, false)
		w.R.closed = append(w.R.closed, false)
	case 5:
		stream, err := w.R.m.acceptOneStream(context.Background())
		if err == nil {
			for i, s := range w.S.streams {
				if s.identifier == stream.identifier {
					w.R.streams[i] = stream
				}
			}
			vCover("accept")
		} else {
			vAssert(err == errStaleInboundStream, "accept: fails only for a stream the opener gave up")
		}
	case 6:
		w.flush(op.side)
		return
	}
	w.deliver(op.side)
}

// onEmpty: R's reader loop has consumed everything S sent.
func (w *verifC24World) onEmpty() {
	for len(w.S.out.data) == 0 {
		if w.steps > 0 {
			w.steps--
			w.step()
			continue
		}
		// the program is over: let the enqueue loops run
		if w.flushes == 0 {
			return
		}
		w.flushes--
		if verifEnqueueItems(w.R.m) > 0 {
			vNote("R: run-enqueue (end)")
			w.flush(1)
		} else if verifEnqueueItems(w.S.m) > 0 {
			vNote("S: run-enqueue (end)")
			w.flush(0)
		} else {
			return
		}
	}
}

func VerifC24Conform() {
	w := &verifC24World{
		heartbeats: make(chan struct{}, 1),
		steps:      vParam("steps", 4),
		maxLen:     vParam("maxlen", 2),
		minRead:    vParam("minread", 0),
		maxStreams: vParam("streams", 2),
		bigWrites:  vParam("bigwrites", 1),
		flushes:    vParam("flushes", 3),
	}
	window := vParam("window", 2)
	w.S = verifC24Side{m: verifNewMux(false, window, 1, 1), out: &verifWire{}}
	w.R = verifC24Side{m: verifNewMux(true, window, 1, vParam("backlog", 1)), out: &verifWire{}}
	pre := vParam("preopen", 1)
	for i := 0; i < pre; i++ {
		// prefix common to all programs (saves steps): S opens, R accepts
		w.S.streams = append(w.S.streams, verifOpenStream(w.S.m))
		w.S.halfC = append(w.S.halfC, false)
		w.S.closed = append(w.S.closed, false)
		w.R.streams = append(w.R.streams, nil)
		w.R.halfC = append(w.R.halfC, false)
		w.R.closed = append(w.R.closed, false)
		verifDriveWrite(w.S.m, w.S.out)
	}
	first := true
	w.S.out.onEmpty = func() {
		if first {
			first = false
			// R takes what its backlog holds; opens beyond the backlog were
			// rejected by the reader loop (a close is queued for them)
			for i := 0; len(w.R.m.pendingInboundStreamIdentifiers) > 0; i++ {
				stream, err := w.R.m.acceptOneStream(context.Background())
				vAssert(err == nil, "accept: succeeds")
				if err != nil {
					vStop()
				}
				w.R.streams[i] = stream
				w.deliver(1)
			}
			if len(w.R.m.enqueueClose) > 0 {
				vCover("open-rejected")
			}
		}
		w.onEmpty()
	}
	err := w.R.m.read(w.S.out, w.heartbeats)
	vCover("end")
	vAssert(verifIsEOF(err), "R's reader loop accepts every message S sent (no protocol violation)")
}

// ---------------------------------------------------------------- one-step lemmas

// VerifC24Step: the flow-control arithmetic, one operation from an arbitrary
// state with 64-bit symbolic windows.
//
//   write: from any send window w, Write puts at most w bytes on the wire and
//          lowers the window by exactly what it sent (so "window <= free space
//          of the peer's receive buffer" is preserved), and leaves the
//          readiness token exactly when window > 0;
//   read:  Read hands the enqueue loop an increment equal to the bytes it
//          consumed; the increment, carried by the real enqueue/write/read
//          loops, is accepted by the peer's reader loop (a zero increment is
//          not) and raises the peer's send window by exactly that amount.
func VerifC24Step() {
	wire := &verifWire{}
	heartbeats := make(chan struct{}, 1)
	if vChoose(2) == 0 {
		m := verifNewMux(false, 4, 1, 1)
		s := newStream(m, 1, 4)
		close(s.established)
		m.streams[1] = s
		m.nextOutboundStreamIdentifier = 3
		vLabel("window")
		window := vU64()
		vLabel("")
		s.sendWindow = window
		if window != 0 {
			s.sendWindowReady <- struct{}{}
		}
		k := vRange(0, vParam("maxlen", 3))
		var count int
		var err error
		if uint64(k) <= window {
			count, err = s.Write(vBytes(k))
			vCover("write-within-window")
			vAssert(count == k && err == nil, "step: a Write within the window completes")
		} else {
			// beyond the window: ended by a write deadline (see C23)
			s.writeDeadlineSet = make(chan time.Time, 1)
			s.writeDeadlineSet <- time.Unix(1, 0)
			count, err = s.Write(vBytes(k))
			vCover("write-beyond-window")
			vAssert(err != nil, "step: a Write beyond the window does not complete")
		}
		verifDriveWrite(m, wire)
		// data messages on the wire: kind, identifier 1, 16-bit length, payload
		sent := 0
		for len(wire.data) > 0 {
			vAssert(len(wire.data) >= 4 && wire.data[0] == byte(messageKindStreamData) && wire.data[1] == 1, "step: only data messages of the stream are emitted")
			if len(wire.data) < 4 {
				return
			}
			n := int(wire.data[2])<<8 | int(wire.data[3])
			vAssert(n > 0 && len(wire.data) >= 4+n, "step: data message well formed and non-empty")
			if n <= 0 || len(wire.data) < 4+n {
				return
			}
			sent += n
			wire.data = wire.data[4+n:]
		}
		vAssert(uint64(sent) <= window, "step: data sent never exceeds the send window")
		vAssert(sent == count, "step: Write reports what it sent")
		vAssert(s.sendWindow == window-uint64(sent), "step: the window is lowered by exactly the bytes sent")
		vAssert((len(s.sendWindowReady) == 1) == (s.sendWindow > 0), "step: window readiness token present exactly when the window is non-zero")
		return
	}

	// read step
	size := vParam("window", 3)
	R := verifNewMux(true, size, 1, 1)
	S := verifNewMux(false, size, 1, 1)
	ss := verifOpenStream(S)
	verifDriveWrite(S, wire)
	used := vRange(1, size)
	payload := vBytes(used)
	var rs *Stream
	first := true
	wire.onEmpty = func() {
		if !first {
			return
		}
		first = false
		stream, err := R.acceptOneStream(context.Background())
		if err != nil {
			vStop()
		}
		rs = stream
		back := &verifWire{}
		verifDriveWrite(R, back)
		S.read(back, heartbeats)
		// any send window on S's side that the peer's buffer covers
		buffer := <-S.writeBufferAvailable
		buffer.encodeStreamDataMessage(ss.identifier, payload)
		S.writeBufferPending <- buffer
		verifDriveWrite(S, wire)
	}
	err := R.read(wire, heartbeats)
	vAssert(verifIsEOF(err) && rs != nil, "step: setup")
	if rs == nil {
		return
	}
	vLabel("peer-window")
	peerWindow := vU64()
	vLabel("")
	vAssume(peerWindow <= uint64(size-used)) // invariant: window <= free space of the buffer
	ss.sendWindow = peerWindow
	for len(ss.sendWindowReady) > 0 {
		<-ss.sendWindowReady
	}
	if peerWindow != 0 {
		ss.sendWindowReady <- struct{}{}
	}
	k := vRange(vParam("minread", 0), size)
	count, err := rs.Read(make([]byte, k))
	vCover("read-step")
	if k == 0 {
		vCover("zero-length-read")
	}
	vAssert(err == nil && count >= 0 && count <= used && count <= k, "step: Read returns buffered bytes")
	vAssert(len(R.enqueueWindowIncrement) <= 1, "step: at most one increment per Read")
	if len(R.enqueueWindowIncrement) == 1 {
		u := <-R.enqueueWindowIncrement
		vAssert(u.stream == rs.identifier, "step: increment for the stream that was read")
		vAssert(u.amount == uint64(count), "step: increment equals the bytes consumed")
		R.enqueueWindowIncrement <- u
		before := len(R.writeBufferPending)
		verifRunEnqueue(R)
		if len(R.enqueueWindowIncrement) != 0 || len(R.writeBufferPending) == before {
			vStop()
		}
		back := &verifWire{}
		verifDriveWrite(R, back)
		err := S.read(back, heartbeats)
		vAssert(verifIsEOF(err), "step: the peer's reader loop accepts the increment")
		vAssert(ss.sendWindow == peerWindow+uint64(count), "step: the peer's send window grows by exactly the bytes consumed")
		vAssert(ss.sendWindow <= uint64(size-used+count), "step: window <= free space of the buffer, again")
	}
}

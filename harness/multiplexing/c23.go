package multiplexing

import (
	"context"
	"io"
	"net"
	"time"
)

// C23: multiplexed streams deliver bytes reliably and in order.
//
// Pipeline harness.  Two multiplexers S (sender) and R (receiver) are joined by
// two harness wires.  Everything that moves a byte is the real code:
//
//   Stream.Write -> messageBuffer.encodeStreamDataMessage -> writeBufferPending
//   -> Multiplexer.write -> wire -> Multiplexer.read (R, ONE activation for the
//   whole path: the wire calls back into the harness when it runs dry, so the
//   harness operations are interleaved with the reader loop at the points where
//   the reader goroutine would wait for the carrier) -> ring.Buffer.ReadNFrom ->
//   Stream.Read -> enqueueWindowIncrement -> Multiplexer.enqueue -> write -> wire
//   -> Multiplexer.read (S) -> sendWindow,
//
// and likewise CloseWrite / Close -> enqueue -> write -> read.  Streams are
// opened with the real open/accept messages (the message-emitting half of
// OpenStream is copied in verifOpenStream, the accepting side is the real
// acceptOneStream).
//
// The oracle is a per-stream model kept by the harness: the bytes Write
// reported as written (an independent copy of the caller's data) and the bytes
// Read returned.

type verifC23World struct {
	S, R       *Multiplexer
	wireSR     *verifWire // S -> R
	wireRS     *verifWire // R -> S
	heartbeats chan struct{}

	n       int        // number of streams
	ss, rs  []*Stream  // sender-side / receiver-side stream objects
	written [][]byte   // bytes accepted by Write, per stream
	read    [][]byte   // bytes returned by Read, per stream
	sHalf   []bool     // sender called CloseWrite or Close
	sClosed []bool     // sender called Close
	rClosed []bool     // receiver called Close
	eof     []bool     // reader saw io.EOF
	touched int        // streams 0..touched-1 have been operated on (symmetry)

	steps    int // operations left
	maxWrite int
	maxRead  int
	zeroOps  bool
	bigWrites int // writes beyond the send window still allowed on this path
	rClose   bool
	setup    bool
}

// sToR flushes S's pending buffers to the wire towards R.
func (w *verifC23World) sToR() {
	verifDriveWrite(w.S, w.wireSR)
}

// rToS runs R's enqueue loop for the single pending update, flushes R's pending
// buffers and lets S's reader loop consume them.
func (w *verifC23World) rToS(enqueue bool) {
	if enqueue {
		w.enqueueOne(w.R)
	}
	verifDriveWrite(w.R, w.wireRS)
	err := w.S.read(w.wireRS, w.heartbeats)
	vAssert(verifIsEOF(err), "sender's reader loop accepts everything the receiver sent")
	vAssert(len(w.wireRS.data) == 0, "harness: sender's reader loop consumed the wire")
}

// enqueueOne runs the enqueue loop for exactly one pending update.  The loop
// may return at any select (see verifRunEnqueue); the runs in which it returned
// before it consumed the update or before it flushed it are discarded -- with a
// single update both are visible from outside (update still queued / no buffer
// moved to writeBufferPending).
func (w *verifC23World) enqueueOne(m *Multiplexer) {
	if verifEnqueueItems(m) == 0 {
		return
	}
	vAssert(verifEnqueueItems(m) == 1, "harness: at most one update per enqueue run")
	before := len(m.writeBufferPending)
	verifRunEnqueue(m)
	if verifEnqueueItems(m) != 0 || len(m.writeBufferPending) == before {
		vStop()
	}
}

func (w *verifC23World) readable(i int) bool {
	s := w.rs[i]
	return len(s.receiveBufferReady) > 0 || verifIsClosed(s.remoteClosedWrite) || verifIsClosed(s.remoteClosed)
}

// doRead performs one Stream.Read on the receiver side and judges the result.
func (w *verifC23World) doRead(i, size int) {
	s := w.rs[i]
	buffer := make([]byte, size)
	count, err := s.Read(buffer)
	vAssert(count >= 0 && count <= size, "Read: count within the buffer")
	if count < 0 || count > size {
		vStop()
	}
	w.read[i] = append(w.read[i], buffer[:count]...)
	vAssert(len(w.read[i]) <= len(w.written[i]), "Read: no more bytes than were written (duplication / foreign data)")
	if len(w.read[i]) > len(w.written[i]) {
		vStop()
	}
	vAssert(verifBytesEq(w.read[i], w.written[i][:len(w.read[i])]), "Read: bytes are the written bytes, in order")
	if err == io.EOF {
		vCover("eof")
		w.eof[i] = true
		vAssert(count == 0, "Read: EOF carries no data")
		vAssert(w.sHalf[i], "Read: EOF only after the peer half-closed or closed")
		vAssert(len(w.read[i]) == len(w.written[i]), "Read: EOF only after all data written before the close was read")
	} else {
		vAssert(err == nil, "Read: no error while stream and multiplexer are open")
		if count > 0 {
			vCover("data")
		}
	}
}

type verifC23Op struct {
	kind   int // 0 write, 1 read, 2 close-write, 3 close (sender), 4 close (receiver), 5 write on a closed stream, 6 write beyond the window
	stream int
	arg    int
}

// ops lists the operations that can run to completion in the current state.
func (w *verifC23World) ops() []verifC23Op {
	var ops []verifC23Op
	limit := w.touched + 1
	if limit > w.n {
		limit = w.n
	}
	for i := 0; i < limit; i++ {
		if !w.sHalf[i] {
			lo := 1
			if w.zeroOps {
				lo = 0
			}
			for k := lo; k <= w.maxWrite; k++ {
				if verifIsClosed(w.ss[i].remoteClosed) {
					continue
				}
				if uint64(k) <= w.ss[i].sendWindow {
					ops = append(ops, verifC23Op{0, i, k})
				} else if w.bigWrites > 0 {
					// a Write larger than the send window waits for the reader;
					// in one goroutine it can only be ended by a write deadline
					ops = append(ops, verifC23Op{6, i, k})
				}
			}
			ops = append(ops, verifC23Op{2, i, 0})
		} else if w.zeroOps {
			ops = append(ops, verifC23Op{5, i, 1})
		}
		if !w.sClosed[i] {
			ops = append(ops, verifC23Op{3, i, 0})
		}
		if !w.rClosed[i] && !w.eof[i] && w.readable(i) {
			for k := 1; k <= w.maxRead; k++ {
				ops = append(ops, verifC23Op{1, i, k})
			}
		}
		if w.rClose && !w.rClosed[i] {
			ops = append(ops, verifC23Op{4, i, 0})
		}
	}
	return ops
}

// step performs one harness operation and propagates its messages.
func (w *verifC23World) step() {
	ops := w.ops()
	if len(ops) == 0 {
		w.steps = 0
		return
	}
	op := ops[vChoose(len(ops))]
	i := op.stream
	if i == w.touched {
		w.touched++
	}
	switch op.kind {
	case 0: // Write
		data := vBytes(op.arg)
		orig := append([]byte(nil), data...)
		count, err := w.ss[i].Write(data)
		vCover("write")
		vAssert(count >= 0 && count <= len(orig), "Write: count within the data")
		if count < 0 || count > len(orig) {
			vStop()
		}
		vAssert(count == len(orig) || err != nil, "Write: short count only with an error")
		vAssert(verifBytesEq(data, orig), "Write: caller's buffer not modified")
		w.written[i] = append(w.written[i], orig[:count]...)
		w.sToR()
	case 6: // Write beyond the send window, ended by a write deadline set meanwhile
		w.bigWrites--
		s := w.ss[i]
		data := vBytes(op.arg)
		orig := append([]byte(nil), data...)
		// a concurrent SetWriteDeadline(past) hands the deadline to the writer
		// through writeDeadlineSet; here it is waiting there already
		saved := s.writeDeadlineSet
		s.writeDeadlineSet = make(chan time.Time, 1)
		s.writeDeadlineSet <- time.Unix(1, 0)
		count, err := s.Write(data)
		s.writeDeadlineSet = saved
		vAssert(count >= 0 && count <= len(orig), "Write: count within the data")
		if count < 0 || count > len(orig) {
			vStop()
		}
		vAssert(count == len(orig) || err != nil, "Write: short count only with an error")
		vAssert(verifBytesEq(data, orig), "Write: caller's buffer not modified")
		if count > 0 && count < len(orig) {
			vCover("partial-write")
		}
		w.written[i] = append(w.written[i], orig[:count]...)
		vAssert(s.SetWriteDeadline(time.Time{}) == nil, "SetWriteDeadline: clears the deadline")
		w.sToR()
	case 5: // Write after CloseWrite/Close
		count, err := w.ss[i].Write(vBytes(op.arg))
		vCover("write-after-close")
		vAssert(count == 0 && err != nil, "Write: refused after CloseWrite/Close")
		vAssert(len(w.S.writeBufferPending) == 0, "Write: nothing sent after CloseWrite/Close")
	case 1: // Read
		w.doRead(i, op.arg)
		w.rToS(true)
	case 2: // CloseWrite
		w.sHalf[i] = true
		err := w.ss[i].CloseWrite()
		vAssert(err == nil, "CloseWrite: succeeds")
		vCover("close-write")
		w.enqueueOne(w.S)
		w.sToR()
	case 3: // Close (sender)
		w.sHalf[i] = true
		w.sClosed[i] = true
		err := w.ss[i].Close()
		vAssert(err == nil, "Close: succeeds")
		vCover("close")
		w.enqueueOne(w.S)
		w.sToR()
	case 4: // Close (receiver)
		w.rClosed[i] = true
		err := w.rs[i].Close()
		vAssert(err == nil, "Close (receiver): succeeds")
		vCover("receiver-close")
		count, err := w.rs[i].Read(make([]byte, 1))
		vAssert(count == 0 && err == net.ErrClosed, "Read: refused after local Close")
		// the close message is put on the wire, but S's reader loop sees it only
		// together with the next message from R (or at the end): until then S
		// may keep writing, and R's reader loop has to discard that data
		w.enqueueOne(w.R)
		verifDriveWrite(w.R, w.wireRS)
	}
}

// onEmpty is called by the S->R wire when R's reader loop has consumed every
// byte: the place where the reader goroutine would wait for the carrier.
func (w *verifC23World) onEmpty() {
	if !w.setup {
		// accept the streams S opened (real acceptOneStream), answer to S
		for len(w.R.pendingInboundStreamIdentifiers) > 0 {
			stream, err := w.R.acceptOneStream(context.Background())
			vAssert(err == nil && stream != nil, "accept: succeeds")
			if stream == nil {
				vStop()
			}
			w.rs = append(w.rs, stream)
			verifDriveWrite(w.R, w.wireRS)
		}
		vAssert(len(w.rs) == w.n, "accept: every opened stream is accepted")
		w.rToS(false)
		for i := 0; i < w.n; i++ {
			vAssert(verifIsClosed(w.ss[i].established), "open: stream established by the accept message")
			vAssert(w.rs[i].identifier == w.ss[i].identifier, "accept: in order of opening")
		}
		w.setup = true
	}
	for w.steps > 0 && len(w.wireSR.data) == 0 {
		w.steps--
		w.step()
	}
}

func VerifC23Pipe() {
	window := vRange(vParam("minwin", 1), vParam("maxwin", 3))
	w := &verifC23World{
		wireSR:     &verifWire{},
		wireRS:     &verifWire{},
		heartbeats: make(chan struct{}, 1),
		n:          vParam("streams", 2),
		steps:      vParam("steps", 4),
		maxWrite:   vParam("maxwrite", 2),
		maxRead:    vParam("maxread", 2),
		zeroOps:    vParam("zero", 0) != 0,
		rClose:     vParam("rclose", 0) != 0,
		bigWrites:  vParam("bigwrites", 1),
	}
	// variant 1: S uses the even identifiers and both carriers deliver one
	// byte per Read call (short reads).
	even := false
	if vParam("variant", 0) == 1 {
		even = true
		w.wireSR.chunk = 1
		w.wireRS.chunk = 1
	}
	w.S = verifNewMux(even, vParam("swin", 2), vParam("buffers", 2), w.n)
	w.R = verifNewMux(!even, window, vParam("buffers", 2), w.n)
	w.written = make([][]byte, w.n)
	w.read = make([][]byte, w.n)
	w.sHalf = make([]bool, w.n)
	w.sClosed = make([]bool, w.n)
	w.rClosed = make([]bool, w.n)
	w.eof = make([]bool, w.n)
	for i := 0; i < w.n; i++ {
		w.ss = append(w.ss, verifOpenStream(w.S))
		w.sToR()
	}
	w.wireSR.onEmpty = w.onEmpty

	// R's reader loop: one activation for the whole path.
	err := w.R.read(w.wireSR, w.heartbeats)
	vAssert(verifIsEOF(err), "receiver's reader loop accepts everything the sender sent")
	vAssert(w.setup, "harness: setup ran")
	if !w.setup {
		return
	}

	// Everything sent has been delivered to R's streams.  Drain them.
	for i := 0; i < w.n; i++ {
		if w.rClosed[i] {
			continue
		}
		for j := 0; j <= window+1 && !w.eof[i] && w.readable(i); j++ {
			w.doRead(i, w.maxRead)
		}
		vAssert(len(w.read[i]) == len(w.written[i]), "end: every byte written was read (no loss)")
		if len(w.read[i]) == len(w.written[i]) && len(w.written[i]) > 0 {
			vCover("delivered")
		}
		if w.eof[i] && len(w.written[i]) > 0 {
			vCover("eof-after-data")
		}
		if w.n > 1 && len(w.read[0]) > 0 && len(w.read[1]) > 0 {
			vCover("two-streams")
		}
	}
}

// ---------------------------------------------------------------- codec

// verifC23Expect is the state a stream must be in after the reader loop
// processed one message.
type verifC23Expect struct {
	established, closedWrite, closed bool
	sendWindow                       uint64
	buffered                         int
}

func verifC23Check(s *Stream, e verifC23Expect, what string) {
	vAssert(verifIsClosed(s.established) == e.established, what+": established")
	vAssert(verifIsClosed(s.remoteClosedWrite) == e.closedWrite, what+": half-closed by the peer")
	vAssert(verifIsClosed(s.remoteClosed) == e.closed, what+": closed by the peer")
	vAssert(s.sendWindow == e.sendWindow, what+": send window")
	vAssert(s.receiveBuffer.Used() == e.buffered, what+": buffered data")
}

// VerifC23Codec: every stream message kind, encoded by the real
// messageBuffer.encode* functions with a symbolic 64-bit stream identifier and
// symbolic window / increment / payload, is decoded by the real reader loop to
// exactly that (kind, identifier, value): the effect is observed on the stream
// registered under that identifier, and a second stream with a different
// symbolic identifier is left untouched.
func VerifC23Codec() {
	kind := messageKind(1 + vChoose(6))
	// Open is sent on identifiers of the sender (inbound here).  Accept and
	// data are only legal on established streams, which for inbound streams
	// needs the local accept (covered by the pipeline harness); the other
	// kinds are decoded on both kinds of identifiers.
	inbound := kind == messageKindStreamOpen
	if kind >= messageKindStreamWindowIncrement {
		inbound = vChoose(2) == 1
	}
	even := vBool()
	m := verifNewMux(false, 4, 1, 2)
	m.even = even
	narrow := vParam("narrow", 0) != 0
	value := func() uint64 {
		if narrow {
			return uint64(vU8())
		}
		return vU64()
	}

	vLabel("id")
	id := vU64() >> uint(64-vParam("idbits", 64))
	vLabel("other")
	other := vU64()
	vLabel("")
	vAssume(id != 0 && other != 0 && id != other)
	vAssume((even == (id%2 == 0)) != inbound)
	vAssume(even == (other%2 == 0))
	// the range of outbound identifiers in use: exhausted (0) or beyond both
	next := vU64()
	vAssume(next == 0 || (other < next && (inbound || id < next)))
	m.nextOutboundStreamIdentifier = next

	w0 := value()
	if inbound {
		w0 = uint64(vU8())
	}
	w1 := vU64()
	so := newStream(m, other, 4)
	close(so.established)
	so.sendWindow = w1
	m.streams[other] = so
	expectOther := verifC23Expect{established: true, sendWindow: w1}

	var st *Stream
	expect := verifC23Expect{}
	buffer := newMessageBuffer()
	if inbound {
		if kind != messageKindStreamOpen {
			// the stream is created by the reader loop from an open message
			buffer.encodeOpenMessage(id, w0)
			expect.sendWindow = w0
		}
	} else {
		st = newStream(m, id, 4)
		if kind != messageKindStreamAccept {
			close(st.established)
			expect.established = true
			st.sendWindow = w0
			expect.sendWindow = w0
			if w0 != 0 {
				st.sendWindowReady <- struct{}{}
			}
		}
		m.streams[id] = st
	}

	amount := value()
	var payload []byte
	switch kind {
	case messageKindStreamOpen:
		buffer.encodeOpenMessage(id, amount)
		expect.sendWindow = amount
	case messageKindStreamAccept:
		buffer.encodeAcceptMessage(id, amount)
		expect.established = true
		expect.sendWindow = amount
	case messageKindStreamData:
		payload = vBytes(vRange(1, 3))
		buffer.encodeStreamDataMessage(id, payload)
		expect.buffered = len(payload)
	case messageKindStreamWindowIncrement:
		vAssume(amount != 0)
		vAssume(expect.sendWindow+amount >= amount) // the sum fits 64 bits (a conforming peer never exceeds it)
		buffer.encodeStreamWindowIncrement(id, amount)
		expect.sendWindow += amount
	case messageKindStreamCloseWrite:
		buffer.encodeStreamCloseWrite(id)
		expect.closedWrite = true
	case messageKindStreamClose:
		buffer.encodeStreamClose(id)
		expect.closed = true
	}
	wire := &verifWire{}
	buffer.WriteTo(wire)
	err := m.read(wire, make(chan struct{}, 1))
	vCover("codec")
	vAssert(verifIsEOF(err), "codec: the reader loop accepts the encoded message")
	vAssert(len(wire.data) == 0, "codec: the reader loop consumed exactly the encoded bytes")

	got := m.streams[id]
	vAssert(got != nil, "codec: the message reached the stream with the encoded identifier")
	if got == nil {
		return
	}
	if inbound {
		vCover("codec-inbound")
		vAssert(got.identifier == id, "codec: stream created with the encoded identifier")
		vAssert(len(m.pendingInboundStreamIdentifiers) == 1, "codec: opened stream queued for accept")
		if len(m.pendingInboundStreamIdentifiers) == 1 {
			vAssert(<-m.pendingInboundStreamIdentifiers == id, "codec: queued under the encoded identifier")
		}
	} else {
		vCover("codec-outbound")
		vAssert(got == st, "codec: the registered stream is still registered")
	}
	verifC23Check(got, expect, "codec")
	vAssert(m.streams[other] == so, "codec: the other stream is still registered")
	verifC23Check(so, expectOther, "codec: other stream untouched")

	if kind == messageKindStreamData {
		if vChoose(2) == 1 {
			// a zero-length read consumes nothing
			count, err := got.Read(make([]byte, 0))
			vCover("zero-length-read")
			vAssert(count == 0 && err == nil, "Read: zero-length read returns (0, nil) while data is buffered")
		}
		data := make([]byte, 4)
		count, err := got.Read(data)
		vAssert(err == nil && count == len(payload), "codec: the payload is readable")
		if count == len(payload) {
			vAssert(verifBytesEq(data[:count], payload), "codec: the payload bytes arrive unchanged")
		}
	}
}

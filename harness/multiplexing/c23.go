package multiplexing

import (
	"context"
	"io"
	"net"
)

// C23: multiplexed streams deliver bytes reliably and in order.
//
// Pipeline harness.  Two multiplexers S (sender) and R (receiver) are joined by
// two harness wires.  Everything that moves a byte is the real code:
//
//   Stream.Write -> messageBuffer.encodeStreamDataMessage -> writeBufferPending
//   -> Multiplexer.write -> wire -> Multiplexer.read (R, ONE activation for the
//   whole path: the wire calls back into the harness when it runs dry, so the
//   harness operations are interleaved with the reader loop at the points where
//   the reader goroutine would wait for the carrier) -> ring.Buffer.ReadNFrom ->
//   Stream.Read -> enqueueWindowIncrement -> Multiplexer.enqueue -> write -> wire
//   -> Multiplexer.read (S) -> sendWindow,
//
// and likewise CloseWrite / Close -> enqueue -> write -> read.  Streams are
// opened with the real open/accept messages (the message-emitting half of
// OpenStream is copied in verifC23Open, the accepting side is the real
// acceptOneStream).
//
// The oracle is a per-stream model kept by the harness: the bytes Write
// reported as written (an independent copy of the caller's data) and the bytes
// Read returned.

type verifC23World struct {
	S, R       *Multiplexer
	wireSR     *verifWire // S -> R
	wireRS     *verifWire // R -> S
	heartbeats chan struct{}

	n       int        // number of streams
	ss, rs  []*Stream  // sender-side / receiver-side stream objects
	written [][]byte   // bytes accepted by Write, per stream
	read    [][]byte   // bytes returned by Read, per stream
	sHalf   []bool     // sender called CloseWrite or Close
	sClosed []bool     // sender called Close
	rClosed []bool     // receiver called Close
	eof     []bool     // reader saw io.EOF
	touched int        // streams 0..touched-1 have been operated on (symmetry)

	steps    int // operations left
	maxWrite int
	maxRead  int
	zeroOps  bool
	rClose   bool
	setup    bool
}

// verifC23Open is the message-emitting half of Multiplexer.OpenStream (which as
// a whole waits for the peer's answer and cannot run in one goroutine).
func verifC23Open(m *Multiplexer) *Stream {
	m.streamLock.Lock()
	stream := newStream(m, m.nextOutboundStreamIdentifier, m.configuration.StreamReceiveWindow)
	m.streams[m.nextOutboundStreamIdentifier] = stream
	m.nextOutboundStreamIdentifier += 2
	m.streamLock.Unlock()
	writeBuffer := <-m.writeBufferAvailable
	writeBuffer.encodeOpenMessage(stream.identifier, uint64(m.configuration.StreamReceiveWindow))
	m.writeBufferPending <- writeBuffer
	return stream
}

// sToR flushes S's pending buffers to the wire towards R.
func (w *verifC23World) sToR() {
	verifDriveWrite(w.S, w.wireSR)
}

// rToS runs R's enqueue loop for the single pending update, flushes R's pending
// buffers and lets S's reader loop consume them.
func (w *verifC23World) rToS(enqueue bool) {
	if enqueue {
		w.enqueueOne(w.R)
	}
	verifDriveWrite(w.R, w.wireRS)
	err := w.S.read(w.wireRS, w.heartbeats)
	vAssert(verifIsEOF(err), "sender's reader loop accepts everything the receiver sent")
	vAssert(len(w.wireRS.data) == 0, "harness: sender's reader loop consumed the wire")
}

func verifIsEOF(err error) bool {
	return err != nil && verifEndOfInput(err)
}

// enqueueOne runs the enqueue loop for exactly one pending update.  The loop
// may return at any select (see verifRunEnqueue); the runs in which it returned
// before it consumed the update or before it flushed it are discarded -- with a
// single update both are visible from outside (update still queued / no buffer
// moved to writeBufferPending).
func (w *verifC23World) enqueueOne(m *Multiplexer) {
	if verifEnqueueItems(m) == 0 {
		return
	}
	vAssert(verifEnqueueItems(m) == 1, "harness: at most one update per enqueue run")
	before := len(m.writeBufferPending)
	verifRunEnqueue(m)
	if verifEnqueueItems(m) != 0 || len(m.writeBufferPending) == before {
		vStop()
	}
}

func (w *verifC23World) readable(i int) bool {
	s := w.rs[i]
	return len(s.receiveBufferReady) > 0 || verifIsClosed(s.remoteClosedWrite) || verifIsClosed(s.remoteClosed)
}

// doRead performs one Stream.Read on the receiver side and judges the result.
func (w *verifC23World) doRead(i, size int) {
	s := w.rs[i]
	buffer := make([]byte, size)
	count, err := s.Read(buffer)
	vAssert(count >= 0 && count <= size, "Read: count within the buffer")
	if count < 0 || count > size {
		vStop()
	}
	w.read[i] = append(w.read[i], buffer[:count]...)
	vAssert(len(w.read[i]) <= len(w.written[i]), "Read: no more bytes than were written (duplication / foreign data)")
	if len(w.read[i]) > len(w.written[i]) {
		vStop()
	}
	vAssert(verifBytesEq(w.read[i], w.written[i][:len(w.read[i])]), "Read: bytes are the written bytes, in order")
	if err == io.EOF {
		vCover("eof")
		w.eof[i] = true
		vAssert(count == 0, "Read: EOF carries no data")
		vAssert(w.sHalf[i], "Read: EOF only after the peer half-closed or closed")
		vAssert(len(w.read[i]) == len(w.written[i]), "Read: EOF only after all data written before the close was read")
	} else {
		vAssert(err == nil, "Read: no error while stream and multiplexer are open")
		if count > 0 {
			vCover("data")
		}
	}
}

type verifC23Op struct {
	kind   int // 0 write, 1 read, 2 close-write, 3 close (sender), 4 close (receiver), 5 write on a closed stream
	stream int
	arg    int
}

// ops lists the operations that can run to completion in the current state.
func (w *verifC23World) ops() []verifC23Op {
	var ops []verifC23Op
	limit := w.touched + 1
	if limit > w.n {
		limit = w.n
	}
	for i := 0; i < limit; i++ {
		if !w.sHalf[i] {
			lo := 1
			if w.zeroOps {
				lo = 0
			}
			for k := lo; k <= w.maxWrite; k++ {
				// a Write larger than the send window waits for the reader: not
				// completable in one goroutine (see props: outside the claim)
				if uint64(k) <= w.ss[i].sendWindow && !verifIsClosed(w.ss[i].remoteClosed) {
					ops = append(ops, verifC23Op{0, i, k})
				}
			}
			ops = append(ops, verifC23Op{2, i, 0})
		} else if w.zeroOps {
			ops = append(ops, verifC23Op{5, i, 1})
		}
		if !w.sClosed[i] {
			ops = append(ops, verifC23Op{3, i, 0})
		}
		if !w.rClosed[i] && !w.eof[i] && w.readable(i) {
			for k := 1; k <= w.maxRead; k++ {
				ops = append(ops, verifC23Op{1, i, k})
			}
		}
		if w.rClose && !w.rClosed[i] {
			ops = append(ops, verifC23Op{4, i, 0})
		}
	}
	return ops
}

// step performs one harness operation and propagates its messages.
func (w *verifC23World) step() {
	ops := w.ops()
	if len(ops) == 0 {
		w.steps = 0
		return
	}
	op := ops[vChoose(len(ops))]
	i := op.stream
	if i == w.touched {
		w.touched++
	}
	switch op.kind {
	case 0: // Write
		data := vBytes(op.arg)
		orig := append([]byte(nil), data...)
		count, err := w.ss[i].Write(data)
		vCover("write")
		vAssert(count >= 0 && count <= len(orig), "Write: count within the data")
		if count < 0 || count > len(orig) {
			vStop()
		}
		vAssert(count == len(orig) || err != nil, "Write: short count only with an error")
		vAssert(verifBytesEq(data, orig), "Write: caller's buffer not modified")
		w.written[i] = append(w.written[i], orig[:count]...)
		w.sToR()
	case 5: // Write after CloseWrite/Close
		count, err := w.ss[i].Write(vBytes(op.arg))
		vCover("write-after-close")
		vAssert(count == 0 && err != nil, "Write: refused after CloseWrite/Close")
		vAssert(len(w.S.writeBufferPending) == 0, "Write: nothing sent after CloseWrite/Close")
	case 1: // Read
		w.doRead(i, op.arg)
		w.rToS(true)
	case 2: // CloseWrite
		w.sHalf[i] = true
		err := w.ss[i].CloseWrite()
		vAssert(err == nil, "CloseWrite: succeeds")
		vCover("close-write")
		w.enqueueOne(w.S)
		w.sToR()
	case 3: // Close (sender)
		w.sHalf[i] = true
		w.sClosed[i] = true
		err := w.ss[i].Close()
		vAssert(err == nil, "Close: succeeds")
		vCover("close")
		w.enqueueOne(w.S)
		w.sToR()
	case 4: // Close (receiver)
		w.rClosed[i] = true
		err := w.rs[i].Close()
		vAssert(err == nil, "Close (receiver): succeeds")
		vCover("receiver-close")
		count, err := w.rs[i].Read(make([]byte, 1))
		vAssert(count == 0 && err == net.ErrClosed, "Read: refused after local Close")
		// the close message is put on the wire, but S's reader loop sees it only
		// together with the next message from R (or at the end): until then S
		// may keep writing, and R's reader loop has to discard that data
		w.enqueueOne(w.R)
		verifDriveWrite(w.R, w.wireRS)
	}
}

// onEmpty is called by the S->R wire when R's reader loop has consumed every
// byte: the place where the reader goroutine would wait for the carrier.
func (w *verifC23World) onEmpty() {
	if !w.setup {
		// accept the streams S opened (real acceptOneStream), answer to S
		for len(w.R.pendingInboundStreamIdentifiers) > 0 {
			stream, err := w.R.acceptOneStream(context.Background())
			vAssert(err == nil && stream != nil, "accept: succeeds")
			if stream == nil {
				vStop()
			}
			w.rs = append(w.rs, stream)
			verifDriveWrite(w.R, w.wireRS)
		}
		vAssert(len(w.rs) == w.n, "accept: every opened stream is accepted")
		w.rToS(false)
		for i := 0; i < w.n; i++ {
			vAssert(verifIsClosed(w.ss[i].established), "open: stream established by the accept message")
			vAssert(w.rs[i].identifier == w.ss[i].identifier, "accept: in order of opening")
		}
		w.setup = true
	}
	for w.steps > 0 && len(w.wireSR.data) == 0 {
		w.steps--
		w.step()
	}
}

func VerifC23Pipe() {
	window := vRange(vParam("minwin", 1), vParam("maxwin", 3))
	w := &verifC23World{
		wireSR:     &verifWire{},
		wireRS:     &verifWire{},
		heartbeats: make(chan struct{}, 1),
		n:          vParam("streams", 2),
		steps:      vParam("steps", 4),
		maxWrite:   vParam("maxwrite", 2),
		maxRead:    vParam("maxread", 2),
		zeroOps:    vParam("zero", 0) != 0,
		rClose:     vParam("rclose", 0) != 0,
	}
	if vParam("chunk", 0) != 0 && vBool() {
		w.wireSR.chunk = 1
		w.wireRS.chunk = 1
	}
	// S uses odd identifiers unless the mirrored assignment is chosen.
	even := false
	if vParam("mirror", 0) != 0 {
		even = vChoose(2) == 1
	}
	w.S = verifNewMux(even, vParam("swin", 2), vParam("buffers", 2), w.n)
	w.R = verifNewMux(!even, window, vParam("buffers", 2), w.n)
	w.written = make([][]byte, w.n)
	w.read = make([][]byte, w.n)
	w.sHalf = make([]bool, w.n)
	w.sClosed = make([]bool, w.n)
	w.rClosed = make([]bool, w.n)
	w.eof = make([]bool, w.n)
	for i := 0; i < w.n; i++ {
		w.ss = append(w.ss, verifC23Open(w.S))
		w.sToR()
	}
	w.wireSR.onEmpty = w.onEmpty

	// R's reader loop: one activation for the whole path.
	err := w.R.read(w.wireSR, w.heartbeats)
	vAssert(verifIsEOF(err), "receiver's reader loop accepts everything the sender sent")
	vAssert(w.setup, "harness: setup ran")
	if !w.setup {
		return
	}

	// Everything sent has been delivered to R's streams.  Drain them.
	for i := 0; i < w.n; i++ {
		if w.rClosed[i] {
			continue
		}
		for j := 0; j <= window+1 && !w.eof[i] && w.readable(i); j++ {
			w.doRead(i, w.maxRead)
		}
		vAssert(len(w.read[i]) == len(w.written[i]), "end: every byte written was read (no loss)")
		if len(w.read[i]) == len(w.written[i]) && len(w.written[i]) > 0 {
			vCover("delivered")
		}
		if w.eof[i] && len(w.written[i]) > 0 {
			vCover("eof-after-data")
		}
		if w.n > 1 && len(w.read[0]) > 0 && len(w.read[1]) > 0 {
			vCover("two-streams")
		}
	}
}

package state

import "context"

// C30: state-change long-polls never miss an update.

// vtSetIndex puts the tracker at an arbitrary (non-zero) index, as if that many
// notifications had already happened.
func vtSetIndex(t *Tracker, x uint64) {
	t.change.L.Lock()
	t.index = x
	t.change.L.Unlock()
}

func vtCurrent(t *Tracker) uint64 {
	i, _ := t.WaitForChange(context.Background(), 0)
	return i
}

// VerifC30Wait: one waiter with an arbitrary previous index against a tracker
// at an arbitrary index.  Stale index: returns at once with the current index.
// Current index: returns after the next notification with the new index.
func VerifC30Wait() {
	t := NewTracker()
	start := vU64()
	vAssume(start != 0)
	vtSetIndex(t, start)
	prev := vU64()
	vAssume(prev != 0)
	next := start + 1
	if next == 0 {
		next = 1
	}
	if prev != start {
		vCover("stale index")
		// nobody will ever notify: a deadlock here is a missed update
		idx, err := t.WaitForChange(context.Background(), prev)
		vAssert(err == nil, "stale waiter: no error")
		vAssert(idx == start, "stale waiter: returns the current index")
	} else {
		vCover("current index")
		go t.NotifyOfChange()
		idx, err := t.WaitForChange(context.Background(), prev)
		vAssert(err == nil, "waiter at the current index: no error")
		vAssert(idx == next, "waiter at the current index: returns the index after the change")
		vAssert(idx != prev && idx != 0, "the index changed and is not the reserved value 0")
	}
	t.Terminate()
	idx, err := t.WaitForChange(context.Background(), prev)
	vAssert(err == ErrTrackingTerminated, "after termination waiting reports termination")
	_ = idx
}

// VerifC30Sequence: two notifications, a waiter that follows them: indices
// never move backwards and no notification is missed.
func VerifC30Sequence() {
	t := NewTracker()
	go func() {
		t.NotifyOfChange()
		t.NotifyOfChange()
	}()
	i1, err := t.WaitForChange(context.Background(), 1)
	vAssert(err == nil, "first wait: no error")
	vAssert(i1 == 2 || i1 == 3, "first wait returns an index after the initial one")
	if i1 == 2 {
		vCover("saw the intermediate index")
		i2, err := t.WaitForChange(context.Background(), i1)
		vAssert(err == nil, "second wait: no error")
		vAssert(i2 == 3, "second wait returns the later index (never an earlier one)")
	} else {
		vCover("saw both changes at once")
	}
	vAssert(vtCurrent(t) >= i1, "current index is not behind a returned index")
}

// VerifC30End: a waiter at the current index racing termination, cancellation
// and a notification: it always returns, with the matching outcome.
func VerifC30End() {
	t := NewTracker()
	ctx, cancel := context.WithCancel(context.Background())
	mode := vChoose(4)
	switch mode {
	case 0:
		go t.Terminate()
	case 1:
		go cancel()
	case 2:
		go func() { t.NotifyOfChange(); t.Terminate() }()
	case 3:
		go func() { cancel(); t.NotifyOfChange() }()
	}
	idx, err := t.WaitForChange(ctx, 1)
	switch mode {
	case 0:
		vCover("terminated while waiting")
		vAssert(err == ErrTrackingTerminated, "termination ends the wait with ErrTrackingTerminated")
		vAssert(idx == 1, "termination reports the unchanged index")
	case 1:
		vCover("cancelled while waiting")
		vAssert(err == context.Canceled, "cancellation ends the wait with context.Canceled")
	case 2:
		vAssert(err == nil && idx == 2 || err == ErrTrackingTerminated && idx == 2, "change then termination: the change is reported (possibly together with termination)")
	case 3:
		vAssert(err == context.Canceled || err == nil && idx == 2, "cancel racing a change: one of the two outcomes")
	}
	vAssert(idx >= 1, "returned index never precedes the index passed in")
	cancel()
}

// VerifC30Lock: every Unlock of the tracking lock advances the index (and is
// observed by a waiter); UnlockWithoutNotify does not.
func VerifC30Lock() {
	t := NewTracker()
	l := NewTrackingLock(t)
	before := vtCurrent(t)
	l.Lock()
	l.UnlockWithoutNotify()
	vAssert(vtCurrent(t) == before, "UnlockWithoutNotify leaves the index alone")
	go func() {
		l.Lock()
		l.Unlock()
	}()
	idx, err := t.WaitForChange(context.Background(), before)
	vCover("waiter woken by tracking lock")
	vAssert(err == nil && idx == before+1, "Unlock advances the index and wakes the waiter")
	t.Terminate()
}

// VerifC30AfterCancel: a wait is cancelled at the very moment a change arrives
// (the tracker may already have prepared a response for it); a later wait at the
// then-current index must still see exactly the next change - never an index it
// was already given, never a stale termination.  Run with sync.Pool reuse
// modelled, so that recycled request objects are covered.
func VerifC30AfterCancel() {
	t := NewTracker()
	ctx, cancel := context.WithCancel(context.Background())
	notified := make(chan struct{})
	go func() {
		cancel()
		t.NotifyOfChange()
		close(notified)
	}()
	i1, err1 := t.WaitForChange(ctx, 1)
	vAssert(err1 == context.Canceled || err1 == nil && i1 == 2, "cancel racing a change: one of the two outcomes")
	if err1 != nil {
		vCover("first wait cancelled")
	}
	<-notified // the change has happened: the current index is 2
	go t.NotifyOfChange()
	i2, err2 := t.WaitForChange(context.Background(), 2)
	vAssert(err2 == nil, "later wait: no error")
	vAssert(i2 == 3, "later wait returns the index after the next change, not a stale one")
	vCover("later wait served")
	t.Terminate()
}

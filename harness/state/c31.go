package state

import "time"

// C31: coalesced signals are never lost.

// VerifC31Burst: a burst of strobes with no window-length gap (timers fire
// only when every goroutine is blocked) yields exactly one signal, and it is
// delivered once the strobes have stopped.
func VerifC31Burst() {
	c := NewCoalescer(time.Second)
	n := vRange(1, vParam("maxstrobes", 3))
	for i := 0; i < n; i++ {
		c.Strobe()
	}
	vCover("burst sent")
	// strobes have stopped: the signal must arrive (a deadlock here is a lost signal)
	<-c.Signals()
	vCover("signal delivered after the burst")
	// let the coalescer finish whatever it is doing, then look again
	c.Terminate()
	select {
	case <-c.Signals():
		vFail("a burst of strobes within one window produced more than one signal")
	default:
	}
	vAssert(len(c.Signals()) <= 1, "at most one signal is buffered")
}

// VerifC31Gaps: strobes separated by arbitrary gaps (the timer may fire at any
// scheduling point), with a consumer that may or may not pick signals up in
// between.  After the last strobe a signal is always delivered.
func VerifC31Gaps() {
	c := NewCoalescer(time.Second)
	n := vRange(1, vParam("maxstrobes", 2))
	for i := 0; i < n; i++ {
		c.Strobe()
		if i+1 < n && vChoose(2) == 1 {
			select {
			case <-c.Signals():
				vCover("signal consumed between strobes")
			default:
			}
		}
	}
	// the strobes have stopped: a signal (possibly one still unread from an
	// earlier strobe - signals are level-triggered) must be delivered
	<-c.Signals()
	vCover("signal delivered after the last strobe")
	c.Terminate()
	vAssert(len(c.Signals()) <= 1, "at most one signal is buffered")
}

// VerifC31Terminate: Strobe and Terminate racing each other never block.
func VerifC31Terminate() {
	c := NewCoalescer(time.Second)
	done := make(chan struct{})
	go func() {
		c.Terminate()
		close(done)
	}()
	n := vRange(1, vParam("maxstrobes", 2))
	for i := 0; i < n; i++ {
		c.Strobe()
	}
	<-done
	c.Strobe() // after termination: returns immediately
	vCover("strobe after termination returns")
	vAssert(len(c.Signals()) <= 1, "at most one signal is buffered")
}

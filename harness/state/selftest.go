package state

import (
	"sync"
	"time"
)

// Self-test of the bounded-schedule mode of the executor (not a property of
// mutagen): small programs whose set of outcomes is known.  Outcomes that need
// a preemption are required as cover labels, so a scheduler that explores too
// little fails the run as vacuous; outcomes that must never happen are
// assertions.

func VerifSchedSelfTest() {
	switch vChoose(8) {
	case 0: // unbuffered rendezvous carries values in order
		c := make(chan int)
		go func() { c <- 1; c <- 2; close(c) }()
		a := <-c
		b := <-c
		_, ok := <-c
		vAssert(a == 1 && b == 2 && !ok, "rendezvous order and close")
		vCover("rendezvous")
	case 1: // unsynchronised read-modify-write: the lost update must be found
		x := 0
		var wg sync.WaitGroup
		wg.Add(2)
		var mu sync.Mutex
		inc := func() {
			mu.Lock()
			t := x
			mu.Unlock()
			mu.Lock()
			x = t + 1
			mu.Unlock()
			wg.Done()
		}
		go inc()
		go inc()
		wg.Wait()
		vAssert(x == 1 || x == 2, "counter is 1 or 2")
		if x == 1 {
			vCover("lost update found")
		} else {
			vCover("no lost update")
		}
	case 2: // the same with the lock held across the update: never lost
		x := 0
		var wg sync.WaitGroup
		wg.Add(2)
		var mu sync.Mutex
		inc := func() {
			mu.Lock()
			x = x + 1
			mu.Unlock()
			wg.Done()
		}
		go inc()
		go inc()
		wg.Wait()
		vAssert(x == 2, "mutex protects the counter")
		vCover("mutex")
	case 3: // condition variable: the waiter sees the flag
		var mu sync.Mutex
		cond := sync.NewCond(&mu)
		ready := false
		go func() {
			mu.Lock()
			ready = true
			cond.Signal()
			mu.Unlock()
		}()
		mu.Lock()
		for !ready {
			cond.Wait()
			vCover("cond waited")
		}
		mu.Unlock()
		vCover("cond")
	case 4: // once runs exactly once, the loser waits for the winner
		var once sync.Once
		n := 0
		done := make(chan struct{}, 2)
		f := func() { once.Do(func() { n++ }); vAssert(n == 1, "once completed before Do returns"); done <- struct{}{} }
		go f()
		go f()
		<-done
		<-done
		vAssert(n == 1, "once ran once")
		vCover("once")
	case 5: // select picks any ready case; buffered channel keeps FIFO order
		c := make(chan int, 2)
		d := make(chan int, 1)
		c <- 1
		c <- 2
		d <- 9
		select {
		case v := <-c:
			vAssert(v == 1, "fifo")
			vCover("select c")
		case v := <-d:
			vAssert(v == 9, "d")
			vCover("select d")
		}
	case 6: // timers: a stopped timer never delivers; a running one does
		t := time.NewTimer(time.Second)
		if vChoose(2) == 0 {
			pending := t.Stop()
			vAssert(pending, "Stop on a timer that nobody received from reports it as pending")
			select {
			case <-t.C:
				vFail("value received from a stopped timer")
			default:
			}
			vCover("timer stopped")
		} else {
			<-t.C
			vAssert(!t.Stop(), "Stop after the expiry was received reports false")
			vCover("timer fired")
		}
	case 7: // a goroutine blocked forever does not stop the harness from finishing
		c := make(chan int)
		go func() { <-c }()
		vCover("leak ignored")
	}
}

// VerifSchedSelfTestDeadlock must end blocked (checked through allow_blocked +
// cover: the statement after the receive is never reached).
func VerifSchedSelfTestDeadlock() {
	c := make(chan int)
	d := make(chan int)
	go func() { <-d; c <- 1 }()
	vCover("before deadlock")
	vAssert(true, "reached")
	<-c
	d <- 1
	vFail("deadlocked program continued")
}

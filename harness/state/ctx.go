package state

import (
	"context"
	"time"
)

// Minimal cancellable context used in place of the context package's own
// implementation (which relies on runtime internals): Done is a channel that
// cancel closes exactly once; parents are never cancelled in these harnesses.
type vtCtx struct {
	done      chan struct{}
	cancelled *bool
}

func (c *vtCtx) Deadline() (time.Time, bool) { return time.Time{}, false }
func (c *vtCtx) Done() <-chan struct{}       { return c.done }
func (c *vtCtx) Err() error {
	if *c.cancelled {
		return context.Canceled
	}
	return nil
}
func (c *vtCtx) Value(any) any { return nil }

func vtBackground() context.Context { return &vtCtx{cancelled: new(bool)} }

func vtWithCancel(parent context.Context) (context.Context, context.CancelFunc) {
	c := &vtCtx{done: make(chan struct{}), cancelled: new(bool)}
	return c, func() {
		if !*c.cancelled {
			*c.cancelled = true
			close(c.done)
		}
	}
}

var verifStubs = map[string]any{
	"context.Background": vtBackground,
	"context.WithCancel": vtWithCancel,
}

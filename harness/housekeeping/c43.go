package housekeeping

import (
	"errors"
	"os"
	"time"

	"github.com/mutagen-io/extstat"

	"github.com/mutagen-io/mutagen/pkg/mutagen"
)

// C43: housekeepAgents / housekeepCaches / housekeepStaging with the
// environment, directory listing, stat, clock and removal replaced by stubs.
// Ages are symbolic 64-bit nanosecond counts handed out by the (time.Time).Sub
// stub; which timestamp of which entry was subtracted from which is encoded in
// the Unix seconds of the time values the stubs hand out.

const (
	verifC43Now       = int64(1 << 20) // time.Now()
	verifC43AccessOff = int64(0)       // entry k: access time  = Unix(k)
	verifC43ModOff    = int64(100)     // entry k: modification time = Unix(100+k)
	verifC43OtherOff  = int64(200)     // entry k: change/birth time
)

var verifC43ErrIO = errors.New("i/o failure")

type verifC43Info struct {
	name string
	mod  time.Time
}

func (i *verifC43Info) Name() string       { return i.name }
func (i *verifC43Info) Size() int64        { return 0 }
func (i *verifC43Info) Mode() os.FileMode  { return 0 }
func (i *verifC43Info) ModTime() time.Time { return i.mod }
func (i *verifC43Info) IsDir() bool        { return true }
func (i *verifC43Info) Sys() any           { return nil }

type verifC43Removal struct {
	path      string
	recursive bool
}

type verifC43World struct {
	envMode    int // 0: MUTAGEN_DATA_DIRECTORY=/m, 1: unset (home /h), 2: set to a relative path
	listFails  bool
	names      []string
	statFails  []bool
	accessAge  []int64
	modAge     []int64
	listed     []string // directories listed
	statted    []string // paths given to stat, in call order
	removals   []verifC43Removal
	badSub     bool // Sub called on unexpected operands
	reversed   bool // entry time minus now
	usedAccess []bool
	usedMod    []bool
}

var verifC43 *verifC43World

func verifC43LookupEnv(key string) (string, bool) {
	if key != "MUTAGEN_DATA_DIRECTORY" {
		return "", false
	}
	switch verifC43.envMode {
	case 0:
		return "/m", true
	case 2:
		return "rel", true
	}
	return "", false
}

func verifC43UserHomeDir() (string, error) { return "/h", nil }

func verifC43List(path string) ([]os.FileInfo, error) {
	w := verifC43
	w.listed = append(w.listed, path)
	if w.listFails {
		return nil, verifC43ErrIO
	}
	var out []os.FileInfo
	for k, n := range w.names {
		out = append(out, &verifC43Info{name: n, mod: time.Unix(verifC43ModOff+int64(k), 0)})
	}
	return out, nil
}

func verifC43NowStub() time.Time { return time.Unix(verifC43Now, 0) }

// verifC43NextStat: the k-th stat call concerns the k-th listed entry (the
// path is recorded and checked by the harness).
func verifC43NextStat(path string) (int, bool) {
	w := verifC43
	k := len(w.statted)
	w.statted = append(w.statted, path)
	if k >= len(w.names) {
		vFail("more stat calls than listed entries")
	}
	return k, w.statFails[k]
}

func verifC43Stat(path string) (os.FileInfo, error) {
	k, fails := verifC43NextStat(path)
	if fails {
		return nil, verifC43ErrIO
	}
	return &verifC43Info{name: "ignored", mod: time.Unix(verifC43ModOff+int64(k), 0)}, nil
}

func verifC43ExtStat(path string) (*extstat.ExtraStat, error) {
	k, fails := verifC43NextStat(path)
	if fails {
		return nil, verifC43ErrIO
	}
	return &extstat.ExtraStat{
		AccessTime: time.Unix(verifC43AccessOff+int64(k), 0),
		ModTime:    time.Unix(verifC43ModOff+int64(k), 0),
		ChangeTime: time.Unix(verifC43OtherOff+int64(k), 0),
		BirthTime:  time.Unix(verifC43OtherOff+int64(k), 0),
	}, nil
}

func verifC43Sub(t, u time.Time) time.Duration {
	w := verifC43
	a, b := t.Unix(), u.Unix()
	sign := int64(1)
	if b == verifC43Now {
		a, b = b, a
		sign = -1
		w.reversed = true
	}
	if a != verifC43Now {
		w.badSub = true
		return 0
	}
	n := int64(len(w.names))
	switch {
	case b >= verifC43AccessOff && b < verifC43AccessOff+n:
		w.usedAccess[b-verifC43AccessOff] = true
		return time.Duration(sign * w.accessAge[b-verifC43AccessOff])
	case b >= verifC43ModOff && b < verifC43ModOff+n:
		w.usedMod[b-verifC43ModOff] = true
		return time.Duration(sign * w.modAge[b-verifC43ModOff])
	}
	w.badSub = true
	return 0
}

func verifC43Remove(path string) error {
	verifC43.removals = append(verifC43.removals, verifC43Removal{path, false})
	if vBool() {
		return verifC43ErrIO
	}
	return nil
}

func verifC43RemoveAll(path string) error {
	verifC43.removals = append(verifC43.removals, verifC43Removal{path, true})
	if vBool() {
		return verifC43ErrIO
	}
	return nil
}

var verifStubs = map[string]any{
	"os.LookupEnv":  verifC43LookupEnv,
	"os.UserHomeDir": verifC43UserHomeDir,
	"github.com/mutagen-io/mutagen/pkg/filesystem.DirectoryContentsByPath": verifC43List,
	"time.Now":        verifC43NowStub,
	"(time.Time).Sub": verifC43Sub,
	"os.Stat":         verifC43Stat,
	"github.com/mutagen-io/extstat.NewFromFileName": verifC43ExtStat,
	"os.Remove":    verifC43Remove,
	"os.RemoveAll": verifC43RemoveAll,
}

func VerifC43() {
	w := &verifC43World{}
	verifC43 = w
	which := vChoose(3) // 0 agents, 1 caches, 2 staging
	w.envMode = vChoose(3)
	w.listFails = vChoose(4) == 3
	n := vRange(0, vParam("maxentries", 3))
	for k := 0; k < n; k++ {
		vLabel("name")
		name := vString(2)
		// a directory listing yields distinct single-component names other than "." and ".."
		vAssume(vAnd(name[0] != '/', name[1] != '/', name[0] != 0, name[1] != 0))
		vAssume(name != "..")
		for _, o := range w.names {
			vAssume(o != name)
		}
		w.names = append(w.names, name)
		vLabel("stat fails")
		w.statFails = append(w.statFails, vBool())
		vLabel("age of last access (ns)")
		w.accessAge = append(w.accessAge, vI64())
		vLabel("age of last modification (ns)")
		w.modAge = append(w.modAge, vI64())
		vLabel("")
		w.usedAccess = append(w.usedAccess, false)
		w.usedMod = append(w.usedMod, false)
	}

	// documented layout and thresholds
	base := "/m"
	if w.envMode == 1 {
		base = "/h/.mutagen"
		if mutagen.DevelopmentModeEnabled {
			base = "/h/.mutagen-dev"
		}
	}
	const day = 24 * int64(time.Hour)
	var sub string
	var threshold int64
	switch which {
	case 0:
		sub, threshold = "agents", 30*day
		vNote("function=housekeepAgents")
		housekeepAgents()
		vCover("agents")
	case 1:
		sub, threshold = "caches", 7*day
		vNote("function=housekeepCaches")
		housekeepCaches()
		vCover("caches")
	default:
		sub, threshold = "staging", 7*day
		vNote("function=housekeepStaging")
		housekeepStaging()
		vCover("staging")
	}
	dir := base + "/" + sub

	if w.envMode == 2 {
		vCover("no data directory")
		vAssert(len(w.listed) == 0 && len(w.statted) == 0 && len(w.removals) == 0, "nothing is touched when the data directory cannot be determined")
		return
	}
	vAssert(len(w.listed) == 1 && w.listed[0] == dir, "exactly the documented sub-directory of the data directory is listed")
	if w.listFails {
		vCover("listing fails")
		vAssert(len(w.statted) == 0 && len(w.removals) == 0, "nothing is touched when the listing fails")
		return
	}
	vAssert(!w.badSub, "ages are computed between the current time and a timestamp of the entry")
	vAssert(!w.reversed, "age = now - timestamp")
	vAssert(len(w.statted) == n, "every listed entry is examined once")
	if len(w.statted) != n {
		return
	}
	expected := 0
	for k := 0; k < n; k++ {
		entry := dir + "/" + w.names[k]
		statPath := entry
		age := w.modAge[k]
		if which == 0 {
			statPath = entry + "/mutagen-agent"
			age = w.accessAge[k]
		}
		vAssert(w.statted[k] == statPath, "the examined path is the entry inside the data sub-directory (agents: its agent binary)")
		stale := vAnd(!w.statFails[k], age > threshold)
		count := 0
		for _, r := range w.removals {
			if r.path == entry {
				count++
				vAssert(r.recursive == (which != 1), "agent versions and staging roots are removed recursively, caches as single files")
			}
		}
		if stale {
			expected++
			switch which {
			case 0:
				vCover("stale agent")
			case 1:
				vCover("stale cache")
			default:
				vCover("stale staging root")
			}
			vAssert(count == 1, "an entry older than the threshold whose stat succeeded is removed")
			if which == 0 {
				vAssert(w.usedAccess[k] && !w.usedMod[k], "agents are judged by their last access (execution) time")
			}
		} else {
			if w.statFails[k] {
				vCover("stat failed")
			} else {
				vCover("recent")
			}
			vAssert(count == 0, "an entry that is not older than the threshold, or whose stat failed, is not removed")
		}
	}
	vAssert(len(w.removals) == expected, "nothing else is removed (every removal is <data sub-directory>/<one listed name>)")
}

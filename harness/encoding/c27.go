package encoding

// C27, package encoding: MarshalAndSave (and, through it, the real
// filesystem.WriteFileAtomic) on the model of c27model.go.  The marshal
// callback is the identity on an opaque payload and may fail.

import (
	"errors"

	"github.com/mutagen-io/mutagen/pkg/filesystem"
)

const vaTarget = "/data/session"
const vaTempPrefix = filesystem.TemporaryNamePrefix

var vaErrMarshal = errors.New("marshal failure")

func vaFsRename(sourceDirectory *filesystem.Directory, sourceNameOrPath string, targetDirectory *filesystem.Directory, targetNameOrPath string, replace bool) error {
	if sourceDirectory != nil || targetDirectory != nil {
		vaUnmodelled("filesystem.Rename relative to directory handles")
	}
	return vaRenamePath(sourceNameOrPath, targetNameOrPath, replace)
}

// vaUnmodelled has no body on purpose: reaching it makes the engine stop with
// "cannot decide" (ENGINE-ERROR) instead of a verdict.
func vaUnmodelled(what string)

func VerifC27Save() {
	vaRun(func(data []byte) error {
		return MarshalAndSave(vaTarget, func() ([]byte, error) {
			if vaw.faults && !vaw.crashed && vChoose(2) == 1 {
				vCover("marshal-failure")
				return nil, vaErrMarshal
			}
			return data, nil
		})
	}, -1)
}

package encoding

// C39 (encoding): EncodeBase62 at reduced width — alphabet membership, value,
// leading-zero handling and injectivity (through the round trip).

func verifAlphabetIndex(c byte) int {
	switch {
	case c >= '0' && c <= '9':
		return int(c - '0')
	case c >= 'a' && c <= 'z':
		return int(c-'a') + 10
	case c >= 'A' && c <= 'Z':
		return int(c-'A') + 36
	}
	return -1
}

func VerifC39Base62() {
	zeros := verifRange(0, vParam("zeros", 2))
	width := verifRange(1, vParam("width", 1))
	in := make([]byte, zeros+width)
	var value uint64
	for i := 0; i < width; i++ {
		b := vU8()
		if i >= 1 && vParam("restrict", 0) == 1 {
			// later bytes: boundary values only (keeps the path count finite)
			vAssume(vOr(b == 0, b == 1, b == 61, b == 62, b == 63, b == 127, b == 128, b == 255))
		}
		in[zeros+i] = b
		value = value<<8 | uint64(b)
	}
	orig := append([]byte(nil), in...)
	out := EncodeBase62(in)
	vCover("encoded")

	// alphabet membership and numeric value (own decoding, out is concrete per path)
	var got uint64
	for i := 0; i < len(out); i++ {
		d := verifAlphabetIndex(out[i])
		vAssert(d >= 0, "every output character is in the Base62 alphabet")
		if d < 0 {
			return
		}
		got = got*62 + uint64(d)
	}
	vAssert(got == value, "output digits are the big-endian Base62 value of the input")
	vAssert(len(out) >= len(in) || len(in) == 0, "at least one character per input byte at this width")
	for i := 0; i < zeros; i++ {
		vAssert(out[i] == '0', "each leading zero byte yields a leading zero character")
	}
	// injectivity on the bound: the real decoder recovers the input
	back, err := DecodeBase62(out)
	vAssert(err == nil, "decodes")
	vAssert(len(back) == len(orig), "round trip preserves the length (leading zeros)")
	if len(back) == len(orig) {
		same := true
		for i := range back {
			same = vAnd(same, back[i] == orig[i])
		}
		vAssert(same, "round trip recovers the input (injective)")
	}
}

// verifRange is vRange that does not consume a choice for a one-value range
// (the engine records none there, the native replay runtime would read one).
func verifRange(lo, hi int) int {
	if hi <= lo {
		return lo
	}
	return vRange(lo, hi)
}

package encoding

import (
	"encoding/binary"
	"io"

	"google.golang.org/protobuf/encoding/protowire"
	"google.golang.org/protobuf/proto"
	"google.golang.org/protobuf/reflect/protoreflect"
)

// C22 (encoding): length-prefixed framing of ProtobufEncoder / ProtobufDecoder.
//
// Protocol Buffers marshalling itself is replaced by the identity on an opaque
// payload (see verifStubs): a message IS its marshalled bytes.  Everything
// else - varint prefix, buffer management of both sides, the reads issued by
// the decoder - is the real code.  The peer's reader delivers the bytes that
// were written in arbitrary fragments.

// verifC22Msg is the opaque message.
type verifC22Msg struct {
	payload []byte
	set     int // number of times a decoder delivered into this message
}

func (m *verifC22Msg) ProtoReflect() protoreflect.Message { return nil }

var verifStubs = map[string]any{
	"(google.golang.org/protobuf/proto.MarshalOptions).Size":          verifC22Size,
	"(google.golang.org/protobuf/proto.MarshalOptions).MarshalAppend": verifC22MarshalAppend,
	"google.golang.org/protobuf/proto.Unmarshal":                      verifC22Unmarshal,
}

func verifC22Size(o proto.MarshalOptions, m proto.Message) int {
	return len(m.(*verifC22Msg).payload)
}

func verifC22MarshalAppend(o proto.MarshalOptions, b []byte, m proto.Message) ([]byte, error) {
	return append(b, m.(*verifC22Msg).payload...), nil
}

func verifC22Unmarshal(b []byte, m proto.Message) error {
	t := m.(*verifC22Msg)
	t.payload = append([]byte(nil), b...)
	t.set++
	return nil
}

// verifC22Wire is the byte stream between the two sides.  Writes are accepted
// in full (and copied); reads deliver a non-empty prefix of what is available,
// of arbitrary size.  A read with nothing available is what would block on a
// real connection: it is recorded (starved) and reported as io.EOF.
type verifC22Wire struct {
	data      []byte
	pos       int
	writes    int
	starved   bool
	bodyReads int // calls of Read (as opposed to ReadByte)
	small     int // reads of up to this many available bytes fragment arbitrarily
	budget    int // number of arbitrary fragmentation decisions for larger reads
	halve     bool // larger reads (beyond the budget) deliver half of what is available
}

func (w *verifC22Wire) Write(p []byte) (int, error) {
	w.writes++
	w.data = append(w.data, p...)
	return len(p), nil
}

func (w *verifC22Wire) ReadByte() (byte, error) {
	if w.pos >= len(w.data) {
		w.starved = true
		return 0, io.EOF
	}
	b := w.data[w.pos]
	w.pos++
	return b, nil
}

func (w *verifC22Wire) Read(p []byte) (int, error) {
	w.bodyReads++
	if len(p) == 0 {
		return 0, nil
	}
	rem := len(w.data) - w.pos
	if rem == 0 {
		w.starved = true
		return 0, io.EOF
	}
	max := len(p)
	if rem < max {
		max = rem
	}
	n := w.fragment(max)
	copy(p, w.data[w.pos:w.pos+n])
	w.pos += n
	return n, nil
}

func (w *verifC22Wire) fragment(max int) int {
	if max <= 1 {
		return max
	}
	if max <= w.small {
		return vRange(1, max)
	}
	if w.budget > 0 {
		w.budget--
		switch vChoose(4) {
		case 0:
			return 1
		case 1:
			return max / 2
		case 2:
			return max - 1
		}
		return max
	}
	if w.halve {
		return max / 2
	}
	return max
}

func verifC22BytesEq(a, b []byte) bool {
	if len(a) != len(b) {
		return false
	}
	eq := true
	for i := range a {
		eq = vAnd(eq, a[i] == b[i])
	}
	return eq
}

// verifC22Range is vRange that does not consume a choice for a one-value range.
func verifC22Range(lo, hi int) int {
	if hi <= lo {
		return lo
	}
	return vRange(lo, hi)
}

// verifC22Length picks a payload length: 0..maxLen, or (if enabled) one of the
// "large" lengths around the varint width boundaries.
func verifC22Length(maxLen, large int) int {
	if large > 0 && vBool() {
		vCover("large")
		switch vChoose(4) {
		case 0:
			return 127
		case 1:
			return 128
		case 2:
			return 129
		}
		return large // e.g. 16384: three-byte prefix
	}
	n := verifC22Range(0, maxLen)
	if n == 0 {
		vCover("empty")
	}
	return n
}

func verifC22NewEncoder(w io.Writer, variant int) *ProtobufEncoder {
	switch variant {
	case 1:
		// no spare capacity: every append grows the buffer
		return &ProtobufEncoder{writer: w, sizer: proto.MarshalOptions{}, encoder: proto.MarshalOptions{UseCachedSize: true}}
	case 2:
		return &ProtobufEncoder{writer: w, buffer: make([]byte, 0, 2), sizer: proto.MarshalOptions{}, encoder: proto.MarshalOptions{UseCachedSize: true}}
	}
	return NewProtobufEncoder(w)
}

func verifC22NewDecoder(r *verifC22Wire, variant int) *ProtobufDecoder {
	switch variant {
	case 1:
		return &ProtobufDecoder{reader: r} // nil buffer: every non-empty message allocates
	case 2:
		return &ProtobufDecoder{reader: r, buffer: make([]byte, 2)}
	}
	return NewProtobufDecoder(r)
}

// VerifC22RoundTrip: up to <msgs> messages are encoded; the peer decodes at
// arbitrary points (after any Encode it may decode any number of the messages
// that have been written so far), and finally everything.
func VerifC22RoundTrip() {
	maxMsgs := vParam("msgs", 3)
	maxLen := vParam("len", 3)
	large := vParam("large", 0)
	w := &verifC22Wire{small: vParam("small", 4), budget: vParam("budget", 2)}
	// buffer states of the two sides: as constructed (32 KiB), none, 2 bytes;
	// paired (variants=0) or independent (variants=1)
	ev := vChoose(3)
	dv := ev
	if vParam("variants", 0) == 1 {
		dv = vChoose(3)
	}
	enc := verifC22NewEncoder(w, ev)
	dec := verifC22NewDecoder(w, dv)

	count := verifC22Range(0, maxMsgs)
	var sent [][]byte
	decoded := 0
	decodeOne := func() {
		// the receiving message may hold earlier content (messages are reused)
		got := verifC22Msg{payload: []byte{0xAA, 0x55}}
		err := dec.Decode(&got)
		vAssert(err == nil, "a message that was written decodes without error")
		vAssert(!w.starved, "a message that was written decodes without waiting for further data")
		if err != nil {
			vStop()
		}
		vAssert(got.set == 1, "exactly one message delivered per Decode")
		vAssert(verifC22BytesEq(got.payload, sent[decoded]), "decoded message equals the message written at the same position")
		decoded++
	}
	for i := 0; i < count; i++ {
		payload := vBytes(verifC22Length(maxLen, large))
		orig := append([]byte(nil), payload...)
		sent = append(sent, orig)
		err := enc.Encode(&verifC22Msg{payload: payload})
		vAssert(err == nil, "encoding to a working writer succeeds")
		vAssert(verifC22BytesEq(payload, orig), "encoder does not modify the message")
		// the peer may decode some of what is available now
		for decoded < len(sent) && vBool() {
			vCover("interleaved")
			decodeOne()
		}
	}
	for decoded < len(sent) {
		decodeOne()
	}
	if count >= 2 {
		vCover("multi")
	}
	// same sequence: nothing else comes out
	vAssert(w.pos == len(w.data), "the decoder consumed exactly the bytes written")
	var extra verifC22Msg
	err := dec.Decode(&extra)
	vAssert(err != nil && extra.set == 0, "no further message is decoded from an exhausted stream")
	vCover("done")
}

// VerifC22Limit: the peer declares an arbitrary size (arbitrary header bytes,
// own varint model).  Sizes above the limit must be rejected; sizes up to
// <len> followed by that many bytes are accepted.
func VerifC22Limit() {
	const limit = 100 * 1024 * 1024
	hdrLen := vRange(1, 10)
	hdr := vBytes(hdrLen)
	// own model of the declared size: little-endian base-128, last byte < 0x80
	var declared uint64
	overflow := false
	for i := 0; i < hdrLen; i++ {
		b := hdr[i]
		if i < hdrLen-1 {
			vAssume(b >= 0x80)
		} else {
			vAssume(b < 0x80)
		}
		if i == 9 && b > 1 {
			overflow = true // more than 64 bits: certainly above the limit
		}
		declared |= uint64(b&0x7f) << (7 * uint(i))
	}
	maxLen := vParam("len", 3)
	above := overflow || declared > limit
	if !above {
		vAssume(declared <= uint64(maxLen)) // sizes between the bound and the limit: outside the claim
	}
	w := &verifC22Wire{small: 4}
	w.data = append(w.data, hdr...)
	var body []byte
	if !above {
		body = vBytes(vConcretize(int(declared)))
		w.data = append(w.data, body...)
	} else {
		// whatever follows must not matter
		w.data = append(w.data, vBytes(2)...)
	}
	dec := verifC22NewDecoder(w, vChoose(3))
	var got verifC22Msg
	err := dec.Decode(&got)
	if above {
		vCover("above-limit")
		if overflow {
			vCover("overflow")
		}
		vAssert(err != nil, "declared size above the limit is rejected")
		vAssert(got.set == 0, "nothing is delivered for a rejected size")
	} else {
		vCover("within-limit")
		vAssert(err == nil && got.set == 1, "declared size within the limit is accepted")
		vAssert(verifC22BytesEq(got.payload, body), "accepted message carries exactly the declared number of bytes")
		vAssert(w.pos == hdrLen+len(body), "consumes exactly prefix and body")
	}
}

// VerifC22Varint: the encoder's prefix function (protowire.AppendVarint) and
// the decoder's (binary.ReadUvarint) agree for every 64-bit value, and the
// encoder declares exactly the payload size.
func VerifC22Varint() {
	v := vU64()
	enc := protowire.AppendVarint(nil, v)
	w := &verifC22Wire{data: enc}
	got, err := binary.ReadUvarint(w)
	vCover("varint")
	vAssert(err == nil && got == v, "every 64-bit length survives prefix encoding and decoding")
	vAssert(w.pos == len(enc) && !w.starved, "prefix decoding consumes exactly the prefix")
	if v > 100*1024*1024 {
		// and through the real decoder such a prefix is rejected
		w2 := &verifC22Wire{data: append(enc, 0, 0)}
		var m verifC22Msg
		derr := NewProtobufDecoder(w2).Decode(&m)
		vCover("varint-above")
		vAssert(derr != nil && m.set == 0, "encoded size above the limit is rejected")
	}
}

// VerifC22Huge: a message larger than the buffers either side keeps
// (1 MiB + 1 byte) between two small ones: exercises the encoder's buffer
// trimming and the decoder's one-off buffer.  The large payload is concrete
// except for three symbolic bytes.
func VerifC22Huge() {
	const huge = 1024*1024 + 1
	w := &verifC22Wire{halve: vBool()}
	enc := NewProtobufEncoder(w)
	dec := NewProtobufDecoder(w)
	big := make([]byte, huge)
	for i := 0; i < huge; i += 4099 {
		big[i] = byte(i)
	}
	big[0], big[huge/2], big[huge-1] = vU8(), vU8(), vU8()
	msgs := [][]byte{vBytes(2), big, vBytes(1)}
	var sent [][]byte
	for _, p := range msgs {
		sent = append(sent, append([]byte(nil), p...))
	}
	eager := vBool() // decode after each Encode, or everything at the end
	decoded := 0
	decodeOne := func() {
		var got verifC22Msg
		err := dec.Decode(&got)
		vAssert(err == nil && !w.starved, "a message that was written decodes without error or further data")
		if err != nil {
			vStop()
		}
		vAssert(got.set == 1, "exactly one message delivered per Decode")
		vAssert(verifC22BytesEq(got.payload, sent[decoded]), "decoded message equals the message written at the same position")
		decoded++
	}
	for _, p := range msgs {
		err := enc.Encode(&verifC22Msg{payload: p})
		vAssert(err == nil, "encoding to a working writer succeeds")
		if eager {
			decodeOne()
		}
	}
	for decoded < len(sent) {
		decodeOne()
	}
	vAssert(w.pos == len(w.data), "the decoder consumed exactly the bytes written")
	vCover("huge")
}

package ssh

import (
	"context"
	"errors"
	"os/exec"

	"github.com/mutagen-io/mutagen/pkg/url"
)

// C36 (SSH): user and host names taken from a valid endpoint URL reach the
// ssh and scp argument vectors only as operands.
//
// The functions that locate the executables and build the exec.Cmd
// (pkg/ssh.SSHCommand / SCPCommand) are replaced by recorders that capture the
// argument vector and fail, so that only the argv-building code of the
// transport runs.

var verifStubs = map[string]any{
	"github.com/mutagen-io/mutagen/pkg/ssh.SSHCommand": verifSSHCommand,
	"github.com/mutagen-io/mutagen/pkg/ssh.SCPCommand": verifSCPCommand,
	// environment: nothing set (MUTAGEN_EXTENSION, DOCKER_*, ...)
	"os.Getenv":    verifGetenv,
	"os.LookupEnv": verifLookupEnv,
	// local path resolution used by url.Parse for non-SSH input
	"github.com/mutagen-io/mutagen/pkg/filesystem.Normalize": verifNormalize,
}

var verifErrRecorded = errors.New("recorded (command construction not modelled)")

type verifCall struct {
	tool string
	argv []string
}

var verifCalls []verifCall

func verifSSHCommand(ctx context.Context, args ...string) (*exec.Cmd, error) {
	verifCalls = append(verifCalls, verifCall{"ssh", append([]string(nil), args...)})
	return nil, verifErrRecorded
}

func verifSCPCommand(ctx context.Context, args ...string) (*exec.Cmd, error) {
	verifCalls = append(verifCalls, verifCall{"scp", append([]string(nil), args...)})
	return nil, verifErrRecorded
}

func verifGetenv(name string) string            { return "" }
func verifLookupEnv(name string) (string, bool) { return "", false }
func verifNormalize(path string) (string, error) {
	if len(path) > 0 && path[0] == '/' {
		return path, nil
	}
	return "/" + path, nil
}

// verifOperands models how a getopt-style tool reads its arguments: until a
// "--" terminator every element of length > 1 that starts with '-' is an
// option; an option listed in valueOptions consumes the following element.
// Everything else is an operand.  With stopAtFirst the first operand ends
// option processing (ssh: the rest is the remote command).
func verifOperands(argv []string, valueOptions []string, stopAtFirst bool) []string {
	var operands []string
	for i := 0; i < len(argv); i++ {
		a := argv[i]
		if a == "--" {
			return append(operands, argv[i+1:]...)
		}
		if len(a) > 1 && a[0] == '-' {
			for _, o := range valueOptions {
				if a == o {
					i++
					break
				}
			}
			continue
		}
		if stopAtFirst {
			return append(operands, argv[i:]...)
		}
		operands = append(operands, a)
	}
	return operands
}

func verifSameStrings(a, b []string) bool {
	if len(a) != len(b) {
		return false
	}
	for i := range a {
		if a[i] != b[i] {
			return false
		}
	}
	return true
}

// Options of OpenSSH ssh / scp that take a separate value.
var verifSSHValueOptions = []string{"-B", "-b", "-c", "-D", "-E", "-e", "-F", "-I", "-i", "-J", "-L", "-l", "-m", "-O", "-o", "-P", "-p", "-Q", "-R", "-S", "-W", "-w"}
var verifSCPValueOptions = []string{"-c", "-D", "-F", "-i", "-J", "-l", "-o", "-P", "-S", "-X"}

// verifC36Check: the tool must see exactly the operands mutagen means to
// pass: [user@]host (with the remote name for scp) at the destination
// position; otherwise a component was read as an option.
func verifC36Check(want string, expected []string, class string) {
	seen := 0
	for _, c := range verifCalls {
		if c.tool != want {
			continue
		}
		seen++
		var operands []string
		if want == "ssh" {
			operands = verifOperands(c.argv, verifSSHValueOptions, true)
		} else {
			operands = verifOperands(c.argv, verifSCPValueOptions, false)
		}
		vAssert(verifSameStrings(operands, expected), class+want+": user and host reach the tool as operands (the operand list the tool extracts is exactly what mutagen means to pass)")
	}
	vAssert(seen == 1, want+": command construction reached once")
}

// verifC36Run drives both transport operations for a URL.
func verifC36Run(u *url.URL) {
	verifCalls = nil
	transport, err := NewTransport(u.User, u.Host, uint16(u.Port), "")
	vAssert(err == nil && transport != nil, "transport created")
	if err != nil || transport == nil {
		return
	}
	// ssh/scp destination syntax: [user@]host
	destination := u.Host
	if u.User != "" {
		destination = u.User + "@" + u.Host
	}
	// Class of the input (condition on the URL only): the destination begins
	// with '-'.
	class := ""
	if len(destination) > 0 && destination[0] == '-' {
		class = "[leading '-'] "
		vCover("leading-dash-accepted")
		vNote("user or host beginning with '-' is accepted by URL.EnsureValid and url.Parse and is placed in the ssh/scp argument vector before any -- terminator, where the tool reads it as an option (e.g. host -oProxyCommand=x)")
	} else {
		vNote("URL component not passed to ssh/scp as the intended operand")
	}
	if vChoose(2) == 0 {
		vCover("ssh")
		_, err = transport.Command("mutagen-agent synchronizer")
		vAssert(err != nil, "recorder error propagates")
		verifC36Check("ssh", []string{destination, "mutagen-agent synchronizer"}, class)
	} else {
		vCover("scp")
		err = transport.Copy("/tmp/mutagen-agent", ".mutagen-agent-x")
		vAssert(err != nil, "recorder error propagates")
		verifC36Check("scp", []string{"mutagen-agent", destination + ":.mutagen-agent-x"}, class)
	}
}

// VerifC36SSHValid: every URL accepted by URL.EnsureValid.
func VerifC36SSHValid() {
	maxLen := vParam("maxlen", 3)
	u := &url.URL{Kind: url.Kind_Synchronization, Protocol: url.Protocol_SSH, Path: "/p"}
	if vChoose(2) == 1 {
		u.Kind = url.Kind_Forwarding
		u.Path = "tcp:localhost:80"
	}
	vLabel("user")
	u.User = vString(vRange(0, maxLen))
	vLabel("host")
	u.Host = vString(vRange(0, maxLen))
	vLabel("")
	switch vChoose(3) {
	case 1:
		u.Port = 22
	case 2:
		u.Port = 65535
	}
	vAssume(u.EnsureValid() == nil)
	vCover("valid")
	verifC36Run(u)
}

// VerifC36SSHParsed: every SSH URL produced by url.Parse from raw text.
func VerifC36SSHParsed() {
	n := vRange(1, vParam("maxraw", 5))
	vLabel("raw")
	raw := vString(n)
	vLabel("")
	for i := 0; i < n; i++ {
		vAssume(raw[i] < 0x80)
	}
	u, err := url.Parse(raw, url.Kind_Synchronization, true)
	if err != nil || u == nil || u.Protocol != url.Protocol_SSH {
		return
	}
	vAssume(u.Port == 0)
	vAssert(u.EnsureValid() == nil, "parsed URL is valid")
	vCover("parsed")
	verifC36Run(u)
}

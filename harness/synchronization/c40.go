package synchronization

import (
	"context"

	"google.golang.org/protobuf/types/known/timestamppb"

	"github.com/mutagen-io/mutagen/pkg/selection"
	"github.com/mutagen-io/mutagen/pkg/state"
	"github.com/mutagen-io/mutagen/pkg/synchronization/core"
)

// C40: session selection by specification and the listing arithmetic.

// verifC40Sessions builds a manager with n controllers whose identifiers are
// distinct (they are the registry's keys) symbolic 1-byte strings and whose
// names are empty or symbolic 1-byte strings.
func verifC40Manager(n int) (*Manager, []*controller) {
	m := &Manager{
		sessionsLock: state.NewTrackingLock(nil),
		sessions:     make(map[string]*controller),
	}
	var cs []*controller
	for i := 0; i < n; i++ {
		vLabel("identifier")
		id := vString(1)
		for _, o := range cs {
			vAssume(o.session.Identifier != id)
		}
		vLabel("name")
		name := vString(vChoose(2))
		vLabel("")
		c := &controller{session: &Session{Identifier: id, Name: name}}
		m.sessions[id] = c
		cs = append(cs, c)
	}
	return m, cs
}

func VerifC40Select() {
	m, cs := verifC40Manager(vRange(0, vParam("maxsessions", 3)))
	ns := vRange(1, vParam("maxspecs", 2))
	specs := make([]string, ns)
	for k := range specs {
		vLabel("specification")
		specs[k] = vString(1) // selection.EnsureValid rejects empty specifications
	}
	vLabel("")

	got, err := m.selectControllers(&selection.Selection{Specifications: specs})

	// specification
	matches := func(c *controller, s string) bool {
		return vOr(c.session.Identifier == s, c.session.Name == s)
	}
	unmatched := false
	for _, s := range specs {
		any := false
		for _, c := range cs {
			if matches(c, s) {
				any = true
			}
		}
		if !any {
			unmatched = true
		}
	}
	if unmatched {
		vCover("unmatched specification")
		vAssert(err != nil, "selection fails when some specification matches no session")
		return
	}
	vCover("all specifications matched")
	vAssert(err == nil, "selection succeeds when every specification matches a session")
	if err != nil {
		return
	}
	for _, c := range cs {
		want := false
		for _, s := range specs {
			if matches(c, s) {
				want = true
			}
		}
		count := 0
		for _, g := range got {
			if g == c {
				count++
			}
		}
		if want {
			vCover("selected")
			vAssert(count == 1, "a session matching at least one specification is returned exactly once")
		} else {
			vCover("not selected")
			vAssert(count == 0, "a session matching no specification is not returned")
		}
	}
	for _, g := range got {
		known := false
		for _, c := range cs {
			if g == c {
				known = true
			}
		}
		vAssert(known, "only registered sessions are returned")
	}
	// the registry lock has been released (taking it again would block otherwise)
	m.sessionsLock.Lock()
	m.sessionsLock.UnlockWithoutNotify()
}

// ---------- listing ----------

// verifC40DFS lists root-relative paths in depth-first traversal order with
// lexicographically ordered siblings ('-' sorts before '/', so this differs
// from plain string order).
var verifC40DFS = []string{
	"", "a", "a/a", "a/a/b", "a/b", "a-", "a-/a", "a-b", "b", "b/-", "b/a/a", "b/b", "c",
}

func verifC40StubWait(t *state.Tracker, ctx context.Context, previousIndex uint64) (uint64, error) {
	return previousIndex + 1, nil
}

// verifC40StubState hands out a fresh top-level copy of the controller's
// state (currentState's proto.Clone is reflection-based).
func verifC40StubState(c *controller) *State {
	s := c.state
	return &State{
		Session:    s.Session,
		Conflicts:  s.Conflicts,
		AlphaState: &EndpointState{ScanProblems: s.AlphaState.ScanProblems, TransitionProblems: s.AlphaState.TransitionProblems},
		BetaState:  &EndpointState{ScanProblems: s.BetaState.ScanProblems, TransitionProblems: s.BetaState.TransitionProblems},
	}
}

var verifStubs_VerifC40List = map[string]any{
	"(*github.com/mutagen-io/mutagen/pkg/state.Tracker).WaitForChange":               verifC40StubWait,
	"(*github.com/mutagen-io/mutagen/pkg/synchronization.controller).currentState": verifC40StubState,
}

// verifC40Scramble returns the n smallest paths of verifC40DFS in a scrambled
// order (reversed, then rotated).
func verifC40Scramble(n, rot int) []string {
	out := make([]string, n)
	for i := 0; i < n; i++ {
		out[i] = verifC40DFS[n-1-(i+rot)%n]
	}
	return out
}

func verifC40Problems(n, rot int) []*core.Problem {
	var out []*core.Problem
	for _, p := range verifC40Scramble(n, rot) {
		out = append(out, &core.Problem{Path: p, Error: "e"})
	}
	return out
}

func verifC40CheckProblems(got []*core.Problem, excluded uint64, n int, limit int, what string) {
	keep := n
	if keep > limit {
		keep = limit
		vCover("truncated")
	}
	vAssert(len(got) == keep, what+": list holds min(total, limit) entries")
	vAssert(excluded == uint64(n-keep), what+": excluded count is exactly the number of entries left out")
	for i := 0; i < keep && i < len(got); i++ {
		vAssert(got[i].Path == verifC40DFS[i], what+": entries are the first ones in depth-first path order, in that order")
	}
}

func VerifC40List() {
	nc := vRange(0, vParam("maxsessions", 3))
	m := &Manager{
		sessionsLock: state.NewTrackingLock(nil),
		sessions:     make(map[string]*controller),
	}
	total := len(verifC40DFS)
	base := vRange(0, total-1)
	rot := vChoose(3)
	type lens struct{ conflicts, as, at, bs, bt int }
	var cs []*controller
	var ls []lens
	for i := 0; i < nc; i++ {
		id := string([]byte{byte('p' + i)})
		vLabel("created-seconds")
		sec := int64(vU8() & 3)
		vLabel("created-nanos")
		nanos := int32(vU8() & 3)
		vLabel("")
		l := lens{(base + i) % total, (base + 3 + i) % total, (base + 6 + i) % total, (base + 9 + i) % total, (base + 11 + i) % total}
		var conflicts []*core.Conflict
		for _, p := range verifC40Scramble(l.conflicts, rot) {
			conflicts = append(conflicts, &core.Conflict{
				Root:         p,
				AlphaChanges: []*core.Change{{Path: p, New: &core.Entry{Kind: core.EntryKind_File, Digest: []byte{1}}}},
				BetaChanges:  []*core.Change{{Path: p, New: &core.Entry{Kind: core.EntryKind_Directory}}},
			})
		}
		c := &controller{
			stateLock: state.NewTrackingLock(nil),
			session:   &Session{Identifier: id, CreationTime: &timestamppb.Timestamp{Seconds: sec, Nanos: nanos}},
		}
		c.state = &State{
			Session:    c.session,
			Conflicts:  conflicts,
			AlphaState: &EndpointState{ScanProblems: verifC40Problems(l.as, rot), TransitionProblems: verifC40Problems(l.at, rot)},
			BetaState:  &EndpointState{ScanProblems: verifC40Problems(l.bs, rot), TransitionProblems: verifC40Problems(l.bt, rot)},
		}
		m.sessions[id] = c
		cs = append(cs, c)
		ls = append(ls, l)
	}

	_, states, err := m.List(context.Background(), &selection.Selection{All: true}, 0)
	vCover("listed")
	vAssert(err == nil, "listing all sessions succeeds")
	if err != nil {
		return
	}
	vAssert(len(states) == nc, "one state per selected session")
	if len(states) != nc {
		return
	}
	// ordered by creation time, oldest first
	for i := 1; i < nc; i++ {
		p, q := states[i-1].Session.CreationTime, states[i].Session.CreationTime
		vCover("two sessions")
		vAssert(vOr(p.Seconds < q.Seconds, vAnd(p.Seconds == q.Seconds, p.Nanos <= q.Nanos)), "sessions are ordered by creation time")
	}
	for k, c := range cs {
		count := 0
		var st *State
		for _, s := range states {
			if s.Session == c.session {
				count++
				st = s
			}
		}
		vAssert(count == 1, "every selected session is listed exactly once")
		if count != 1 {
			return
		}
		l := ls[k]
		// conflicts
		keep := l.conflicts
		if keep > 10 {
			keep = 10
			vCover("truncated")
		}
		vAssert(len(st.Conflicts) == keep, "conflicts: list holds min(total, limit) entries")
		vAssert(st.ExcludedConflicts == uint64(l.conflicts-keep), "conflicts: excluded count is exactly the number of entries left out")
		for i := 0; i < keep && i < len(st.Conflicts); i++ {
			vAssert(st.Conflicts[i].Root == verifC40DFS[i], "conflicts: entries are the first ones in depth-first path order, in that order")
		}
		verifC40CheckProblems(st.AlphaState.ScanProblems, st.AlphaState.ExcludedScanProblems, l.as, 10, "alpha scan problems")
		verifC40CheckProblems(st.AlphaState.TransitionProblems, st.AlphaState.ExcludedTransitionProblems, l.at, 10, "alpha transition problems")
		verifC40CheckProblems(st.BetaState.ScanProblems, st.BetaState.ExcludedScanProblems, l.bs, 10, "beta scan problems")
		verifC40CheckProblems(st.BetaState.TransitionProblems, st.BetaState.ExcludedTransitionProblems, l.bt, 10, "beta transition problems")
	}
}

// Code generated from harness/core/tree.go (same helpers, qualified for use outside package core). DO NOT EDIT.
package synchronization

import "github.com/mutagen-io/mutagen/pkg/synchronization/core"

// Shared tree generator and oracles for the reconciliation properties
// (C01-C07, C11, C15, C18).  Oracles are written independently of the code
// under test: own walks, own field comparison, own path arithmetic.

// ---------- generator ----------

const (
	vtAllowUnsync  = 1 << iota // untracked / problematic entries may appear
	vtAllowPhantom             // phantom directories may appear
	vtNoExec                   // executable bits are all false (non-preserving filesystem)
)

// vtGenLeaf generates a non-directory entry or an empty directory or nil.
// Kinds fork; digests, executability, targets and problem texts stay symbolic.
func vtGenNode(depth int, names []string, flags int, allowNil bool) *core.Entry {
	// options: 0 nil, 1 file, 2 symlink, 3 directory, 4 untracked, 5 problematic, 6 phantom
	opts := make([]int, 0, 7)
	if allowNil {
		opts = append(opts, 0)
	}
	opts = append(opts, 1, 2, 3)
	if flags&vtAllowUnsync != 0 {
		opts = append(opts, 4, 5)
	}
	if flags&vtAllowPhantom != 0 {
		opts = append(opts, 6)
	}
	switch opts[vChoose(len(opts))] {
	case 0:
		return nil
	case 1:
		vLabel("digest")
		d := vU8()
		x := false
		if flags&vtNoExec == 0 {
			vLabel("executable")
			x = vBool()
		}
		vLabel("")
		return &core.Entry{Kind: core.EntryKind_File, Digest: []byte{d}, Executable: x}
	case 2:
		vLabel("target")
		t := vString(1)
		vLabel("")
		return &core.Entry{Kind: core.EntryKind_SymbolicLink, Target: t}
	case 3:
		e := &core.Entry{Kind: core.EntryKind_Directory}
		vtGenChildren(e, depth, names, flags)
		return e
	case 4:
		return &core.Entry{Kind: core.EntryKind_Untracked}
	case 5:
		vLabel("problem")
		p := vString(1)
		vLabel("")
		return &core.Entry{Kind: core.EntryKind_Problematic, Problem: p}
	default:
		e := &core.Entry{Kind: core.EntryKind_PhantomDirectory}
		vtGenChildren(e, depth, names, flags)
		return e
	}
}

func vtGenChildren(e *core.Entry, depth int, names []string, flags int) {
	if depth <= 0 {
		return
	}
	for _, name := range names {
		// below the first level only one name is used (shape S3)
		sub := names
		if len(sub) > 1 {
			sub = sub[:1]
		}
		if c := vtGenNode(depth-1, sub, flags, true); c != nil {
			if e.Contents == nil {
				e.Contents = make(map[string]*core.Entry)
			}
			e.Contents[name] = c
		}
	}
}

// vtGenTree generates a root entry.  shape: 1 = root only (S1), 2 = directory
// root with names {a,b} and leaf children (S2), 3 = directory root, one name,
// child directory with one grandchild (S3).
func vtGenTree(shape int, flags int) *core.Entry {
	switch shape {
	case 1:
		return vtGenNode(0, nil, flags, true)
	case 2:
		return vtGenNode(1, []string{"a", "b"}, flags, true)
	default:
		return vtGenNode(2, []string{"a"}, flags, true)
	}
}

// ---------- own tree helpers ----------

func vtIsUnsyncKind(k core.EntryKind) bool {
	return k == core.EntryKind_Untracked || k == core.EntryKind_Problematic || k == core.EntryKind_PhantomDirectory
}

// vtSplit splits a root-relative path into components ("" -> none).
func vtSplit(path string) []string {
	if path == "" {
		return nil
	}
	var out []string
	start := 0
	for i := 0; i <= len(path); i++ {
		if i == len(path) || path[i] == '/' {
			out = append(out, path[start:i])
			start = i + 1
		}
	}
	return out
}

func vtJoin(base, name string) string {
	if base == "" {
		return name
	}
	return base + "/" + name
}

// vtAt returns the entry at path (nil if absent).  ok=false if a proper
// prefix of the path exists but is not a directory-like entry.
func vtAt(e *core.Entry, path string) (*core.Entry, bool) {
	for _, c := range vtSplit(path) {
		if e == nil {
			return nil, true
		}
		if e.Kind != core.EntryKind_Directory && e.Kind != core.EntryKind_PhantomDirectory {
			return nil, false
		}
		e = e.Contents[c]
	}
	return e, true
}

// vtBytesEq compares without early exit (keeps the comparison a single term).
func vtBytesEq(a, b []byte) bool {
	if len(a) != len(b) {
		return false
	}
	var d byte
	for i := range a {
		d |= a[i] ^ b[i]
	}
	return d == 0
}

// vtSameNode is the own shallow (field) comparison.
func vtSameNode(a, b *core.Entry) bool {
	if a == nil || b == nil {
		return a == nil && b == nil
	}
	if a.Kind != b.Kind {
		return false
	}
	return vAnd(a.Executable == b.Executable, vtBytesEq(a.Digest, b.Digest), a.Target == b.Target, a.Problem == b.Problem)
}

func vtDeepEqual(a, b *core.Entry) bool {
	if !vtSameNode(a, b) {
		return false
	}
	if a == nil {
		return true
	}
	if len(a.Contents) != len(b.Contents) {
		return false
	}
	for name, ca := range a.Contents {
		cb, ok := b.Contents[name]
		if !ok || !vtDeepEqual(ca, cb) {
			return false
		}
	}
	return true
}

// vtHasUnsync reports an untracked/problematic/phantom entry at any depth.
func vtHasUnsync(e *core.Entry) bool {
	if e == nil {
		return false
	}
	if vtIsUnsyncKind(e.Kind) {
		return true
	}
	for _, c := range e.Contents {
		if vtHasUnsync(c) {
			return true
		}
	}
	return false
}

// vtSyncPart is the own synchronizable filter (fresh nodes).
func vtSyncPart(e *core.Entry) *core.Entry {
	if e == nil || vtIsUnsyncKind(e.Kind) {
		return nil
	}
	r := &core.Entry{Kind: e.Kind, Executable: e.Executable, Digest: e.Digest, Target: e.Target}
	for name, c := range e.Contents {
		if sc := vtSyncPart(c); sc != nil {
			if r.Contents == nil {
				r.Contents = make(map[string]*core.Entry)
			}
			r.Contents[name] = sc
		}
	}
	return r
}

// vtClone deep-copies a tree.
func vtClone(e *core.Entry) *core.Entry {
	if e == nil {
		return nil
	}
	r := &core.Entry{Kind: e.Kind, Executable: e.Executable, Digest: e.Digest, Target: e.Target, Problem: e.Problem}
	for name, c := range e.Contents {
		if r.Contents == nil {
			r.Contents = make(map[string]*core.Entry)
		}
		r.Contents[name] = vtClone(c)
	}
	return r
}

// vtReplace returns root with the sub-tree at path replaced by n (own apply).
func vtReplace(root *core.Entry, path string, n *core.Entry) *core.Entry {
	comps := vtSplit(path)
	if len(comps) == 0 {
		return vtClone(n)
	}
	r := vtClone(root)
	parent := r
	for _, c := range comps[:len(comps)-1] {
		if parent == nil {
			return r
		}
		parent = parent.Contents[c]
	}
	if parent == nil {
		return r
	}
	leaf := comps[len(comps)-1]
	if n == nil {
		delete(parent.Contents, leaf)
		if len(parent.Contents) == 0 {
			parent.Contents = nil
		}
	} else {
		if parent.Contents == nil {
			parent.Contents = make(map[string]*core.Entry)
		}
		parent.Contents[leaf] = vtClone(n)
	}
	return r
}

// vtPathRelated: equal, or one is a component-wise prefix of the other.
func vtPathRelated(p, q string) bool {
	a, b := vtSplit(p), vtSplit(q)
	n := len(a)
	if len(b) < n {
		n = len(b)
	}
	for i := 0; i < n; i++ {
		if a[i] != b[i] {
			return false
		}
	}
	return true
}

// vtAtOrBelow: q equals p or lies below it.
func vtAtOrBelow(p, q string) bool {
	a, b := vtSplit(p), vtSplit(q)
	if len(b) < len(a) {
		return false
	}
	for i := range a {
		if a[i] != b[i] {
			return false
		}
	}
	return true
}

// vtValid is the own validity check (synchronizable-only if sync).
func vtValid(e *core.Entry, sync bool) bool {
	if e == nil {
		return true
	}
	switch e.Kind {
	case core.EntryKind_Directory, core.EntryKind_PhantomDirectory:
		if e.Kind == core.EntryKind_PhantomDirectory && sync {
			return false
		}
		if e.Digest != nil || e.Executable || e.Target != "" || e.Problem != "" {
			return false
		}
		for name, c := range e.Contents {
			if name == "" || name == "." || name == ".." || c == nil {
				return false
			}
			for i := 0; i < len(name); i++ {
				if name[i] == '/' {
					return false
				}
			}
			if !vtValid(c, sync) {
				return false
			}
		}
		return true
	case core.EntryKind_File:
		return e.Contents == nil && e.Target == "" && e.Problem == "" && len(e.Digest) > 0
	case core.EntryKind_SymbolicLink:
		return e.Contents == nil && e.Digest == nil && !e.Executable && e.Problem == "" && e.Target != ""
	case core.EntryKind_Untracked:
		return !sync && e.Contents == nil && e.Digest == nil && !e.Executable && e.Target == "" && e.Problem == ""
	case core.EntryKind_Problematic:
		return !sync && e.Contents == nil && e.Digest == nil && !e.Executable && e.Target == "" && e.Problem != ""
	}
	return false
}

// vtVisit calls f for every node of e (pre-order) with its relative path.
func vtVisit(e *core.Entry, path string, f func(path string, n *core.Entry)) {
	if e == nil {
		return
	}
	f(path, e)
	for name, c := range e.Contents {
		vtVisit(c, vtJoin(path, name), f)
	}
}

// ---------- reconciliation setting ----------

type vtTriple struct {
	ancestor, alpha, beta *core.Entry
	mode                  core.SynchronizationMode
}

// vtGenTriple generates (ancestor, alpha, beta) honouring the documented
// preconditions of Reconcile: the ancestor is synchronizable-only; the sides
// contain no phantom directories.
func vtGenTriple(shape int, sideFlags int) vtTriple {
	var t vtTriple
	t.ancestor = vtGenTree(shape, 0)
	t.alpha = vtGenTree(shape, sideFlags)
	t.beta = vtGenTree(shape, sideFlags)
	vNote("ancestor=" + vtShow(t.ancestor) + " alpha=" + vtShow(t.alpha) + " beta=" + vtShow(t.beta))
	return t
}

func vtModeFromParam(def int) core.SynchronizationMode {
	m := vParam("mode", def)
	if m == 0 {
		m = 1 + vChoose(4)
	}
	return core.SynchronizationMode(m)
}

// vtDisagreements performs the own top-down walk: it descends through
// shallow-equal, non-problematic directory pairs and collects the paths where
// alpha and beta shallowly disagree.
func vtDisagreements(path string, alpha, beta *core.Entry, out *[]string) {
	if alpha != nil && alpha.Kind == core.EntryKind_Problematic {
		return
	}
	if beta != nil && beta.Kind == core.EntryKind_Problematic {
		return
	}
	an := alpha == nil || alpha.Kind == core.EntryKind_Untracked
	bn := beta == nil || beta.Kind == core.EntryKind_Untracked
	if an && bn {
		return
	}
	if !vtSameNode(alpha, beta) {
		*out = append(*out, path)
		return
	}
	names := map[string]bool{}
	for n := range alpha.Contents {
		names[n] = true
	}
	for n := range beta.Contents {
		names[n] = true
	}
	for n := range names {
		vtDisagreements(vtJoin(path, n), alpha.Contents[n], beta.Contents[n], out)
	}
}

// vtModified: the synchronizable part of side (rooted at path) contains an
// entry that is not field-equal to the ancestor's entry at the same path
// (a creation or modification, not a deletion).
func vtModified(ancestorRoot *core.Entry, path string, side *core.Entry) bool {
	mod := false
	vtVisit(vtSyncPart(side), path, func(p string, n *core.Entry) {
		a, ok := vtAt(ancestorRoot, p)
		if !ok || !vtSameNode(a, n) {
			mod = true
		}
	})
	return mod
}

// vtCheckDestroysOnlyUnchanged asserts C01(iii): every synchronizable entry of
// S (the side's content at c.Path) that c.New does not keep identically is
// field-equal to the ancestor's entry at the same path.
func vtCheckDestroysOnlyUnchanged(ancestorRoot *core.Entry, c *core.Change, S *core.Entry, label string) {
	vtVisit(S, "", func(rel string, n *core.Entry) {
		if vtIsUnsyncKind(n.Kind) {
			return // unsynchronizable content is the subject of C03
		}
		kept, ok := vtAt(c.New, rel)
		if ok && kept != nil && vtSameNode(kept, n) {
			return
		}
		full := rel
		if c.Path != "" {
			if rel == "" {
				full = c.Path
			} else {
				full = c.Path + "/" + rel
			}
		}
		a, aok := vtAt(ancestorRoot, full)
		vAssert(aok && a != nil && vtSameNode(a, n), label)
	})
}

// vtShow renders the shape of a tree (kinds only) for counterexample notes.
func vtShow(e *core.Entry) string {
	if e == nil {
		return "-"
	}
	var s string
	switch e.Kind {
	case core.EntryKind_File:
		return "file"
	case core.EntryKind_SymbolicLink:
		return "link"
	case core.EntryKind_Untracked:
		return "untracked"
	case core.EntryKind_Problematic:
		return "problematic"
	case core.EntryKind_Directory:
		s = "dir{"
	case core.EntryKind_PhantomDirectory:
		s = "phantom{"
	default:
		return "?"
	}
	first := true
	for _, name := range []string{"a", "b", "c"} {
		if c, ok := e.Contents[name]; ok {
			if !first {
				s += ","
			}
			first = false
			s += name + ":" + vtShow(c)
		}
	}
	return s + "}"
}

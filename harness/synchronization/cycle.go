package synchronization

import (
	"context"
	"time"

	"google.golang.org/protobuf/proto"

	"github.com/mutagen-io/mutagen/pkg/state"
	"github.com/mutagen-io/mutagen/pkg/synchronization/core"
	"github.com/mutagen-io/mutagen/pkg/synchronization/core/ignore"
	"github.com/mutagen-io/mutagen/pkg/synchronization/rsync"
)

// Controller-cycle harnesses: the REAL (*controller).synchronize loop is
// executed for up to two cycles against two model endpoints and a model
// archive file.  This is the composition the tree harnesses of C04/C05/C11/C18
// only mirror: load archive -> poll -> scan both -> reify phantoms -> propagate
// executability -> safety checks -> Reconcile -> stage -> transition both ->
// fold results into the ancestor -> validate -> save.
//
// Goroutines of synchronize (parallel scans, parallel transitions, polling)
// run inline at the go statement (go_mode "inline"): the model endpoints never
// block, so one schedule is representative; schedules are not the subject.

// ---------- environment ----------

type vtCtx struct {
	done      chan struct{}
	cancelled *bool
}

func (c *vtCtx) Deadline() (time.Time, bool) { return time.Time{}, false }
func (c *vtCtx) Done() <-chan struct{}       { return c.done }
func (c *vtCtx) Err() error {
	if *c.cancelled {
		return context.Canceled
	}
	return nil
}
func (c *vtCtx) Value(any) any { return nil }

func vtBackground() context.Context { return &vtCtx{cancelled: new(bool)} }
func vtWithCancel(parent context.Context) (context.Context, context.CancelFunc) {
	c := &vtCtx{done: make(chan struct{}), cancelled: new(bool)}
	return c, func() {
		if !*c.cancelled {
			*c.cancelled = true
			close(c.done)
		}
	}
}

// the archive file
type vtDiskState struct {
	archive   *core.Entry
	loads     int
	saves     int
	savesAt   []int // cycle number of each save
	failSaves bool
}

var vtDisk *vtDiskState
var vtCy *vtCycleState

func vtLoadArchive(path string, message proto.Message) error {
	vtDisk.loads++
	message.(*core.Archive).Content = vtClone(vtDisk.archive)
	return nil
}

func vtSaveArchive(path string, message proto.Message) error {
	vtDisk.saves++
	vtDisk.savesAt = append(vtDisk.savesAt, vtCy.cycle)
	vtDisk.archive = vtClone(message.(*core.Archive).Content)
	return nil
}

func vtLockNop(l *state.TrackingLock) {}

var vtCycleStubs = map[string]any{
	"context.Background": vtBackground,
	"context.WithCancel": vtWithCancel,
	"github.com/mutagen-io/mutagen/pkg/encoding.LoadAndUnmarshalProtobuf": vtLoadArchive,
	"github.com/mutagen-io/mutagen/pkg/encoding.MarshalAndSaveProtobuf":   vtSaveArchive,
	"(*github.com/mutagen-io/mutagen/pkg/state.TrackingLock).Lock":                vtLockNop,
	"(*github.com/mutagen-io/mutagen/pkg/state.TrackingLock).Unlock":              vtLockNop,
	"(*github.com/mutagen-io/mutagen/pkg/state.TrackingLock).UnlockWithoutNotify": vtLockNop,
}

var verifStubs_VerifCycleFixpoint = vtCycleStubs
var verifStubs_VerifCycleOutcomes = vtCycleStubs
var verifStubs_VerifCycleHalt = vtCycleStubs
var verifStubs_VerifCycleExec = vtCycleStubs

// ---------- model endpoints ----------

type vtTransitionRecord struct {
	cycle  int
	side   string
	change *core.Change // as received
	before *core.Entry  // the side's entry at the path before the transition
	result *core.Entry
}

type vtCycleState struct {
	cycle     int
	maxCycles int
	cancel    context.CancelFunc
	log       []vtTransitionRecord
	stages    []int // cycle numbers of Stage calls
	// outcome policy: 0 = every transition succeeds; 1 = each transition
	// succeeds or fails (nothing done) nondeterministically
	outcomes int
	failed   int
}

type vtEP struct {
	name      string
	content   *core.Entry
	preserves bool
	cy        *vtCycleState
	first     bool // scanned first in each cycle (drives the cycle counter)
}

func vtStripExec(e *core.Entry) *core.Entry {
	if e == nil {
		return nil
	}
	r := &core.Entry{Kind: e.Kind, Digest: e.Digest, Target: e.Target, Problem: e.Problem}
	if e.Contents != nil {
		r.Contents = make(map[string]*core.Entry, len(e.Contents))
		for n, c := range e.Contents {
			r.Contents[n] = vtStripExec(c)
		}
	}
	return r
}

func (e *vtEP) Poll(ctx context.Context) error { return nil }

func (e *vtEP) Scan(ctx context.Context, ancestor *core.Entry, full bool) (*core.Snapshot, error, bool) {
	if e.first {
		e.cy.cycle++
		if e.cy.cycle > e.cy.maxCycles {
			e.cy.cancel()
		}
	}
	c := vtClone(e.content)
	if !e.preserves {
		// a filesystem that cannot store executability reports none
		c = vtStripExec(c)
	}
	return &core.Snapshot{Content: c, PreservesExecutability: e.preserves}, nil, false
}

func (e *vtEP) Stage(paths []string, digests [][]byte) ([]string, []*rsync.Signature, rsync.Receiver, error) {
	e.cy.stages = append(e.cy.stages, e.cy.cycle)
	// everything is already available locally: nothing needs to be transferred
	return nil, nil, nil, nil
}

func (e *vtEP) Supply(paths []string, signatures []*rsync.Signature, receiver rsync.Receiver) error {
	vFail("Supply requested although nothing needed staging")
	return nil
}

func (e *vtEP) Transition(ctx context.Context, transitions []*core.Change) ([]*core.Entry, []*core.Problem, bool, error) {
	var results []*core.Entry
	var problems []*core.Problem
	for _, t := range transitions {
		before, _ := vtAt(e.content, t.Path)
		result := t.New
		if e.cy.outcomes == 1 && vChoose(2) == 1 {
			// the transition fails before touching anything
			result = t.Old
			e.cy.failed++
			problems = append(problems, &core.Problem{Path: t.Path, Error: "model failure"})
		}
		e.cy.log = append(e.cy.log, vtTransitionRecord{e.cy.cycle, e.name, t, vtClone(before), vtClone(result)})
		if result != t.Old {
			e.content = vtReplace(e.content, t.Path, vtClone(result))
		}
		results = append(results, result)
	}
	return results, problems, false, nil
}

func (e *vtEP) Shutdown() error { return nil }

// ---------- driver ----------

type vtCycleRun struct {
	c           *controller
	alpha, beta *vtEP
	cy          *vtCycleState
	err         error
}

func vtRunCycles(ancestor, alpha, beta *core.Entry, mode core.SynchronizationMode, syntax ignore.Syntax,
	alphaPreserves, betaPreserves bool, maxCycles, outcomes int) *vtCycleRun {
	vtDisk = &vtDiskState{archive: vtClone(ancestor)}
	cy := &vtCycleState{maxCycles: maxCycles, outcomes: outcomes}
	vtCy = cy
	ctx, cancel := vtWithCancel(vtBackground())
	cy.cancel = cancel
	a := &vtEP{name: "alpha", content: vtClone(alpha), preserves: alphaPreserves, cy: cy, first: true}
	b := &vtEP{name: "beta", content: vtClone(beta), preserves: betaPreserves, cy: cy}
	c := &controller{
		archivePath: "archive",
		stateLock:   &state.TrackingLock{},
		session: &Session{
			Version: Version_Version1,
			Configuration: &Configuration{
				SynchronizationMode: mode,
				IgnoreSyntax:        syntax,
			},
		},
		mergedAlphaConfiguration: &Configuration{},
		mergedBetaConfiguration:  &Configuration{},
		state:                    &State{AlphaState: &EndpointState{}, BetaState: &EndpointState{}},
		flushRequests:            make(chan chan error, 1),
	}
	r := &vtCycleRun{c: c, alpha: a, beta: b, cy: cy}
	r.err = c.synchronize(ctx, a, b)
	return r
}

func vtHalted(r *vtCycleRun) bool {
	s := r.c.state.Status
	return r.err == errHaltedForSafety &&
		(s == Status_HaltedOnRootEmptied || s == Status_HaltedOnRootDeletion || s == Status_HaltedOnRootTypeChange)
}

func vtTwoWay(m core.SynchronizationMode) bool {
	return m == core.SynchronizationMode_SynchronizationModeTwoWaySafe || m == core.SynchronizationMode_SynchronizationModeTwoWayResolved
}

// vtCheckArchiveRecordsResults: the saved ancestor is valid, synchronizable
// only, and holds at every transitioned path exactly what the endpoint
// reported (C05), for the transitions of the given cycle.
func vtCheckArchiveRecordsResults(r *vtCycleRun, cycle int, label string) {
	vAssert(vtDisk.archive.EnsureValid(true) == nil, label+"the saved last-synchronized state passes EnsureValid(synchronizable)")
	vAssert(vtValid(vtDisk.archive, true), label+"the saved last-synchronized state contains only synchronizable content")
	for _, rec := range r.cy.log {
		if rec.cycle != cycle {
			continue
		}
		got, _ := vtAt(vtDisk.archive, rec.change.Path)
		vAssert(vtDeepEqual(got, rec.result), label+"the saved last-synchronized state records at a transitioned path exactly what the endpoint reported")
	}
}

// ---------- C04: fully applied cycle is a fixpoint; two-way endpoints converge ----------

func VerifCycleFixpoint() {
	shape := vParam("shape", 1)
	t := vtGenTriple(shape, vParam("unsync", 1)*vtAllowUnsync)
	t.mode = vtModeFromParam(0)
	r := vtRunCycles(t.ancestor, t.alpha, t.beta, t.mode, ignore.Syntax_SyntaxMutagen, true, true, 2, 0)
	if vtHalted(r) {
		vCover("halted")
		return
	}
	vAssert(r.cy.cycle == 3, "two full cycles ran (the third is cancelled at its scan)")
	vCover("two cycles")
	transitions1 := 0
	for _, rec := range r.cy.log {
		if rec.cycle == 1 {
			transitions1++
		}
		vAssert(rec.cycle == 1, "fully applied cycle: the next cycle plans no change to either endpoint")
	}
	for _, s := range vtDisk.savesAt {
		vAssert(s == 1, "fully applied cycle: the next cycle plans no change to the last-synchronized state")
	}
	for _, s := range r.cy.stages {
		vAssert(s == 1, "fully applied cycle: the next cycle stages nothing")
	}
	if transitions1 > 0 {
		vCover("transitions applied")
		vAssert(vtDisk.saves >= 1, "a cycle that changed an endpoint saves the last-synchronized state")
	}
	if vtDisk.saves > 0 {
		vCover("archive saved")
		vtCheckArchiveRecordsResults(r, 1, "")
	}
	// convergence (two-way modes): identical synchronizable content everywhere
	// except under reported conflicts and unsynchronizable paths — checked
	// in the conflict-free, fully synchronizable case, where it also pins the
	// recorded state: everything both sides agree on is recorded
	if vtTwoWay(t.mode) && len(r.c.state.Conflicts) == 0 && !vtHasUnsync(t.alpha) && !vtHasUnsync(t.beta) {
		vCover("converged")
		vAssert(vtDeepEqual(r.alpha.content, r.beta.content), "two-way: after a fully applied conflict-free cycle both endpoints hold identical content")
		vAssert(vtDeepEqual(vtDisk.archive, r.alpha.content), "after a fully applied conflict-free cycle the recorded last-synchronized state is what both endpoints hold")
	}
}

// ---------- C05: any mix of outcomes leaves a valid, faithful archive ----------

func VerifCycleOutcomes() {
	shape := vParam("shape", 1)
	t := vtGenTriple(shape, 0)
	t.mode = vtModeFromParam(0)
	r := vtRunCycles(t.ancestor, t.alpha, t.beta, t.mode, ignore.Syntax_SyntaxMutagen, true, true, 1, 1)
	if vtHalted(r) {
		return
	}
	vAssert(r.cy.cycle == 2, "one full cycle ran: updating the last-synchronized state succeeded")
	if len(r.cy.log) > 0 {
		vCover("transitions attempted")
		if r.cy.failed > 0 {
			vCover("some transition failed")
		}
		vAssert(vtDisk.saves == 1, "a cycle with transitions saves the last-synchronized state")
		vtCheckArchiveRecordsResults(r, 1, "")
	}
}

// ---------- C11: dangerous root changes halt the cycle and change nothing ----------

func VerifCycleHalt() {
	shape := vParam("shape", 1)
	// the last-synchronized state may be absent (new or reset session)
	var ancestor *core.Entry
	if vChoose(2) == 1 {
		ancestor = vtGenTree(shape, 0)
	}
	alpha := vtGenTree(shape, vParam("unsync", 1)*vtAllowUnsync)
	beta := vtGenTree(shape, vParam("unsync", 1)*vtAllowUnsync)
	mode := vtModeFromParam(0)
	vNote("ancestor=" + vtShow(ancestor) + " alpha=" + vtShow(alpha) + " beta=" + vtShow(beta))
	r := vtRunCycles(ancestor, alpha, beta, mode, ignore.Syntax_SyntaxMutagen, true, true, 1, 0)

	// whatever the plan was: no endpoint is ever asked to delete its root or
	// to change its root's type
	for _, rec := range r.cy.log {
		if rec.change.Path != "" || rec.before == nil {
			continue
		}
		vAssert(rec.change.New != nil, "the deletion of a synchronization root is never propagated")
		if rec.change.New != nil {
			vAssert(rec.change.New.Kind == rec.before.Kind, "a change of a root's type is never propagated")
		}
	}
	isDir := func(e *core.Entry) bool { return e != nil && e.Kind == core.EntryKind_Directory }
	if isDir(ancestor) && isDir(alpha) && isDir(beta) && len(ancestor.Contents) >= 2 &&
		(len(alpha.Contents) == 0) != (len(beta.Contents) == 0) {
		vCover("one side emptied")
		vAssert(vtHalted(r), "one-sided emptying of a root that held at least two entries halts the session")
		vAssert(len(r.cy.log) == 0 && len(r.cy.stages) == 0, "a halted cycle changes neither endpoint")
	}
	if vtHalted(r) {
		vCover("halted")
		vAssert(len(r.cy.log) == 0 && len(r.cy.stages) == 0, "a halted cycle changes neither endpoint")
		vAssert(vtDisk.saves == 0, "a halted cycle does not rewrite the last-synchronized state")
	} else {
		vCover("not halted")
	}
}

// ---------- C18: executability on the preserving side is never changed ----------

func VerifCycleExec() {
	shape := vParam("shape", 1)
	syntax := ignore.Syntax_SyntaxMutagen
	flags := 0
	if vParam("docker", 0) == 1 {
		syntax = ignore.Syntax_SyntaxDocker
		flags = vtAllowPhantom
	}
	ancestor := vtGenTree(shape, 0)
	alphaPreserves := vChoose(2) == 0
	var alpha, beta *core.Entry
	if alphaPreserves {
		alpha = vtGenTree(shape, flags)
		beta = vtGenTree(shape, flags|vtNoExec)
	} else {
		alpha = vtGenTree(shape, flags|vtNoExec)
		beta = vtGenTree(shape, flags)
	}
	mode := vtModeFromParam(0)
	vNote("ancestor=" + vtShow(ancestor) + " alpha=" + vtShow(alpha) + " beta=" + vtShow(beta))
	preserving, other := alpha, beta
	if !alphaPreserves {
		preserving, other = beta, alpha
	}
	r := vtRunCycles(ancestor, alpha, beta, mode, syntax, alphaPreserves, !alphaPreserves, 1, 0)
	if vtHalted(r) {
		return
	}
	pside := "alpha"
	if !alphaPreserves {
		pside = "beta"
	}
	// every change sent to the preserving side: wherever the file exists on
	// both sides (before the cycle) and still is a file afterwards, its
	// executable bit is the one the preserving side had
	for _, rec := range r.cy.log {
		if rec.side != pside {
			continue
		}
		vCover("change sent to the preserving side")
		vtVisit(rec.change.New, rec.change.Path, func(p string, n *core.Entry) {
			if n == nil || n.Kind != core.EntryKind_File {
				return
			}
			mine, _ := vtAt(preserving, p)
			theirs, _ := vtAt(other, p)
			if mine != nil && mine.Kind == core.EntryKind_File && theirs != nil && theirs.Kind == core.EntryKind_File {
				vCover("file on both sides rewritten on the preserving side")
				anc, _ := vtAt(ancestor, p)
				ancFile := anc != nil && anc.Kind == core.EntryKind_File
				switch {
				case vtBytesEq(n.Digest, mine.Digest):
					vAssert(n.Executable == mine.Executable, "the executable bit on the preserving endpoint is never changed while the file exists on both sides")
				case ancFile && vtBytesEq(n.Digest, anc.Digest):
					// the preserving side's own edit is reverted to the last-synchronized version
					vAssert(n.Executable == anc.Executable, "a file reverted to its last-synchronized content takes the executable bit recorded with it")
				case !ancFile || !vtBytesEq(anc.Digest, mine.Digest):
					// known finding C18 (DESIGN.md §11.5): content modified on both sides
					vAssert(n.Executable == mine.Executable, "a change planned for the preserving side keeps the file's executable bit [file content modified on both sides]")
				default:
					vAssert(n.Executable == mine.Executable, "the executable bit on the preserving endpoint is never changed while the file exists on both sides")
				}
			}
		})
	}
}

package synchronization

import (
	"context"
	"errors"
	"os"
	"time"

	"google.golang.org/protobuf/proto"
	"google.golang.org/protobuf/types/known/timestamppb"

	"github.com/mutagen-io/mutagen/pkg/logging"
	"github.com/mutagen-io/mutagen/pkg/selection"
	"github.com/mutagen-io/mutagen/pkg/state"
	"github.com/mutagen-io/mutagen/pkg/synchronization/core"
	"github.com/mutagen-io/mutagen/pkg/synchronization/rsync"
	urlpkg "github.com/mutagen-io/mutagen/pkg/url"
)

// C29: session lifecycle commands take effect exactly as documented.
//
// The REAL Manager (NewManager / Create / Pause / Resume / Flush / Reset /
// Terminate / Shutdown) and the REAL controller (newSession, loadSession,
// resume, halt in its three modes, flush, reset, run, synchronize, connect) are
// executed in the bounded-schedule mode: the run loop and the poll / scan /
// transition goroutines of synchronize are goroutines of their own, the harness
// is the goroutine that issues the commands.  The environment is a model:
//
//   - endpoints: a model protocol handler is registered in ProtocolHandlers;
//     the endpoints it hands out journal the beginning and the end of every
//     Poll / Scan / Stage / Supply / Transition / Shutdown call and work on two
//     in-memory roots; one call per path may be "slow" (it blocks until the
//     harness opens a gate or the call's context is cancelled), which is how a
//     command meets a session in the middle of a cycle without spending a
//     preemption;
//   - persistence: the session file and the archive file are two in-memory
//     images (saved = deep copy, loaded = deep copy, removed = absent);
//   - time: a Sleep of the harness lets every other goroutine run until all of
//     them are blocked ("settle").
//
// The oracle is a small state machine of its own (running / paused /
// terminated) over the journal and the two file images; it does not look at
// the controller's fields.

// ---------- journal ----------

const (
	vtC29Poll = iota
	vtC29Scan
	vtC29Stage
	vtC29Supply
	vtC29Transition
	vtC29Shutdown
	vtC29Connect
	vtC29SaveSession
	vtC29SaveArchive
	vtC29RemoveSession
	vtC29RemoveArchive
)

type vtC29Event struct {
	kind     int
	end      bool // false: the call begins, true: it returns
	side     int  // 0 alpha, 1 beta
	inst     int  // endpoint instance (number of the connect that made it)
	active   int  // endpoint calls in progress when the event happened (before it)
	ancestor *core.Entry
	hasAnc   bool
	paused   bool           // SaveSession: the flag written
	empty    bool           // SaveArchive: no content written
	roots    [2]*core.Entry // SaveArchive(empty): the roots at that moment
}

type vtC29SessionImage struct {
	identifier                string
	version                   Version
	creationTime              *timestamppb.Timestamp
	major, minor, patch       uint32
	alpha, beta               *urlpkg.URL
	conf, confAlpha, confBeta *Configuration
	name                      string
	labels                    map[string]string
	paused                    bool
}

type vtC29ArchiveImage struct {
	content *core.Entry
}

type vtC29World struct {
	root        [2]*core.Entry
	ev          []vtC29Event
	active      int
	sessionFile *vtC29SessionImage
	archiveFile *vtC29ArchiveImage
	connects    int
	gate        chan struct{}
	gateOpen    bool
	slow        int
	poke        [2]chan struct{}
	fresh       int
}

var vtW *vtC29World

const (
	vtC29ID          = "sync_0123456789abcdefghijABCDEFGHIJ0123456789abc"
	vtC29SessionPath = "sessions/" + vtC29ID
	vtC29ArchivePath = "archives/" + vtC29ID
)

func (w *vtC29World) log(e vtC29Event) int {
	e.active = w.active
	w.ev = append(w.ev, e)
	return len(w.ev) - 1
}

// ---------- persistence model ----------

func vtC29Save(path string, message proto.Message) error {
	w := vtW
	switch m := message.(type) {
	case *Session:
		if path != vtC29SessionPath {
			vFail("a session is saved to a path that is not the session's")
		}
		w.sessionFile = &vtC29SessionImage{
			identifier: m.Identifier, version: m.Version, creationTime: m.CreationTime,
			major: m.CreatingVersionMajor, minor: m.CreatingVersionMinor, patch: m.CreatingVersionPatch,
			alpha: m.Alpha, beta: m.Beta,
			conf: m.Configuration, confAlpha: m.ConfigurationAlpha, confBeta: m.ConfigurationBeta,
			name: m.Name, labels: m.Labels, paused: m.Paused,
		}
		w.log(vtC29Event{kind: vtC29SaveSession, paused: m.Paused})
	case *core.Archive:
		if path != vtC29ArchivePath {
			vFail("an archive is saved to a path that is not the session's")
		}
		w.archiveFile = &vtC29ArchiveImage{content: vtClone(m.Content)}
		ev := vtC29Event{kind: vtC29SaveArchive, empty: m.Content == nil}
		if ev.empty {
			ev.roots = [2]*core.Entry{vtClone(w.root[0]), vtClone(w.root[1])}
		}
		w.log(ev)
	default:
		vFail("unexpected message type saved")
	}
	return nil
}

func vtC29Load(path string, message proto.Message) error {
	w := vtW
	switch m := message.(type) {
	case *Session:
		if path != vtC29SessionPath || w.sessionFile == nil {
			return os.ErrNotExist
		}
		f := w.sessionFile
		m.Identifier, m.Version, m.CreationTime = f.identifier, f.version, f.creationTime
		m.CreatingVersionMajor, m.CreatingVersionMinor, m.CreatingVersionPatch = f.major, f.minor, f.patch
		m.Alpha, m.Beta = f.alpha, f.beta
		m.Configuration, m.ConfigurationAlpha, m.ConfigurationBeta = f.conf, f.confAlpha, f.confBeta
		m.Name, m.Labels, m.Paused = f.name, f.labels, f.paused
	case *core.Archive:
		if path != vtC29ArchivePath || w.archiveFile == nil {
			return os.ErrNotExist
		}
		m.Content = vtClone(w.archiveFile.content)
	default:
		vFail("unexpected message type loaded")
	}
	return nil
}

func vtC29Remove(path string) error {
	w := vtW
	switch path {
	case vtC29SessionPath:
		if w.sessionFile == nil {
			return os.ErrNotExist
		}
		w.sessionFile = nil
		w.log(vtC29Event{kind: vtC29RemoveSession})
	case vtC29ArchivePath:
		if w.archiveFile == nil {
			return os.ErrNotExist
		}
		w.archiveFile = nil
		w.log(vtC29Event{kind: vtC29RemoveArchive})
	default:
		vFail("a file that does not belong to the session is removed")
	}
	return nil
}

func vtC29PathForSession(id string) (string, error) { return "sessions/" + id, nil }
func vtC29PathForArchive(id string) (string, error) { return "archives/" + id, nil }

type vtC29FileInfo struct{ name string }

func (f vtC29FileInfo) Name() string       { return f.name }
func (f vtC29FileInfo) Size() int64        { return 1 }
func (f vtC29FileInfo) Mode() os.FileMode  { return 0600 }
func (f vtC29FileInfo) ModTime() time.Time { return time.Time{} }
func (f vtC29FileInfo) IsDir() bool        { return false }
func (f vtC29FileInfo) Sys() any           { return nil }

func vtC29DirectoryContents(path string) ([]os.FileInfo, error) {
	if path != "sessions/" {
		vFail("unexpected directory listed")
	}
	if vtW.sessionFile == nil {
		return nil, nil
	}
	return []os.FileInfo{vtC29FileInfo{vtC29ID}}, nil
}

func vtC29NewIdentifier(prefix string) (string, error) { return vtC29ID, nil }
func vtC29IdentifierValid(id string) bool              { return id == vtC29ID }
func vtC29IdentifierTruncated(id string) string        { return "sync_01234567" }
func vtC29NewTracker() *state.Tracker                  { return &state.Tracker{} }
func vtC29TrackerNop(t *state.Tracker)                 {}
func vtC29NotExtension() bool                          { return false }
func vtC29TimestampNow() *timestamppb.Timestamp        { return &timestamppb.Timestamp{Seconds: 1000} }

var vtC29Stubs = map[string]any{
	"context.Background": vtBackground,
	"context.WithCancel": vtWithCancel,
	"github.com/mutagen-io/mutagen/pkg/encoding.LoadAndUnmarshalProtobuf": vtC29Load,
	"github.com/mutagen-io/mutagen/pkg/encoding.MarshalAndSaveProtobuf":   vtC29Save,
	"os.Remove": vtC29Remove,
	"github.com/mutagen-io/mutagen/pkg/synchronization.pathForSession":     vtC29PathForSession,
	"github.com/mutagen-io/mutagen/pkg/synchronization.pathForArchive":     vtC29PathForArchive,
	"github.com/mutagen-io/mutagen/pkg/filesystem.DirectoryContentsByPath": vtC29DirectoryContents,
	"github.com/mutagen-io/mutagen/pkg/identifier.New":                     vtC29NewIdentifier,
	"github.com/mutagen-io/mutagen/pkg/identifier.IsValid":                 vtC29IdentifierValid,
	"github.com/mutagen-io/mutagen/pkg/identifier.Truncated":               vtC29IdentifierTruncated,
	"github.com/mutagen-io/mutagen/pkg/state.NewTracker":                   vtC29NewTracker,
	"(*github.com/mutagen-io/mutagen/pkg/state.Tracker).NotifyOfChange":    vtC29TrackerNop,
	"(*github.com/mutagen-io/mutagen/pkg/state.Tracker).Terminate":         vtC29TrackerNop,
	"google.golang.org/protobuf/types/known/timestamppb.Now":               vtC29TimestampNow,
	"github.com/mutagen-io/mutagen/pkg/extension.EnvironmentIsExtension":   vtC29NotExtension,
}

var verifStubs_VerifC29History = vtC29Stubs
var verifStubs_VerifC29Script = vtC29Stubs

// ---------- model endpoints ----------

type vtC29Handler struct{}

func (vtC29Handler) Connect(ctx context.Context, logger *logging.Logger, url *urlpkg.URL, prompter string,
	session string, version Version, configuration *Configuration, alpha bool) (Endpoint, error) {
	w := vtW
	w.connects++
	side := 1
	if alpha {
		side = 0
	}
	w.log(vtC29Event{kind: vtC29Connect, side: side, inst: w.connects})
	return &vtC29EP{w: w, side: side, inst: w.connects}, nil
}

type vtC29EP struct {
	w    *vtC29World
	side int
	inst int
	shut bool
}

func (e *vtC29EP) begin(kind int) int {
	i := e.w.log(vtC29Event{kind: kind, side: e.side, inst: e.inst})
	e.w.active++
	return i
}

func (e *vtC29EP) finish(kind int) {
	e.w.active--
	e.w.log(vtC29Event{kind: kind, end: true, side: e.side, inst: e.inst})
}

// maybeSlow: the call takes long — until the harness opens the gate or the
// call is cancelled.  At most w.slow calls per path are slow.
func (e *vtC29EP) maybeSlow(ctx context.Context) {
	w := e.w
	if w.slow > 0 && !w.gateOpen && vChoose(2) == 1 {
		w.slow--
		vCover("a slow endpoint call")
		select {
		case <-ctx.Done():
		case <-w.gate:
		}
	}
}

func (e *vtC29EP) Poll(ctx context.Context) error {
	if e.shut {
		return errors.New("endpoint shut down")
	}
	e.begin(vtC29Poll)
	select {
	case <-ctx.Done():
	case <-e.w.poke[e.side]:
	}
	e.finish(vtC29Poll)
	return nil
}

func (e *vtC29EP) Scan(ctx context.Context, ancestor *core.Entry, full bool) (*core.Snapshot, error, bool) {
	if e.shut {
		return nil, errors.New("endpoint shut down"), false
	}
	i := e.begin(vtC29Scan)
	e.w.ev[i].ancestor = vtClone(ancestor)
	e.w.ev[i].hasAnc = ancestor != nil
	// the snapshot is what the root holds when the scan begins
	c := vtClone(e.w.root[e.side])
	e.maybeSlow(ctx)
	e.finish(vtC29Scan)
	return &core.Snapshot{Content: c, PreservesExecutability: true}, nil, false
}

func (e *vtC29EP) Stage(paths []string, digests [][]byte) ([]string, []*rsync.Signature, rsync.Receiver, error) {
	if e.shut {
		return nil, nil, nil, errors.New("endpoint shut down")
	}
	e.begin(vtC29Stage)
	e.finish(vtC29Stage)
	// everything is available locally: nothing needs to be transferred
	return nil, nil, nil, nil
}

func (e *vtC29EP) Supply(paths []string, signatures []*rsync.Signature, receiver rsync.Receiver) error {
	e.begin(vtC29Supply)
	e.finish(vtC29Supply)
	return errors.New("model endpoints never need a transfer")
}

func (e *vtC29EP) Transition(ctx context.Context, transitions []*core.Change) ([]*core.Entry, []*core.Problem, bool, error) {
	if e.shut {
		return nil, nil, false, errors.New("endpoint shut down")
	}
	e.begin(vtC29Transition)
	e.maybeSlow(ctx)
	var results []*core.Entry
	for _, t := range transitions {
		e.w.root[e.side] = vtReplace(e.w.root[e.side], t.Path, vtClone(t.New))
		results = append(results, t.New)
	}
	e.finish(vtC29Transition)
	return results, nil, false, nil
}

func (e *vtC29EP) Shutdown() error {
	e.shut = true
	e.w.log(vtC29Event{kind: vtC29Shutdown, side: e.side, inst: e.inst})
	return nil
}

// ---------- the oracle's own view ----------

const (
	vtC29None = iota
	vtC29Running
	vtC29Paused
	vtC29Terminated
	vtC29Down // manager shut down, not yet restarted
)

type vtC29Oracle struct {
	w      *vtC29World
	m      *Manager
	status int
	// before the shutdown: the status to come back to after a restart
	statusBeforeDown int
	// journal index since which no endpoint call may begin (paused / terminated / down)
	quietSince int
	// paths (files) that a reset promised not to lose, until the next deliberate deletion
	keep []string
	// journal index of the event at which the last successful reset cleared the history
	wasCleared bool
	clearedAt  int
}

func vtC29File(d byte) *core.Entry {
	return &core.Entry{Kind: core.EntryKind_File, Digest: []byte{d}}
}

func vtC29Dir(names ...string) *core.Entry {
	e := &core.Entry{Kind: core.EntryKind_Directory}
	for i, n := range names {
		if e.Contents == nil {
			e.Contents = make(map[string]*core.Entry)
		}
		e.Contents[n] = vtC29File(byte(i + 1))
	}
	return e
}

func vtC29NewWorld() *vtC29World {
	w := &vtC29World{
		gate: make(chan struct{}),
		slow: vParam("slow", 1),
	}
	w.poke[0] = make(chan struct{}, 1)
	w.poke[1] = make(chan struct{}, 1)
	// both roots hold "a"; alpha additionally holds a file that has not been
	// synchronized yet (the first cycle has something to stage and apply)
	w.root[0] = vtC29Dir("a", "n0")
	w.root[1] = vtC29Dir("a")
	vtW = w
	ProtocolHandlers[urlpkg.Protocol_Local] = vtC29Handler{}
	return w
}

func vtC29URL(path string) *urlpkg.URL {
	return &urlpkg.URL{Kind: urlpkg.Kind_Synchronization, Protocol: urlpkg.Protocol_Local, Path: path}
}

func vtC29Selection() *selection.Selection {
	return &selection.Selection{Specifications: []string{vtC29ID}}
}

func vtC29Settle() { time.Sleep(time.Millisecond) }

func (o *vtC29Oracle) openGate() {
	if !o.w.gateOpen {
		o.w.gateOpen = true
		close(o.w.gate)
	}
}

// historyCleared: after the last successful reset cleared the persisted
// history, nothing of the synchronization loop that was halted for it goes on,
// and the first scan of each root that follows is given no history.  (Checked
// again whenever the journal may have grown: the first scan usually comes after
// the reset has returned.)
func (o *vtC29Oracle) historyCleared() {
	if !o.wasCleared {
		return
	}
	w := o.w
	reconnected := false
	seen := [2]bool{}
	for i := o.clearedAt + 1; i < len(w.ev); i++ {
		e := w.ev[i]
		if e.kind == vtC29Connect {
			reconnected = true
		}
		if e.end {
			continue
		}
		switch e.kind {
		case vtC29Scan, vtC29Stage, vtC29Supply, vtC29Transition:
			vAssert(reconnected, "an endpoint operation of the old synchronization loop began after the history had been cleared")
		}
		if e.kind == vtC29Scan && !seen[e.side] {
			seen[e.side] = true
			vCover("first scan after a reset")
			vAssert(!e.hasAnc, "the first scan after a reset was given the old history")
		}
	}
}

// quiet: while the session is paused, terminated or its manager is shut down,
// no endpoint call begins.
func (o *vtC29Oracle) quiet(when string) {
	o.historyCleared()
	if o.status != vtC29Paused && o.status != vtC29Terminated && o.status != vtC29Down {
		return
	}
	for i := o.quietSince; i < len(o.w.ev); i++ {
		e := o.w.ev[i]
		if e.end {
			continue
		}
		vtC29Broken(o.status, e.kind)
	}
}

func vtC29Broken(status int, kind int) {
	switch status {
	case vtC29Paused:
		switch kind {
		case vtC29Scan:
			vAssert(false, "while the session is paused (pausing has returned, or it was created paused; no resume yet) a scan began")
		case vtC29Stage, vtC29Supply:
			vAssert(false, "while the session is paused (pausing has returned, or it was created paused; no resume yet) staging began")
		case vtC29Transition:
			vAssert(false, "while the session is paused (pausing has returned, or it was created paused; no resume yet) a transition began")
		case vtC29Poll:
			vAssert(false, "while the session is paused (pausing has returned, or it was created paused; no resume yet) watching (an endpoint Poll call) began")
		}
	case vtC29Terminated:
		switch kind {
		case vtC29Scan:
			vAssert(false, "after terminating returned a scan began (the session runs again)")
		case vtC29Stage, vtC29Supply:
			vAssert(false, "after terminating returned staging began (the session runs again)")
		case vtC29Transition:
			vAssert(false, "after terminating returned a transition began (the session runs again)")
		case vtC29Poll:
			vAssert(false, "after terminating returned watching (an endpoint Poll call) began (the session runs again)")
		}
	default:
		switch kind {
		case vtC29Scan:
			vAssert(false, "after the manager's shutdown returned a scan began")
		case vtC29Stage, vtC29Supply:
			vAssert(false, "after the manager's shutdown returned staging began")
		case vtC29Transition:
			vAssert(false, "after the manager's shutdown returned a transition began")
		case vtC29Poll:
			vAssert(false, "after the manager's shutdown returned watching (an endpoint Poll call) began")
		}
	}
}

// start: the three ways a session comes into being.
func (o *vtC29Oracle) start(how int) {
	w := o.w
	switch how {
	case 0:
		vCover("created running")
		m, err := NewManager(nil)
		vAssert(err == nil && len(m.sessions) == 0, "a manager starts on an empty sessions directory")
		o.m = m
		_, err = m.Create(vtBackground(), vtC29URL("/alpha"), vtC29URL("/beta"), &Configuration{}, &Configuration{}, &Configuration{}, "", nil, false, "")
		vAssert(err == nil, "creating a session against reachable endpoints succeeds")
		o.status = vtC29Running
	case 1:
		vCover("created paused")
		m, err := NewManager(nil)
		vAssert(err == nil && len(m.sessions) == 0, "a manager starts on an empty sessions directory")
		o.m = m
		_, err = m.Create(vtBackground(), vtC29URL("/alpha"), vtC29URL("/beta"), &Configuration{}, &Configuration{}, &Configuration{}, "", nil, true, "")
		vAssert(err == nil, "creating a paused session succeeds")
		o.status = vtC29Paused
		o.quietSince = 0
		vAssert(w.sessionFile != nil && w.sessionFile.paused, "a session created paused is persisted as paused")
	default:
		vCover("loaded from disk with history")
		// a session that ran before: both roots and the archive hold "a"
		w.sessionFile = &vtC29SessionImage{
			identifier: vtC29ID, version: Version_Version1, creationTime: &timestamppb.Timestamp{Seconds: 1000},
			alpha: vtC29URL("/alpha"), beta: vtC29URL("/beta"),
			conf: &Configuration{}, confAlpha: &Configuration{}, confBeta: &Configuration{},
		}
		w.archiveFile = &vtC29ArchiveImage{content: vtC29Dir("a")}
		m, err := NewManager(nil)
		vAssert(err == nil && len(m.sessions) == 1, "a manager loads the session found on disk")
		o.m = m
		o.status = vtC29Running
	}
}

const (
	vtC29CmdPause = iota
	vtC29CmdResume
	vtC29CmdFlushWait
	vtC29CmdFlushNoWait
	vtC29CmdReset
	vtC29CmdTerminate
	vtC29CmdRestart
	vtC29CmdEdit
	vtC29CmdSettle
	vtC29CmdCount
)

func vtC29HasFile(root *core.Entry, name string) bool {
	e, _ := vtAt(root, name)
	return e != nil && e.Kind == core.EntryKind_File
}

// addFresh: a new file appears under alpha's root.
func (o *vtC29Oracle) addFresh() string {
	w := o.w
	w.fresh++
	name := "n" + string(rune('0'+w.fresh))
	w.root[0] = vtReplace(w.root[0], name, vtC29File(byte(100+w.fresh)))
	return name
}

func (o *vtC29Oracle) checkKept(when string) {
	for _, p := range o.keep {
		vAssert(vtC29HasFile(o.w.root[0], p), "a reset lost content of a root: a file that existed on an endpoint when the history was reset is gone from alpha after the next complete cycle")
		vAssert(vtC29HasFile(o.w.root[1], p), "a reset lost content of a root: a file that existed on an endpoint when the history was reset is not on beta after the next complete cycle")
	}
	if len(o.keep) > 0 {
		vCover("content checked after a reset and a complete cycle")
	}
}

func (o *vtC29Oracle) command(cmd int) {
	w := o.w
	ctx := vtBackground()
	if o.status == vtC29Down && cmd != vtC29CmdRestart && cmd != vtC29CmdSettle && cmd != vtC29CmdEdit {
		return
	}
	switch cmd {
	case vtC29CmdPause:
		err := o.m.Pause(ctx, vtC29Selection(), "")
		if err != nil {
			break
		}
		vAssert(o.status != vtC29Terminated, "a terminated session is no longer known to the manager")
		vCover("pause returned")
		o.status = vtC29Paused
		o.quietSince = len(w.ev)
		vAssert(w.active == 0, "pausing returned while an endpoint call (scan / staging / transition / watch) was still in progress")
		vAssert(w.sessionFile != nil, "pausing returned and the session is not on disk")
		if w.sessionFile != nil {
			vAssert(w.sessionFile.paused, "pausing returned and the persisted session is not marked paused")
		}
	case vtC29CmdResume:
		// everything up to the moment the resume is requested must have been
		// quiet; what begins once the command is under way is the resume's doing
		o.quiet("before resume")
		err := o.m.Resume(ctx, vtC29Selection(), "")
		if err != nil {
			// refused (the manager no longer knows the session): nothing may have been started
			break
		}
		vAssert(o.status != vtC29Terminated, "a terminated session is no longer known to the manager")
		vCover("resume returned")
		o.status = vtC29Running
	case vtC29CmdFlushWait:
		o.openGate()
		name := ""
		if o.status == vtC29Running {
			name = o.addFresh()
		}
		mark := len(w.ev)
		err := o.m.Flush(ctx, vtC29Selection(), "", false)
		if err != nil {
			vCover("waiting flush failed")
			break
		}
		vAssert(o.status == vtC29Running, "a waiting flush reported success for a session that is paused or terminated (no cycle can have run)")
		if o.status != vtC29Running {
			break
		}
		vCover("waiting flush succeeded")
		// a complete cycle that started after the request: both roots were
		// scanned after the request ...
		scanned := [2]bool{}
		for i := mark; i < len(w.ev); i++ {
			if e := w.ev[i]; e.kind == vtC29Scan && e.end {
				// the matching begin lies after the mark as well?
				for j := mark; j < i; j++ {
					if b := w.ev[j]; b.kind == vtC29Scan && !b.end && b.side == e.side && b.inst == e.inst {
						scanned[e.side] = true
					}
				}
			}
		}
		vAssert(scanned[0], "a waiting flush returned success without a scan of alpha that started after the request")
		vAssert(scanned[1], "a waiting flush returned success without a scan of beta that started after the request")
		// ... what the scan saw was carried over ...
		vAssert(vtC29HasFile(w.root[1], name), "a waiting flush returned success before the cycle that started after the request had applied its changes (a file created on alpha before the request is not on beta)")
		vAssert(vtDeepEqual(w.root[0], w.root[1]), "a waiting flush returned success before a complete cycle: the roots differ")
		// ... and recorded
		vAssert(w.archiveFile != nil && vtDeepEqual(w.archiveFile.content, w.root[0]), "a waiting flush returned success before the cycle had saved the new last-synchronized state")
		o.checkKept("flush")
		o.keep = nil
	case vtC29CmdFlushNoWait:
		err := o.m.Flush(ctx, vtC29Selection(), "", true)
		if err == nil {
			vCover("non-waiting flush accepted")
		}
	case vtC29CmdReset:
		// beta loses "a" (nobody has synchronized that yet): with the history
		// intact the deletion would be propagated to alpha
		had := vtC29HasFile(w.root[0], "a") && vtC29HasFile(w.root[1], "a")
		if o.status != vtC29Terminated {
			w.root[1] = vtReplace(w.root[1], "a", nil)
		}
		mark := len(w.ev)
		err := o.m.Reset(ctx, vtC29Selection(), "")
		if err != nil {
			break
		}
		vAssert(o.status != vtC29Terminated, "a terminated session is no longer known to the manager")
		vCover("reset returned")
		if had {
			vCover("reset with an unpropagated deletion pending")
		}
		// the history was cleared, at a moment when no cycle was under way
		cleared := -1
		for i := mark; i < len(w.ev); i++ {
			if e := w.ev[i]; e.kind == vtC29SaveArchive && e.empty {
				cleared = i
				vAssert(e.active == 0, "the history was cleared while an endpoint call of the session was in progress")
				break
			}
		}
		vAssert(cleared >= 0, "a reset returned success without clearing the persisted history")
		if cleared >= 0 {
			// what either root held when the history was cleared must survive
			o.keep = nil
			for _, r := range w.ev[cleared].roots {
				vtVisit(r, "", func(p string, n *core.Entry) {
					if n != nil && n.Kind == core.EntryKind_File {
						o.keep = append(o.keep, p)
					}
				})
			}
			o.clearedAt = cleared
			o.wasCleared = true
			o.historyCleared()
			if o.status == vtC29Paused {
				vAssert(w.archiveFile != nil && w.archiveFile.content == nil, "after a reset of a paused session the persisted history is empty")
			}
		}
	case vtC29CmdTerminate:
		err := o.m.Terminate(ctx, vtC29Selection(), "")
		if err != nil {
			break
		}
		vAssert(o.status != vtC29Terminated, "a terminated session is no longer known to the manager")
		vCover("terminate returned")
		o.status = vtC29Terminated
		o.quietSince = len(w.ev)
		o.keep = nil
		vAssert(w.active == 0, "terminating returned while an endpoint call was still in progress")
		vAssert(w.sessionFile == nil, "terminating returned and the persisted session still exists")
		vAssert(w.archiveFile == nil, "terminating returned and the persisted history still exists")
	case vtC29CmdRestart:
		if o.status != vtC29Down {
			o.m.Shutdown()
			vCover("manager shut down")
			if o.status == vtC29Running {
				o.quietSince = len(w.ev)
			}
			o.statusBeforeDown = o.status
			o.status = vtC29Down
			vAssert(w.active == 0, "the manager's shutdown returned while an endpoint call was still in progress")
			vtC29Settle()
			o.quiet("after shutdown")
		}
		m, err := NewManager(nil)
		vAssert(err == nil, "a manager starts on the sessions directory")
		o.m = m
		o.status = o.statusBeforeDown
		switch o.status {
		case vtC29Terminated:
			vCover("restart after terminate")
			vAssert(len(m.sessions) == 0, "a terminated session was loaded again after a restart")
		case vtC29Paused:
			vCover("restart while paused")
			vAssert(len(m.sessions) == 1, "a paused session was not loaded after a restart")
			vAssert(w.sessionFile != nil && w.sessionFile.paused, "the persisted paused flag did not survive the restart")
		case vtC29Running:
			vCover("restart while running")
			vAssert(len(m.sessions) == 1, "a running session was not loaded after a restart")
		}
	case vtC29CmdEdit:
		// a change on alpha's root, noticed by its watcher
		o.addFresh()
		select {
		case w.poke[0] <- struct{}{}:
		default:
		}
	case vtC29CmdSettle:
		vtC29Settle()
	}
	o.quiet("after a command")
}

func (o *vtC29Oracle) finish() {
	w := o.w
	// nothing is slow any more; everything runs until all goroutines wait
	o.openGate()
	vtC29Settle()
	o.quiet("at the end")
	switch o.status {
	case vtC29Terminated:
		vAssert(w.sessionFile == nil, "a terminated session is on disk again")
	case vtC29Paused:
		vAssert(w.sessionFile != nil && w.sessionFile.paused, "a paused session is no longer persisted as paused")
	case vtC29Running:
		// the loop is waiting for changes: every cycle it began is complete
		vCover("running session settled")
		o.checkKept("end")
	}
}

// VerifC29History: every command sequence of the given length, the session
// settling (all goroutines blocked) after each command unless "settle" is 0.
func VerifC29History() {
	w := vtC29NewWorld()
	o := &vtC29Oracle{w: w}
	o.start(vChoose(3))
	n := vParam("ops", 2)
	settle := vParam("settle", 1)
	cmds := vParam("cmds", vtC29CmdSettle)
	if settle == 1 {
		vtC29Settle()
		o.quiet("after start")
	}
	for i := 0; i < n; i++ {
		o.command(vChoose(cmds))
		if settle == 1 {
			vtC29Settle()
			o.quiet("after settling")
		}
	}
	o.finish()
}

var vtC29Scripts = [][]int{
	0:  {},
	1:  {vtC29CmdPause},
	2:  {vtC29CmdPause, vtC29CmdEdit, vtC29CmdSettle, vtC29CmdRestart, vtC29CmdSettle, vtC29CmdEdit, vtC29CmdSettle, vtC29CmdResume},
	3:  {vtC29CmdFlushWait},
	4:  {vtC29CmdEdit, vtC29CmdFlushWait},
	5:  {vtC29CmdReset},
	6:  {vtC29CmdTerminate},
	7:  {vtC29CmdTerminate, vtC29CmdEdit, vtC29CmdSettle, vtC29CmdResume, vtC29CmdFlushNoWait, vtC29CmdReset, vtC29CmdSettle, vtC29CmdRestart, vtC29CmdSettle, vtC29CmdEdit},
	8:  {vtC29CmdPause, vtC29CmdFlushWait, vtC29CmdFlushNoWait, vtC29CmdEdit, vtC29CmdSettle, vtC29CmdReset, vtC29CmdSettle, vtC29CmdRestart, vtC29CmdSettle, vtC29CmdFlushNoWait, vtC29CmdEdit, vtC29CmdSettle, vtC29CmdResume},
	9:  {vtC29CmdRestart},
	10: {vtC29CmdResume, vtC29CmdPause},
}

// VerifC29Script: one fixed command sequence (param "script"), issued without
// settling in between: where the commands meet the session is decided by the
// schedule (param sched_preempt) and by the slow endpoint call (param slow).
// Param "start": 0 created running, 1 created paused, 2 loaded from disk, 3 =
// 0 or 2; param "first": 1 = the session settles before the first command,
// 0 = it does not, 2 = both.
func VerifC29Script() {
	w := vtC29NewWorld()
	o := &vtC29Oracle{w: w}
	start := vParam("start", 2)
	if start == 3 {
		start = vChoose(2) * 2
	}
	o.start(start)
	first := vParam("first", 1)
	if first == 2 {
		first = vChoose(2)
	}
	if first == 1 {
		vtC29Settle()
		o.quiet("after start")
	}
	for _, c := range vtC29Scripts[vParam("script", 1)] {
		o.command(c)
	}
	o.finish()
}

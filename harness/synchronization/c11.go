package synchronization

import "github.com/mutagen-io/mutagen/pkg/synchronization/core"

// C11 (partial): the safety predicates of the controller composed with the
// real Reconcile, in the order controller.synchronize applies them.

func VerifC11() {
	shape := vParam("shape", 1)
	ancestor := vtGenTree(shape, 0)
	alpha := vtGenTree(shape, vtAllowUnsync)
	beta := vtGenTree(shape, vtAllowUnsync)
	mode := core.SynchronizationMode(1 + vChoose(4))
	vNote("ancestor=" + vtShow(ancestor) + " alpha=" + vtShow(alpha) + " beta=" + vtShow(beta))

	// The controller's sequence of checks.
	halted := false
	if oneEndpointEmptiedRoot(ancestor, alpha, beta) {
		halted = true
	}
	var alphaChanges, betaChanges []*core.Change
	if !halted {
		_, alphaChanges, betaChanges, _ = core.Reconcile(ancestor, alpha, beta, mode)
		if containsRootDeletion(alphaChanges) || containsRootDeletion(betaChanges) {
			halted = true
		} else if containsRootTypeChange(alphaChanges) || containsRootTypeChange(betaChanges) {
			halted = true
		}
	}

	// Own statement of the three dangerous situations.
	isDir := func(e *core.Entry) bool { return e != nil && e.Kind == core.EntryKind_Directory }
	emptied := false
	if isDir(ancestor) && isDir(alpha) && isDir(beta) && len(ancestor.Contents) >= 2 {
		a0, b0 := len(alpha.Contents) == 0, len(beta.Contents) == 0
		emptied = a0 != b0
	}
	if emptied {
		vCover("emptied")
		vAssert(halted, "one-sided emptying of a root that held at least two entries halts the cycle")
	}
	rootDeletion, rootTypeChange := false, false
	judge := func(changes []*core.Change, side *core.Entry) {
		for _, c := range changes {
			if c.Path != "" || side == nil {
				continue
			}
			if c.New == nil {
				rootDeletion = true
			} else if c.New.Kind != side.Kind {
				rootTypeChange = true
			}
		}
	}
	judge(alphaChanges, alpha)
	judge(betaChanges, beta)
	if rootDeletion {
		vCover("root-deletion")
		vAssert(halted, "a planned deletion of an existing root halts the cycle")
	}
	if rootTypeChange {
		vCover("root-type-change")
		vAssert(halted, "a planned change of an existing root's type halts the cycle")
	}
	if halted {
		vCover("halted")
		vAssert(emptied || rootDeletion || rootTypeChange, "the cycle halts only for one of the three documented situations")
	} else {
		vCover("proceeds")
	}
}

package synchronization

// C41 (controller side): filteredPathsAreSubset, the check the controller applies
// to what an endpoint's Stage returned, against an own definition of "subset in
// the same relative order" (existence of a strictly increasing index mapping).

// verifC41Embeds: filtered[i:] can be matched, in order, inside original[j:].
func verifC41Embeds(filtered, original []string, i, j int) bool {
	if i == len(filtered) {
		return true
	}
	result := false
	for k := j; k < len(original); k++ {
		result = vOr(result, vAnd(original[k] == filtered[i], verifC41Embeds(filtered, original, i+1, k+1)))
	}
	return result
}

func VerifC41SubsetCheck() {
	maxlen := vParam("maxlen", 3)
	n := vRange(0, maxlen)
	m := vRange(0, maxlen)
	var original, filtered []string
	for k := 0; k < n; k++ {
		vLabel("requested path")
		original = append(original, vString(1))
	}
	for k := 0; k < m; k++ {
		vLabel("returned path")
		filtered = append(filtered, vString(1))
	}
	vLabel("")
	// the function consumes its second argument: hand it a copy
	arg := make([]string, n)
	copy(arg, original)
	got := filteredPathsAreSubset(filtered, arg)
	want := verifC41Embeds(filtered, original, 0, 0)
	if got {
		vCover("accepted")
	} else {
		vCover("rejected")
	}
	vAssert(got == want, "the controller accepts a Stage result exactly if it is a subset of the request in request order")
}

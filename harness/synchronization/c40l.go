package synchronization

import "github.com/mutagen-io/mutagen/pkg/selection"

// C40, label-selector route: the selector itself (vendored Kubernetes parser and
// matcher) is replaced by a model whose answer for every label set is an
// arbitrary Boolean; the manager must return exactly the sessions for which the
// selector answers yes - labelled or not.

type vtSelector struct {
	unlabelled bool         // answer for a session without labels
	byMarker   map[string]bool // answer per labelled session (keyed by its marker label)
	asked      int
}

func (s *vtSelector) Matches(labels map[string]string) bool {
	s.asked++
	if len(labels) == 0 {
		return s.unlabelled
	}
	return s.byMarker[labels["marker"]]
}

var vtSel *vtSelector

func vtParseLabelSelector(text string) (selection.LabelSelector, error) {
	return vtSel, nil
}

var verifStubs_VerifC40Labels = map[string]any{
	"github.com/mutagen-io/mutagen/pkg/selection.ParseLabelSelector": vtParseLabelSelector,
}

func VerifC40Labels() {
	m, cs := verifC40Manager(vRange(0, vParam("maxsessions", 3)))
	vtSel = &vtSelector{unlabelled: vBool(), byMarker: map[string]bool{}}
	want := map[*controller]bool{}
	for i, c := range cs {
		if vChoose(2) == 1 {
			marker := string(rune('a' + i))
			c.session.Labels = map[string]string{"marker": marker}
			vtSel.byMarker[marker] = vBool()
			want[c] = vtSel.byMarker[marker]
			vCover("labelled session")
		} else {
			want[c] = vtSel.unlabelled
			vCover("unlabelled session")
		}
	}
	got, err := m.selectControllers(&selection.Selection{LabelSelector: "model"})
	vAssert(err == nil, "a parsable label selector never fails")
	seen := map[*controller]bool{}
	for _, g := range got {
		vAssert(!seen[g], "no session is listed twice")
		seen[g] = true
		vAssert(want[g], "only sessions matched by the selector are selected")
	}
	for _, c := range cs {
		if want[c] {
			vAssert(seen[c], "every session matched by the selector is selected (labelled or not)")
		}
	}
}

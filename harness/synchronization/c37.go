package synchronization

import (
	"github.com/mutagen-io/mutagen/pkg/filesystem/behavior"
	"github.com/mutagen-io/mutagen/pkg/synchronization/compression"
	"github.com/mutagen-io/mutagen/pkg/synchronization/core"
	"github.com/mutagen-io/mutagen/pkg/synchronization/core/ignore"
	"github.com/mutagen-io/mutagen/pkg/synchronization/hashing"
)

// C37: any combination of session-wide and endpoint-specific configuration
// that session creation accepts yields, for each endpoint, a merged
// configuration that endpoint initialisation accepts.  This file holds the
// merge-precedence and text round-trip halves; the acceptance half runs
// against the real creation gate in harness/servicesync/c37.go.
//
// The configuration fields are partitioned into field groups.  The groups in
// the *focus* are fully symbolic in all three parts (session, alpha-specific,
// beta-specific); the other groups carry one of three concrete backgrounds.

const (
	vtGSyncMode = iota
	vtGHashing
	vtGMaxEntryCount
	vtGMaxStagingFileSize
	vtGProbeMode
	vtGScanMode
	vtGStageMode
	vtGSymlinkMode
	vtGWatchMode
	vtGWatchPollingInterval
	vtGIgnoreSyntax
	vtGIgnores
	vtGIgnoreVCSMode
	vtGPermissions // PermissionsMode + DefaultFileMode + DefaultDirectoryMode
	vtGOwner
	vtGGroup
	vtGCompression
	vtGroupCount
)

// verifC37ASCII returns a symbolic string of a forked length 0..max whose
// bytes are 7-bit ASCII.
func verifC37ASCII(max int) string {
	n := vRange(0, max)
	s := vString(n)
	for i := 0; i < n; i++ {
		vAssume(s[i] < 0x80)
	}
	return s
}

func verifC37List(maxEntries int) []string {
	n := vRange(0, maxEntries)
	var l []string
	for i := 0; i < n; i++ {
		l = append(l, vString(1))
	}
	return l
}

// verifC37Part builds one configuration part.  part: 0 session, 1 alpha, 2 beta.
// background: 0 = every non-focus field default; 1 = non-focus fields set to
// valid non-default values in the session part only; 2 = additionally every
// field that may be endpoint-specific set to a (different) valid value in the
// endpoint parts.
func verifC37Part(part int, focus *[vtGroupCount]bool, background int) *Configuration {
	c := &Configuration{}
	tag := [...]string{"session.", "alpha.", "beta."}[part]
	session := part == 0
	bgSession := session && background >= 1
	bgEndpoint := !session && background == 2

	if focus[vtGSyncMode] {
		vLabel(tag + "synchronizationMode")
		c.SynchronizationMode = core.SynchronizationMode(vU32())
	} else if bgSession {
		c.SynchronizationMode = core.SynchronizationMode_SynchronizationModeOneWaySafe
	}
	if focus[vtGHashing] {
		vLabel(tag + "hashingAlgorithm")
		c.HashingAlgorithm = hashing.Algorithm(vU32())
	} else if bgSession {
		c.HashingAlgorithm = hashing.Algorithm_AlgorithmSHA256
	}
	if focus[vtGMaxEntryCount] {
		vLabel(tag + "maximumEntryCount")
		c.MaximumEntryCount = vU64()
	} else if bgSession {
		c.MaximumEntryCount = 1000
	} else if bgEndpoint {
		c.MaximumEntryCount = uint64(10 + part)
	}
	if focus[vtGMaxStagingFileSize] {
		vLabel(tag + "maximumStagingFileSize")
		c.MaximumStagingFileSize = vU64()
	} else if bgSession {
		c.MaximumStagingFileSize = 2000
	} else if bgEndpoint {
		c.MaximumStagingFileSize = uint64(20 + part)
	}
	if focus[vtGProbeMode] {
		vLabel(tag + "probeMode")
		c.ProbeMode = behavior.ProbeMode(vU32())
	} else if bgSession {
		c.ProbeMode = behavior.ProbeMode_ProbeModeProbe
	} else if bgEndpoint {
		c.ProbeMode = behavior.ProbeMode_ProbeModeAssume
	}
	if focus[vtGScanMode] {
		vLabel(tag + "scanMode")
		c.ScanMode = ScanMode(vU32())
	} else if bgSession {
		c.ScanMode = ScanMode_ScanModeFull
	} else if bgEndpoint {
		c.ScanMode = ScanMode_ScanModeAccelerated
	}
	if focus[vtGStageMode] {
		vLabel(tag + "stageMode")
		c.StageMode = StageMode(vU32())
	} else if bgSession {
		c.StageMode = StageMode_StageModeNeighboring
	} else if bgEndpoint {
		c.StageMode = StageMode_StageModeInternal
	}
	if focus[vtGSymlinkMode] {
		vLabel(tag + "symbolicLinkMode")
		c.SymbolicLinkMode = core.SymbolicLinkMode(vU32())
	} else if bgSession {
		c.SymbolicLinkMode = core.SymbolicLinkMode_SymbolicLinkModeIgnore
	}
	if focus[vtGWatchMode] {
		vLabel(tag + "watchMode")
		c.WatchMode = WatchMode(vU32())
	} else if bgSession {
		c.WatchMode = WatchMode_WatchModeForcePoll
	} else if bgEndpoint {
		c.WatchMode = WatchMode_WatchModeNoWatch
	}
	if focus[vtGWatchPollingInterval] {
		vLabel(tag + "watchPollingInterval")
		c.WatchPollingInterval = vU32()
	} else if bgSession {
		c.WatchPollingInterval = 7
	} else if bgEndpoint {
		c.WatchPollingInterval = uint32(30 + part)
	}
	if focus[vtGIgnoreSyntax] {
		vLabel(tag + "ignoreSyntax")
		c.IgnoreSyntax = ignore.Syntax(vU32())
	} else if bgSession {
		c.IgnoreSyntax = ignore.Syntax_SyntaxDocker
	}
	if focus[vtGIgnores] {
		vLabel(tag + "defaultIgnores")
		c.DefaultIgnores = verifC37List(vParam("maxignores", 2))
		vLabel(tag + "ignores")
		c.Ignores = verifC37List(vParam("maxignores", 2))
	} else if bgSession {
		c.DefaultIgnores = []string{"d"}
		c.Ignores = []string{"x", "!y"}
	}
	if focus[vtGIgnoreVCSMode] {
		vLabel(tag + "ignoreVCSMode")
		c.IgnoreVCSMode = ignore.IgnoreVCSMode(vU32())
	} else if bgSession {
		c.IgnoreVCSMode = ignore.IgnoreVCSMode_IgnoreVCSModeIgnore
	}
	if focus[vtGPermissions] {
		vLabel(tag + "permissionsMode")
		c.PermissionsMode = core.PermissionsMode(vU32())
		vLabel(tag + "defaultFileMode")
		c.DefaultFileMode = vU32()
		vLabel(tag + "defaultDirectoryMode")
		c.DefaultDirectoryMode = vU32()
	} else if bgSession {
		c.PermissionsMode = core.PermissionsMode_PermissionsModeManual
		c.DefaultFileMode = 0640
		c.DefaultDirectoryMode = 0750
	} else if bgEndpoint {
		c.DefaultFileMode = 0600
		c.DefaultDirectoryMode = 0700
	}
	if focus[vtGOwner] {
		vLabel(tag + "defaultOwner")
		c.DefaultOwner = verifC37ASCII(vParam("maxowner", 4))
	} else if bgSession {
		c.DefaultOwner = "id:501"
	} else if bgEndpoint {
		c.DefaultOwner = "george"
	}
	if focus[vtGGroup] {
		vLabel(tag + "defaultGroup")
		c.DefaultGroup = verifC37ASCII(vParam("maxowner", 4))
	} else if bgSession {
		c.DefaultGroup = "staff"
	} else if bgEndpoint {
		c.DefaultGroup = "id:20"
	}
	if focus[vtGCompression] {
		vLabel(tag + "compressionAlgorithm")
		c.CompressionAlgorithm = compression.Algorithm(vU32())
	} else if bgSession {
		c.CompressionAlgorithm = compression.Algorithm_AlgorithmDeflate
	} else if bgEndpoint {
		c.CompressionAlgorithm = compression.Algorithm_AlgorithmNone
	}
	vLabel("")
	return c
}

func verifC37ListsConcat(got, lower, higher []string) bool {
	if len(got) != len(lower)+len(higher) {
		return false
	}
	for i := range lower {
		if got[i] != lower[i] {
			return false
		}
	}
	for i := range higher {
		if got[len(lower)+i] != higher[i] {
			return false
		}
	}
	return true
}

// verifC37Precedence: own model of "endpoint-specific values override
// session-wide ones field by field, ignore lists are concatenated in order".
func verifC37Precedence(m, lo, hi *Configuration, who string) {
	vAssert(vOr(m.SynchronizationMode == lo.SynchronizationMode, hi.SynchronizationMode != 0), who+"precedence: synchronization mode falls back to session value")
	vAssert(vOr(m.SynchronizationMode == hi.SynchronizationMode, hi.SynchronizationMode == 0), who+"precedence: synchronization mode override")
	vAssert(vOr(m.HashingAlgorithm == lo.HashingAlgorithm, hi.HashingAlgorithm != 0), who+"precedence: hashing algorithm falls back to session value")
	vAssert(vOr(m.HashingAlgorithm == hi.HashingAlgorithm, hi.HashingAlgorithm == 0), who+"precedence: hashing algorithm override")
	vAssert(vOr(m.MaximumEntryCount == lo.MaximumEntryCount, hi.MaximumEntryCount != 0), who+"precedence: maximum entry count falls back to session value")
	vAssert(vOr(m.MaximumEntryCount == hi.MaximumEntryCount, hi.MaximumEntryCount == 0), who+"precedence: maximum entry count override")
	vAssert(vOr(m.MaximumStagingFileSize == lo.MaximumStagingFileSize, hi.MaximumStagingFileSize != 0), who+"precedence: maximum staging file size falls back to session value")
	vAssert(vOr(m.MaximumStagingFileSize == hi.MaximumStagingFileSize, hi.MaximumStagingFileSize == 0), who+"precedence: maximum staging file size override")
	vAssert(vOr(m.ProbeMode == lo.ProbeMode, hi.ProbeMode != 0), who+"precedence: probe mode falls back to session value")
	vAssert(vOr(m.ProbeMode == hi.ProbeMode, hi.ProbeMode == 0), who+"precedence: probe mode override")
	vAssert(vOr(m.ScanMode == lo.ScanMode, hi.ScanMode != 0), who+"precedence: scan mode falls back to session value")
	vAssert(vOr(m.ScanMode == hi.ScanMode, hi.ScanMode == 0), who+"precedence: scan mode override")
	vAssert(vOr(m.StageMode == lo.StageMode, hi.StageMode != 0), who+"precedence: stage mode falls back to session value")
	vAssert(vOr(m.StageMode == hi.StageMode, hi.StageMode == 0), who+"precedence: stage mode override")
	vAssert(vOr(m.SymbolicLinkMode == lo.SymbolicLinkMode, hi.SymbolicLinkMode != 0), who+"precedence: symbolic link mode falls back to session value")
	vAssert(vOr(m.SymbolicLinkMode == hi.SymbolicLinkMode, hi.SymbolicLinkMode == 0), who+"precedence: symbolic link mode override")
	vAssert(vOr(m.WatchMode == lo.WatchMode, hi.WatchMode != 0), who+"precedence: watch mode falls back to session value")
	vAssert(vOr(m.WatchMode == hi.WatchMode, hi.WatchMode == 0), who+"precedence: watch mode override")
	vAssert(vOr(m.WatchPollingInterval == lo.WatchPollingInterval, hi.WatchPollingInterval != 0), who+"precedence: watch polling interval falls back to session value")
	vAssert(vOr(m.WatchPollingInterval == hi.WatchPollingInterval, hi.WatchPollingInterval == 0), who+"precedence: watch polling interval override")
	vAssert(vOr(m.IgnoreSyntax == lo.IgnoreSyntax, hi.IgnoreSyntax != 0), who+"precedence: ignore syntax falls back to session value")
	vAssert(vOr(m.IgnoreSyntax == hi.IgnoreSyntax, hi.IgnoreSyntax == 0), who+"precedence: ignore syntax override")
	vAssert(verifC37ListsConcat(m.DefaultIgnores, lo.DefaultIgnores, hi.DefaultIgnores), who+"default ignores are session list followed by endpoint list")
	vAssert(verifC37ListsConcat(m.Ignores, lo.Ignores, hi.Ignores), who+"ignores are session list followed by endpoint list")
	vAssert(vOr(m.IgnoreVCSMode == lo.IgnoreVCSMode, hi.IgnoreVCSMode != 0), who+"precedence: VCS ignore mode falls back to session value")
	vAssert(vOr(m.IgnoreVCSMode == hi.IgnoreVCSMode, hi.IgnoreVCSMode == 0), who+"precedence: VCS ignore mode override")
	vAssert(vOr(m.PermissionsMode == lo.PermissionsMode, hi.PermissionsMode != 0), who+"precedence: permissions mode falls back to session value")
	vAssert(vOr(m.PermissionsMode == hi.PermissionsMode, hi.PermissionsMode == 0), who+"precedence: permissions mode override")
	vAssert(vOr(m.DefaultFileMode == lo.DefaultFileMode, hi.DefaultFileMode != 0), who+"precedence: default file mode falls back to session value")
	vAssert(vOr(m.DefaultFileMode == hi.DefaultFileMode, hi.DefaultFileMode == 0), who+"precedence: default file mode override")
	vAssert(vOr(m.DefaultDirectoryMode == lo.DefaultDirectoryMode, hi.DefaultDirectoryMode != 0), who+"precedence: default directory mode falls back to session value")
	vAssert(vOr(m.DefaultDirectoryMode == hi.DefaultDirectoryMode, hi.DefaultDirectoryMode == 0), who+"precedence: default directory mode override")
	vAssert(vOr(m.DefaultOwner == lo.DefaultOwner, hi.DefaultOwner != ""), who+"precedence: default owner falls back to session value")
	vAssert(vOr(m.DefaultOwner == hi.DefaultOwner, hi.DefaultOwner == ""), who+"precedence: default owner override")
	vAssert(vOr(m.DefaultGroup == lo.DefaultGroup, hi.DefaultGroup != ""), who+"precedence: default group falls back to session value")
	vAssert(vOr(m.DefaultGroup == hi.DefaultGroup, hi.DefaultGroup == ""), who+"precedence: default group override")
	vAssert(vOr(m.CompressionAlgorithm == lo.CompressionAlgorithm, hi.CompressionAlgorithm != 0), who+"precedence: compression algorithm falls back to session value")
	vAssert(vOr(m.CompressionAlgorithm == hi.CompressionAlgorithm, hi.CompressionAlgorithm == 0), who+"precedence: compression algorithm override")
}

// verifC37Focus selects the focus groups: nfocus = 1 every single group,
// nfocus = 2 every unordered pair of groups.
func verifC37Focus() *[vtGroupCount]bool {
	var focus [vtGroupCount]bool
	g1 := vChoose(vtGroupCount)
	focus[g1] = true
	if vParam("nfocus", 1) >= 2 {
		g2 := vChoose(vtGroupCount)
		vAssume(g1 <= g2)
		focus[g2] = true
	}
	// withperm: the permissions group (the one group with a cross-part
	// dependency) is symbolic together with every other group.
	if vParam("withperm", 0) != 0 {
		focus[vtGPermissions] = true
	}
	return &focus
}

// VerifC37Merge: precedence and concatenation for arbitrary (not necessarily
// valid) parts, in particular non-empty endpoint ignore lists.
func VerifC37Merge() {
	focus := verifC37Focus()
	background := vChoose(3)
	lower := verifC37Part(0, focus, background)
	higher := verifC37Part(1, focus, background)
	merged := MergeConfigurations(lower, higher)
	vCover("merged")
	if len(higher.Ignores) > 0 && len(lower.Ignores) > 0 {
		vCover("both-lists")
	}
	vAssert(merged != nil, "merged configuration exists")
	if merged == nil {
		return
	}
	verifC37Precedence(merged, lower, higher, "")
}

// VerifC37MergeTwice: merging two different higher-priority configurations
// onto the SAME lower one (as the controller does for alpha and beta) yields two
// independent results: the second merge changes neither the first result nor the
// lower configuration - also when the lower lists have spare capacity (as lists
// produced by earlier appends or by decoding do).
func VerifC37MergeTwice() {
	mk := func(n int, spare int) []string {
		l := make([]string, 0, n+spare)
		for i := 0; i < n; i++ {
			l = append(l, vString(1))
		}
		return l
	}
	spare := vRange(0, 2)
	lower := &Configuration{DefaultIgnores: mk(vRange(0, 2), spare), Ignores: mk(vRange(0, 2), spare)}
	h1 := &Configuration{DefaultIgnores: mk(vRange(0, 1), 0), Ignores: mk(vRange(0, 2), 0)}
	h2 := &Configuration{DefaultIgnores: mk(vRange(0, 1), 0), Ignores: mk(vRange(0, 2), 0)}
	lowerD := append([]string(nil), lower.DefaultIgnores...)
	lowerI := append([]string(nil), lower.Ignores...)
	m1 := MergeConfigurations(lower, h1)
	m1D := append([]string(nil), m1.DefaultIgnores...)
	m1I := append([]string(nil), m1.Ignores...)
	m2 := MergeConfigurations(lower, h2)
	if spare > 0 && len(h1.Ignores) > 0 && len(h2.Ignores) > 0 {
		vCover("two merges onto a list with spare capacity")
	}
	same := func(a, b []string) bool {
		if len(a) != len(b) {
			return false
		}
		for i := range a {
			if a[i] != b[i] {
				return false
			}
		}
		return true
	}
	cat := func(a, b []string) []string { return append(append([]string(nil), a...), b...) }
	vAssert(same(m1.DefaultIgnores, m1D) && same(m1.Ignores, m1I), "a later merge onto the same lower configuration does not change an earlier result")
	vAssert(same(lower.DefaultIgnores, lowerD) && same(lower.Ignores, lowerI), "merging does not change the lower configuration")
	vAssert(same(m1.Ignores, cat(lowerI, h1.Ignores)) && same(m1.DefaultIgnores, cat(lowerD, h1.DefaultIgnores)), "first merge: lower entries followed by higher entries")
	vAssert(same(m2.Ignores, cat(lowerI, h2.Ignores)) && same(m2.DefaultIgnores, cat(lowerD, h2.DefaultIgnores)), "second merge: lower entries followed by higher entries")
}

// VerifC37Text: every supported mode written as text is read back as the same
// value.
func VerifC37Text() {
	v := int32(vU32())
	switch vChoose(10) {
	case 0:
		m := core.SynchronizationMode(v)
		vAssume(m.Supported())
		t, err := m.MarshalText()
		var r core.SynchronizationMode
		vAssert(err == nil && r.UnmarshalText(t) == nil && r == m, "synchronization mode text round trip")
	case 1:
		m := hashing.Algorithm(v)
		vAssume(m.SupportStatus() == hashing.AlgorithmSupportStatusSupported)
		t, err := m.MarshalText()
		var r hashing.Algorithm
		vAssert(err == nil && r.UnmarshalText(t) == nil && r == m, "hashing algorithm text round trip")
	case 2:
		m := behavior.ProbeMode(v)
		vAssume(m.Supported())
		t, err := m.MarshalText()
		var r behavior.ProbeMode
		vAssert(err == nil && r.UnmarshalText(t) == nil && r == m, "probe mode text round trip")
	case 3:
		m := ScanMode(v)
		vAssume(m.Supported())
		t, err := m.MarshalText()
		var r ScanMode
		vAssert(err == nil && r.UnmarshalText(t) == nil && r == m, "scan mode text round trip")
	case 4:
		m := StageMode(v)
		vAssume(m.Supported())
		t, err := m.MarshalText()
		var r StageMode
		vAssert(err == nil && r.UnmarshalText(t) == nil && r == m, "stage mode text round trip")
	case 5:
		m := core.SymbolicLinkMode(v)
		vAssume(m.Supported())
		t, err := m.MarshalText()
		var r core.SymbolicLinkMode
		vAssert(err == nil && r.UnmarshalText(t) == nil && r == m, "symbolic link mode text round trip")
	case 6:
		m := WatchMode(v)
		vAssume(m.Supported())
		t, err := m.MarshalText()
		var r WatchMode
		vAssert(err == nil && r.UnmarshalText(t) == nil && r == m, "watch mode text round trip")
	case 7:
		m := ignore.Syntax(v)
		vAssume(m.Supported())
		t, err := m.MarshalText()
		var r ignore.Syntax
		vAssert(err == nil && r.UnmarshalText(t) == nil && r == m, "ignore syntax text round trip")
	case 8:
		m := core.PermissionsMode(v)
		vAssume(m.Supported())
		t, err := m.MarshalText()
		var r core.PermissionsMode
		vAssert(err == nil && r.UnmarshalText(t) == nil && r == m, "permissions mode text round trip")
	case 9:
		m := compression.Algorithm(v)
		vAssume(m.SupportStatus() == compression.AlgorithmSupportStatusSupported)
		t, err := m.MarshalText()
		var r compression.Algorithm
		vAssert(err == nil && r.UnmarshalText(t) == nil && r == m, "compression algorithm text round trip")
	}
	vCover("text")
}

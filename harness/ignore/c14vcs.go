package ignore

// C14(d): the VCS-directory wrapper.

type verifC14Under struct {
	calls     int
	path      string
	directory bool
	status    IgnoreStatus
	cont      bool
}

func (u *verifC14Under) Ignore(path string, directory bool) (IgnoreStatus, bool) {
	u.calls++
	u.path, u.directory = path, directory
	return u.status, u.cont
}

func VerifC14VCS() {
	u := &verifC14Under{status: IgnoreStatus(vChoose(3)), cont: vBool()}
	ig := IgnoreVCS(u)

	prefix := []string{"", "x/", "x/y/"}[vChoose(3)]
	n := vRange(1, vParam("maxleaf", 6))
	vLabel("leaf")
	leaf := vString(n)
	vLabel("directory")
	directory := vBool()
	vLabel("")
	for i := 0; i < n; i++ {
		vAssume(leaf[i] != '/')
	}
	path := prefix + leaf

	status, cont := ig.Ignore(path, directory)

	isVCS := vOr(leaf == ".git", leaf == ".svn", leaf == ".hg", leaf == ".bzr", leaf == "_darcs")
	if isVCS && directory {
		vCover("vcs-directory")
		vAssert(status == IgnoreStatusIgnored, "a version-control directory is ignored")
		vAssert(!cont, "nothing beneath a version-control directory is traversed")
		vAssert(u.calls == 0, "the wrapped ignorer cannot unignore a version-control directory")
	} else {
		if isVCS {
			vCover("vcs-named non-directory")
		}
		vCover("delegated")
		vAssert(u.calls == 1 && u.path == path && u.directory == directory, "everything else is decided by the wrapped ignorer on the same arguments")
		vAssert(status == u.status && cont == u.cont, "the wrapped ignorer's answer is returned unchanged")
	}
}

package remote

import (
	"bytes"
	"context"
	"errors"
	"hash"

	"google.golang.org/protobuf/proto"

	"github.com/mutagen-io/mutagen/pkg/encoding"
	"github.com/mutagen-io/mutagen/pkg/synchronization/core"
	"github.com/mutagen-io/mutagen/pkg/synchronization/rsync"
)

// C21: an endpoint reached through the agent protocol returns what the wrapped
// endpoint returned.
//
// The real endpointClient and the real endpointServer (serve dispatch loop,
// servePoll/serveScan/serveStage/serveSupply/serveTransition, every
// ensureValid of protocol.go, the rsync snapshot delta with the real rsync
// engine) are executed against each other.  Between them is a loss-free
// message link (Encode/Decode stubbed; a message reaches the peer when the
// sender flushed); behind the server is a scripted endpoint whose answers are
// symbolic.  The oracle compares, with the harness' own comparison functions,
// what the client returned with what the scripted endpoint answered, and what
// the scripted endpoint was asked with what the client was asked.

// ---------------------------------------------------------------------------
// wire model: deep copy with protobuf's normalisation (empty repeated/bytes
// fields arrive as nil, nil elements of repeated message fields arrive as
// empty messages).

func verifCloneBytes(b []byte) []byte {
	if len(b) == 0 {
		return nil
	}
	return append([]byte(nil), b...)
}

func verifCloneEntry(e *core.Entry) *core.Entry {
	if e == nil {
		return nil
	}
	r := &core.Entry{
		Kind:       e.Kind,
		Digest:     verifCloneBytes(e.Digest),
		Executable: e.Executable,
		Target:     e.Target,
		Problem:    e.Problem,
	}
	if len(e.Contents) > 0 {
		r.Contents = make(map[string]*core.Entry, len(e.Contents))
		for name, c := range e.Contents {
			if c == nil {
				c = &core.Entry{}
			}
			r.Contents[name] = verifCloneEntry(c)
		}
	}
	return r
}

func verifCloneSignature(s *rsync.Signature) *rsync.Signature {
	if s == nil {
		return nil
	}
	r := &rsync.Signature{BlockSize: s.BlockSize, LastBlockSize: s.LastBlockSize}
	for _, h := range s.Hashes {
		if h == nil {
			h = &rsync.BlockHash{}
		}
		r.Hashes = append(r.Hashes, &rsync.BlockHash{Weak: h.Weak, Strong: verifCloneBytes(h.Strong)})
	}
	return r
}

func verifCloneSignatures(l []*rsync.Signature) []*rsync.Signature {
	var r []*rsync.Signature
	for _, s := range l {
		if s == nil {
			s = &rsync.Signature{}
		}
		r = append(r, verifCloneSignature(s))
	}
	return r
}

func verifCloneOperation(o *rsync.Operation) *rsync.Operation {
	if o == nil {
		return nil
	}
	return &rsync.Operation{Data: verifCloneBytes(o.Data), Start: o.Start, Count: o.Count}
}

func verifCloneStrings(l []string) []string {
	var r []string
	for _, s := range l {
		r = append(r, s)
	}
	return r
}

// verifCloneMessage is what the peer will decode for an encoded message.
func verifCloneMessage(m proto.Message) proto.Message {
	switch v := m.(type) {
	case *EndpointRequest:
		r := &EndpointRequest{}
		if v.Poll != nil {
			r.Poll = &PollRequest{}
		}
		if v.Scan != nil {
			r.Scan = &ScanRequest{
				BaselineSnapshotSignature: verifCloneSignature(v.Scan.BaselineSnapshotSignature),
				Full:                      v.Scan.Full,
			}
		}
		if v.Stage != nil {
			r.Stage = &StageRequest{Paths: verifCloneStrings(v.Stage.Paths)}
			for _, d := range v.Stage.Digests {
				// A repeated bytes field keeps empty elements (as empty, non-nil).
				r.Stage.Digests = append(r.Stage.Digests, append([]byte{}, d...))
			}
		}
		if v.Supply != nil {
			r.Supply = &SupplyRequest{
				Paths:      verifCloneStrings(v.Supply.Paths),
				Signatures: verifCloneSignatures(v.Supply.Signatures),
			}
		}
		if v.Transition != nil {
			r.Transition = &TransitionRequest{}
			for _, c := range v.Transition.Transitions {
				if c == nil {
					c = &core.Change{}
				}
				r.Transition.Transitions = append(r.Transition.Transitions, &core.Change{
					Path: c.Path,
					Old:  verifCloneEntry(c.Old),
					New:  verifCloneEntry(c.New),
				})
			}
		}
		return r
	case *PollCompletionRequest:
		return &PollCompletionRequest{}
	case *ScanCompletionRequest:
		return &ScanCompletionRequest{}
	case *TransitionCompletionRequest:
		return &TransitionCompletionRequest{}
	case *PollResponse:
		return &PollResponse{Error: v.Error}
	case *ScanResponse:
		r := &ScanResponse{Error: v.Error, TryAgain: v.TryAgain}
		for _, o := range v.SnapshotDelta {
			if o == nil {
				o = &rsync.Operation{}
			}
			r.SnapshotDelta = append(r.SnapshotDelta, verifCloneOperation(o))
		}
		return r
	case *StageResponse:
		return &StageResponse{
			Paths:      verifCloneStrings(v.Paths),
			Signatures: verifCloneSignatures(v.Signatures),
			Error:      v.Error,
		}
	case *TransitionResponse:
		r := &TransitionResponse{Error: v.Error, StagerMissingFiles: v.StagerMissingFiles}
		for _, a := range v.Results {
			if a == nil {
				a = &core.Archive{}
			}
			r.Results = append(r.Results, &core.Archive{Content: verifCloneEntry(a.Content)})
		}
		for _, p := range v.Problems {
			if p == nil {
				p = &core.Problem{}
			}
			r.Problems = append(r.Problems, &core.Problem{Path: p.Path, Error: p.Error})
		}
		return r
	case *rsync.Transmission:
		return &rsync.Transmission{
			ExpectedSize: v.ExpectedSize,
			Operation:    verifCloneOperation(v.Operation),
			Done:         v.Done,
			Error:        v.Error,
		}
	}
	vFail("wire model: message type not modelled")
	return nil
}

// verifFill is Unmarshal into dst of the message src that was encoded: every
// field of dst is overwritten.  A message of another type than the one the
// reader expects means that the two sides lost step.
func verifFill(dst, src proto.Message) bool {
	switch d := dst.(type) {
	case *EndpointRequest:
		if s, ok := src.(*EndpointRequest); ok {
			d.Poll, d.Scan, d.Stage, d.Supply, d.Transition = s.Poll, s.Scan, s.Stage, s.Supply, s.Transition
			return true
		}
	case *PollCompletionRequest:
		_, ok := src.(*PollCompletionRequest)
		return ok
	case *ScanCompletionRequest:
		_, ok := src.(*ScanCompletionRequest)
		return ok
	case *TransitionCompletionRequest:
		_, ok := src.(*TransitionCompletionRequest)
		return ok
	case *PollResponse:
		if s, ok := src.(*PollResponse); ok {
			d.Error = s.Error
			return true
		}
	case *ScanResponse:
		if s, ok := src.(*ScanResponse); ok {
			d.SnapshotDelta, d.Error, d.TryAgain = s.SnapshotDelta, s.Error, s.TryAgain
			return true
		}
	case *StageResponse:
		if s, ok := src.(*StageResponse); ok {
			d.Paths, d.Signatures, d.Error = s.Paths, s.Signatures, s.Error
			return true
		}
	case *TransitionResponse:
		if s, ok := src.(*TransitionResponse); ok {
			d.Results, d.Problems, d.StagerMissingFiles, d.Error = s.Results, s.Problems, s.StagerMissingFiles, s.Error
			return true
		}
	case *rsync.Transmission:
		if s, ok := src.(*rsync.Transmission); ok {
			d.ExpectedSize, d.Operation, d.Done, d.Error = s.ExpectedSize, s.Operation, s.Done, s.Error
			return true
		}
	}
	return false
}

// ---------------------------------------------------------------------------
// the link

var verifErrStarved = errors.New("end of stream")

type verifLink struct {
	clientEnc *encoding.ProtobufEncoder
	serverEnc *encoding.ProtobufEncoder
	clientDec *encoding.ProtobufDecoder
	serverDec *encoding.ProtobufDecoder

	// encoded but not yet flushed / flushed and not yet decoded
	toServerPending []proto.Message
	toServer        []proto.Message
	toClientPending []proto.Message
	toClient        []proto.Message

	server *endpointServer
	// serverIdle: the server's last read was for the next request and found
	// nothing (it is waiting in serve's loop).  serverDead: serve returned for
	// any other reason (in reality it would have exited, or hang waiting for a
	// message nobody sends).
	serverIdle bool
	serverDead bool
	serverErr  error
	// stageTail: the server is inside serveStage waiting for transmissions.
	stageTail bool

	// flagsOf/flags: the snapshot most recently scripted for the wrapped
	// endpoint and its flags byte as one term (see verifMarshal).
	flagsOf *core.Snapshot
	flags   byte

	// observations for coverage labels
	sawBlockOp, sawDataOp, sawEmptyDelta bool
	sawShorthand, sawSubset              bool
}

var verifNet *verifLink

type verifFlusher struct {
	client bool
}

func (f *verifFlusher) Flush() error {
	n := verifNet
	if f.client {
		n.toServer = append(n.toServer, n.toServerPending...)
		n.toServerPending = nil
	} else {
		n.toClient = append(n.toClient, n.toClientPending...)
		n.toClientPending = nil
	}
	return nil
}

// verifEncode replaces (*encoding.ProtobufEncoder).Encode.
func verifEncode(e *encoding.ProtobufEncoder, m proto.Message) error {
	n := verifNet
	c := verifCloneMessage(m)
	if e == n.clientEnc {
		n.toServerPending = append(n.toServerPending, c)
	} else if e == n.serverEnc {
		n.toClientPending = append(n.toClientPending, c)
	} else {
		vFail("link model: unknown encoder")
	}
	return nil
}

// verifDecode replaces (*encoding.ProtobufDecoder).Decode.  The server runs
// (as far as it can with the requests delivered so far) whenever the client
// waits for a message that has not arrived yet.
func verifDecode(d *encoding.ProtobufDecoder, m proto.Message) error {
	n := verifNet
	if d == n.clientDec {
		if len(n.toClient) == 0 {
			n.runServer()
		}
		if len(n.toClient) == 0 {
			return verifErrStarved
		}
		head := n.toClient[0]
		n.toClient = n.toClient[1:]
		if !verifFill(m, head) {
			vAssert(false, "control stream in step: client received the message kind it waits for")
			return verifErrStarved
		}
		n.observe(head)
		return nil
	}
	if d != n.serverDec {
		vFail("link model: unknown decoder")
	}
	if len(n.toServer) == 0 {
		_, top := m.(*EndpointRequest)
		n.serverIdle = top
		_, n.stageTail = m.(*rsync.Transmission)
		return verifErrStarved
	}
	n.serverIdle = false
	head := n.toServer[0]
	n.toServer = n.toServer[1:]
	if !verifFill(m, head) {
		vAssert(false, "control stream in step: server received the message kind it waits for")
		return verifErrStarved
	}
	return nil
}

func (n *verifLink) runServer() {
	if n.serverDead {
		return
	}
	n.serverIdle = false
	err := n.server.serve()
	if !n.serverIdle {
		n.serverDead = true
		n.serverErr = err
	}
}

// settle lets the server work off whatever has been delivered to it (it runs
// concurrently in reality; here it otherwise runs only when the client waits).
func (n *verifLink) settle() {
	if len(n.toServer) > 0 {
		n.runServer()
	}
}

// quiescent: nothing is in flight in either direction and the server waits
// for the next request.  Every operation starts from this state and is
// required to end in it (unless the session is over by design), which is what
// lets operations of any kind follow each other.
func (n *verifLink) quiescent() bool {
	n.runServer()
	return len(n.toServer) == 0 && len(n.toServerPending) == 0 &&
		len(n.toClient) == 0 && len(n.toClientPending) == 0 &&
		!n.serverDead && n.serverIdle
}

func (n *verifLink) observe(m proto.Message) {
	switch v := m.(type) {
	case *ScanResponse:
		if v.Error == "" && len(v.SnapshotDelta) == 0 {
			n.sawEmptyDelta = true
		}
		for _, o := range v.SnapshotDelta {
			if len(o.Data) > 0 {
				n.sawDataOp = true
			} else {
				n.sawBlockOp = true
			}
		}
	case *StageResponse:
		if len(v.Paths) == 0 && len(v.Signatures) > 0 {
			n.sawShorthand = true
		}
		if len(v.Paths) > 0 {
			n.sawSubset = true
		}
	}
}

// verifConnect builds the real client and the real server around the link
// (what NewEndpoint / ServeEndpoint do after handshake and initialisation).
func verifConnect(ep *verifEndpoint) *endpointClient {
	n := &verifLink{
		clientEnc: &encoding.ProtobufEncoder{},
		serverEnc: &encoding.ProtobufEncoder{},
		clientDec: &encoding.ProtobufDecoder{},
		serverDec: &encoding.ProtobufDecoder{},
	}
	n.server = &endpointServer{
		endpoint: ep,
		flusher:  &verifFlusher{client: false},
		encoder:  n.serverEnc,
		decoder:  n.serverDec,
	}
	verifNet = n
	return &endpointClient{
		flusher: &verifFlusher{client: true},
		encoder: n.clientEnc,
		decoder: n.clientDec,
	}
}

// ---------------------------------------------------------------------------
// environment models

// verifCtx: a context that is already cancelled.  context.WithCancel is
// replaced by verifWithCancel, which derives such a context: the completion
// request of Poll/Scan/Transition is therefore sent before the response is
// awaited (the sequential executor runs one fixed schedule; both orders of the
// final select are explored).
type verifCtx struct {
	context.Context
	done chan struct{}
}

func (c *verifCtx) Done() <-chan struct{} { return c.done }
func (c *verifCtx) Err() error            { return context.Canceled }

func verifWithCancel(parent context.Context) (context.Context, context.CancelFunc) {
	ch := make(chan struct{})
	close(ch)
	return &verifCtx{Context: parent, done: ch}, func() {}
}

// verifHash: injective strong hash (see harness/rsync/common.go).
const verifHashCap = 12

type verifHash struct {
	buf []byte
}

func (h *verifHash) Write(p []byte) (int, error) {
	h.buf = append(h.buf, p...)
	return len(p), nil
}

func (h *verifHash) Sum(b []byte) []byte {
	if len(h.buf) > verifHashCap {
		vFail("strong hash model: block longer than the injective range")
	}
	b = append(b, byte(len(h.buf)))
	for i := 0; i < verifHashCap; i++ {
		if i < len(h.buf) {
			b = append(b, h.buf[i])
		} else {
			b = append(b, 0)
		}
	}
	return b
}

func (h *verifHash) Reset()         { h.buf = h.buf[:0] }
func (h *verifHash) Size() int      { return 1 + verifHashCap }
func (h *verifHash) BlockSize() int { return 64 }

func verifNewHash() hash.Hash { return &verifHash{} }

// verifProtoClone replaces proto.Clone (reflection): only rsync operations are
// cloned on the executed paths (Engine.DeltifyBytes).
func verifProtoClone(m proto.Message) proto.Message {
	if o, ok := m.(*rsync.Operation); ok {
		return &rsync.Operation{Data: append([]byte(nil), o.Data...), Start: o.Start, Count: o.Count}
	}
	vFail("proto.Clone model: message type not modelled")
	return nil
}

// Snapshot codec model (replaces proto.MarshalOptions.Marshal / proto.Unmarshal
// for *core.Snapshot): an injective byte encoding of the snapshots used here.
//   content absent, executability not preserved  -> no bytes (as protobuf)
//   otherwise                                    -> flags, digest bytes
// flags: bit 0 = PreservesExecutability, bit 1 = content present (a file).
func verifMarshal(o proto.MarshalOptions, m proto.Message) ([]byte, error) {
	s, ok := m.(*core.Snapshot)
	if !ok {
		vFail("snapshot codec model: only snapshots are marshalled")
		return nil, nil
	}
	if s == nil {
		return []byte{}, nil
	}
	if s.DecomposesUnicode || s.Directories != 0 || s.Files != 0 || s.SymbolicLinks != 0 || s.TotalFileSize != 0 {
		vFail("snapshot codec model: field not modelled")
	}
	var flags byte
	if n := verifNet; s == n.flagsOf {
		// Scripted snapshot with a symbolic PreservesExecutability: the harness
		// supplies bit 0 as a term, so that marshalling does not branch on it.
		vAssert((n.flags == 1) == s.PreservesExecutability && n.flags <= 1, "snapshot codec model: flag term consistent with the snapshot")
		flags = n.flags
	} else if s.PreservesExecutability {
		flags = 1
	}
	if s.Content == nil {
		if flags == 0 {
			return []byte{}, nil
		}
		return []byte{flags}, nil
	}
	c := s.Content
	if c.Kind != core.EntryKind_File || c.Contents != nil || c.Executable || c.Target != "" || c.Problem != "" {
		vFail("snapshot codec model: content not modelled")
	}
	out := []byte{flags | 2}
	return append(out, c.Digest...), nil
}

func verifUnmarshal(b []byte, m proto.Message) error {
	s, ok := m.(*core.Snapshot)
	if !ok {
		vFail("snapshot codec model: only snapshots are unmarshalled")
		return nil
	}
	s.Content = nil
	s.PreservesExecutability = false
	s.DecomposesUnicode = false
	s.Directories, s.Files, s.SymbolicLinks, s.TotalFileSize = 0, 0, 0, 0
	if len(b) == 0 {
		return nil
	}
	f := b[0]
	if vOr(f == 0, f > 3) {
		return errors.New("malformed snapshot bytes")
	}
	s.PreservesExecutability = f&1 != 0
	if f&2 != 0 {
		s.Content = &core.Entry{Kind: core.EntryKind_File, Digest: append([]byte(nil), b[1:]...)}
		if len(b) == 1 {
			s.Content.Digest = nil
		}
	} else if len(b) != 1 {
		return errors.New("malformed snapshot bytes")
	}
	return nil
}

var verifStubs = map[string]any{
	"(*github.com/mutagen-io/mutagen/pkg/encoding.ProtobufEncoder).Encode": verifEncode,
	"(*github.com/mutagen-io/mutagen/pkg/encoding.ProtobufDecoder).Decode": verifDecode,
	"(google.golang.org/protobuf/proto.MarshalOptions).Marshal":            verifMarshal,
	"google.golang.org/protobuf/proto.Unmarshal":                           verifUnmarshal,
	"google.golang.org/protobuf/proto.Clone":                               verifProtoClone,
	"crypto/sha1.New":                                                      verifNewHash,
	"context.WithCancel":                                                   verifWithCancel,
}

// ---------------------------------------------------------------------------
// the wrapped endpoint: answers scripted by the harness, requests recorded.

// verifRecorder is an rsync.Encoder that records transmissions; wrapped by
// rsync.NewEncodingReceiver it is the receiver of the scripted endpoint (the
// Receiver interface has an unexported method and cannot be implemented here).
type verifRecorder struct {
	got       []*rsync.Transmission
	finalized int
}

func (r *verifRecorder) Encode(t *rsync.Transmission) error {
	r.got = append(r.got, &rsync.Transmission{
		ExpectedSize: t.ExpectedSize,
		Operation:    verifCloneOperation(t.Operation),
		Done:         t.Done,
		Error:        t.Error,
	})
	return nil
}

func (r *verifRecorder) Finalize() error {
	r.finalized++
	return nil
}

// verifScript is an rsync.Decoder that plays a fixed transmission stream.
type verifScript struct {
	stream []*rsync.Transmission
	next   int
}

func (s *verifScript) Decode(t *rsync.Transmission) error {
	if s.next >= len(s.stream) {
		return verifErrStarved
	}
	src := s.stream[s.next]
	s.next++
	t.ExpectedSize, t.Done, t.Error = src.ExpectedSize, src.Done, src.Error
	t.Operation = verifCloneOperation(src.Operation)
	return nil
}

func (s *verifScript) Finalize() error { return nil }

type verifEndpoint struct {
	pollErr   error
	pollCalls int

	scanSnapshot *core.Snapshot
	scanErr      error
	scanTryAgain bool
	scanCalls    int
	scanFull     bool

	stagePaths      []string
	stageSignatures []*rsync.Signature
	stageErr        error
	stageRecorder   *verifRecorder
	stageCalls      int
	stageGotPaths   []string
	stageGotDigests [][]byte

	supplyStream        []*rsync.Transmission
	supplyCalls         int
	supplyGotPaths      []string
	supplyGotSignatures []*rsync.Signature
	supplyErr           error

	transitionResults  []*core.Entry
	transitionProblems []*core.Problem
	transitionMissing  bool
	transitionErr      error
	transitionCalls    int
	transitionGot      []*core.Change
}

func (e *verifEndpoint) Poll(ctx context.Context) error {
	e.pollCalls++
	return e.pollErr
}

func (e *verifEndpoint) Scan(ctx context.Context, ancestor *core.Entry, full bool) (*core.Snapshot, error, bool) {
	e.scanCalls++
	e.scanFull = full
	if e.scanErr != nil {
		return nil, e.scanErr, e.scanTryAgain
	}
	return e.scanSnapshot, nil, false
}

func (e *verifEndpoint) Stage(paths []string, digests [][]byte) ([]string, []*rsync.Signature, rsync.Receiver, error) {
	e.stageCalls++
	e.stageGotPaths = append([]string(nil), paths...)
	e.stageGotDigests = nil
	for _, d := range digests {
		e.stageGotDigests = append(e.stageGotDigests, append([]byte(nil), d...))
	}
	if e.stageErr != nil {
		return nil, nil, nil, e.stageErr
	}
	if len(e.stagePaths) == 0 {
		return nil, nil, nil, nil
	}
	e.stageRecorder = &verifRecorder{}
	return e.stagePaths, e.stageSignatures, rsync.NewEncodingReceiver(e.stageRecorder), nil
}

func (e *verifEndpoint) Supply(paths []string, signatures []*rsync.Signature, receiver rsync.Receiver) error {
	e.supplyCalls++
	e.supplyGotPaths = append([]string(nil), paths...)
	e.supplyGotSignatures = verifCloneSignatures(signatures)
	// Like rsync.Transmit: the stream is delivered to the receiver, which is
	// finalized at the end.
	e.supplyErr = rsync.DecodeToReceiver(&verifScript{stream: e.supplyStream}, uint64(len(paths)), receiver)
	return e.supplyErr
}

func (e *verifEndpoint) Transition(ctx context.Context, transitions []*core.Change) ([]*core.Entry, []*core.Problem, bool, error) {
	e.transitionCalls++
	e.transitionGot = transitions
	if e.transitionErr != nil {
		return nil, nil, false, e.transitionErr
	}
	return e.transitionResults, e.transitionProblems, e.transitionMissing, nil
}

func (e *verifEndpoint) Shutdown() error { return nil }

// ---------------------------------------------------------------------------
// the harness' own comparisons

func verifSameBytes(a, b []byte) bool {
	return len(a) == len(b) && bytes.Equal(a, b)
}

// verifSameEntry: structural equality of two entries (shape is concrete,
// leaf values may be symbolic; the result is one term).
func verifSameEntry(a, b *core.Entry) bool {
	if a == nil || b == nil {
		return a == nil && b == nil
	}
	if a.Kind != b.Kind || len(a.Contents) != len(b.Contents) || len(a.Digest) != len(b.Digest) {
		return false
	}
	same := vAnd(bytes.Equal(a.Digest, b.Digest), a.Executable == b.Executable, a.Target == b.Target, a.Problem == b.Problem)
	for name, ca := range a.Contents {
		cb, ok := b.Contents[name]
		if !ok {
			return false
		}
		same = vAnd(same, verifSameEntry(ca, cb))
	}
	return same
}

func verifSameSnapshot(got, want *core.Snapshot) bool {
	if got == nil || want == nil {
		return got == nil && want == nil
	}
	return vAnd(
		verifSameEntry(got.Content, want.Content),
		got.PreservesExecutability == want.PreservesExecutability,
		got.DecomposesUnicode == want.DecomposesUnicode,
		got.Directories == want.Directories, got.Files == want.Files,
		got.SymbolicLinks == want.SymbolicLinks, got.TotalFileSize == want.TotalFileSize,
	)
}

func verifSameSignature(a, b *rsync.Signature) bool {
	if a == nil || b == nil {
		return a == nil && b == nil
	}
	if len(a.Hashes) != len(b.Hashes) {
		return false
	}
	same := vAnd(a.BlockSize == b.BlockSize, a.LastBlockSize == b.LastBlockSize)
	for i := range a.Hashes {
		same = vAnd(same, a.Hashes[i].Weak == b.Hashes[i].Weak, verifSameBytes(a.Hashes[i].Strong, b.Hashes[i].Strong))
	}
	return same
}

func verifSameSignatures(a, b []*rsync.Signature) bool {
	if len(a) != len(b) {
		return false
	}
	same := true
	for i := range a {
		same = vAnd(same, verifSameSignature(a[i], b[i]))
	}
	return same
}

func verifSameStrings(a, b []string) bool {
	if len(a) != len(b) {
		return false
	}
	same := true
	for i := range a {
		same = vAnd(same, a[i] == b[i])
	}
	return same
}

func verifSameOperation(a, b *rsync.Operation) bool {
	// An absent operation and an all-zero operation are the same on the wire
	// as far as any receiver can tell (Transmission.EnsureValid treats them
	// alike at the end of a file).
	if a == nil {
		a = &rsync.Operation{}
	}
	if b == nil {
		b = &rsync.Operation{}
	}
	return vAnd(verifSameBytes(a.Data, b.Data), a.Start == b.Start, a.Count == b.Count)
}

func verifSameStream(got, want []*rsync.Transmission) bool {
	if len(got) != len(want) {
		return false
	}
	same := true
	for i := range got {
		same = vAnd(same,
			got[i].ExpectedSize == want[i].ExpectedSize,
			got[i].Done == want[i].Done,
			got[i].Error == want[i].Error,
			verifSameOperation(got[i].Operation, want[i].Operation),
		)
	}
	return same
}

var verifErrEndpoint = errors.New("wrapped endpoint failed")

// ---------------------------------------------------------------------------
// Scan: a history of scans; every snapshot is reconstructed exactly.

func VerifC21Scan() {
	maxd := vParam("maxdigest", 2)
	scans := vParam("scans", 2)
	ep := &verifEndpoint{}
	client := verifConnect(ep)
	n := verifNet

	// The ancestor the controller passes (baseline of the first scan and of
	// every scan that follows an empty snapshot).
	var ancestor *core.Entry
	if vChoose(2) == 1 {
		vLabel("ancestor.digest")
		ancestor = &core.Entry{Kind: core.EntryKind_File, Digest: vBytes(vRange(1, vParam("maxancestor", maxd)))}
	}

	for i := 0; i < scans; i++ {
		// The wrapped endpoint's answer to this scan.
		ep.scanSnapshot, ep.scanErr, ep.scanTryAgain = nil, nil, false
		var want *core.Snapshot
		if kind := vChoose(3); kind == 0 {
			ep.scanErr = verifErrEndpoint
			vLabel("scan.tryAgain")
			ep.scanTryAgain = vBool()
		} else {
			vLabel("scan.preservesExecutability")
			pe := vU8()
			vAssume(pe <= 1)
			want = &core.Snapshot{PreservesExecutability: pe == 1}
			if kind == 2 {
				vLabel("scan.digest")
				want.Content = &core.Entry{Kind: core.EntryKind_File, Digest: vBytes(vRange(1, maxd))}
			}
			// The endpoint hands out its own object; the oracle keeps a copy.
			ep.scanSnapshot = &core.Snapshot{
				Content:                verifCloneEntry(want.Content),
				PreservesExecutability: pe == 1,
			}
			n.flagsOf, n.flags = ep.scanSnapshot, pe
		}
		vLabel("scan.full")
		full := vBool()
		vLabel("")

		hadLast := client.lastSnapshotBytes != nil
		snapshot, err, tryAgain := client.Scan(context.Background(), ancestor, full)
		n.settle()

		vAssert(n.quiescent(), "scan: afterwards nothing is in flight and the server waits for the next request")
		vAssert(ep.scanCalls == i+1, "scan: one scan of the wrapped endpoint per client scan")
		vAssert(ep.scanFull == full, "scan: the full-scan flag reaches the wrapped endpoint unchanged")
		if want == nil {
			vCover("scan: endpoint error")
			vAssert(err != nil, "scan: an error of the wrapped endpoint is reported as an error")
			vAssert(snapshot == nil, "scan: no snapshot is returned with an error")
			vAssert(tryAgain == ep.scanTryAgain, "scan: the try-again indication equals the wrapped endpoint's")
			continue
		}
		vAssert(err == nil, "scan: a successful scan of the wrapped endpoint succeeds")
		if err != nil {
			return
		}
		vAssert(verifSameSnapshot(snapshot, want), "scan: the snapshot returned equals the wrapped endpoint's snapshot")
		vAssert(!tryAgain, "scan: no try-again indication on success")
		if i > 0 {
			if hadLast {
				vCover("scan: baseline is the previous snapshot")
			} else {
				vCover("scan: baseline is the ancestor again")
			}
		}
	}
	if n.sawBlockOp {
		vCover("scan: delta with a block operation")
	}
	if n.sawDataOp {
		vCover("scan: delta with literal data")
	}
	if n.sawEmptyDelta {
		vCover("scan: empty delta")
	}
}

// ---------------------------------------------------------------------------
// Stage: staging requirements (path list compaction and expansion).

func verifSymSignature() *rsync.Signature {
	if vChoose(2) == 0 {
		return &rsync.Signature{}
	}
	vLabel("signature.blockSize")
	bs := vU64()
	vLabel("signature.lastBlockSize")
	lbs := vU64()
	vAssume(vAnd(bs >= 1, lbs >= 1, lbs <= bs))
	vLabel("signature.weak")
	weak := vU32()
	vLabel("signature.strong")
	strong := vBytes(1)
	vLabel("")
	return &rsync.Signature{BlockSize: bs, LastBlockSize: lbs, Hashes: []*rsync.BlockHash{{Weak: weak, Strong: strong}}}
}

// verifStageOnce performs one Stage through the client and judges it.  It
// returns the receiver the client handed out (nil if nothing is required).
func verifStageOnce(ep *verifEndpoint, client *endpointClient, maxp int, allowError bool) (int, rsync.Receiver) {
	n := verifNet
	np := vRange(0, maxp)
	paths := make([]string, np)
	digests := make([][]byte, np)
	for i := 0; i < np; i++ {
		vLabel("stage.path")
		paths[i] = vString(1)
		vLabel("stage.digest")
		digests[i] = vBytes(1)
	}
	vLabel("")
	askedPaths := append([]string(nil), paths...)
	var askedDigests [][]byte
	for _, d := range digests {
		askedDigests = append(askedDigests, append([]byte(nil), d...))
	}

	// The wrapped endpoint's answer: an error, or an in-order subset of the
	// requested paths with one signature each.
	ep.stagePaths, ep.stageSignatures, ep.stageErr = nil, nil, nil
	var wantPaths []string
	var wantSignatures []*rsync.Signature
	choices := 1 << np
	if allowError && np > 0 {
		choices++
	}
	mask := vChoose(choices)
	failing := mask == 1<<np
	if failing {
		ep.stageErr = verifErrEndpoint
	} else {
		for i := 0; i < np; i++ {
			if mask&(1<<i) != 0 {
				s := verifSymSignature()
				wantPaths = append(wantPaths, paths[i])
				wantSignatures = append(wantSignatures, s)
				ep.stagePaths = append(ep.stagePaths, paths[i])
				ep.stageSignatures = append(ep.stageSignatures, verifCloneSignature(s))
			}
		}
	}
	calls := ep.stageCalls

	gotPaths, gotSignatures, receiver, err := client.Stage(paths, digests)
	n.settle()

	if np == 0 {
		vCover("stage: nothing requested")
		vAssert(err == nil && len(gotPaths) == 0 && len(gotSignatures) == 0 && receiver == nil, "stage: an empty request requires nothing")
		return 0, nil
	}
	vAssert(ep.stageCalls == calls+1, "stage: one staging call on the wrapped endpoint")
	vAssert(verifSameStrings(ep.stageGotPaths, askedPaths), "stage: the wrapped endpoint is asked for the same paths")
	same := len(ep.stageGotDigests) == len(askedDigests)
	if same {
		for i := range askedDigests {
			same = vAnd(same, verifSameBytes(ep.stageGotDigests[i], askedDigests[i]))
		}
	}
	vAssert(same, "stage: the wrapped endpoint is given the same digests")
	if failing {
		vCover("stage: endpoint error")
		vAssert(err != nil, "stage: an error of the wrapped endpoint is reported as an error")
		vAssert(len(gotPaths) == 0 && len(gotSignatures) == 0 && receiver == nil, "stage: nothing is returned with an error")
		return 0, nil
	}
	vAssert(err == nil, "stage: a successful staging call of the wrapped endpoint succeeds")
	if err != nil {
		return 0, nil
	}
	switch {
	case len(wantPaths) == 0:
		vCover("stage: nothing required")
	case len(wantPaths) == np:
		vCover("stage: everything required")
		if n.sawShorthand {
			vCover("stage: shorthand response")
		}
	default:
		vCover("stage: a proper subset required")
	}
	vAssert(verifSameStrings(gotPaths, wantPaths), "stage: the required paths equal the wrapped endpoint's")
	vAssert(verifSameSignatures(gotSignatures, wantSignatures), "stage: the signatures equal the wrapped endpoint's")
	vAssert((receiver != nil) == (len(wantPaths) > 0), "stage: a receiver is returned exactly when something is required")
	return len(wantPaths), receiver
}

func VerifC21Stage() {
	maxp := vParam("maxpaths", 3)
	ep := &verifEndpoint{}
	client := verifConnect(ep)
	n := verifNet

	required, _ := verifStageOnce(ep, client, maxp, true)
	if ep.stageErr != nil || required > 0 {
		// After a staging error the server has exited (by design); with paths
		// required it now waits for the file transmissions (harness "forward").
		if required > 0 {
			vAssert(n.stageTail && n.serverDead, "stage: the server waits for the transmissions of the required files")
		}
		return
	}
	// Nothing was required: the session goes on.  The next operation must be
	// served as usual.
	vAssert(n.quiescent(), "stage: afterwards nothing is in flight and the server waits for the next request")
	vCover("stage: followed by another operation")
	verifTransitionOnce(ep, client, -1, 1, false)
}

// ---------------------------------------------------------------------------
// Transition: results, problems, missing-file indication.

// verifEntryShape builds one of a few valid synchronizable entries with
// symbolic leaves.
func verifEntryShape(k int) *core.Entry {
	switch k {
	case 1:
		vLabel("entry.digest")
		d := vBytes(1)
		vLabel("entry.executable")
		x := vBool()
		vLabel("")
		return &core.Entry{Kind: core.EntryKind_File, Digest: d, Executable: x}
	case 2:
		vLabel("entry.target")
		t := vString(1)
		vLabel("")
		return &core.Entry{Kind: core.EntryKind_SymbolicLink, Target: t}
	case 3:
		vLabel("entry.child.digest")
		d := vBytes(1)
		vLabel("")
		return &core.Entry{Kind: core.EntryKind_Directory, Contents: map[string]*core.Entry{
			"a": {Kind: core.EntryKind_File, Digest: d},
			"b": {Kind: core.EntryKind_Directory},
		}}
	}
	return nil
}

// verifTransitionOnce performs one Transition through the client and judges it.
func verifTransitionOnce(ep *verifEndpoint, client *endpointClient, maxt, maxproblems int, allowError bool) {
	// maxt < 0: the fixed small case (one creation, one problem; leaves symbolic)
	small := maxt < 0
	nt := 1
	if !small {
		nt = vRange(0, maxt)
	}
	var transitions, asked []*core.Change
	var wantResults []*core.Entry
	ep.transitionResults, ep.transitionProblems, ep.transitionMissing, ep.transitionErr = nil, nil, false, nil
	ep.transitionResults = make([]*core.Entry, nt)
	for i := 0; i < nt; i++ {
		// old / new / result shapes of this transition
		var o, w, r int
		variant := 0
		if !small {
			variant = vChoose(4)
		}
		switch variant {
		case 0: // creation that succeeds
			o, w, r = 0, 1, 1
		case 1: // removal that succeeds
			o, w, r = 1, 0, 0
		case 2: // replacement by a directory that succeeds
			o, w, r = 2, 3, 3
		case 3: // replacement that fails: the result is what is on disk
			o, w, r = 3, 1, 2
		}
		vLabel("transition.path")
		p := vString(1)
		vLabel("")
		c := &core.Change{Path: p, Old: verifEntryShape(o), New: verifEntryShape(w)}
		transitions = append(transitions, c)
		asked = append(asked, &core.Change{Path: p, Old: verifCloneEntry(c.Old), New: verifCloneEntry(c.New)})
		result := verifEntryShape(r)
		wantResults = append(wantResults, result)
		ep.transitionResults[i] = verifCloneEntry(result)
	}
	var wantProblems []*core.Problem
	choices := maxproblems + 1
	if allowError {
		choices++
	}
	np := 1
	if !small {
		np = vChoose(choices)
	}
	failing := np == maxproblems+1
	if failing {
		ep.transitionErr = verifErrEndpoint
		np = 0
	}
	for i := 0; i < np; i++ {
		vLabel("problem.path")
		p := vString(1)
		vLabel("problem.error")
		e := vString(1)
		vLabel("")
		wantProblems = append(wantProblems, &core.Problem{Path: p, Error: e})
		ep.transitionProblems = append(ep.transitionProblems, &core.Problem{Path: p, Error: e})
	}
	vLabel("transition.stagerMissingFiles")
	missing := vBool()
	vLabel("")
	ep.transitionMissing = missing
	calls := ep.transitionCalls

	results, problems, gotMissing, err := client.Transition(context.Background(), transitions)
	verifNet.settle()

	vAssert(verifNet.quiescent(), "transition: afterwards nothing is in flight and the server waits for the next request")
	vAssert(ep.transitionCalls == calls+1, "transition: one transition call on the wrapped endpoint")
	same := len(ep.transitionGot) == len(asked)
	if same {
		for i := range asked {
			g := ep.transitionGot[i]
			same = vAnd(same, g != nil && g.Path == asked[i].Path, verifSameEntry(g.Old, asked[i].Old), verifSameEntry(g.New, asked[i].New))
		}
	}
	vAssert(same, "transition: the wrapped endpoint is given the same transitions")
	if failing {
		vCover("transition: endpoint error")
		vAssert(err != nil, "transition: an error of the wrapped endpoint is reported as an error")
		vAssert(len(results) == 0 && len(problems) == 0 && !gotMissing, "transition: nothing is returned with an error")
		return
	}
	vAssert(err == nil, "transition: a successful transition of the wrapped endpoint succeeds")
	if err != nil {
		return
	}
	if nt == 0 {
		vCover("transition: no transitions")
	}
	if len(wantProblems) > 0 {
		vCover("transition: problems reported")
	}
	same = len(results) == len(wantResults)
	if same {
		for i := range wantResults {
			if wantResults[i] == nil {
				vCover("transition: absent result")
			}
			same = vAnd(same, verifSameEntry(results[i], wantResults[i]))
		}
	}
	vAssert(same, "transition: the results equal the wrapped endpoint's")
	same = len(problems) == len(wantProblems)
	if same {
		for i := range wantProblems {
			same = vAnd(same, problems[i] != nil && problems[i].Path == wantProblems[i].Path, problems[i] != nil && problems[i].Error == wantProblems[i].Error)
		}
	}
	vAssert(same, "transition: the problems equal the wrapped endpoint's")
	vAssert(gotMissing == missing, "transition: the missing-files indication equals the wrapped endpoint's")
}

func VerifC21Transition() {
	maxt := vParam("maxtransitions", 2)
	maxproblems := vParam("maxproblems", 2)
	ep := &verifEndpoint{}
	client := verifConnect(ep)
	verifTransitionOnce(ep, client, maxt, maxproblems, true)
	// A second, small transition on the same connection (also after an error
	// of the first: transition errors do not end the session).
	vCover("transition: followed by another transition")
	verifTransitionOnce(ep, client, -1, 1, false)
}

// ---------------------------------------------------------------------------
// Supply and the forwarding of file transmissions.

// verifSymStream: for each of count files zero or one operation (literal data
// or a block range, symbolic), then the end-of-file message (with or without
// an error text).
func verifSymStream(count int) []*rsync.Transmission {
	var s []*rsync.Transmission
	for i := 0; i < count; i++ {
		switch vChoose(3) {
		case 1:
			vLabel("transmission.size")
			size := vU64()
			vLabel("transmission.data")
			d := vBytes(vRange(1, 2))
			vLabel("")
			s = append(s, &rsync.Transmission{ExpectedSize: size, Operation: &rsync.Operation{Data: d}})
		case 2:
			vLabel("transmission.start")
			start := vU64()
			vLabel("transmission.count")
			c := vU64()
			vAssume(c >= 1)
			vLabel("")
			s = append(s, &rsync.Transmission{Operation: &rsync.Operation{Start: start, Count: c}})
		}
		done := &rsync.Transmission{Done: true}
		if vChoose(2) == 1 {
			vLabel("transmission.error")
			done.Error = vString(1)
			vLabel("")
		}
		s = append(s, done)
	}
	return s
}

func verifCopyStream(s []*rsync.Transmission) []*rsync.Transmission {
	var r []*rsync.Transmission
	for _, t := range s {
		r = append(r, &rsync.Transmission{ExpectedSize: t.ExpectedSize, Operation: verifCloneOperation(t.Operation), Done: t.Done, Error: t.Error})
	}
	return r
}

func VerifC21Supply() {
	maxp := vParam("maxfiles", 2)
	ep := &verifEndpoint{}
	client := verifConnect(ep)
	n := verifNet

	np := vRange(0, maxp)
	paths := make([]string, np)
	signatures := make([]*rsync.Signature, np)
	for i := 0; i < np; i++ {
		vLabel("supply.path")
		paths[i] = vString(1)
		vLabel("")
		signatures[i] = verifSymSignature()
	}
	askedPaths := append([]string(nil), paths...)
	askedSignatures := verifCloneSignatures(signatures)
	want := verifSymStream(np)
	ep.supplyStream = verifCopyStream(want)

	recorder := &verifRecorder{}
	err := client.Supply(paths, signatures, rsync.NewEncodingReceiver(recorder))
	n.settle()

	vAssert(n.quiescent(), "supply: afterwards nothing is in flight and the server waits for the next request")
	vAssert(ep.supplyCalls == 1, "supply: one supply call on the wrapped endpoint")
	vAssert(verifSameStrings(ep.supplyGotPaths, askedPaths), "supply: the wrapped endpoint is asked for the same paths")
	vAssert(verifSameSignatures(ep.supplyGotSignatures, askedSignatures), "supply: the wrapped endpoint is given the same signatures")
	vAssert(ep.supplyErr == nil, "supply: the wrapped endpoint's transmissions are all accepted by the forwarding receiver")
	vAssert(err == nil, "supply: a successful supply of the wrapped endpoint succeeds")
	vAssert(verifSameStream(recorder.got, want), "supply: the receiver is given exactly the wrapped endpoint's transmissions, in order")
	vAssert(recorder.finalized == 1, "supply: the receiver is finalized exactly once")
	if np > 0 {
		vCover("supply: files transmitted")
	} else {
		vCover("supply: no files")
	}
	// The session goes on.
	verifTransitionOnce(ep, client, -1, 1, false)
}

// VerifC21Forward: the transmissions a supplier writes into the receiver that
// the client's Stage handed out arrive, unchanged and in order, at the
// receiver of the wrapped endpoint.  The sequential executor cannot suspend the
// server between its stage response and the arrival of the transmissions:
// serveStage is executed up to the point where it waits for the first
// transmission (checked), and its last statement -
// rsync.DecodeToReceiver(&protobufRsyncDecoder{s.decoder}, len(paths), receiver) -
// is then executed by the harness with the same arguments.
func VerifC21Forward() {
	maxp := vParam("maxfiles", 2)
	ep := &verifEndpoint{}
	client := verifConnect(ep)
	n := verifNet

	required, receiver := verifStageOnce(ep, client, maxp, false)
	if required == 0 || receiver == nil {
		return
	}
	vAssert(n.stageTail && n.serverDead, "forward: the server waits for the transmissions of the required files")
	want := verifSymStream(required)
	err := rsync.DecodeToReceiver(&verifScript{stream: verifCopyStream(want)}, uint64(required), receiver)
	vAssert(err == nil, "forward: the client's staging receiver accepts the supplier's transmissions")
	vAssert(len(n.toServerPending) == 0, "forward: every transmission has been flushed when the receiver is finalized")

	// the rest of serveStage (the attempt that found no transmission finalized
	// the endpoint's receiver; start from a fresh one around the same recorder)
	ep.stageRecorder.got, ep.stageRecorder.finalized = nil, 0
	serr := rsync.DecodeToReceiver(&protobufRsyncDecoder{decoder: n.server.decoder}, uint64(required), rsync.NewEncodingReceiver(ep.stageRecorder))
	vAssert(serr == nil, "forward: the server forwards the transmissions to the wrapped endpoint's receiver")
	vAssert(verifSameStream(ep.stageRecorder.got, want), "forward: the wrapped endpoint's receiver is given exactly the supplier's transmissions, in order")
	vAssert(ep.stageRecorder.finalized == 1, "forward: the wrapped endpoint's receiver is finalized exactly once")
	vAssert(len(n.toServer) == 0, "forward: nothing is left unread on the control stream")
	vCover("forward: files transmitted")
}

// ---------------------------------------------------------------------------
// Poll: the outcome of polling.

func VerifC21Poll() {
	ep := &verifEndpoint{}
	client := verifConnect(ep)
	n := verifNet
	for i := 0; i < 2; i++ {
		ep.pollErr = nil
		if vChoose(2) == 1 {
			ep.pollErr = verifErrEndpoint
		}
		err := client.Poll(context.Background())
		n.settle()
		vAssert(n.quiescent(), "poll: afterwards nothing is in flight and the server waits for the next request")
		vAssert(ep.pollCalls == i+1, "poll: one poll of the wrapped endpoint per client poll")
		if ep.pollErr != nil {
			vCover("poll: endpoint error")
			vAssert(err != nil, "poll: an error of the wrapped endpoint is reported as an error")
		} else {
			vCover("poll: event")
			vAssert(err == nil, "poll: a successful poll of the wrapped endpoint succeeds")
		}
	}
}

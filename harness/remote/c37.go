package remote

import (
	"github.com/mutagen-io/mutagen/pkg/synchronization"
	"github.com/mutagen-io/mutagen/pkg/synchronization/core"
)

// C37 (remote side): the initialisation request carrying the merged
// configuration of an accepted session (parts accepted one by one and the
// merged configuration valid - the conclusion of harness "accepted", which
// runs the real creation gate) passes the remote endpoint's own request
// validation.  Only the permissions group (the one cross-part dependency) and
// the endpoint-overridable scan mode are symbolic here; the full field
// sweep is harness "accepted" in package synchronization.

func verifC37RemotePart(tag string) *synchronization.Configuration {
	c := &synchronization.Configuration{}
	vLabel(tag + "permissionsMode")
	c.PermissionsMode = core.PermissionsMode(vU32())
	vLabel(tag + "defaultFileMode")
	c.DefaultFileMode = vU32()
	vLabel(tag + "defaultDirectoryMode")
	c.DefaultDirectoryMode = vU32()
	vLabel(tag + "scanMode")
	c.ScanMode = synchronization.ScanMode(vU32())
	vLabel("")
	return c
}

func VerifC37RemoteRequest() {
	session := verifC37RemotePart("session.")
	specific := verifC37RemotePart("specific.")
	alpha := vBool()
	// What session creation establishes (harness "accepted" runs the real
	// creation gate and asserts the third line as its conclusion).
	vAssume(session.EnsureValid(false) == nil)
	vAssume(specific.EnsureValid(true) == nil)
	merged := synchronization.MergeConfigurations(session, specific)
	vAssume(merged.EnsureValid(false) == nil)
	vCover("accepted")
	if specific.DefaultFileMode&0111 != 0 {
		vCover("endpoint-executable-file-mode")
	}

	vNote("initialisation request built from the effective configuration of an accepted session is rejected by the remote endpoint")
	request := &InitializeSynchronizationRequest{
		Session:       "sync_0123456789abcdefghijklmnopqrstuvwxyzABCDEFGHIJKLMNOPQRSTUVWXYZ",
		Version:       synchronization.Version_Version1,
		Root:          "/root",
		Configuration: merged,
		Alpha:         alpha,
	}
	vAssert(request.ensureValid() == nil, "remote endpoint accepts the initialisation request for the effective configuration of an accepted session")
}

package remote

import (
	"github.com/mutagen-io/mutagen/pkg/synchronization"
	"github.com/mutagen-io/mutagen/pkg/synchronization/core"
)

// C37 (remote side): the initialisation request carrying the merged
// configuration of accepted parts passes the remote endpoint's own request
// validation.  Only the permissions group (the one cross-part dependency) and
// the endpoint-overridable scan mode are symbolic here; the full field
// sweep is harness "accepted" in package synchronization.

func verifC37RemotePart(tag string) *synchronization.Configuration {
	c := &synchronization.Configuration{}
	vLabel(tag + "permissionsMode")
	c.PermissionsMode = core.PermissionsMode(vU32())
	vLabel(tag + "defaultFileMode")
	c.DefaultFileMode = vU32()
	vLabel(tag + "defaultDirectoryMode")
	c.DefaultDirectoryMode = vU32()
	vLabel(tag + "scanMode")
	c.ScanMode = synchronization.ScanMode(vU32())
	vLabel("")
	return c
}

func VerifC37RemoteRequest() {
	session := verifC37RemotePart("session.")
	specific := verifC37RemotePart("specific.")
	alpha := vBool()
	vAssume(session.EnsureValid(false) == nil)
	vAssume(specific.EnsureValid(true) == nil)
	vCover("accepted")

	class := ""
	if vAnd(specific.DefaultFileMode&0111 != 0, vOr(session.PermissionsMode == core.PermissionsMode_PermissionsModeDefault, session.PermissionsMode == core.PermissionsMode_PermissionsModePortable)) {
		class = "[endpoint-specific executable file mode, portable session] "
		vNote("endpoint-specific DefaultFileMode with session-level permissions mode: the endpoint-specific part is validated without the session's (effective) permissions mode, so executable bits pass there, while the merged configuration is validated in portable mode")
	} else {
		vNote("initialisation request built from accepted parts is rejected by the remote endpoint")
	}
	request := &InitializeSynchronizationRequest{
		Session:       "sync_0123456789abcdefghijklmnopqrstuvwxyzABCDEFGHIJKLMNOPQRSTUVWXYZ",
		Version:       synchronization.Version_Version1,
		Root:          "/root",
		Configuration: synchronization.MergeConfigurations(session, specific),
		Alpha:         alpha,
	}
	vAssert(request.ensureValid() == nil, class+"remote endpoint accepts the initialisation request for accepted parts")
}

package mutagen

// C14(c'): newIgnorePattern + (*ignorePattern).matches (real doublestar) on
// GENERATED patterns of the restricted grammar: 1..N components, each of a
// concrete kind (literal, '*', '**', '?', literal+'*', '*'+literal, class,
// two literals) whose literal bytes are SYMBOLIC, optional leading slash,
// optional trailing slash - against symbolic paths and a symbolic directory
// flag.  The reference is an own matcher that works on the generated token
// structure (never on the pattern text) and builds ONE term per query.
//
// This complements VerifC14Match (22 fixed texts): multi-component patterns
// with '**' in first / inner / last position are reached together with paths
// that are deep enough to tell "anchored at the root" from "at any depth".

// verifC14xTok is one pattern token: 'l' = literal byte a, '*', '?',
// '[' = class {a, b}.
type verifC14xTok struct {
	kind byte
	a, b byte
}

// verifC14xComp is one pattern component: either "**" or a token sequence.
type verifC14xComp struct {
	double bool
	toks   []verifC14xTok
}

func verifC14xLit() byte {
	vLabel("literal")
	c := vU8()
	vLabel("")
	vAssume(vOr(c == 'a', c == 'b', c == 'c'))
	return c
}

// verifC14xKinds: number of component kinds available at a given level.
//   0 L   1 *   2 **   3 ?   4 L*   5 *L   6 [LM]   7 LM
var verifC14xKindNames = []string{"L", "*", "**", "?", "L*", "*L", "[LM]", "LM"}

func verifC14xComponent(kind int) (verifC14xComp, []byte) {
	switch kind {
	case 0:
		a := verifC14xLit()
		return verifC14xComp{toks: []verifC14xTok{{kind: 'l', a: a}}}, []byte{a}
	case 1:
		return verifC14xComp{toks: []verifC14xTok{{kind: '*'}}}, []byte{'*'}
	case 2:
		return verifC14xComp{double: true}, []byte{'*', '*'}
	case 3:
		return verifC14xComp{toks: []verifC14xTok{{kind: '?'}}}, []byte{'?'}
	case 4:
		a := verifC14xLit()
		return verifC14xComp{toks: []verifC14xTok{{kind: 'l', a: a}, {kind: '*'}}}, []byte{a, '*'}
	case 5:
		a := verifC14xLit()
		return verifC14xComp{toks: []verifC14xTok{{kind: '*'}, {kind: 'l', a: a}}}, []byte{'*', a}
	case 6:
		a := verifC14xLit()
		b := verifC14xLit()
		return verifC14xComp{toks: []verifC14xTok{{kind: '[', a: a, b: b}}}, []byte{'[', a, b, ']'}
	default:
		a := verifC14xLit()
		b := verifC14xLit()
		return verifC14xComp{toks: []verifC14xTok{{kind: 'l', a: a}, {kind: 'l', a: b}}}, []byte{a, b}
	}
}

// verifC14xMatchComp: does the token sequence match the (slash-free) path
// component s?  Lengths are concrete, so this builds one term, no forks.
func verifC14xMatchComp(t []verifC14xTok, s string) bool {
	if len(t) == 0 {
		return len(s) == 0
	}
	switch t[0].kind {
	case '*':
		r := false
		for k := 0; k <= len(s); k++ {
			r = vOr(r, verifC14xMatchComp(t[1:], s[k:]))
		}
		return r
	case '?':
		if len(s) == 0 {
			return false
		}
		return verifC14xMatchComp(t[1:], s[1:])
	case '[':
		if len(s) == 0 {
			return false
		}
		return vAnd(vOr(s[0] == t[0].a, s[0] == t[0].b), verifC14xMatchComp(t[1:], s[1:]))
	default:
		if len(s) == 0 {
			return false
		}
		return vAnd(s[0] == t[0].a, verifC14xMatchComp(t[1:], s[1:]))
	}
}

// verifC14xMatchWhole: pattern components against path components; a "**"
// component spans zero or more whole directory levels.  trailMin is the
// minimal number of levels a "**" in LAST position (after at least one other
// component) has to span: whether "x/**" also matches "x" itself is not fixed
// by the property, so the oracle brackets the answer between trailMin = 1
// (must match) and trailMin = 0 (may match).
func verifC14xMatchWhole(pc []verifC14xComp, nc []string, trailMin int, first bool) bool {
	if len(pc) == 0 {
		return len(nc) == 0
	}
	if pc[0].double {
		if len(pc) == 1 && !first {
			return len(nc) >= trailMin
		}
		r := false
		for k := 0; k <= len(nc); k++ {
			r = vOr(r, verifC14xMatchWhole(pc[1:], nc[k:], trailMin, false))
		}
		return r
	}
	if len(nc) == 0 {
		return false
	}
	return vAnd(verifC14xMatchComp(pc[0].toks, nc[0]), verifC14xMatchWhole(pc[1:], nc[1:], trailMin, false))
}

func VerifC14MatchShapes() {
	// ---- the pattern: structure concrete (one path per shape), literals symbolic
	ncomp := vRange(1, vParam("maxcomps", 3))
	nkinds := vParam("kinds", 3)
	vLabel("rooted")
	rooted := vBool()
	vLabel("trailing")
	trailing := vBool()
	vLabel("")
	var comps []verifC14xComp
	var text []byte
	shape := ""
	if rooted {
		text = append(text, '/')
		shape = "/"
	}
	for k := 0; k < ncomp; k++ {
		kind := vChoose(nkinds)
		c, b := verifC14xComponent(kind)
		comps = append(comps, c)
		if k > 0 {
			text = append(text, '/')
			shape += "/"
		}
		text = append(text, b...)
		shape += verifC14xKindNames[kind]
	}
	if trailing {
		text = append(text, '/')
		shape += "/"
	}
	vNote("pattern shape=" + shape + " (L, M: the symbolic literals, in order)")

	ip, err := newIgnorePattern(string(text))
	vAssert(err == nil && ip != nil, "patterns of the restricted grammar are accepted")
	if err != nil || ip == nil {
		return
	}

	// ---- the query
	path := verifC14Path(vParam("maxpath", 5))
	vLabel("directory")
	directory := vBool()
	vLabel("")
	nc := verifC14Split(path)

	got := ip.matches(path, directory)

	// ---- specification, from the generated structure
	var must, may bool
	if rooted || ncomp > 1 {
		// leading slash or slash-containing: anchored at the root
		must = verifC14xMatchWhole(comps, nc, 1, true)
		may = verifC14xMatchWhole(comps, nc, 0, true)
		vCover("anchored")
		if len(nc) > ncomp {
			vCover("anchored, path deeper than the pattern")
		}
	} else {
		// no slash: the final component anywhere (a lone "**" spans everything)
		must = vOr(verifC14xMatchWhole(comps, nc[len(nc)-1:], 1, true), verifC14xMatchWhole(comps, nc, 1, true))
		may = must
		vCover("leaf")
	}
	if trailing {
		// trailing slash: only directories
		must = vAnd(must, directory)
		may = vAnd(may, directory)
		vCover("directory-only")
	}
	for k := range comps {
		if comps[k].double && ncomp > 1 {
			switch {
			case k == 0:
				vCover("'**' first")
			case k == ncomp-1:
				vCover("'**' last")
			default:
				vCover("'**' inner")
			}
		}
	}
	if got {
		vCover("match")
	} else {
		vCover("no-match")
	}
	vAssert(vAnd(vOr(!must, got), vOr(!got, may)), "pattern matches exactly as the documented syntax says (anchoring, leaf matching, directory-only, '**' spans levels)")
}

package mutagen

import (
	"github.com/mutagen-io/mutagen/pkg/synchronization/core/ignore"
)

// C14: Mutagen-style ignores.
//
// (a) VerifC14Loop / VerifC14NewIgnorer: the short-circuit last-match-wins loop
//     of (*ignorer).Ignore with the per-pattern match result replaced by a
//     symbolic Boolean.
// (b) VerifC14Parse: newIgnorePattern on symbolic pattern bytes.
// (c) VerifC14Match: newIgnorePattern + matches (real doublestar) on concrete
//     patterns of the restricted grammar against symbolic paths, vs an own
//     reference matcher.

// ---------- (a) ----------

// Pattern TEXTS are drawn from a pool: list position k carries the text
// "<id[k]>" (or "!<id[k]>") with id[k] symbolic in 0..n-1, so a text may occur
// several times in the list, with the same or with different negation.
// verifC14Match[j] is the (symbolic) answer of matches() for text j - the same
// answer at every position that carries that text (the match result is a
// function of pattern text, path and directory flag).
var verifC14Match []bool
var verifC14Ptrs []*ignorePattern // the pattern objects of the ignorer under test, by position
var verifC14Calls []int           // matches() calls per pattern object
var verifC14OtherCalls int        // matches() calls on objects that are not in the ignorer
var verifC14Dir bool              // the directory flag of the query

const verifC14QueryPath = "x"

func verifC14StubMatches(p *ignorePattern, path string, directory bool) bool {
	known := false
	for k := range verifC14Ptrs {
		if verifC14Ptrs[k] == p {
			verifC14Calls[k]++
			known = true
		}
	}
	if !known {
		verifC14OtherCalls++
	}
	vAssert(vAnd(path == verifC14QueryPath, directory == verifC14Dir), "each pattern is asked about the queried path and directory flag")
	c := p.pattern[0]
	r := false
	for j := range verifC14Match {
		r = vOr(r, vAnd(c == byte('0'+j), verifC14Match[j]))
	}
	return r
}

var verifStubs_VerifC14Loop = map[string]any{
	"(*github.com/mutagen-io/mutagen/pkg/synchronization/core/ignore/mutagen.ignorePattern).matches": verifC14StubMatches,
}

var verifStubs_VerifC14NewIgnorer = map[string]any{
	"(*github.com/mutagen-io/mutagen/pkg/synchronization/core/ignore/mutagen.ignorePattern).matches": verifC14StubMatches,
}

// verifC14Expected is the specification: the last matching pattern decides.
func verifC14Expected(negated, match []bool) ignore.IgnoreStatus {
	want := ignore.IgnoreStatusNominal
	for k := range negated {
		if match[k] {
			if negated[k] {
				want = ignore.IgnoreStatusUnignored
			} else {
				want = ignore.IgnoreStatusIgnored
			}
		}
	}
	return want
}

// verifC14IDs: one symbolic text id per list position.
func verifC14IDs(n int) []int {
	ids := make([]int, n)
	for k := 0; k < n; k++ {
		vLabel("text")
		ids[k] = vInt(0, n-1)
	}
	vLabel("")
	return ids
}

func verifC14Text(id int) string {
	return string([]byte{byte('0' + id)})
}

func verifC14CheckLoop(ig ignore.Ignorer, ptrs []*ignorePattern, ids []int, negated []bool) {
	n := len(negated)
	verifC14Match = make([]bool, n)
	verifC14Ptrs = ptrs
	verifC14Calls = make([]int, len(ptrs))
	verifC14OtherCalls = 0
	for k := 0; k < n; k++ {
		vLabel("match")
		verifC14Match[k] = vBool()
	}
	vLabel("directory")
	verifC14Dir = vBool()
	vLabel("")

	status, cont := ig.Ignore(verifC14QueryPath, verifC14Dir)

	// the match result of list position k is the result of its text
	matchAt := make([]bool, n)
	repeated := false
	for k := 0; k < n; k++ {
		r := false
		for j := 0; j < n; j++ {
			r = vOr(r, vAnd(ids[k] == j, verifC14Match[j]))
		}
		matchAt[k] = r
		for j := 0; j < k; j++ {
			repeated = vOr(repeated, ids[j] == ids[k])
		}
	}
	want := verifC14Expected(negated, matchAt)
	switch want {
	case ignore.IgnoreStatusNominal:
		vCover("nominal")
	case ignore.IgnoreStatusIgnored:
		vCover("ignored")
	case ignore.IgnoreStatusUnignored:
		vCover("unignored")
	}
	vAssert(status == want, "status is decided by the last matching pattern (ignored iff non-negated, unignored iff negated, nominal iff none matches)")
	vAssert(!cont, "Mutagen-style ignores never ask for traversal beneath ignored content")
	for k := range verifC14Calls {
		vAssert(verifC14Calls[k] <= 1, "a pattern is evaluated at most once per query")
	}
	vAssert(verifC14OtherCalls == 0, "only the ignorer's own patterns are evaluated")
	if repeated {
		vCover("a pattern text occurs more than once")
	}
}

// VerifC14Loop: ignorer literal; `negated` and the text id symbolic per
// pattern; the negated pattern count is the one NewIgnorer establishes (own
// count; established by the real constructor in VerifC14NewIgnorer).
func VerifC14Loop() {
	n := vRange(0, vParam("maxpatterns", 4))
	negated := make([]bool, n)
	ids := verifC14IDs(n)
	ig := &ignorer{}
	for k := 0; k < n; k++ {
		vLabel("negated")
		negated[k] = vBool()
		ig.patterns = append(ig.patterns, &ignorePattern{negated: negated[k], pattern: verifC14Text(ids[k])})
		if negated[k] {
			ig.negatedPatternCount++
		}
	}
	verifC14CheckLoop(ig, ig.patterns, ids, negated)
}

// VerifC14NewIgnorer: the ignorer comes from the real NewIgnorer on the
// patterns "<id>" / "!<id>" (texts may repeat).
func VerifC14NewIgnorer() {
	n := vRange(0, vParam("maxpatterns", 4))
	negated := make([]bool, n)
	patterns := make([]string, n)
	ids := verifC14IDs(n)
	for k := 0; k < n; k++ {
		vLabel("negated")
		negated[k] = vBool()
		patterns[k] = verifC14Text(ids[k])
		if negated[k] {
			patterns[k] = "!" + patterns[k]
		}
	}
	ig, err := NewIgnorer(patterns)
	vAssert(err == nil, "literal patterns are accepted")
	if err != nil {
		return
	}
	real := ig.(*ignorer)

	// the property: behaviour of the constructed ignorer
	verifC14CheckLoop(ig, real.patterns, ids, negated)

	// the invariant harness 'loop' relies on
	vAssert(len(real.patterns) == n, "one parsed pattern per given pattern")
	cnt := uint(0)
	for k := 0; k < n && k < len(real.patterns); k++ {
		vAssert(real.patterns[k].negated == negated[k], "patterns keep their order and negation")
		if negated[k] {
			cnt++
		}
	}
	vAssert(real.negatedPatternCount == cnt, "negated pattern count equals the number of negated patterns")
}

// ---------- (b) ----------

// verifC14Model is the own reading of the documented pattern syntax:
//   ["!"] ["/"] component {"/" component} ["/"]
// after lexical normalisation (empty and "." components dropped, ".." pops).
type verifC14Model struct {
	err        bool // empty, negated-empty or root pattern
	negated    bool
	rooted     bool
	trailing   bool
	components []string
}

func verifC14Parse(p string) verifC14Model {
	var m verifC14Model
	if len(p) == 0 {
		m.err = true
		return m
	}
	if p[0] == '!' {
		m.negated = true
		p = p[1:]
	}
	if len(p) == 0 {
		m.err = true
		return m
	}
	m.rooted = p[0] == '/'
	m.trailing = len(p) > 1 && p[len(p)-1] == '/'
	start := 0
	for i := 0; i <= len(p); i++ {
		if i < len(p) && p[i] != '/' {
			continue
		}
		c := p[start:i]
		start = i + 1
		switch {
		case c == "" || c == ".":
		case c == "..":
			if k := len(m.components); k > 0 && m.components[k-1] != ".." {
				m.components = m.components[:k-1]
			} else if !m.rooted {
				m.components = append(m.components, "..")
			}
		default:
			m.components = append(m.components, c)
		}
	}
	if len(m.components) == 0 {
		if m.rooted {
			m.err = true // targets the synchronization root
		} else {
			m.components = []string{"."}
		}
	}
	return m
}

func verifC14IsMeta(c byte) bool {
	return vOr(c == '*', c == '?', c == '[', c == ']', c == '{', c == '}', c == '\\')
}

// verifC14Frames: constant prefix / suffix around the symbolic part.
var verifC14Frames = [][2]string{
	{"**/", ""}, {"", "/**"}, {"a/", ""}, {"", "/b"}, {"a/", "/b"}, {"**/", "/b"}, {"!/", "/"}, {"a/**/", ""},
}

func VerifC14Parse() {
	// Frame 0 is the fully symbolic text of 0..maxlen bytes.  The other
	// frames put constant pieces around 0..framelen symbolic bytes so that
	// multi-component patterns ('**' first / last, inner components, negated
	// directory-only forms) are reached at small symbolic sizes.
	frame := 0
	if nf := vParam("frames", 0); nf > 0 {
		frame = vChoose(nf + 1)
	}
	pre, suf := "", ""
	n := 0
	if frame == 0 {
		n = vRange(0, vParam("maxlen", 4))
	} else {
		pre, suf = verifC14Frames[frame-1][0], verifC14Frames[frame-1][1]
		vNote("frame=" + pre + "<symbolic>" + suf)
		n = vRange(0, vParam("framelen", 2))
		vCover("framed")
	}
	text := pre + vString(n) + suf
	n = len(text)
	ip, err := newIgnorePattern(text)
	verr := EnsurePatternValid(text)
	vAssert((err == nil) == (verr == nil), "EnsurePatternValid agrees with the parser")
	vAssert((err == nil) == (ip != nil), "a pattern is returned exactly when there is no error")

	m := verifC14Parse(text)
	if m.err {
		vCover("rejected-empty-or-root")
		vAssert(err != nil, "empty, negated-empty and root-targeting patterns are rejected")
		return
	}
	literal := true
	for i := 0; i < n; i++ {
		if verifC14IsMeta(text[i]) {
			literal = false
		}
	}
	if literal {
		vCover("literal")
		vAssert(err == nil, "patterns without glob metacharacters are accepted")
	}
	if err != nil || ip == nil {
		vCover("rejected-glob")
		return
	}
	vCover("accepted")
	if m.negated {
		vCover("negated")
	}
	if m.trailing {
		vCover("directory-only")
	}
	if m.rooted {
		vCover("rooted")
	}
	if len(m.components) > 1 {
		vCover("contains-slash")
	}
	vAssert(ip.negated == m.negated, "negated exactly when the pattern starts with '!'")
	vAssert(ip.directoryOnly == m.trailing, "directory-only exactly when the pattern ends with a slash")
	vAssert(ip.matchLeaf == (!m.rooted && len(m.components) == 1), "leaf matching exactly for patterns with neither a leading nor an inner slash")
	want := ""
	for k, c := range m.components {
		if k > 0 {
			want += "/"
		}
		want += c
	}
	vAssert(ip.pattern == want, "the match pattern is the normalised pattern without '!', leading and trailing slash")
}

// ---------- (c) ----------

// verifC14Patterns is the restricted grammar sample: literals, '*', '?',
// '**', a character class, anchoring, inner slash, trailing slash.
var verifC14Patterns = []string{
	"a", "/a", "a/", "/a/", "a/b", "/a/b", "a/b/",
	"*", "a*", "*a", "?", "a?", "[ab]", "/*", "*/",
	"**", "**/a", "a/**", "a/**/b", "*/a", "a/*", "**/",
}

// verifC14Comp matches one path component against one pattern component
// (literal bytes, '*', '?', '[set]').
func verifC14Comp(p, s string) bool {
	if p == "" {
		return s == ""
	}
	switch p[0] {
	case '*':
		for k := 0; k <= len(s); k++ {
			if verifC14Comp(p[1:], s[k:]) {
				return true
			}
		}
		return false
	case '?':
		return s != "" && verifC14Comp(p[1:], s[1:])
	case '[':
		j := 1
		for p[j] != ']' {
			j++
		}
		if s == "" {
			return false
		}
		in := false
		for k := 1; k < j; k++ {
			if p[k] == s[0] {
				in = true
			}
		}
		return in && verifC14Comp(p[j+1:], s[1:])
	default:
		return s != "" && s[0] == p[0] && verifC14Comp(p[1:], s[1:])
	}
}

// verifC14Whole matches pattern components against path components; a "**"
// component spans zero or more directory levels.
func verifC14Whole(pc, nc []string) bool {
	if len(pc) == 0 {
		return len(nc) == 0
	}
	if pc[0] == "**" {
		for k := 0; k <= len(nc); k++ {
			if verifC14Whole(pc[1:], nc[k:]) {
				return true
			}
		}
		return false
	}
	return len(nc) > 0 && verifC14Comp(pc[0], nc[0]) && verifC14Whole(pc[1:], nc[1:])
}

func verifC14Split(s string) []string {
	var out []string
	start := 0
	for i := 0; i <= len(s); i++ {
		if i == len(s) || s[i] == '/' {
			out = append(out, s[start:i])
			start = i + 1
		}
	}
	return out
}

// verifC14Path generates a valid root-relative path (non-empty components, no
// leading/trailing slash) of 1..maxlen bytes over {a, b, c, '/'}.
func verifC14Path(maxlen int) string {
	n := vRange(1, maxlen)
	vLabel("path")
	path := vString(n)
	vLabel("")
	for i := 0; i < n; i++ {
		vAssume(vOr(path[i] == 'a', path[i] == 'b', path[i] == 'c', path[i] == '/'))
		if i > 0 {
			vAssume(!vAnd(path[i] == '/', path[i-1] == '/'))
		}
	}
	vAssume(path[0] != '/')
	vAssume(path[n-1] != '/')
	return path
}

func VerifC14Match() {
	text := verifC14Patterns[vChoose(len(verifC14Patterns))]
	vNote("pattern=" + text)
	ip, err := newIgnorePattern(text)
	vAssert(err == nil && ip != nil, "patterns of the restricted grammar are accepted")
	if err != nil || ip == nil {
		return
	}
	path := verifC14Path(vParam("maxpath", 4))
	vLabel("directory")
	directory := vBool()
	vLabel("")

	got := ip.matches(path, directory)

	// specification, from the pattern text
	m := verifC14Parse(text)
	nc := verifC14Split(path)
	want := false
	if m.rooted || len(m.components) > 1 {
		// anchored at the root
		want = verifC14Whole(m.components, nc)
		vCover("anchored")
	} else {
		// no slash: the final component anywhere (a lone "**" spans everything)
		want = verifC14Whole(m.components, nc[len(nc)-1:]) || verifC14Whole(m.components, nc)
		vCover("leaf")
	}
	if m.trailing && !directory {
		want = false
		vCover("directory-only on a non-directory")
	}
	if want {
		vCover("match")
	} else {
		vCover("no-match")
	}
	vAssert(got == want, "pattern matches exactly as the documented syntax says (anchoring, leaf matching, directory-only, '**')")
}

package rsync

import (
	"bytes"
)

// C19, weak-hash collisions.
//
// The real rolling weak hash is injective on blocks of 1 or 2 bytes and
// collides only from 3-byte blocks on, so at the sizes the other C19 harnesses
// can afford two DISTINCT base blocks (almost) never share a weak hash and the
// "several candidates per weak hash, the strong hash decides" part of Deltify
// is executed with one candidate only.  The property does not depend on the
// weak hash at all: every match is confirmed by the strong hash, so the delta
// must reconstruct the target, and an unchanged target must be sent without
// literal data, for ANY weak hash that is consistent between weakHash and
// rollWeakHash.  This entry therefore replaces the two weak-hash methods (and
// nothing else) by deliberately collision-rich, roll-consistent hashes:
//
//	kind 0: constant 0           - every window collides with every block
//	kind 1: byte sum mod 2^16    - a window collides with every permutation of
//	                               a block (and other equal-sum blocks)
//
// All of Signature, Deltify (table construction, candidate search, strong-hash
// confirmation, coalescing, short last block, chunking) and Patch is the real
// code.

// verifC19WeakKind selects the weak-hash model; set at the start of every path
// before the engine is used.
var verifC19WeakKind int

func verifC19WeakHash(e *Engine, data []byte, blockSize uint64) (uint32, uint32, uint32) {
	if verifC19WeakKind == 0 {
		return 0, 0, 0
	}
	var r1 uint32
	for _, b := range data {
		r1 += uint32(b)
	}
	r1 = r1 % m
	return r1, r1, 0
}

func verifC19RollWeakHash(e *Engine, r1, r2 uint32, out, in byte, blockSize uint64) (uint32, uint32, uint32) {
	if verifC19WeakKind == 0 {
		return 0, 0, 0
	}
	r1 = (r1 - uint32(out) + uint32(in)) % m
	return r1, r1, 0
}

var verifStubs_VerifC19WeakCollide = map[string]any{
	"(*github.com/mutagen-io/mutagen/pkg/synchronization/rsync.Engine).weakHash":     verifC19WeakHash,
	"(*github.com/mutagen-io/mutagen/pkg/synchronization/rsync.Engine).rollWeakHash": verifC19RollWeakHash,
}

// verifC19Collision: two full-size blocks of the base with the same weak hash
// and different contents (one term, no fork).
func verifC19Collision(sig *Signature) bool {
	full := len(sig.Hashes)
	if sig.LastBlockSize != sig.BlockSize {
		full--
	}
	var cs []bool
	for i := 0; i < full; i++ {
		for j := i + 1; j < full; j++ {
			cs = append(cs, vAnd(sig.Hashes[i].Weak == sig.Hashes[j].Weak,
				!bytes.Equal(sig.Hashes[i].Strong, sig.Hashes[j].Strong)))
		}
	}
	if len(cs) == 0 {
		return false
	}
	return vOr(cs...)
}

func VerifC19WeakCollide() {
	if vParam("wc_cvc5", 0) == 1 {
		verifPreferSolver("cvc5")
	}
	verifC19WeakKind = vChoose(vParam("wc_kinds", 2))
	limit := vRange(1, vParam("wc_maxop", 2))

	if vChoose(2) == 0 {
		// Shape "same": the target is the very same byte string as the base.
		n := vParam("wc_maxsame", 4)
		baseLen := vRange(0, n)
		bs := vRange(1, vParam("wc_maxbs_same", n))
		vLabel("base")
		base := vBytes(baseLen)
		vLabel("")
		target := append([]byte(nil), base...)

		e := verifNewEngine()
		sig := e.BytesSignature(base, uint64(bs))
		verifC19Signature(sig, baseLen, bs)
		var ops []verifOp
		err := e.Deltify(bytes.NewReader(target), sig, uint64(limit), func(o *Operation) error {
			vAssert(o.EnsureValid() == nil, "operation passes EnsureValid")
			ops = append(ops, verifCopyOp(o))
			return nil
		})
		vAssert(err == nil, "Deltify succeeds")
		nData, ok := verifOpsShape(ops, baseLen, bs, limit)
		vAssert(nData == 0, "unchanged target is sent without literal data (colliding weak hashes)")
		if !ok {
			return
		}
		vAssert(verifYields(base, bs, ops, target), "delta of an unchanged target reproduces it (colliding weak hashes)")
		if nData == 0 && verifC19Collision(sig) {
			if verifC19WeakKind == 0 {
				vCover("same-collision-const")
			} else {
				vCover("same-collision-sum")
			}
		}
		return
	}

	// Shape "any": independent base and target, full round trip through the
	// real Patch (verifC19Run carries every clause of the property).
	n := vParam("wc_maxlen", 3)
	baseLen := vRange(vParam("wc_minbase", 1), n)
	targetLen := vRange(0, n)
	bs := vRange(1, vParam("wc_maxbs", n))
	vLabel("base")
	base := vBytes(baseLen)
	vLabel("target")
	target := vBytes(targetLen)
	vLabel("")
	verifC19Run(base, target, bs, limit, false)
	if baseLen >= 2*bs {
		// witness (after all assertions, so the fork costs nothing): the base
		// has two different full blocks sharing a weak hash
		e := verifNewEngine()
		if verifC19Collision(e.BytesSignature(base, uint64(bs))) {
			vCover("any-collision")
		}
	}
}

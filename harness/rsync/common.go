package rsync

import (
	"bufio"
	"bytes"
	"errors"
	"io"
)

// Shared helpers of the rsync harnesses (C19, C20).

// verifPreferSolver asks the engine for a solver back end (engine intrinsic in
// engine/sx/intrinsics_rsync.go; a no-op when run natively).  The rsync
// harnesses ask for cvc5: z3's incremental mode answers "unknown" on the
// (infeasible) "repeatedly rolled weak hash collides although the bytes
// differ" branches at block size 2 with 4-byte targets.
func verifPreferSolver(name string) {}

// verifHashCap is the longest block the strong-hash model encodes injectively.
const verifHashCap = 8

// verifHash is the strong-hash model: Sum is an injective encoding of the
// bytes written since the last Reset (one length byte, then the bytes, zero
// padded to a fixed digest size).  Injective on inputs of at most verifHashCap
// bytes; longer inputs are reported instead of silently truncated.
type verifHash struct {
	buf []byte
}

func (h *verifHash) Write(p []byte) (int, error) {
	h.buf = append(h.buf, p...)
	return len(p), nil
}

func (h *verifHash) Sum(b []byte) []byte {
	if len(h.buf) > verifHashCap {
		vFail("strong hash model: block longer than the injective range")
	}
	b = append(b, byte(len(h.buf)))
	for i := 0; i < verifHashCap; i++ {
		if i < len(h.buf) {
			b = append(b, h.buf[i])
		} else {
			b = append(b, 0)
		}
	}
	return b
}

func (h *verifHash) Reset()         { h.buf = h.buf[:0] }
func (h *verifHash) Size() int      { return 1 + verifHashCap }
func (h *verifHash) BlockSize() int { return 64 }

// verifNewEngine mirrors NewEngine with the strong hasher replaced by the
// injective model (everything else, including the real strongHash method, the
// weak rolling hash and all buffering, is the code under test).
func verifNewEngine() *Engine {
	h := &verifHash{}
	return &Engine{
		strongHasher:     h,
		strongHashBuffer: make([]byte, h.Size()),
		targetReader:     bufio.NewReader(nil),
		operation:        &Operation{},
	}
}

// verifPlainReader hides ReadByte so that Deltify takes its bufio wrapping path.
type verifPlainReader struct {
	r io.Reader
}

func (p *verifPlainReader) Read(b []byte) (int, error) { return p.r.Read(b) }

// verifTargetReader wraps target bytes; wrap selects the non-ByteReader form.
func verifTargetReader(target []byte, wrap bool) io.Reader {
	if wrap {
		return &verifPlainReader{bytes.NewReader(target)}
	}
	return bytes.NewReader(target)
}

// verifOp is the harness' own copy of a delivered operation.
type verifOp struct {
	data  []byte
	start uint64
	count uint64
}

func verifCopyOp(o *Operation) verifOp {
	return verifOp{data: append([]byte(nil), o.Data...), start: o.Start, count: o.Count}
}

// verifBlocks is the number of blocks of a base of length n at block size bs.
func verifBlocks(n, bs int) int {
	return (n + bs - 1) / bs
}

// verifOpsShape checks every delivered operation against the property text:
// well formed (data XOR block range), block range inside the signature, data
// no longer than the limit.  It returns the number of data operations and
// whether every operation can be applied by verifReconstruct.
func verifOpsShape(ops []verifOp, baseLen, bs, limit int) (int, bool) {
	blocks := 0
	if baseLen > 0 {
		blocks = verifBlocks(baseLen, bs)
	}
	nData := 0
	ok := true
	for _, o := range ops {
		if len(o.data) > 0 {
			nData++
			vAssert(o.start == 0 && o.count == 0, "data operation carries no block range")
			vAssert(len(o.data) <= limit, "data operation within the size limit")
		} else {
			vAssert(o.count > 0, "block operation covers at least one block")
			in := o.start < uint64(blocks) && o.count <= uint64(blocks)-o.start
			vAssert(in, "block range lies within the signature")
			if !in {
				ok = false
			}
		}
	}
	return nData, ok
}

// verifReconstruct is the harness' own patch: literal data is appended, block
// i of the base is base[i*bs : min((i+1)*bs, len(base))].  ok is false when an
// operation names a block the base does not have.
func verifReconstruct(base []byte, bs int, ops []verifOp) (out []byte, ok bool) {
	for _, o := range ops {
		if len(o.data) > 0 {
			out = append(out, o.data...)
			continue
		}
		for k := uint64(0); k < o.count; k++ {
			i := o.start + k
			if bs <= 0 || i >= uint64(len(base)) || int(i)*bs >= len(base) {
				return nil, false
			}
			lo := int(i) * bs
			hi := lo + bs
			if hi > len(base) {
				hi = len(base)
			}
			out = append(out, base[lo:hi]...)
		}
	}
	return out, true
}

// verifYields: applying ops to base gives exactly target.
func verifYields(base []byte, bs int, ops []verifOp, target []byte) bool {
	out, ok := verifReconstruct(base, bs, ops)
	return ok && verifSame(out, target)
}

func verifSame(a, b []byte) bool {
	return len(a) == len(b) && bytes.Equal(a, b)
}

var verifErrTransport = errors.New("transport failure")

// verifFaults decides, call by call, whether a transmission fails.  At most
// one failure point is chosen per path (fork at every call until then); once
// it has failed it keeps failing when persistent, otherwise it recovers.
type verifFaults struct {
	enabled    bool
	failed     bool // some call returned an error
	persistent bool
	calls      int
	afterFail  int // calls made after the first failure
}

func (f *verifFaults) next() error {
	f.calls++
	if f.failed {
		f.afterFail++
		if f.persistent {
			return verifErrTransport
		}
		return nil
	}
	if !f.enabled {
		return nil
	}
	switch vChoose(3) {
	case 1:
		f.failed = true
		return verifErrTransport
	case 2:
		f.failed = true
		f.persistent = true
		return verifErrTransport
	}
	return nil
}

package rsync

import (
	"bytes"
)

// C19: Patch(base, Signature(base), Deltify(target, Signature(base))) == target
// for base/target of every length 0..maxlen with fully symbolic bytes, every
// block size 1..maxlen and every data-operation limit 1..maxop; operations
// well formed, in bounds and within the limit; unchanged target => no literal
// data.

func verifC19Signature(sig *Signature, baseLen, bs int) {
	vAssert(sig.EnsureValid() == nil, "signature passes EnsureValid")
	if baseLen == 0 {
		vAssert(sig.BlockSize == 0 && sig.LastBlockSize == 0 && len(sig.Hashes) == 0, "empty base has the empty signature")
		return
	}
	blocks := verifBlocks(baseLen, bs)
	vAssert(sig.BlockSize == uint64(bs), "signature block size")
	vAssert(len(sig.Hashes) == blocks, "signature has one hash per block")
	vAssert(sig.LastBlockSize == uint64(baseLen-(blocks-1)*bs), "signature last block size")
}

func verifC19Run(base, target []byte, bs, limit int, wrap bool) {
	e := verifNewEngine()
	sig := e.BytesSignature(base, uint64(bs))
	verifC19Signature(sig, len(base), bs)

	// Deltify with a transmitter that copies (the engine re-uses operation
	// objects and buffers) and validates each operation as it is delivered.
	var ops []verifOp
	var real []*Operation
	err := e.Deltify(verifTargetReader(target, wrap), sig, uint64(limit), func(o *Operation) error {
		vAssert(o.EnsureValid() == nil, "operation passes EnsureValid")
		c := verifCopyOp(o)
		ops = append(ops, c)
		real = append(real, &Operation{Data: c.data, Start: c.start, Count: c.count})
		return nil
	})
	vAssert(err == nil, "Deltify of in-memory data with a working transmitter succeeds")
	if err != nil {
		return
	}

	nData, ok := verifOpsShape(ops, len(base), bs, limit)
	if !ok {
		return
	}
	if nData > 0 {
		vCover("data-op")
	}
	if len(ops) > nData {
		vCover("block-op")
	}

	// own reconstruction
	vAssert(verifYields(base, bs, ops, target), "own application of the delta to the base yields the target")

	// the real Patch
	patched, perr := e.PatchBytes(base, sig, real)
	vAssert(perr == nil, "PatchBytes succeeds")
	if perr == nil {
		vAssert(verifSame(patched, target), "PatchBytes(base, signature, delta) yields the target")
	}

	// unchanged target: no literal data
	unchanged := len(base) == len(target) && bytes.Equal(base, target)
	vAssert(vOr(!unchanged, nData == 0), "unchanged target is sent without literal data")
}

func VerifC19RoundTrip() {
	verifPreferSolver("cvc5")
	n := vParam("maxlen", 3)
	maxop := vParam("maxop", 2)
	baseLen := vRange(vParam("minbase", 0), n)
	targetLen := vRange(vParam("mintarget", 0), n)
	bs := vRange(vParam("minbs", 1), vParam("maxbs", n))
	limit := vRange(vParam("minop", 1), maxop)
	wrap := false
	if vParam("wrap", 0) == 1 {
		wrap = vChoose(2) == 1
	}
	vLabel("base")
	base := vBytes(baseLen)
	vLabel("target")
	target := vBytes(targetLen)
	vLabel("")
	verifC19Run(base, target, bs, limit, wrap)
}

// VerifC19Unchanged: the target is the very same byte string as the base
// (concrete identity rather than a symbolic equality), every length up to a
// larger bound: only block operations, in order, covering the base once.
func VerifC19Unchanged() {
	verifPreferSolver("cvc5")
	n := vParam("maxlen_same", 6)
	baseLen := vRange(0, n)
	bs := vRange(1, n)
	limit := vRange(1, vParam("maxop", 2))
	base := vBytes(baseLen)
	target := append([]byte(nil), base...)

	e := verifNewEngine()
	sig := e.BytesSignature(base, uint64(bs))
	var ops []verifOp
	err := e.Deltify(bytes.NewReader(target), sig, uint64(limit), func(o *Operation) error {
		vAssert(o.EnsureValid() == nil, "operation passes EnsureValid")
		ops = append(ops, verifCopyOp(o))
		return nil
	})
	vAssert(err == nil, "Deltify succeeds")
	nData, ok := verifOpsShape(ops, baseLen, bs, limit)
	vAssert(nData == 0, "unchanged target is sent without literal data")
	if ok && nData == 0 {
		vCover("unchanged")
		vAssert(verifYields(base, bs, ops, target), "delta of an unchanged target reproduces it")
	}
}

// VerifC19Defaults: block size 0 and data-operation limit 0 select the
// documented defaults (optimal block size for the base length, 64 KiB limit).
func VerifC19Defaults() {
	verifPreferSolver("cvc5")
	n := vParam("maxlen_def", 3)
	base := vBytes(vRange(0, n))
	target := vBytes(vRange(0, n))
	e := verifNewEngine()
	sig := e.BytesSignature(base, 0)
	vAssert(sig.EnsureValid() == nil, "signature passes EnsureValid")
	bs := int(sig.BlockSize)
	if len(base) == 0 {
		vAssert(bs == 0 && len(sig.Hashes) == 0, "empty base has the empty signature")
		bs = 1
	} else {
		vAssert(bs >= len(base) && len(sig.Hashes) == 1 && sig.LastBlockSize == uint64(len(base)), "short base is one short block at the default block size")
	}
	var ops []verifOp
	err := e.Deltify(bytes.NewReader(target), sig, 0, func(o *Operation) error {
		vAssert(o.EnsureValid() == nil, "operation passes EnsureValid")
		ops = append(ops, verifCopyOp(o))
		return nil
	})
	vAssert(err == nil, "Deltify succeeds")
	nData, ok := verifOpsShape(ops, len(base), bs, DefaultMaximumDataOperationSize)
	if !ok {
		return
	}
	vCover("defaults")
	vAssert(verifYields(base, bs, ops, target), "own application of the delta to the base yields the target")
	unchanged := len(base) == len(target) && bytes.Equal(base, target)
	vAssert(vOr(!unchanged, nData == 0), "unchanged target is sent without literal data")
}

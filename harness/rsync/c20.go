package rsync

import (
	"errors"
	"hash"
	"io"

	"github.com/mutagen-io/mutagen/pkg/filesystem"
)

// C20: computing and sending a delta never reports success when sending one of
// its operations failed; whenever the sender reports success the receiver
// holds exactly the target.

// VerifC20Deltify drives Engine.Deltify with a transmitter that fails at an
// arbitrary call (once, or from then on).
func VerifC20Deltify() {
	verifPreferSolver("cvc5")
	n := vParam("maxlen", 3)
	baseLen := vRange(0, n)
	targetLen := vRange(0, n)
	bs := vRange(1, n)
	limit := vRange(1, vParam("maxop", 2))
	wrap := false
	if vParam("wrap", 0) == 1 {
		wrap = vChoose(2) == 1
	}
	vLabel("base")
	base := vBytes(baseLen)
	vLabel("target")
	target := vBytes(targetLen)
	vLabel("")

	e := verifNewEngine()
	sig := e.BytesSignature(base, uint64(bs))

	f := &verifFaults{enabled: true}
	var delivered []verifOp
	err := e.Deltify(verifTargetReader(target, wrap), sig, uint64(limit), func(o *Operation) error {
		if ferr := f.next(); ferr != nil {
			return ferr
		}
		delivered = append(delivered, verifCopyOp(o))
		return nil
	})

	if f.failed {
		vCover("transmit-failed")
		if f.persistent {
			vNote("transmitter failed at call " + verifItoa(f.calls-f.afterFail) + " and on every later call")
		} else {
			vNote("transmitter failed at call " + verifItoa(f.calls-f.afterFail) + " only")
		}
		vAssert(err != nil, "Deltify returns an error when a transmit call failed")
	} else {
		vCover("no-failure")
	}
	if err == nil {
		vAssert(verifYields(base, bs, delivered, target), "Deltify returned nil: the delivered operations reconstruct the target")
	}
}

func verifItoa(i int) string {
	if i == 0 {
		return "0"
	}
	s := ""
	for ; i > 0; i /= 10 {
		s = "0123456789"[i%10:i%10+1] + s
	}
	return s
}

// ---------------------------------------------------------------------------
// rsync.Transmit with a model file opener and a failing receiver.

// verifC20File is what the stubbed Opener.OpenFile hands out: an in-memory
// file that, like *os.File, offers Read/Seek/Close but no ReadByte.
type verifC20File struct {
	data   []byte
	pos    int
	closed int
}

func (f *verifC20File) Read(p []byte) (int, error) {
	if f.pos >= len(f.data) {
		return 0, io.EOF
	}
	n := copy(p, f.data[f.pos:])
	f.pos += n
	return n, nil
}

func (f *verifC20File) Seek(offset int64, whence int) (int64, error) {
	switch whence {
	case io.SeekCurrent:
		offset += int64(f.pos)
	case io.SeekEnd:
		offset += int64(len(f.data))
	}
	if offset < 0 {
		return 0, errors.New("negative position")
	}
	f.pos = int(offset)
	return offset, nil
}

func (f *verifC20File) Close() error {
	f.closed++
	return nil
}

// model file system of the Transmit harness: path -> content (nil entry =
// cannot be opened).
var verifC20FS map[string]*verifC20File

func verifC20OpenFile(o *filesystem.Opener, path string) (io.ReadSeekCloser, *filesystem.Metadata, error) {
	f := verifC20FS[path]
	if f == nil {
		return nil, nil, errors.New("file cannot be opened")
	}
	return f, &filesystem.Metadata{Name: path, Size: uint64(len(f.data))}, nil
}

func verifC20OpenerClose(o *filesystem.Opener) error { return nil }

func verifC20NewHash() hash.Hash { return &verifHash{} }

var verifStubs_VerifC20Transmit = map[string]any{
	"(*github.com/mutagen-io/mutagen/pkg/filesystem.Opener).OpenFile": verifC20OpenFile,
	"(*github.com/mutagen-io/mutagen/pkg/filesystem.Opener).Close":    verifC20OpenerClose,
	"crypto/sha1.New": verifC20NewHash,
}

// verifC20Receiver records what it accepted, file by file, and fails at an
// arbitrary Receive (once or from then on) or at finalize.
type verifC20Receiver struct {
	f         verifFaults
	ops       [][]verifOp
	done      []bool
	errText   []string
	cur       int
	finalized int
	overflow  bool
}

func (r *verifC20Receiver) Receive(t *Transmission) error {
	if err := r.f.next(); err != nil {
		return err
	}
	if r.cur >= len(r.ops) {
		r.overflow = true
		return nil
	}
	if t.Done {
		r.done[r.cur] = true
		r.errText[r.cur] = t.Error
		r.cur++
	} else if t.Operation != nil {
		r.ops[r.cur] = append(r.ops[r.cur], verifCopyOp(t.Operation))
	}
	return nil
}

func (r *verifC20Receiver) finalize() error {
	r.finalized++
	if r.finalized == 1 && !r.f.failed && r.f.enabled && vChoose(2) == 1 {
		r.f.failed = true
		r.f.persistent = true
		return verifErrTransport
	}
	if r.f.failed && r.f.persistent {
		return verifErrTransport
	}
	return nil
}

func VerifC20Transmit() {
	verifPreferSolver("cvc5")
	n := vParam("tlen", 2)
	nfiles := vRange(1, vParam("tfiles", 1))
	verifC20FS = make(map[string]*verifC20File)
	paths := make([]string, nfiles)
	bases := make([][]byte, nfiles)
	targets := make([][]byte, nfiles)
	sizes := make([]int, nfiles)
	openable := make([]bool, nfiles)
	sigs := make([]*Signature, nfiles)
	sigEngine := verifNewEngine()
	for i := 0; i < nfiles; i++ {
		paths[i] = "f" + verifItoa(i)
		sizes[i] = vRange(1, n)
		vLabel("base of " + paths[i])
		bases[i] = vBytes(vRange(0, n))
		sigs[i] = sigEngine.BytesSignature(bases[i], uint64(sizes[i]))
		openable[i] = vParam("openfail", 0) == 0 || vChoose(2) == 0
		if openable[i] {
			vLabel("content of " + paths[i])
			targets[i] = vBytes(vRange(0, n))
			vLabel("")
			verifC20FS[paths[i]] = &verifC20File{data: targets[i]}
		}
	}
	r := &verifC20Receiver{
		f:       verifFaults{enabled: true},
		ops:     make([][]verifOp, nfiles),
		done:    make([]bool, nfiles),
		errText: make([]string, nfiles),
	}

	err := Transmit("/root", paths, sigs, r)

	if r.f.failed {
		vCover("receive-failed")
		if r.f.calls == 0 || r.f.calls == r.f.afterFail {
			vNote("finalize failed")
		} else if r.f.persistent {
			vNote("receiver failed at Receive call " + verifItoa(r.f.calls-r.f.afterFail) + " and on every later call")
		} else {
			vNote("receiver failed at Receive call " + verifItoa(r.f.calls-r.f.afterFail) + " only")
		}
		vAssert(err != nil, "Transmit returns an error when the receiver failed")
	} else {
		vCover("no-failure")
	}
	if err == nil {
		vAssert(!r.overflow && r.cur == nfiles, "Transmit returned nil: every file's stream was completed")
		for i := 0; i < nfiles && i < r.cur; i++ {
			if !openable[i] {
				vAssert(r.errText[i] != "" && len(r.ops[i]) == 0, "unopenable file is reported to the receiver")
				continue
			}
			// the receiver either was told that this file failed or holds the target
			if r.errText[i] == "" {
				vAssert(verifYields(bases[i], sizes[i], r.ops[i], targets[i]), "Transmit returned nil: the receiver reconstructs the target")
			}
		}
	}
}

package fastpath

// C40: fastpath.Less is the depth-first traversal order (siblings in
// lexicographical order) on root-relative paths.

// verifC40Path generates a valid root-relative path of 0..maxlen bytes over
// {'-', '/', 'a', 'b'} ('-' sorts before '/'): no empty component, no leading
// or trailing slash.  The empty path is the root.
func verifC40Path(maxlen int, label string) string {
	n := vRange(0, maxlen)
	vLabel(label)
	p := vString(n)
	vLabel("")
	for i := 0; i < n; i++ {
		vAssume(vOr(p[i] == '-', p[i] == '/', p[i] == 'a', p[i] == 'b'))
		if i > 0 {
			vAssume(!vAnd(p[i] == '/', p[i-1] == '/'))
		}
	}
	if n > 0 {
		vAssume(p[0] != '/')
		vAssume(p[n-1] != '/')
	}
	return p
}

func verifC40Split(p string) []string {
	if p == "" {
		return nil
	}
	var out []string
	start := 0
	for i := 0; i <= len(p); i++ {
		if i == len(p) || p[i] == '/' {
			out = append(out, p[start:i])
			start = i + 1
		}
	}
	return out
}

// verifC40Before: own component-wise comparison - the first differing
// component decides (lexicographically); a proper prefix (ancestor) comes first.
func verifC40Before(p, q string) bool {
	a, b := verifC40Split(p), verifC40Split(q)
	for i := 0; i < len(a) && i < len(b); i++ {
		if a[i] < b[i] {
			return true
		}
		if b[i] < a[i] {
			return false
		}
	}
	return len(a) < len(b)
}

func VerifC40Less() {
	maxlen := vParam("maxlen", 5)
	p := verifC40Path(maxlen, "first")
	q := verifC40Path(maxlen, "second")
	pq, qp := Less(p, q), Less(q, p)
	vCover("compared")
	vAssert(!Less(p, p), "irreflexive")
	vAssert(!(pq && qp), "asymmetric")
	if p != q {
		vAssert(pq || qp, "total on distinct paths")
	} else {
		vAssert(!pq && !qp, "equal paths are not ordered")
	}
	want := verifC40Before(p, q)
	if want {
		vCover("before")
	}
	vAssert(pq == want, "agrees with the component-wise depth-first order")
}

// VerifC40Parent: a directory sorts before everything beneath it, and the
// whole sub-tree of a directory sorts before the directory's later siblings.
func VerifC40Parent() {
	maxlen := vParam("maxlen", 5)
	p := verifC40Path(maxlen-2, "parent")
	rest := verifC40Path(maxlen-len(p)-1, "below")
	vAssume(rest != "")
	child := rest
	if p != "" {
		child = p + "/" + rest
	}
	vCover("parent-child")
	vAssert(Less(p, child), "parent sorts before its descendant")
	vAssert(!Less(child, p), "descendant does not sort before its ancestor")
	// a later sibling of p (same parent directory, greater name) comes after p's descendants
	if p != "" {
		s := verifC40Path(maxlen, "sibling")
		if Dir(p) == dirOrRoot(s) && s != "" && Less(p, s) && !hasPrefix(s, p+"/") {
			vCover("later sibling")
			vAssert(Less(child, s), "a directory's whole sub-tree sorts before the directory's later siblings")
		}
	}
}

func dirOrRoot(s string) string {
	if s == "" {
		return "\x00none"
	}
	return Dir(s)
}

func hasPrefix(s, prefix string) bool {
	return len(s) >= len(prefix) && s[:len(prefix)] == prefix
}

func VerifC40Transitive() {
	maxlen := vParam("maxlen3", 3)
	p := verifC40Path(maxlen, "first")
	q := verifC40Path(maxlen, "second")
	r := verifC40Path(maxlen, "third")
	if Less(p, q) && Less(q, r) {
		vCover("chain")
		vAssert(Less(p, r), "transitive")
	}
}

package local

import (
	"context"
	"hash"
	"time"

	"github.com/mutagen-io/mutagen/pkg/filesystem"
	"github.com/mutagen-io/mutagen/pkg/filesystem/behavior"
	"github.com/mutagen-io/mutagen/pkg/logging"
	"github.com/mutagen-io/mutagen/pkg/state"
	"github.com/mutagen-io/mutagen/pkg/synchronization/core"
	"github.com/mutagen-io/mutagen/pkg/synchronization/core/ignore"
)

// C42: the real (*endpoint).watchPoll loop driven as a plain function, with the
// controller's calls (Scan, Transition) and external edits interleaved at the
// point where the loop has received a tick and does not yet hold the scan lock.
//
//   - time.NewTicker        -> a ticker whose channel is pre-loaded with the
//                              scripted number of ticks;
//   - the loop's context    -> a harness context whose Done channel is closed by
//                              the core.Scan model when the scripted number of
//                              polling scans has been made;
//   - (*logging.Logger).Debug -> hook: the message "Received timer-based polling
//                              signal" marks the end of one polling interval; the
//                              harness checks the interval that just ended and
//                              then plays the controller / the user;
//   - state.NewCoalescer / (*Coalescer).Strobe / Terminate -> recorder;
//   - core.Scan             -> snapshot of the model disk (one file whose digest
//                              is a symbolic byte), tagged with the number of
//                              disk-changing transitions completed so far;
//   - core.Transition       -> applies the change to the model disk or not.
//
// The model disk is either one file with one byte of content or a directory
// with up to two child files "a" and "b" (one byte of content each); the
// structure is concrete, the bytes are symbolic.  The controller's belief is
// the content it was last told (snapshot returned by Scan, result of
// Transition).  A transition of a directory replaces it by a file; it may be
// applied completely, not at all, or PARTLY: some children are removed and the
// directory survives, so the result is a sub-tree of Old that differs from Old
// only below the top level.

// verifC42Disk: dir, a, b are always concrete; content, ca, cb symbolic.
type verifC42Disk struct {
	dir     bool
	content byte // file content (when !dir)
	a, b    bool // children present (when dir)
	ca, cb  byte // children contents
}

// verifC42Same is the model's own comparison of two disk states (one term).
func verifC42Same(x, y verifC42Disk) bool {
	if x.dir != y.dir {
		return false
	}
	if !x.dir {
		return x.content == y.content
	}
	if x.a != y.a || x.b != y.b {
		return false
	}
	r := true
	if x.a {
		r = vAnd(r, x.ca == y.ca)
	}
	if x.b {
		r = vAnd(r, x.cb == y.cb)
	}
	return r
}

func verifC42Entry(d verifC42Disk) *core.Entry {
	if !d.dir {
		return verifC42Content(d.content)
	}
	contents := make(map[string]*core.Entry)
	if d.a {
		contents["a"] = verifC42Content(d.ca)
	}
	if d.b {
		contents["b"] = verifC42Content(d.cb)
	}
	return &core.Entry{Kind: core.EntryKind_Directory, Contents: contents}
}

type verifC42Ctx struct{ done chan struct{} }

func (c *verifC42Ctx) Deadline() (time.Time, bool) { return time.Time{}, false }
func (c *verifC42Ctx) Done() <-chan struct{}       { return c.done }
func (c *verifC42Ctx) Err() error                  { return context.Canceled }
func (c *verifC42Ctx) Value(key any) any           { return nil }

type verifC42Tag struct {
	snapshot *core.Snapshot
	content  verifC42Disk
	version  int
}

type verifC42World struct {
	e   *endpoint
	ctx *verifC42Ctx

	disk    verifC42Disk // content on disk now
	version int          // number of disk-changing transitions completed

	// the disk before the last disk-changing transition of a directory (for
	// external reversals of structural changes)
	prev      verifC42Disk
	prevValid bool
	planned   verifC42Disk // New of the transition being made

	tags []verifC42Tag

	// polling loop script
	totalPollScans int
	pollScans      int
	pollFailures   int
	ticks          chan time.Time

	// the polling iteration that ran last
	iterations      int // iterations whose scan has been made
	checked         int // iterations already judged
	lastPollOK      bool
	lastPollContent verifC42Disk

	// controller
	haveBelief bool
	belief     verifC42Disk
	pending    bool // pollSignal strobed since the belief was last refreshed
	strobes    int
	maxOps     int
	midScans   int // emulated polling scans in the middle of a transition
	midScanned bool
}

var verifC42 *verifC42World

func (w *verifC42World) tag(s *core.Snapshot) {
	w.tags = append(w.tags, verifC42Tag{s, w.disk, w.version})
}

func (w *verifC42World) lookup(s *core.Snapshot) (verifC42Tag, bool) {
	for _, t := range w.tags {
		if t.snapshot == s {
			return t, true
		}
	}
	return verifC42Tag{}, false
}

func verifC42Content(b byte) *core.Entry {
	return &core.Entry{Kind: core.EntryKind_File, Digest: verifC41Digest(b)}
}

// ---------- environment ----------

func verifC42CoreScan(
	ctx context.Context,
	root string,
	baseline *core.Snapshot, recheckPaths map[string]bool,
	hasher hash.Hash, cache *core.Cache,
	ignorer ignore.Ignorer, ignoreCache ignore.IgnoreCache,
	probeMode behavior.ProbeMode,
	symbolicLinkMode core.SymbolicLinkMode,
	permissionsMode core.PermissionsMode,
) (*core.Snapshot, *core.Cache, ignore.IgnoreCache, error) {
	w := verifC42
	if _, poll := ctx.(*verifC42Ctx); poll {
		w.pollScans++
		w.iterations++
		if w.pollScans == w.totalPollScans {
			// the loop terminates at its next wait
			close(w.ctx.done)
		}
		if w.pollFailures > 0 {
			vLabel("polling scan fails (concurrent modification)")
			fails := vBool()
			vLabel("")
			if fails {
				w.pollFailures--
				w.lastPollOK = false
				vCover("polling scan failed")
				return nil, nil, nil, verifC41ErrFault
			}
		}
		w.lastPollOK = true
		w.lastPollContent = w.disk
	}
	s := &core.Snapshot{Content: verifC42Entry(w.disk)}
	w.tag(s)
	return s, &core.Cache{}, nil, nil
}

func verifC42CoreTransition(
	ctx context.Context,
	root string,
	transitions []*core.Change,
	cache *core.Cache,
	symbolicLinkMode core.SymbolicLinkMode,
	defaultFileMode filesystem.Mode,
	defaultDirectoryMode filesystem.Mode,
	defaultOwnership *filesystem.OwnershipSpecification,
	recomposeUnicode bool,
	provider core.Provider,
) ([]*core.Entry, []*core.Problem, bool) {
	w := verifC42
	e := w.e
	vAssert(len(e.scanLock) == 1, "the scan lock is released while the transition is applied")
	// A polling iteration may run while the transition is being applied (the
	// scan lock is free): it sees the disk before the change is complete.
	if w.midScans > 0 {
		vLabel("a polling scan runs while the transition is applied")
		mid := vBool()
		vLabel("")
		if mid {
			w.midScans--
			w.midScanned = true
			vCover("polling scan in the middle of a transition")
			e.lockScanLock(context.Background())
			e.accelerate = false
			if err := e.scan(context.Background(), nil, nil); err == nil {
				e.accelerate = e.accelerationAllowed
			}
			e.unlockScanLock()
		}
	}
	results := make([]*core.Entry, len(transitions))
	for t, transition := range transitions {
		results[t] = transition.Old
	}
	if len(transitions) != 1 || w.disk.dir != w.belief.dir {
		// what is on disk is not the kind of thing the controller wants to
		// replace: the just-in-time checks refuse the change
		vCover("transition changed nothing")
		return results, nil, false
	}
	old := w.belief
	// outcome: 0 nothing, 1 complete, 2 one child removed and the directory
	// survives, 3 every child removed and the directory survives
	outcomes := 2
	if old.dir && (old.a || old.b) {
		outcomes = 3
		if old.a && old.b {
			outcomes = 4
		}
	}
	vLabel("the transition is applied")
	outcome := 0
	if outcomes == 2 {
		if vBool() {
			outcome = 1
		}
	} else {
		outcome = vChoose(outcomes)
	}
	vLabel("")
	if outcome == 0 {
		vCover("transition changed nothing")
		return results, nil, false
	}
	if w.disk.dir {
		w.prev, w.prevValid = w.disk, true
	} else {
		w.prevValid = false
	}
	if outcome == 1 {
		vCover("transition changed the disk")
		if old.dir {
			vNote("the transition replaces the directory completely")
		}
		w.disk = w.planned
		w.belief = w.planned
		results[0] = transitions[0].New
	} else {
		// Part of the directory is removed, the directory itself stays (it
		// holds content the scan did not know, or a child was modified): the
		// result is Old without the removed children.
		vCover("directory removal partly applied: the result is a sub-tree of Old")
		if outcome == 3 {
			vNote("the transition removes every child but not the directory")
		} else {
			vNote("the transition removes one child and leaves the rest of the directory")
		}
		remaining := old
		if outcome == 3 {
			remaining.a, remaining.b = false, false
		} else if remaining.b {
			remaining.b = false
		} else {
			remaining.a = false
		}
		w.disk.a = w.disk.a && remaining.a
		w.disk.b = w.disk.b && remaining.b
		w.belief = remaining
		results[0] = verifC42Entry(remaining)
	}
	w.version++
	w.pending = false
	return results, nil, false
}

func verifC42NewTicker(d time.Duration) *time.Ticker {
	w := verifC42
	vAssert(d == time.Second, "the ticker runs at the polling interval")
	return &time.Ticker{C: w.ticks}
}

func verifC42TickerStop(t *time.Ticker) {}

func verifC42NewCoalescer(window time.Duration) *state.Coalescer { return &state.Coalescer{} }

func verifC42Strobe(c *state.Coalescer) {
	w := verifC42
	if c == w.e.pollSignal {
		w.strobes++
		w.pending = true
	}
}

func verifC42Terminate(c *state.Coalescer) {}

// judge the polling iteration that has just completed
func (w *verifC42World) judge() {
	if w.checked == w.iterations {
		return
	}
	w.checked = w.iterations
	if !w.lastPollOK {
		return
	}
	if w.iterations == 1 {
		// the controller does not wait for a notification in its first cycle
		return
	}
	if !w.haveBelief {
		return
	}
	if w.midScanned {
		// The scan emulated in the middle of a transition is not a complete
		// polling iteration (it does not compare and notify), so notifications
		// are not judged on these paths; the stale-snapshot assertion is.
		vCover("notification not judged after an emulated mid-transition scan")
		return
	}
	vCover("polling interval judged")
	if !w.pending {
		vAssert(verifC42Same(w.lastPollContent, w.belief), "at the end of a polling interval the controller either knows the disk content or a change notification is pending")
	} else {
		vCover("notification pending")
	}
}

func (w *verifC42World) controllerScan() {
	e := w.e
	vLabel("full scan requested")
	full := vBool()
	vLabel("")
	snapshot, err, _ := e.Scan(context.Background(), nil, full)
	vAssert(len(e.scanLock) == 1, "the scan lock is released when Scan returns")
	if err != nil || snapshot == nil {
		vFail("Scan fails although reading the root succeeds")
		return
	}
	t, ok := w.lookup(snapshot)
	if !ok {
		vFail("Scan returns a snapshot that no scan of the root produced")
		return
	}
	vAssert(t.version == w.version, "a scan after a transition that changed the disk never returns a snapshot from before that transition")
	if !verifC42Same(t.content, w.disk) {
		vCover("scan served a snapshot older than an external edit")
	} else {
		vCover("scan served the current content")
	}
	w.haveBelief = true
	w.belief = t.content
	w.pending = false
}

func (w *verifC42World) controllerTransition() {
	e := w.e
	vLabel("content the transition writes")
	nb := vU8()
	vLabel("")
	if w.belief.dir {
		// a directory is replaced by a file
		vCover("transition of a directory")
	} else {
		vAssume(nb != w.belief.content)
	}
	w.planned = verifC42Disk{content: nb}
	change := &core.Change{Path: "", Old: verifC42Entry(w.belief), New: verifC42Entry(w.planned)}
	_, _, _, err := e.Transition(context.Background(), []*core.Change{change})
	vAssert(len(e.scanLock) == 1, "the scan lock is released when Transition returns")
	if err != nil {
		vCover("transition refused (no scan since the last one)")
	}
}

func (w *verifC42World) controller() {
	for op := 0; op < w.maxOps; op++ {
		choices := 4
		if w.prevValid {
			choices = 5
		}
		switch vChoose(choices) {
		case 0:
			return
		case 1:
			vNote("Scan")
			w.controllerScan()
		case 2:
			if !w.haveBelief {
				return
			}
			vNote("Transition")
			w.controllerTransition()
		case 3:
			vNote("external edit")
			vLabel("content after the external edit")
			if w.disk.dir {
				w.disk.ca, w.disk.cb = vU8(), vU8()
			} else {
				w.disk.content = vU8()
			}
			vLabel("")
			vCover("external edit")
		case 4:
			// the user puts back what the last transition of a directory removed
			vNote("external reversal")
			w.disk = w.prev
			w.prevValid = false
			vCover("external reversal of a directory transition")
		}
	}
}

func verifC42Debug(l *logging.Logger, v ...any) {
	if len(v) != 1 {
		return
	}
	s, ok := v[0].(string)
	if !ok || s != "Received timer-based polling signal" {
		return
	}
	w := verifC42
	vNote("tick")
	w.judge()
	w.controller()
}

var verifStubs_VerifC42 = map[string]any{
	"github.com/mutagen-io/mutagen/pkg/synchronization/core.Scan":       verifC42CoreScan,
	"github.com/mutagen-io/mutagen/pkg/synchronization/core.Transition": verifC42CoreTransition,
	"time.NewTicker":        verifC42NewTicker,
	"(*time.Ticker).Stop":   verifC42TickerStop,
	"github.com/mutagen-io/mutagen/pkg/state.NewCoalescer":           verifC42NewCoalescer,
	"(*github.com/mutagen-io/mutagen/pkg/state.Coalescer).Strobe":    verifC42Strobe,
	"(*github.com/mutagen-io/mutagen/pkg/state.Coalescer).Terminate": verifC42Terminate,
	"(*github.com/mutagen-io/mutagen/pkg/logging.Logger).Debug":      verifC42Debug,
}

func VerifC42() {
	w := &verifC42World{}
	verifC42 = w
	ticks := vParam("ticks", 1)
	w.totalPollScans = ticks + 1
	w.maxOps = vParam("ops", 3)
	w.pollFailures = vParam("pollfailures", 0)
	w.midScans = vParam("midscans", 1)
	w.ticks = make(chan time.Time, ticks+1)
	for k := 0; k < ticks; k++ {
		w.ticks <- time.Time{}
	}
	w.ctx = &verifC42Ctx{done: make(chan struct{})}

	vLabel("initial content")
	if vChoose(2) == 1 {
		vCover("directory on the model disk")
		vNote("the root is a directory with children a and b")
		w.disk = verifC42Disk{dir: true, a: true, b: true, ca: vU8(), cb: vU8()}
		w.maxOps = vParam("dirops", 2)
	} else {
		w.disk = verifC42Disk{content: vU8()}
	}
	vLabel("scan acceleration allowed")
	allowed := vBool()
	vLabel("")

	scanLock := make(chan struct{}, 1)
	scanLock <- struct{}{}
	e := &endpoint{
		root:                         "/root",
		maximumEntryCount:            ^uint64(0),
		watchMode:                    reifiedWatchModePoll,
		accelerationAllowed:          allowed,
		saveCacheSignal:              make(chan struct{}, 1),
		recursiveWatchRetryEstablish: make(chan struct{}),
		pollSignal:                   &state.Coalescer{},
		scanLock:                     scanLock,
		cache:                        &core.Cache{},
		stager:                       &verifC41Stager{&verifC41World{}},
	}
	w.e = e

	// The controller's first cycle scans without waiting for a notification.
	if vBool() {
		vNote("Scan")
		w.controllerScan()
	}

	e.watchPoll(w.ctx, 1, false)

	vAssert(w.pollScans == w.totalPollScans, "every tick leads to a polling scan")
	w.judge()
	vAssert(len(e.scanLock) == 1, "the scan lock is free when the polling loop has ended")
	vAssert(!e.accelerate, "acceleration is disabled when polling has ended")
	vCover("polling loop ended")
}

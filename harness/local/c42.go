package local

import (
	"context"
	"hash"
	"time"

	"github.com/mutagen-io/mutagen/pkg/filesystem"
	"github.com/mutagen-io/mutagen/pkg/filesystem/behavior"
	"github.com/mutagen-io/mutagen/pkg/logging"
	"github.com/mutagen-io/mutagen/pkg/state"
	"github.com/mutagen-io/mutagen/pkg/synchronization/core"
	"github.com/mutagen-io/mutagen/pkg/synchronization/core/ignore"
)

// C42: the real (*endpoint).watchPoll loop driven as a plain function, with the
// controller's calls (Scan, Transition) and external edits interleaved at the
// point where the loop has received a tick and does not yet hold the scan lock.
//
//   - time.NewTicker        -> a ticker whose channel is pre-loaded with the
//                              scripted number of ticks;
//   - the loop's context    -> a harness context whose Done channel is closed by
//                              the core.Scan model when the scripted number of
//                              polling scans has been made;
//   - (*logging.Logger).Debug -> hook: the message "Received timer-based polling
//                              signal" marks the end of one polling interval; the
//                              harness checks the interval that just ended and
//                              then plays the controller / the user;
//   - state.NewCoalescer / (*Coalescer).Strobe / Terminate -> recorder;
//   - core.Scan             -> snapshot of the model disk (one file whose digest
//                              is a symbolic byte), tagged with the number of
//                              disk-changing transitions completed so far;
//   - core.Transition       -> applies the change to the model disk or not.
//
// The model disk is one byte of content.  The controller's belief is the
// content it was last told (snapshot returned by Scan, result of Transition).

type verifC42Ctx struct{ done chan struct{} }

func (c *verifC42Ctx) Deadline() (time.Time, bool) { return time.Time{}, false }
func (c *verifC42Ctx) Done() <-chan struct{}       { return c.done }
func (c *verifC42Ctx) Err() error                  { return context.Canceled }
func (c *verifC42Ctx) Value(key any) any           { return nil }

type verifC42Tag struct {
	snapshot *core.Snapshot
	content  byte
	version  int
}

type verifC42World struct {
	e   *endpoint
	ctx *verifC42Ctx

	disk    byte // content on disk now
	version int  // number of disk-changing transitions completed

	tags []verifC42Tag

	// polling loop script
	totalPollScans int
	pollScans      int
	pollFailures   int
	ticks          chan time.Time

	// the polling iteration that ran last
	iterations      int // iterations whose scan has been made
	checked         int // iterations already judged
	lastPollOK      bool
	lastPollContent byte

	// controller
	haveBelief bool
	belief     byte
	pending    bool // pollSignal strobed since the belief was last refreshed
	strobes    int
	maxOps     int
	midScans   int // emulated polling scans in the middle of a transition
	midScanned bool
}

var verifC42 *verifC42World

func (w *verifC42World) tag(s *core.Snapshot) {
	w.tags = append(w.tags, verifC42Tag{s, w.disk, w.version})
}

func (w *verifC42World) lookup(s *core.Snapshot) (verifC42Tag, bool) {
	for _, t := range w.tags {
		if t.snapshot == s {
			return t, true
		}
	}
	return verifC42Tag{}, false
}

func verifC42Content(b byte) *core.Entry {
	return &core.Entry{Kind: core.EntryKind_File, Digest: verifC41Digest(b)}
}

// ---------- environment ----------

func verifC42CoreScan(
	ctx context.Context,
	root string,
	baseline *core.Snapshot, recheckPaths map[string]bool,
	hasher hash.Hash, cache *core.Cache,
	ignorer ignore.Ignorer, ignoreCache ignore.IgnoreCache,
	probeMode behavior.ProbeMode,
	symbolicLinkMode core.SymbolicLinkMode,
	permissionsMode core.PermissionsMode,
) (*core.Snapshot, *core.Cache, ignore.IgnoreCache, error) {
	w := verifC42
	if _, poll := ctx.(*verifC42Ctx); poll {
		w.pollScans++
		w.iterations++
		if w.pollScans == w.totalPollScans {
			// the loop terminates at its next wait
			close(w.ctx.done)
		}
		if w.pollFailures > 0 {
			vLabel("polling scan fails (concurrent modification)")
			fails := vBool()
			vLabel("")
			if fails {
				w.pollFailures--
				w.lastPollOK = false
				vCover("polling scan failed")
				return nil, nil, nil, verifC41ErrFault
			}
		}
		w.lastPollOK = true
		w.lastPollContent = w.disk
	}
	s := &core.Snapshot{Content: verifC42Content(w.disk)}
	w.tag(s)
	return s, &core.Cache{}, nil, nil
}

func verifC42CoreTransition(
	ctx context.Context,
	root string,
	transitions []*core.Change,
	cache *core.Cache,
	symbolicLinkMode core.SymbolicLinkMode,
	defaultFileMode filesystem.Mode,
	defaultDirectoryMode filesystem.Mode,
	defaultOwnership *filesystem.OwnershipSpecification,
	recomposeUnicode bool,
	provider core.Provider,
) ([]*core.Entry, []*core.Problem, bool) {
	w := verifC42
	e := w.e
	vAssert(len(e.scanLock) == 1, "the scan lock is released while the transition is applied")
	// A polling iteration may run while the transition is being applied (the
	// scan lock is free): it sees the disk before the change is complete.
	if w.midScans > 0 {
		vLabel("a polling scan runs while the transition is applied")
		mid := vBool()
		vLabel("")
		if mid {
			w.midScans--
			w.midScanned = true
			vCover("polling scan in the middle of a transition")
			e.lockScanLock(context.Background())
			e.accelerate = false
			if err := e.scan(context.Background(), nil, nil); err == nil {
				e.accelerate = e.accelerationAllowed
			}
			e.unlockScanLock()
		}
	}
	results := make([]*core.Entry, len(transitions))
	for t, transition := range transitions {
		results[t] = transition.Old
	}
	vLabel("the transition is applied")
	applied := vBool()
	vLabel("")
	if applied && len(transitions) == 1 {
		vCover("transition changed the disk")
		w.disk = transitions[0].New.Digest[0]
		w.version++
		w.belief = w.disk
		w.pending = false
		results[0] = transitions[0].New
	} else {
		vCover("transition changed nothing")
	}
	return results, nil, false
}

func verifC42NewTicker(d time.Duration) *time.Ticker {
	w := verifC42
	vAssert(d == time.Second, "the ticker runs at the polling interval")
	return &time.Ticker{C: w.ticks}
}

func verifC42TickerStop(t *time.Ticker) {}

func verifC42NewCoalescer(window time.Duration) *state.Coalescer { return &state.Coalescer{} }

func verifC42Strobe(c *state.Coalescer) {
	w := verifC42
	if c == w.e.pollSignal {
		w.strobes++
		w.pending = true
	}
}

func verifC42Terminate(c *state.Coalescer) {}

// judge the polling iteration that has just completed
func (w *verifC42World) judge() {
	if w.checked == w.iterations {
		return
	}
	w.checked = w.iterations
	if !w.lastPollOK {
		return
	}
	if w.iterations == 1 {
		// the controller does not wait for a notification in its first cycle
		return
	}
	if !w.haveBelief {
		return
	}
	if w.midScanned {
		// The scan emulated in the middle of a transition is not a complete
		// polling iteration (it does not compare and notify), so notifications
		// are not judged on these paths; the stale-snapshot assertion is.
		vCover("notification not judged after an emulated mid-transition scan")
		return
	}
	vCover("polling interval judged")
	if !w.pending {
		vAssert(w.lastPollContent == w.belief, "at the end of a polling interval the controller either knows the disk content or a change notification is pending")
	} else {
		vCover("notification pending")
	}
}

func (w *verifC42World) controllerScan() {
	e := w.e
	vLabel("full scan requested")
	full := vBool()
	vLabel("")
	snapshot, err, _ := e.Scan(context.Background(), nil, full)
	vAssert(len(e.scanLock) == 1, "the scan lock is released when Scan returns")
	if err != nil || snapshot == nil {
		vFail("Scan fails although reading the root succeeds")
		return
	}
	t, ok := w.lookup(snapshot)
	if !ok {
		vFail("Scan returns a snapshot that no scan of the root produced")
		return
	}
	vAssert(t.version == w.version, "a scan after a transition that changed the disk never returns a snapshot from before that transition")
	if t.content != w.disk {
		vCover("scan served a snapshot older than an external edit")
	} else {
		vCover("scan served the current content")
	}
	w.haveBelief = true
	w.belief = t.content
	w.pending = false
}

func (w *verifC42World) controllerTransition() {
	e := w.e
	vLabel("content the transition writes")
	nb := vU8()
	vLabel("")
	vAssume(nb != w.belief)
	change := &core.Change{Path: "", Old: verifC42Content(w.belief), New: verifC42Content(nb)}
	_, _, _, err := e.Transition(context.Background(), []*core.Change{change})
	vAssert(len(e.scanLock) == 1, "the scan lock is released when Transition returns")
	if err != nil {
		vCover("transition refused (no scan since the last one)")
	}
}

func (w *verifC42World) controller() {
	for op := 0; op < w.maxOps; op++ {
		switch vChoose(4) {
		case 0:
			return
		case 1:
			vNote("Scan")
			w.controllerScan()
		case 2:
			if !w.haveBelief {
				return
			}
			vNote("Transition")
			w.controllerTransition()
		case 3:
			vNote("external edit")
			vLabel("content after the external edit")
			w.disk = vU8()
			vLabel("")
			vCover("external edit")
		}
	}
}

func verifC42Debug(l *logging.Logger, v ...any) {
	if len(v) != 1 {
		return
	}
	s, ok := v[0].(string)
	if !ok || s != "Received timer-based polling signal" {
		return
	}
	w := verifC42
	vNote("tick")
	w.judge()
	w.controller()
}

var verifStubs_VerifC42 = map[string]any{
	"github.com/mutagen-io/mutagen/pkg/synchronization/core.Scan":       verifC42CoreScan,
	"github.com/mutagen-io/mutagen/pkg/synchronization/core.Transition": verifC42CoreTransition,
	"time.NewTicker":        verifC42NewTicker,
	"(*time.Ticker).Stop":   verifC42TickerStop,
	"github.com/mutagen-io/mutagen/pkg/state.NewCoalescer":           verifC42NewCoalescer,
	"(*github.com/mutagen-io/mutagen/pkg/state.Coalescer).Strobe":    verifC42Strobe,
	"(*github.com/mutagen-io/mutagen/pkg/state.Coalescer).Terminate": verifC42Terminate,
	"(*github.com/mutagen-io/mutagen/pkg/logging.Logger).Debug":      verifC42Debug,
}

func VerifC42() {
	w := &verifC42World{}
	verifC42 = w
	ticks := vParam("ticks", 1)
	w.totalPollScans = ticks + 1
	w.maxOps = vParam("ops", 3)
	w.pollFailures = vParam("pollfailures", 0)
	w.midScans = vParam("midscans", 1)
	w.ticks = make(chan time.Time, ticks+1)
	for k := 0; k < ticks; k++ {
		w.ticks <- time.Time{}
	}
	w.ctx = &verifC42Ctx{done: make(chan struct{})}

	vLabel("initial content")
	w.disk = vU8()
	vLabel("scan acceleration allowed")
	allowed := vBool()
	vLabel("")

	scanLock := make(chan struct{}, 1)
	scanLock <- struct{}{}
	e := &endpoint{
		root:                         "/root",
		maximumEntryCount:            ^uint64(0),
		watchMode:                    reifiedWatchModePoll,
		accelerationAllowed:          allowed,
		saveCacheSignal:              make(chan struct{}, 1),
		recursiveWatchRetryEstablish: make(chan struct{}),
		pollSignal:                   &state.Coalescer{},
		scanLock:                     scanLock,
		cache:                        &core.Cache{},
		stager:                       &verifC41Stager{&verifC41World{}},
	}
	w.e = e

	// The controller's first cycle scans without waiting for a notification.
	if vBool() {
		vNote("Scan")
		w.controllerScan()
	}

	e.watchPoll(w.ctx, 1, false)

	vAssert(w.pollScans == w.totalPollScans, "every tick leads to a polling scan")
	w.judge()
	vAssert(len(e.scanLock) == 1, "the scan lock is free when the polling loop has ended")
	vAssert(!e.accelerate, "acceleration is disabled when polling has ended")
	vCover("polling loop ended")
}

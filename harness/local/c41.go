package local

import (
	"bytes"
	"context"
	"errors"
	"hash"
	"io"

	"github.com/mutagen-io/mutagen/pkg/filesystem"
	"github.com/mutagen-io/mutagen/pkg/filesystem/behavior"
	"github.com/mutagen-io/mutagen/pkg/synchronization"
	"github.com/mutagen-io/mutagen/pkg/synchronization/core"
	"github.com/mutagen-io/mutagen/pkg/synchronization/core/ignore"
	"github.com/mutagen-io/mutagen/pkg/synchronization/rsync"
)

// C41: (*endpoint).Scan / Stage / Transition / stageFromRoot / scan executed on
// an endpoint literal.  The environment is replaced by models:
//   - core.Scan        -> returns a snapshot whose entry count is a fresh symbolic
//                         64-bit number (or fails), and a cache describing the
//                         model root;
//   - (*Entry).Count   -> table of symbolic counts per entry object;
//   - core.Transition  -> recorder;
//   - the stager       -> in-memory content-addressed set of (path, digest),
//                         digest of a written file = its bytes (injective hash);
//   - (*filesystem.Opener).OpenFile -> files of the model root;
//   - rsync.NewEngine / (*rsync.Engine).Signature -> trivial.
//
// Two entry points: VerifC41Filter (what Stage asks for) and VerifC41History
// (limits and scan-before-stage/transition guards over call sequences).

const verifC41DigestSize = 20

var (
	verifC41ErrFault         = errors.New("injected fault")
	verifC41ErrGone          = errors.New("no such file")
	verifC41ErrUninitialized = errors.New("stager uninitialized")
)

// ---------- world ----------

type verifC41RootFile struct {
	path      string
	cached    []byte // digest recorded by the last scan
	actual    []byte // digest of what is on disk now
	openFails bool   // the file has disappeared / cannot be opened
}

type verifC41Staged struct {
	path    string
	digest  []byte
	present bool
}

type verifC41Count struct {
	entry *core.Entry
	count uint64
}

type verifC41World struct {
	// model root
	root  []*verifC41RootFile
	cache *core.Cache

	// stager model
	initialized bool
	staged      []*verifC41Staged
	stagerCalls int // calls made on the stager during the current operation
	finalized   int

	// injected faults
	faultBudget int
	faults      int

	// entry counts
	counts []verifC41Count

	// core.Scan model
	scanFails     bool   // next core.Scan fails
	scanCount     uint64 // count of the content the next core.Scan sees
	scanCalls     int
	lastSeenCount uint64 // count of the content seen by the most recent successful core.Scan
	haveSeen      bool

	// core.Transition recorder
	transitionCalls int
	transitionArg   []*core.Change
}

var verifC41 *verifC41World

func (w *verifC41World) fault() bool {
	if w.faults < w.faultBudget {
		if vBool() {
			w.faults++
			vCover("fault")
			return true
		}
	}
	return false
}

func verifC41Digest(b byte) []byte {
	d := make([]byte, verifC41DigestSize)
	d[0] = b
	d[1] = 0x5a
	return d
}

// ---------- stager model ----------

type verifC41Stager struct{ w *verifC41World }

func (s *verifC41Stager) Initialize() error {
	w := s.w
	w.stagerCalls++
	if w.fault() {
		return verifC41ErrFault
	}
	w.initialized = true
	return nil
}

// contains is the model's own lookup (not counted as a stager call).
func (w *verifC41World) contains(path string, digest []byte) bool {
	found := false
	for _, s := range w.staged {
		if s.path != path || len(s.digest) != len(digest) {
			continue
		}
		found = vOr(found, vAnd(s.present, bytes.Equal(s.digest, digest)))
	}
	return found
}

func (s *verifC41Stager) Contains(path string, digest []byte) (bool, error) {
	w := s.w
	w.stagerCalls++
	if !w.initialized {
		return false, verifC41ErrUninitialized
	}
	if w.fault() {
		return false, verifC41ErrFault
	}
	return w.contains(path, digest), nil
}

type verifC41Sink struct {
	w      *verifC41World
	path   string
	data   []byte
	closed bool
}

func (s *verifC41Sink) Write(p []byte) (int, error) {
	if s.closed {
		vFail("write to a closed staging sink")
	}
	if s.w.fault() {
		return 0, verifC41ErrFault
	}
	s.data = append(s.data, p...)
	return len(p), nil
}

func (s *verifC41Sink) Close() error {
	if s.closed {
		return verifC41ErrFault
	}
	s.closed = true
	if s.w.fault() {
		return verifC41ErrFault
	}
	// digest of the stored file = its bytes (the model's files hold their digest)
	s.w.staged = append(s.w.staged, &verifC41Staged{path: s.path, digest: s.data, present: true})
	return nil
}

func (s *verifC41Stager) Sink(path string) (io.WriteCloser, error) {
	w := s.w
	w.stagerCalls++
	if !w.initialized {
		return nil, verifC41ErrUninitialized
	}
	if w.fault() {
		return nil, verifC41ErrFault
	}
	return &verifC41Sink{w: w, path: path}, nil
}

func (s *verifC41Stager) Provide(path string, digest []byte) (string, error) {
	s.w.stagerCalls++
	if !s.w.initialized {
		return "", verifC41ErrUninitialized
	}
	return "/staging/" + path, nil
}

func (s *verifC41Stager) Finalize() error {
	w := s.w
	w.stagerCalls++
	w.finalized++
	w.initialized = false
	w.staged = nil
	return nil
}

// ---------- root files ----------

type verifC41File struct {
	content []byte
	off     int
	closed  bool
}

func (f *verifC41File) Read(p []byte) (int, error) {
	if f.off >= len(f.content) {
		return 0, io.EOF
	}
	n := copy(p, f.content[f.off:])
	f.off += n
	return n, nil
}

func (f *verifC41File) WriteTo(w io.Writer) (int64, error) {
	n, err := w.Write(f.content[f.off:])
	f.off += n
	return int64(n), err
}

func (f *verifC41File) Seek(offset int64, whence int) (int64, error) {
	if whence == io.SeekStart {
		f.off = int(offset)
	}
	return int64(f.off), nil
}

func (f *verifC41File) Close() error {
	f.closed = true
	return nil
}

func verifC41OpenFile(o *filesystem.Opener, path string) (io.ReadSeekCloser, *filesystem.Metadata, error) {
	w := verifC41
	for _, r := range w.root {
		if r.path == path {
			if r.openFails {
				return nil, nil, verifC41ErrGone
			}
			return &verifC41File{content: r.actual}, &filesystem.Metadata{Name: path}, nil
		}
	}
	return nil, nil, verifC41ErrGone
}

// ---------- core.Scan / Count / core.Transition / rsync ----------

func (w *verifC41World) setCount(e *core.Entry, n uint64) {
	w.counts = append(w.counts, verifC41Count{e, n})
}

func verifC41EntryCount(e *core.Entry) uint64 {
	if e == nil {
		return 0
	}
	for _, c := range verifC41.counts {
		if c.entry == e {
			return c.count
		}
	}
	vFail("Count of an entry the harness did not create")
	return 0
}

func verifC41CoreScan(
	ctx context.Context,
	root string,
	baseline *core.Snapshot, recheckPaths map[string]bool,
	hasher hash.Hash, cache *core.Cache,
	ignorer ignore.Ignorer, ignoreCache ignore.IgnoreCache,
	probeMode behavior.ProbeMode,
	symbolicLinkMode core.SymbolicLinkMode,
	permissionsMode core.PermissionsMode,
) (*core.Snapshot, *core.Cache, ignore.IgnoreCache, error) {
	w := verifC41
	w.scanCalls++
	if w.scanFails {
		return nil, nil, nil, verifC41ErrFault
	}
	content := &core.Entry{Kind: core.EntryKind_Directory}
	w.setCount(content, w.scanCount)
	w.lastSeenCount = w.scanCount
	w.haveSeen = true
	return &core.Snapshot{Content: content}, w.cache, nil, nil
}

func verifC41CoreTransition(
	ctx context.Context,
	root string,
	transitions []*core.Change,
	cache *core.Cache,
	symbolicLinkMode core.SymbolicLinkMode,
	defaultFileMode filesystem.Mode,
	defaultDirectoryMode filesystem.Mode,
	defaultOwnership *filesystem.OwnershipSpecification,
	recomposeUnicode bool,
	provider core.Provider,
) ([]*core.Entry, []*core.Problem, bool) {
	w := verifC41
	w.transitionCalls++
	w.transitionArg = transitions
	results := make([]*core.Entry, len(transitions))
	for t, transition := range transitions {
		results[t] = transition.New
	}
	return results, nil, false
}

func verifC41NewEngine() *rsync.Engine { return &rsync.Engine{} }

func verifC41Signature(e *rsync.Engine, base io.Reader, blockSize uint64) (*rsync.Signature, error) {
	return &rsync.Signature{}, nil
}

var verifC41Stubs = map[string]any{
	"github.com/mutagen-io/mutagen/pkg/synchronization/core.Scan":                     verifC41CoreScan,
	"github.com/mutagen-io/mutagen/pkg/synchronization/core.Transition":               verifC41CoreTransition,
	"(*github.com/mutagen-io/mutagen/pkg/synchronization/core.Entry).Count":           verifC41EntryCount,
	"(*github.com/mutagen-io/mutagen/pkg/filesystem.Opener).OpenFile":                 verifC41OpenFile,
	"github.com/mutagen-io/mutagen/pkg/synchronization/rsync.NewEngine":               verifC41NewEngine,
	"(*github.com/mutagen-io/mutagen/pkg/synchronization/rsync.Engine).Signature":     verifC41Signature,
}

var verifStubs_VerifC41Filter = verifC41Stubs
var verifStubs_VerifC41History = verifC41Stubs
var verifStubs_VerifC41ReadOnly = verifC41Stubs

// ---------- endpoint construction ----------

// verifC41Maximum computes the endpoint's maximum entry count from a
// configured value the way NewEndpoint does (0 = use the version's default).
func verifC41Maximum() uint64 {
	unlimited := synchronization.Version_Version1.DefaultMaximumEntryCount()
	vLabel("configured maximum entry count")
	maximum := vU64()
	vLabel("")
	if maximum == 0 {
		maximum = unlimited
	}
	return maximum
}

func verifC41Endpoint(w *verifC41World, maximum uint64, readOnly bool) *endpoint {
	scanLock := make(chan struct{}, 1)
	scanLock <- struct{}{}
	return &endpoint{
		root:                         "/root",
		readOnly:                     readOnly,
		maximumEntryCount:            maximum,
		watchMode:                    reifiedWatchModeDisabled,
		saveCacheSignal:              make(chan struct{}, 1),
		recursiveWatchRetryEstablish: make(chan struct{}),
		scanLock:                     scanLock,
		cache:                        &core.Cache{},
		stager:                       &verifC41Stager{w},
	}
}

func verifC41LockFree(e *endpoint) bool { return len(e.scanLock) == 1 }

// verifC41Subsequence: own statement of "ret is a subset of req in request
// order" (req has distinct elements).
func verifC41Subsequence(ret, req []string) bool {
	j := 0
	for _, r := range ret {
		for j < len(req) && req[j] != r {
			j++
		}
		if j == len(req) {
			return false
		}
		j++
	}
	return true
}

func verifC41Has(list []string, s string) bool {
	for _, x := range list {
		if x == s {
			return true
		}
	}
	return false
}

// ---------- harness 1: what Stage asks for ----------

func VerifC41Filter() {
	w := &verifC41World{faultBudget: vParam("faults", 1)}
	verifC41 = w

	// Model root: file 0 lives at the path of request 0 (a file being
	// updated), the others elsewhere (candidates for copies and renames).
	nroot := vRange(0, vParam("rootfiles", 2))
	rootPaths := []string{"p0", "x", "y"}
	w.cache = &core.Cache{Entries: make(map[string]*core.CacheEntry)}
	for j := 0; j < nroot; j++ {
		vLabel("root file: digest at scan time")
		cached := verifC41Digest(vU8())
		vLabel("root file: digest on disk now")
		actual := verifC41Digest(vU8())
		vLabel("root file: cannot be opened")
		gone := vBool()
		vLabel("")
		w.root = append(w.root, &verifC41RootFile{path: rootPaths[j], cached: cached, actual: actual, openFails: gone})
		w.cache.Entries[rootPaths[j]] = &core.CacheEntry{Digest: cached}
	}

	// Request: distinct paths (they are the paths of distinct file entries),
	// symbolic digests; per path possibly content left in the staging area by
	// an interrupted earlier cycle (with the same or another digest).
	n := vRange(1, vParam("maxpaths", 2))
	reqPaths := []string{"p0", "p1", "p2", "p3"}[:n]
	var digests [][]byte
	var prestaged []bool
	for i := 0; i < n; i++ {
		vLabel("requested digest")
		d := verifC41Digest(vU8())
		digests = append(digests, d)
		vLabel("staging area holds content for this path")
		present := vBool()
		vLabel("digest of that content")
		sd := verifC41Digest(vU8())
		vLabel("")
		w.staged = append(w.staged, &verifC41Staged{path: reqPaths[i], digest: sd, present: present})
		prestaged = append(prestaged, vAnd(present, bytes.Equal(sd, d)))
	}

	// The endpoint after a real, successful Scan within a limit that leaves
	// room for the request.
	maximum := verifC41Maximum()
	e := verifC41Endpoint(w, maximum, false)
	vLabel("entry count seen by the scan")
	w.scanCount = vU64()
	vLabel("")
	vAssume(w.scanCount <= maximum)
	vAssume(maximum-w.scanCount >= uint64(n))
	snapshot, err, _ := e.Scan(context.Background(), nil, false)
	if err != nil || snapshot == nil {
		vFail("a scan within the limit fails")
		return
	}

	// Stage (the slice handed over is reused by Stage, so keep our own copy).
	arg := make([]string, n)
	copy(arg, reqPaths)
	w.stagerCalls = 0
	ret, signatures, receiver, err := e.Stage(arg, digests)
	vAssert(verifC41LockFree(e), "the scan lock is released when Stage returns")
	if err != nil {
		vAssert(w.faults > 0, "Stage fails although the request is legitimate and nothing went wrong")
		vAssert(len(ret) == 0, "a failed Stage requests nothing")
		vCover("stage failed on fault")
		return
	}
	vCover("stage ok")
	vAssert(verifC41Subsequence(ret, reqPaths), "returned paths are a subset of the request in request order")
	vAssert(len(ret) <= n, "no more paths returned than requested")
	if len(ret) > 0 {
		vAssert(len(signatures) == len(ret) && receiver != nil, "one signature per requested file and a receiver")
	}
	for i := 0; i < n; i++ {
		d := digests[i]
		// a file with the requested digest exists in the root (readable now)
		inRoot := false
		// the cache names at least one file with that digest and every such
		// file is still intact: whichever the reverse lookup picks can be copied
		named, intact := false, true
		for _, r := range w.root {
			inRoot = vOr(inRoot, vAnd(!r.openFails, bytes.Equal(r.actual, d)))
			hit := bytes.Equal(r.cached, d)
			named = vOr(named, hit)
			intact = vAnd(intact, vOr(!hit, vAnd(!r.openFails, bytes.Equal(r.actual, r.cached))))
		}
		if !verifC41Has(ret, reqPaths[i]) {
			vCover("left out")
			vAssert(vOr(prestaged[i], inRoot), "content is treated as available only if already staged or a file with the same digest exists in the root")
			vAssert(w.contains(reqPaths[i], d), "content treated as available is in the staging area under the requested path and digest")
			if prestaged[i] {
				vCover("left out: already staged")
			} else {
				vCover("left out: copied from the root")
				if i != 0 {
					vCover("left out: copy or rename")
				}
			}
		} else {
			vCover("requested")
			if w.faults == 0 {
				vAssert(!prestaged[i], "a file whose content is already staged is not requested again")
				vAssert(!vAnd(named, intact), "a file whose content exists unchanged in the root is not requested")
			}
			if inRoot {
				vCover("requested: root copy exists but is not known or not intact")
			}
		}
	}
}

// ---------- harness 2: limits and guards over call sequences ----------

func VerifC41History() {
	w := &verifC41World{}
	verifC41 = w
	w.cache = &core.Cache{}

	maximum := verifC41Maximum()
	e := verifC41Endpoint(w, maximum, false)

	// model of the session as seen from outside
	scannedForStage, scannedForTransition := false, false

	steps := vParam("steps", 3)
	maxpaths := vParam("maxpaths", 2)
	maxchanges := vParam("maxchanges", 2)
	for step := 0; step < steps; step++ {
		switch vChoose(4) {
		case 0: // the controller scans
			vNote("Scan")
			vLabel("scan: reading the root fails")
			w.scanFails = vBool()
			vLabel("scan: entry count of the root")
			w.scanCount = vU64()
			vLabel("")
			snapshot, err, _ := e.Scan(context.Background(), nil, false)
			vAssert(verifC41LockFree(e), "the scan lock is released when Scan returns")
			if err == nil {
				vCover("scan ok")
				vAssert(snapshot != nil, "a successful scan returns a snapshot")
				scannedForStage, scannedForTransition = true, true
			} else {
				vCover("scan refused or failed")
				vAssert(snapshot == nil, "a failed scan returns no snapshot")
			}

		case 1: // a background watcher rescans (what watchPoll / watchRecursive do under the scan lock)
			vNote("background scan")
			vLabel("background scan: reading the root fails")
			w.scanFails = vBool()
			vLabel("background scan: entry count of the root")
			w.scanCount = vU64()
			vLabel("")
			e.lockScanLock(context.Background())
			e.scan(context.Background(), nil, nil)
			e.unlockScanLock()
			vCover("background scan")

		case 2: // Stage
			n := vRange(0, maxpaths)
			vNote("Stage")
			reqPaths := []string{"p0", "p1", "p2", "p3"}[:n]
			arg := make([]string, n)
			copy(arg, reqPaths)
			var digests [][]byte
			for i := 0; i < n; i++ {
				digests = append(digests, verifC41Digest(byte(i)))
			}
			w.stagerCalls = 0
			ret, _, _, err := e.Stage(arg, digests)
			vAssert(verifC41LockFree(e), "the scan lock is released when Stage returns")
			started := w.stagerCalls > 0 || len(ret) > 0
			if n == 0 {
				vCover("stage: empty request")
				vAssert(!started, "an empty request stages nothing")
				break
			}
			if !scannedForStage {
				vCover("stage: no preceding scan")
				vAssert(err != nil && !started, "staging without a preceding scan is refused")
				break
			}
			scannedForStage = false
			// 65-bit comparison: count known to the endpoint + requested files vs the limit
			sum := w.lastSeenCount + uint64(n)
			past := vOr(sum < w.lastSeenCount, sum > maximum)
			if past {
				vCover("stage: past the limit")
				if w.lastSeenCount > maximum {
					vCover("stage: the root grew past the limit after the last successful scan")
				}
				vAssert(err != nil && !started, "staging that would take the entry count past the maximum is refused")
			} else {
				vCover("stage: within the limit")
				vAssert(err == nil, "staging within the limit after a scan is admitted")
				vAssert(len(ret) == n && verifC41Subsequence(ret, reqPaths), "with nothing staged and an empty root every requested file is returned")
			}

		case 3: // Transition
			m := vRange(0, maxchanges)
			vNote("Transition")
			var changes []*core.Change
			var olds, news []uint64
			for t := 0; t < m; t++ {
				old := &core.Entry{Kind: core.EntryKind_Directory}
				created := &core.Entry{Kind: core.EntryKind_Directory}
				vLabel("transition: entries removed (count of Old)")
				oc := vU64()
				vLabel("transition: entries created (count of New)")
				nc := vU64()
				vLabel("")
				w.setCount(old, oc)
				w.setCount(created, nc)
				olds, news = append(olds, oc), append(news, nc)
				changes = append(changes, &core.Change{Path: []string{"a", "b", "c"}[t], Old: old, New: created})
			}
			// own arithmetic: resulting = known count - removed + created, change by change
			resulting := w.lastSeenCount
			malformed := false
			if scannedForTransition {
				for t := 0; t < m; t++ {
					malformed = vOr(malformed, olds[t] > resulting)
					resulting = resulting - olds[t] + news[t]
					// entry counts are numbers of objects in memory: sums of them do not wrap
					vAssume(vOr(malformed, resulting >= news[t]))
				}
			}
			calls := w.transitionCalls
			w.stagerCalls = 0
			results, problems, _, err := e.Transition(context.Background(), changes)
			vAssert(verifC41LockFree(e), "the scan lock is released when Transition returns")
			performed := w.transitionCalls > calls
			vAssert(w.transitionCalls <= calls+1, "at most one transition pass per call")
			if !scannedForTransition {
				vCover("transition: no preceding scan")
				vAssert(err != nil && !performed, "transition without a preceding scan is refused")
				break
			}
			scannedForTransition = false
			if malformed {
				vCover("transition: removes more than exists")
				vAssert(!performed, "a transition list that removes more entries than exist is not applied")
			} else if resulting > maximum {
				vCover("transition: past the limit")
				vAssert(!performed, "a transition that would take the entry count past the maximum is not applied")
				if err == nil {
					vAssert(len(results) == m, "a refused transition reports one result per change")
					for t := 0; t < m && t < len(results); t++ {
						vAssert(results[t] == changes[t].Old, "a refused transition reports the old entries (nothing changed)")
					}
					vAssert(len(problems) > 0, "a refused transition reports a problem")
				}
			} else {
				vCover("transition: within the limit")
				vAssert(performed && err == nil, "a transition within the limit after a scan is applied")
				if performed {
					same := len(w.transitionArg) == m
					for t := 0; same && t < m; t++ {
						same = w.transitionArg[t] == changes[t]
					}
					vAssert(same, "the changes applied are the changes requested")
				}
			}
		}
	}
}

// ---------- harness 3: a read-only endpoint (source of one-way synchronization) ----------

func VerifC41ReadOnly() {
	w := &verifC41World{}
	verifC41 = w
	w.cache = &core.Cache{}
	maximum := verifC41Maximum()
	e := verifC41Endpoint(w, maximum, true)
	vLabel("scan: entry count of the root")
	w.scanCount = vU64()
	vLabel("")
	if _, err, _ := e.Scan(context.Background(), nil, false); err != nil {
		vCover("read-only: scan refused")
	} else {
		vCover("read-only: scan ok")
	}
	if vChoose(2) == 0 {
		ret, _, _, err := e.Stage([]string{"p0"}, [][]byte{verifC41Digest(1)})
		vCover("read-only: stage")
		vAssert(err != nil && len(ret) == 0 && w.stagerCalls == 0, "a read-only endpoint stages nothing")
	} else {
		old := &core.Entry{Kind: core.EntryKind_Directory}
		created := &core.Entry{Kind: core.EntryKind_Directory}
		w.setCount(old, 0)
		w.setCount(created, 1)
		_, _, _, err := e.Transition(context.Background(), []*core.Change{{Path: "a", Old: old, New: created}})
		vCover("read-only: transition")
		vAssert(err != nil && w.transitionCalls == 0 && w.stagerCalls == 0, "a read-only endpoint applies no transition")
	}
	vAssert(verifC41LockFree(e), "the scan lock is free afterwards")
}

package local

import (
	"context"
	"errors"
	"hash"
	"io"
	"time"

	"google.golang.org/protobuf/proto"

	"github.com/mutagen-io/mutagen/pkg/filesystem"
	"github.com/mutagen-io/mutagen/pkg/filesystem/behavior"
	"github.com/mutagen-io/mutagen/pkg/state"
	"github.com/mutagen-io/mutagen/pkg/synchronization"
	"github.com/mutagen-io/mutagen/pkg/synchronization/core"
	"github.com/mutagen-io/mutagen/pkg/synchronization/core/ignore"
	"github.com/mutagen-io/mutagen/pkg/synchronization/endpoint/local/staging"
	"github.com/mutagen-io/mutagen/pkg/synchronization/hashing"
	"github.com/mutagen-io/mutagen/pkg/synchronization/rsync"
)

// C02, endpoint half: "In one-way modes the source (alpha) endpoint is never
// modified ... through its endpoint accepting staging or transition requests."
//
// The real NewEndpoint is executed for every synchronization mode a session
// configuration can carry (default, two-way-safe, two-way-resolved,
// one-way-safe, one-way-replica) and both roles (alpha, beta); everything it
// computes from the configuration and the session version is executed
// (Version.Default*, IsDefault predicates, the ignorer, the ownership
// specification, pathFor*, staging.NewStager/store.NewStore, the endpoint
// literal).  Only the environment below it is replaced (see verifC02Stubs).
// Then the endpoint NewEndpoint RETURNED is driven through its
// synchronization.Endpoint interface: Scan (real), then Stage and Transition
// (real), and the calls that reach the staging area and core.Transition are
// counted.
//
// Oracle (own table of the modes, from the property text): effective mode
// one-way-safe or one-way-replica and role alpha  =>  Stage and Transition
// return an error, hand out nothing, and no staging-area operation and no
// core.Transition call happened.  Any other (effective mode, role) after a
// successful scan => both are accepted and do reach the staging area /
// core.Transition (the mode still works in its direction; also keeps the
// refusal assertions from holding vacuously).

var (
	verifC02ErrNoCache = errors.New("no cache on disk")
	verifC02ErrFault   = errors.New("stager uninitialized")
)

type verifC02World struct {
	constructed bool // NewEndpoint has returned

	// staging area (operations of the stager the endpoint was built with)
	stagerCalls int
	initialized bool
	sinks       int
	finalized   int

	// core.Scan / core.Transition
	scanCalls       int
	transitionCalls int
	transitionArg   []*core.Change

	// environment calls made by NewEndpoint
	mutagenCalls   int
	cacheLoadCalls int
	cacheLoadFails bool
}

var verifC02 *verifC02World

// ---------- environment of NewEndpoint ----------

// filesystem.Mutagen(create, components...): computes and creates a
// subdirectory of the Mutagen data directory.
func verifC02Mutagen(create bool, pathComponents ...string) (string, error) {
	verifC02.mutagenCalls++
	result := "/home/user/.mutagen"
	for _, c := range pathComponents {
		result += "/" + c
	}
	return result, nil
}

// encoding.LoadAndUnmarshalProtobuf: no cache on disk, or an (empty) cache.
func verifC02LoadProtobuf(path string, message proto.Message) error {
	verifC02.cacheLoadCalls++
	if verifC02.cacheLoadFails {
		return verifC02ErrNoCache
	}
	return nil
}

func verifC02IsSidecar() bool { return false }

// hashing: the hasher is only handed to core.Scan and to the store, both
// replaced, so a hasher that is never written to suffices.
type verifC02Hash struct{}

func (verifC02Hash) Write(p []byte) (int, error) {
	vFail("the harness hasher is written to")
	return len(p), nil
}
func (verifC02Hash) Sum(b []byte) []byte { return b }
func (verifC02Hash) Reset()              {}
func (verifC02Hash) Size() int           { return 20 }
func (verifC02Hash) BlockSize() int      { return 64 }

func verifC02NewHash() hash.Hash { return verifC02Hash{} }

func verifC02HashFactory(a hashing.Algorithm) func() hash.Hash { return verifC02NewHash }

func verifC02NewCoalescer(window time.Duration) *state.Coalescer { return &state.Coalescer{} }
func verifC02Strobe(c *state.Coalescer)                          {}

// ---------- staging area ----------

func verifC02StagerInitialize(s *staging.Stager) error {
	verifC02.stagerCalls++
	verifC02.initialized = true
	return nil
}

func verifC02StagerContains(s *staging.Stager, path string, digest []byte) (bool, error) {
	verifC02.stagerCalls++
	if !verifC02.initialized {
		return false, verifC02ErrFault
	}
	return false, nil
}

type verifC02Sink struct{}

func (verifC02Sink) Write(p []byte) (int, error) { return len(p), nil }
func (verifC02Sink) Close() error                { return nil }

func verifC02StagerSink(s *staging.Stager, path string) (io.WriteCloser, error) {
	verifC02.stagerCalls++
	verifC02.sinks++
	if !verifC02.initialized {
		return nil, verifC02ErrFault
	}
	return verifC02Sink{}, nil
}

func verifC02StagerProvide(s *staging.Stager, path string, digest []byte) (string, error) {
	verifC02.stagerCalls++
	if !verifC02.initialized {
		return "", verifC02ErrFault
	}
	return "/staging/" + path, nil
}

func verifC02StagerFinalize(s *staging.Stager) error {
	verifC02.stagerCalls++
	verifC02.finalized++
	verifC02.initialized = false
	return nil
}

// ---------- core.Scan / core.Transition / rsync ----------

func verifC02CoreScan(
	ctx context.Context,
	root string,
	baseline *core.Snapshot, recheckPaths map[string]bool,
	hasher hash.Hash, cache *core.Cache,
	ignorer ignore.Ignorer, ignoreCache ignore.IgnoreCache,
	probeMode behavior.ProbeMode,
	symbolicLinkMode core.SymbolicLinkMode,
	permissionsMode core.PermissionsMode,
) (*core.Snapshot, *core.Cache, ignore.IgnoreCache, error) {
	verifC02.scanCalls++
	// an existing root directory that holds one file
	content := &core.Entry{Kind: core.EntryKind_Directory, Contents: map[string]*core.Entry{
		"f": {Kind: core.EntryKind_File, Digest: []byte{1}},
	}}
	return &core.Snapshot{Content: content}, &core.Cache{}, nil, nil
}

func verifC02CoreTransition(
	ctx context.Context,
	root string,
	transitions []*core.Change,
	cache *core.Cache,
	symbolicLinkMode core.SymbolicLinkMode,
	defaultFileMode filesystem.Mode,
	defaultDirectoryMode filesystem.Mode,
	defaultOwnership *filesystem.OwnershipSpecification,
	recomposeUnicode bool,
	provider core.Provider,
) ([]*core.Entry, []*core.Problem, bool) {
	w := verifC02
	w.transitionCalls++
	w.transitionArg = transitions
	results := make([]*core.Entry, len(transitions))
	for t, transition := range transitions {
		results[t] = transition.New
	}
	return results, nil, false
}

func verifC02NewEngine() *rsync.Engine { return &rsync.Engine{} }

var verifStubs_VerifC02Endpoint = map[string]any{
	"github.com/mutagen-io/mutagen/pkg/filesystem.Mutagen":                                          verifC02Mutagen,
	"github.com/mutagen-io/mutagen/pkg/encoding.LoadAndUnmarshalProtobuf":                           verifC02LoadProtobuf,
	"github.com/mutagen-io/mutagen/pkg/sidecar.EnvironmentIsSidecar":                                verifC02IsSidecar,
	"(github.com/mutagen-io/mutagen/pkg/synchronization/hashing.Algorithm).Factory":                 verifC02HashFactory,
	"github.com/mutagen-io/mutagen/pkg/state.NewCoalescer":                                          verifC02NewCoalescer,
	"(*github.com/mutagen-io/mutagen/pkg/state.Coalescer).Strobe":                                   verifC02Strobe,
	"(*github.com/mutagen-io/mutagen/pkg/synchronization/endpoint/local/staging.Stager).Initialize": verifC02StagerInitialize,
	"(*github.com/mutagen-io/mutagen/pkg/synchronization/endpoint/local/staging.Stager).Contains":   verifC02StagerContains,
	"(*github.com/mutagen-io/mutagen/pkg/synchronization/endpoint/local/staging.Stager).Sink":       verifC02StagerSink,
	"(*github.com/mutagen-io/mutagen/pkg/synchronization/endpoint/local/staging.Stager).Provide":    verifC02StagerProvide,
	"(*github.com/mutagen-io/mutagen/pkg/synchronization/endpoint/local/staging.Stager).Finalize":   verifC02StagerFinalize,
	"github.com/mutagen-io/mutagen/pkg/synchronization/core.Scan":                                   verifC02CoreScan,
	"github.com/mutagen-io/mutagen/pkg/synchronization/core.Transition":                             verifC02CoreTransition,
	"github.com/mutagen-io/mutagen/pkg/synchronization/rsync.NewEngine":                             verifC02NewEngine,
}

// ---------- the harness ----------

func VerifC02Endpoint() {
	w := &verifC02World{}
	verifC02 = w

	// The session: every synchronization mode a configuration can carry
	// (0 = default, resolved through the session version) and both roles.
	vLabel("synchronization mode (0 default, 1 two-way-safe, 2 two-way-resolved, 3 one-way-safe, 4 one-way-replica)")
	mode := core.SynchronizationMode(vInt(0, 4))
	vLabel("endpoint is alpha")
	alpha := vBool()
	vLabel("no usable cache on disk")
	w.cacheLoadFails = vBool()
	vLabel("")
	version := synchronization.Version_Version1
	configuration := &synchronization.Configuration{SynchronizationMode: mode}

	// Staging mode: default (Mutagen data directory), neighboring, internal.
	switch vChoose(3) {
	case 0:
		vNote("staging mode: default")
	case 1:
		vNote("staging mode: neighboring")
		configuration.StageMode = synchronization.StageMode_StageModeNeighboring
	case 2:
		vNote("staging mode: internal")
		configuration.StageMode = synchronization.StageMode_StageModeInternal
	}

	// The real constructor.
	ep, err := NewEndpoint(nil, "/sync/root", "sync_0123", version, configuration, alpha)
	w.constructed = true
	if err != nil || ep == nil {
		vFail("NewEndpoint fails on a valid configuration in a working environment")
		return
	}
	vAssert(w.stagerCalls == 0 && w.transitionCalls == 0, "constructing an endpoint does not touch the staging area or the root")

	// Own table of the modes (property text): the effective mode is the
	// configured one, or for "default" the session version's default, which
	// for version 1 sessions is two-way-safe.
	oneWay := false
	switch {
	case mode == core.SynchronizationMode_SynchronizationModeOneWaySafe:
		oneWay = true
		vCover("one-way-safe")
	case mode == core.SynchronizationMode_SynchronizationModeOneWayReplica:
		oneWay = true
		vCover("one-way-replica")
	case mode == core.SynchronizationMode_SynchronizationModeTwoWaySafe:
		vCover("two-way-safe")
	case mode == core.SynchronizationMode_SynchronizationModeTwoWayResolved:
		vCover("two-way-resolved")
	default:
		vCover("default mode (two-way-safe for version 1 sessions)")
	}
	source := oneWay && alpha

	cycles := vParam("cycles", 1)
	for cycle := 0; cycle < cycles; cycle++ {
		// The controller scans first (or not: a refusal for want of a scan
		// must not be mistaken for the read-only refusal, and the read-only
		// refusal must not depend on a scan).
		vLabel("the controller scans before the requests")
		scanned := vBool()
		vLabel("")
		if scanned {
			scans := w.scanCalls
			snapshot, err, _ := ep.Scan(context.Background(), nil, false)
			if err != nil || snapshot == nil {
				vFail("a scan of a small root fails")
				return
			}
			vAssert(w.scanCalls == scans+1, "one pass over the root per Scan")
		}

		// A staging request reaches the endpoint.
		paths := []string{"a", "b"}
		digests := [][]byte{{2}, {3}}
		before := w.stagerCalls
		ret, signatures, receiver, err := ep.Stage(paths, digests)
		stagingTouched := w.stagerCalls > before
		if source {
			vCover("stage request on the source of a one-way session")
			vAssert(err != nil, "the alpha endpoint of a one-way session refuses a staging request")
			vAssert(len(ret) == 0 && len(signatures) == 0 && receiver == nil, "a refused staging request hands out no paths, signatures or receiver")
			vAssert(!stagingTouched, "a staging request on the alpha endpoint of a one-way session touches nothing")
		} else if scanned {
			vCover("stage request on a writable endpoint")
			vAssert(err == nil, "a beta endpoint, or the alpha endpoint of a two-way session, accepts a staging request after a scan")
			vAssert(len(ret) == 2 && receiver != nil && w.initialized, "an accepted staging request for files not available locally initialises the staging area and asks for them")
		}

		// A transition request reaches the endpoint.
		changes := []*core.Change{
			{Path: "a", New: &core.Entry{Kind: core.EntryKind_File, Digest: []byte{2}}},
			{Path: "f", Old: &core.Entry{Kind: core.EntryKind_File, Digest: []byte{1}}},
		}
		before = w.stagerCalls
		applied := w.transitionCalls
		results, problems, missing, err := ep.Transition(context.Background(), changes)
		stagingTouched = w.stagerCalls > before
		if source {
			vCover("transition request on the source of a one-way session")
			vAssert(err != nil, "the alpha endpoint of a one-way session refuses a transition request")
			vAssert(len(results) == 0 && len(problems) == 0 && !missing, "a refused transition request reports no results")
			vAssert(w.transitionCalls == 0, "a transition request on the alpha endpoint of a one-way session applies nothing to the root")
			vAssert(!stagingTouched, "a transition request on the alpha endpoint of a one-way session touches nothing")
		} else if scanned {
			vCover("transition request on a writable endpoint")
			vAssert(err == nil, "a beta endpoint, or the alpha endpoint of a two-way session, accepts a transition request after a scan")
			same := w.transitionCalls == applied+1 && len(w.transitionArg) == len(changes)
			for t := 0; same && t < len(changes); t++ {
				same = w.transitionArg[t] == changes[t]
			}
			vAssert(same, "an accepted transition request is applied once, with the changes requested")
			vAssert(len(results) == len(changes), "one result per change")
		}
	}

	if alpha {
		vCover("alpha")
	} else {
		vCover("beta")
	}
}

package mutagen

import (
	"encoding/binary"
	"errors"
	"io"
)

// C34: version handshakes.  The peer is a stream delivering an arbitrary byte
// string in arbitrary fragments; writes may fail.

var verifErrIO = errors.New("stream failure")

type verifStream struct {
	fragMode  int
	fragDone  bool
	in        []byte // bytes the peer sends
	pos       int
	out       []byte // bytes we sent
	failWrite bool
	readErr   error // error after input exhausted (io.EOF or failure)
	wrote     bool
	readFail  bool
}

func (s *verifStream) Read(p []byte) (int, error) {
	if len(p) == 0 {
		return 0, nil
	}
	rem := len(s.in) - s.pos
	if rem == 0 {
		s.readFail = true
		return 0, s.readErr
	}
	max := len(p)
	if rem < max {
		max = rem
	}
	n := s.fragment(max)
	copy(p, s.in[s.pos:s.pos+n])
	s.pos += n
	return n, nil
}

// fragment picks how many of the max available bytes this Read delivers.
// mode 0: arbitrary size on every call (all fragmentations); 1: everything
// available; 2: one byte at a time; 3: arbitrary first fragment, then all.
func (s *verifStream) fragment(max int) int {
	switch s.fragMode {
	case 0:
		return vRange(1, max)
	case 2:
		return 1
	case 3:
		if !s.fragDone {
			s.fragDone = true
			return vRange(1, max)
		}
	}
	return max
}

func (s *verifStream) Write(p []byte) (int, error) {
	s.wrote = true
	if s.failWrite {
		return 0, verifErrIO
	}
	s.out = append(s.out, p...)
	return len(p), nil
}

func (s *verifStream) Close() error { return nil }

func verifExpectedVersion() []byte {
	b := make([]byte, 12)
	binary.BigEndian.PutUint32(b[0:], VersionMajor)
	binary.BigEndian.PutUint32(b[4:], VersionMinor)
	binary.BigEndian.PutUint32(b[8:], VersionPatch)
	return b
}

func verifNewStream(maxIn int) *verifStream {
	s := &verifStream{readErr: io.EOF}
	s.in = vBytes(vRange(0, maxIn))
	s.failWrite = vBool()
	if vParam("allfrag", 0) == 0 {
		s.fragMode = 1 + vChoose(3)
	}
	if vBool() {
		s.readErr = verifErrIO
	}
	return s
}

func verifBytesEq(a, b []byte) bool {
	if len(a) != len(b) {
		return false
	}
	for i := range a {
		if a[i] != b[i] {
			return false
		}
	}
	return true
}

func VerifC34Version() {
	s := verifNewStream(vParam("maxin", 13))
	want := verifExpectedVersion()
	client := vBool()
	var err error
	if client {
		err = ClientVersionHandshake(s)
	} else {
		err = ServerVersionHandshake(s)
	}
	peerOK := len(s.in) >= 12 && verifBytesEq(s.in[:12], want)
	ioOK := len(s.in) >= 12 && !s.failWrite
	if err == nil {
		vCover("accepted")
		vAssert(peerOK, "accepted only if the peer sent exactly the expected version")
		vAssert(ioOK, "accepted only if all reads and writes succeeded")
		vAssert(verifBytesEq(s.out, want), "what was sent is the 12-byte big-endian version")
	} else {
		vCover("rejected")
		vAssert(!(peerOK && ioOK), "matching peer with working stream is accepted")
	}
	if len(s.out) > 0 {
		vAssert(verifBytesEq(s.out, want), "anything sent is exactly the version encoding")
	}
	vAssert(s.pos <= 12, "never consumes more than the 12 handshake bytes")
}

// VerifC34VersionCross: what one side sends is accepted by the other side's
// receive function (cross-composition of the real functions).
func VerifC34VersionCross() {
	a := &verifStream{readErr: io.EOF}
	// server sends first into a.out; feed that to the client.
	a.in = nil
	_ = ServerVersionHandshake(a) // fails on receive (no input) but has sent
	c := &verifStream{readErr: io.EOF, in: a.out, fragMode: 1 + vChoose(3)}
	err := ClientVersionHandshake(c)
	vCover("cross")
	vAssert(err == nil, "client accepts what the server sends")
	sv := &verifStream{readErr: io.EOF, in: c.out, fragMode: 1 + vChoose(3)}
	err = ServerVersionHandshake(sv)
	vAssert(err == nil, "server accepts what the client sends")
}

package filesystem

// C17 kernel model.  (harness/core/c17kernel.go is a verbatim copy of this
// file with the package clause changed; keep the two in sync.)
//
// The golang.org/x/sys/unix entry points used by pkg/filesystem are replaced
// by this in-memory kernel.  It implements Linux path resolution
// (path_resolution(7)) over a small tree: absolute paths start at "/", "."
// and ".." are honoured, empty components are skipped, a trailing slash forces
// the final component to be a followed directory, intermediate symbolic links
// are ALWAYS followed, the final component is followed unless the call says
// otherwise (O_NOFOLLOW, O_CREAT|O_EXCL, AT_SYMLINK_NOFOLLOW, or a call that
// by definition acts on the link itself: mkdirat, unlinkat, renameat,
// symlinkat, readlinkat).
//
// The property is observed HERE, independently of the code under test:
//   * every time resolution follows a symbolic link that lives inside the
//     synchronization root, the run is a violation (all in-root links of the
//     world point at the canary directory outside the root);
//   * every call made relative to a handle of an in-root directory must end
//     on an entry of the root (no escape through ".." or an absolute name).

import (
	"math/rand"
	"os"

	"golang.org/x/sys/unix"
)

const (
	vkDir = iota
	vkFile
	vkLink
)

const vkFDBase = 10

type vkNode struct {
	kind   int
	inside bool    // lives inside the synchronization root (root directory included)
	canary bool    // lives in the canary tree
	parent *vkNode // containing directory
	names  []string
	kids   []*vkNode
	target string // link target
	perm   uint32
	ino    uint64
}

type vkFD struct {
	node *vkNode
	open bool
}

type vkWorld struct {
	fsroot  *vkNode
	root    *vkNode // the synchronization root
	canary  *vkNode
	fds     []*vkFD
	files   map[*os.File]int
	nextIno uint64

	// adversary: replace an in-root entry by a link into the canary
	swapBudget  int
	swapCands   []vkSwap
	swapsTaken  int
	opsAtSwap   int  // number of kernel calls made before the (last) swap
	calls       int  // number of kernel calls made so far
	crossDevice bool // renaming from outside the root into it fails with EXDEV

	eintrBudget int
	faultBudget int
	rename2Mode int // 0: supported, 1: EINVAL (-> ENOTSUP), 2: ENOSYS

	randNext int

	legitFollows int // followed links that live outside the root
	dry, dryHit  bool
}

// vkSwap: the entry name in the in-root directory dir (names from the root)
// is replaced by (or, if absent, created as) a symbolic link to target.
type vkSwap struct {
	dir    []string
	name   string
	target string
}

var vkw *vkWorld

func (n *vkNode) lookup(name string) *vkNode {
	for i, x := range n.names {
		if x == name {
			return n.kids[i]
		}
	}
	return nil
}

func (n *vkNode) add(name string, kind int, target string) *vkNode {
	c := &vkNode{kind: kind, parent: n, target: target, inside: n.inside, canary: n.canary, perm: 0644}
	if kind == vkDir {
		c.perm = 0755
	}
	vkw.nextIno++
	c.ino = vkw.nextIno
	n.names = append(n.names, name)
	n.kids = append(n.kids, c)
	return c
}

func (n *vkNode) attach(name string, c *vkNode) {
	c.parent = n
	n.names = append(n.names, name)
	n.kids = append(n.kids, c)
}

func (n *vkNode) del(name string) {
	for i, x := range n.names {
		if x == name {
			n.names = append(n.names[:i:i], n.names[i+1:]...)
			n.kids = append(n.kids[:i:i], n.kids[i+1:]...)
			return
		}
	}
}

// vkNewWorld builds
//
//	/p/r            the synchronization root (inside)
//	/p/r/f          file
//	/p/r/d/         directory { x: file, s/: directory, m -> ../../../c }
//	                (same names as in the canary: once d is replaced by a link to
//	                /c, the paths d/x and d/s exist THROUGH the link)
//	/p/r/l  -> /c   link to the canary directory
//	/p/r/7  -> /c/x link to a canary file (the name the temporary-file PRNG yields first)
//	/q      -> /p   link OUTSIDE the root (the root may legitimately be reached as /q/r)
//	/c/             canary { x: file, s/: directory { y: file } }
//	/s/t            staging area with one staged file (outside the root)
func vkNewWorld() *vkWorld {
	w := &vkWorld{files: map[*os.File]int{}, randNext: 7}
	vkw = w
	fsroot := &vkNode{kind: vkDir, perm: 0755, ino: 1}
	fsroot.parent = fsroot
	w.nextIno = 1
	w.fsroot = fsroot
	p := fsroot.add("p", vkDir, "")
	fsroot.add("q", vkLink, "/p")
	c := fsroot.add("c", vkDir, "")
	c.canary = true
	c.add("x", vkFile, "")
	c.add("s", vkDir, "").add("y", vkFile, "")
	w.canary = c
	fsroot.add("s", vkDir, "").add("t", vkFile, "")
	r := p.add("r", vkDir, "")
	r.inside = true
	w.root = r
	r.add("f", vkFile, "")
	d := r.add("d", vkDir, "")
	d.add("x", vkFile, "")
	d.add("s", vkDir, "")
	d.add("m", vkLink, "../../../c")
	r.add("l", vkLink, "/c")
	r.add("7", vkLink, "/c/x")
	w.swapCands = []vkSwap{{nil, "d", "/c"}, {nil, "f", "/c/x"}}
	return w
}

// vkHandle opens a descriptor on a node directly (used by harnesses to hand
// an already-open in-root directory to the code under test).
func vkHandle(n *vkNode) int {
	vkw.fds = append(vkw.fds, &vkFD{node: n, open: true})
	return vkFDBase + len(vkw.fds) - 1
}

func vkFDNode(fd int) *vkNode {
	i := fd - vkFDBase
	if i < 0 || i >= len(vkw.fds) || !vkw.fds[i].open {
		return nil
	}
	return vkw.fds[i].node
}

// vkEnter is executed at the start of every kernel call that looks at the
// tree: the adversary may replace one of the candidate in-root entries by a
// symbolic link into the canary (handles that are already open keep pointing
// at the old node),
// and the call may be interrupted (EINTR) or fail (EIO) within the budgets.
func vkEnter(call string, tree bool) unix.Errno {
	w := vkw
	w.calls++
	if tree && w.swapBudget > 0 {
		if k := vChoose(1 + len(w.swapCands)); k > 0 {
			sw := w.swapCands[k-1]
			dir := w.root
			for _, c := range sw.dir {
				if dir != nil && dir.kind == vkDir {
					dir = dir.lookup(c)
				}
			}
			if dir == nil || dir.kind != vkDir {
				vStop() // nothing to replace (yet): not a distinct scenario
			}
			w.swapBudget--
			w.swapsTaken++
			w.opsAtSwap = w.calls - 1
			dir.del(sw.name)
			dir.add(sw.name, vkLink, sw.target)
			vCover("kernel: an in-root entry is replaced by a link to the canary")
		}
	}
	if call == "getdents" {
		// (os.File.Readdirnames retries EINTR itself)
		return 0
	}
	if w.eintrBudget > 0 && vChoose(2) == 1 {
		w.eintrBudget--
		return unix.EINTR
	}
	if w.faultBudget > 0 && vChoose(2) == 1 {
		w.faultBudget--
		return unix.EIO
	}
	return 0
}

// vkFollow is the observation point of the property.
func vkFollow(link *vkNode) {
	if vkw.dry {
		if link.inside {
			vkw.dryHit = true
		}
		return
	}
	// (a failing assertion ends the path)
	vAssert(!link.inside, "C17: resolution follows a symbolic link that lives inside the synchronization root")
	vkw.legitFollows++
	vCover("kernel: a link outside the root is followed (allowed)")
}

// vkWouldCross is the harness-side question "does resolving path from start
// cross a symbolic link that lives inside the root?" (final component counted
// only if leafToo).  It runs the resolver without reporting.
func vkWouldCross(start *vkNode, path string, leafToo bool) bool {
	vkw.dry, vkw.dryHit = true, false
	vkResolve(start, path, leafToo, 0)
	vkw.dry = false
	return vkw.dryHit
}

type vkRes struct {
	parent *vkNode // directory holding the final component (nil if the path ends in "." / ".." / is "/")
	leaf   string
	node   *vkNode // nil if the final component does not exist
	err    unix.Errno
}

// vkResolve is Linux path resolution.
func vkResolve(start *vkNode, path string, followLeaf bool, depth int) vkRes {
	if depth > 8 {
		return vkRes{err: unix.ELOOP}
	}
	if len(path) == 0 {
		return vkRes{err: unix.ENOENT}
	}
	// split into components
	var comps []string
	trailing, abs := false, false
	a := 0
	for i := 0; i < len(path); i++ {
		if path[i] == '/' {
			if i == 0 {
				abs = true
			}
			if i > a {
				comps = append(comps, path[a:i])
			}
			if i == len(path)-1 {
				trailing = true
			}
			a = i + 1
		}
	}
	if a < len(path) {
		comps = append(comps, path[a:])
	}
	cur := start
	if abs {
		cur = vkw.fsroot
	}
	if cur == nil {
		return vkRes{err: unix.EBADF}
	}
	if len(comps) == 0 {
		// "/" (possibly repeated)
		return vkRes{node: cur}
	}
	for ci, comp := range comps {
		last := ci == len(comps)-1
		if cur.kind != vkDir {
			return vkRes{err: unix.ENOTDIR}
		}
		if comp == "." {
			if last {
				return vkRes{node: cur}
			}
			continue
		}
		if comp == ".." {
			cur = cur.parent
			if last {
				return vkRes{node: cur}
			}
			continue
		}
		n := cur.lookup(comp)
		if n == nil {
			if last {
				return vkRes{parent: cur, leaf: comp}
			}
			return vkRes{err: unix.ENOENT}
		}
		if n.kind == vkLink && (!last || followLeaf || trailing) {
			vkFollow(n)
			r := vkResolve(cur, n.target, true, depth+1)
			if r.err != 0 {
				return r
			}
			if last {
				if trailing && r.node != nil && r.node.kind != vkDir {
					return vkRes{err: unix.ENOTDIR}
				}
				return r
			}
			if r.node == nil {
				return vkRes{err: unix.ENOENT}
			}
			cur = r.node
			continue
		}
		if last {
			if trailing && n.kind != vkDir {
				return vkRes{err: unix.ENOTDIR}
			}
			return vkRes{parent: cur, leaf: comp, node: n}
		}
		cur = n
	}
	return vkRes{err: unix.ENOENT}
}

// vkAt resolves (dirfd, path) and applies the containment rule for calls that
// are made relative to a handle of an in-root directory.
func vkAt(dirfd int, path string, followLeaf bool) vkRes {
	var start *vkNode
	relative := false
	if dirfd == unix.AT_FDCWD {
		start = vkw.fsroot // the working directory is outside the root
	} else {
		start = vkFDNode(dirfd)
		if start == nil {
			return vkRes{err: unix.EBADF}
		}
		relative = true
	}
	r := vkResolve(start, path, followLeaf, 0)
	if r.err != 0 {
		return r
	}
	if relative && start.inside {
		ok := true
		if r.parent != nil && !r.parent.inside {
			ok = false
		}
		if r.node != nil && !r.node.inside {
			ok = false
		}
		vAssert(ok, "C17: a call relative to an in-root directory handle ends outside the root ('..' or absolute name)")
	}
	touched := r.node
	if touched == nil {
		touched = r.parent
	}
	// no harness passes a canary path itself: the canary is reachable only through a link
	vAssert(touched == nil || !touched.canary, "C17: the canary directory is touched")
	return r
}

// vkSymbolicPath yields the root-relative request path of a harness: either
// up to max fully symbolic bytes, or (deeper requests at low cost) one
// symbolic byte followed by "/x", "/s" or "/s/y" — the names that exist below
// d and below the canary.
func vkSymbolicPath(max int, deep bool) string {
	k := 0
	if deep {
		k = vChoose(4)
	}
	switch k {
	case 1:
		return vString(1) + "/x"
	case 2:
		return vString(1) + "/s"
	case 3:
		return vString(1) + "/s/y"
	}
	return vString(vRange(0, max))
}

// vkCanaryIntact compares the canary tree with its initial snapshot
// { x: file 0644, s/: directory 0755 { y: file 0644 } }.
func vkCanaryIntact() bool {
	c := vkw.canary
	if c.perm != 0755 || len(c.names) != 2 || c.names[0] != "x" || c.names[1] != "s" {
		return false
	}
	x, s := c.kids[0], c.kids[1]
	if x.kind != vkFile || x.perm != 0644 || s.kind != vkDir || s.perm != 0755 {
		return false
	}
	if len(s.names) != 1 || s.names[0] != "y" || s.kids[0].kind != vkFile || s.kids[0].perm != 0644 {
		return false
	}
	return vkw.fsroot.lookup("c") == c
}

const vkCanaryLabel = "C17: the canary tree is unchanged at the end"

// ---- the system calls ----

func vkOpenat(dirfd int, path string, flags int, mode uint32) (int, error) {
	vNote("openat")
	vCover("kernel: openat")
	if e := vkEnter("openat", true); e != 0 {
		return -1, e
	}
	if flags&unix.O_CREAT != 0 {
		vCover("kernel: openat creating a file")
	}
	noFollow := flags&unix.O_NOFOLLOW != 0
	creatExcl := flags&unix.O_CREAT != 0 && flags&unix.O_EXCL != 0
	r := vkAt(dirfd, path, !noFollow && !creatExcl)
	if r.err != 0 {
		return -1, r.err
	}
	n := r.node
	if n == nil {
		if flags&unix.O_CREAT == 0 {
			return -1, unix.ENOENT
		}
		n = r.parent.add(r.leaf, vkFile, "")
		n.perm = mode & 0777
	} else {
		if creatExcl {
			return -1, unix.EEXIST
		}
		if n.kind == vkLink {
			// only reachable with O_NOFOLLOW (otherwise the link was followed)
			return -1, unix.ELOOP
		}
		if flags&unix.O_DIRECTORY != 0 && n.kind != vkDir {
			return -1, unix.ENOTDIR
		}
		if n.kind == vkDir && flags&(unix.O_WRONLY|unix.O_RDWR) != 0 {
			return -1, unix.EISDIR
		}
	}
	return vkHandle(n), nil
}

func vkRead(fd int, p []byte) (int, error) {
	vNote("read")
	vCover("kernel: read")
	if e := vkEnter("read", false); e != 0 {
		return -1, e
	}
	n := vkFDNode(fd)
	if n == nil {
		return -1, unix.EBADF
	}
	vAssert(!n.canary, "C17: a canary file is read")
	if n.kind == vkDir {
		return -1, unix.EISDIR
	}
	return 0, nil
}

func vkSeek(fd int, offset int64, whence int) (int64, error) {
	if vkFDNode(fd) == nil {
		return -1, unix.EBADF
	}
	return 0, nil
}

func vkClose(fd int) error {
	i := fd - vkFDBase
	if i < 0 || i >= len(vkw.fds) || !vkw.fds[i].open {
		return unix.EBADF
	}
	vkw.fds[i].open = false
	return nil
}

func vkMkdirat(dirfd int, path string, mode uint32) error {
	vNote("mkdirat")
	vCover("kernel: mkdirat")
	if e := vkEnter("mkdirat", true); e != 0 {
		return e
	}
	r := vkAt(dirfd, path, false)
	if r.err != 0 {
		return r.err
	}
	if r.node != nil || r.parent == nil {
		return unix.EEXIST
	}
	r.parent.add(r.leaf, vkDir, "").perm = mode & 0777
	return nil
}

func vkDoRename(olddirfd int, oldpath string, newdirfd int, newpath string, noReplace bool) error {
	o := vkAt(olddirfd, oldpath, false)
	if o.err != 0 {
		return o.err
	}
	if o.node == nil {
		return unix.ENOENT
	}
	if o.parent == nil {
		return unix.EBUSY
	}
	t := vkAt(newdirfd, newpath, false)
	if t.err != 0 {
		return t.err
	}
	if t.parent == nil {
		return unix.EBUSY
	}
	if vkw.crossDevice && o.parent.inside != t.parent.inside {
		vCover("kernel: rename refused across devices")
		return unix.EXDEV
	}
	if t.node != nil {
		if noReplace {
			return unix.EEXIST
		}
		if t.node == o.node {
			return nil
		}
		if t.node.kind == vkDir {
			if o.node.kind != vkDir {
				return unix.EISDIR
			}
			if len(t.node.names) != 0 {
				return unix.ENOTEMPTY
			}
		} else if o.node.kind == vkDir {
			return unix.ENOTDIR
		}
		t.parent.del(t.leaf)
	}
	o.parent.del(o.leaf)
	t.parent.attach(t.leaf, o.node)
	return nil
}

func vkRenameat(olddirfd int, oldpath string, newdirfd int, newpath string) error {
	vNote("renameat")
	vCover("kernel: renameat")
	if e := vkEnter("renameat", true); e != 0 {
		return e
	}
	return vkDoRename(olddirfd, oldpath, newdirfd, newpath, false)
}

func vkRenameat2(olddirfd int, oldpath string, newdirfd int, newpath string, flags uint) error {
	vNote("renameat2")
	vCover("kernel: renameat2")
	if e := vkEnter("renameat2", true); e != 0 {
		return e
	}
	switch vkw.rename2Mode {
	case 1:
		return unix.EINVAL
	case 2:
		return unix.ENOSYS
	}
	return vkDoRename(olddirfd, oldpath, newdirfd, newpath, flags&unix.RENAME_NOREPLACE != 0)
}

func vkUnlinkat(dirfd int, path string, flags int) error {
	vNote("unlinkat")
	vCover("kernel: unlinkat")
	if e := vkEnter("unlinkat", true); e != 0 {
		return e
	}
	r := vkAt(dirfd, path, false)
	if r.err != 0 {
		return r.err
	}
	if r.node == nil {
		return unix.ENOENT
	}
	if r.parent == nil {
		return unix.EINVAL
	}
	if flags&unix.AT_REMOVEDIR != 0 {
		if r.node.kind != vkDir {
			return unix.ENOTDIR
		}
		if len(r.node.names) != 0 {
			return unix.ENOTEMPTY
		}
	} else if r.node.kind == vkDir {
		return unix.EISDIR
	}
	r.parent.del(r.leaf)
	return nil
}

func vkFillStat(n *vkNode, st *unix.Stat_t) {
	var s unix.Stat_t
	s.Dev = 1
	s.Ino = n.ino
	s.Nlink = 1
	switch n.kind {
	case vkDir:
		s.Mode = unix.S_IFDIR | n.perm
	case vkFile:
		s.Mode = unix.S_IFREG | n.perm
	case vkLink:
		s.Mode = unix.S_IFLNK | 0777
	}
	*st = s
}

func vkFstat(fd int, st *unix.Stat_t) error {
	vNote("fstat")
	vCover("kernel: fstat")
	if e := vkEnter("fstat", false); e != 0 {
		return e
	}
	n := vkFDNode(fd)
	if n == nil {
		return unix.EBADF
	}
	vkFillStat(n, st)
	return nil
}

func vkFchmod(fd int, mode uint32) error {
	vNote("fchmod")
	vCover("kernel: fchmod")
	if e := vkEnter("fchmod", false); e != 0 {
		return e
	}
	n := vkFDNode(fd)
	if n == nil {
		return unix.EBADF
	}
	vAssert(!n.canary, "C17: permissions of a canary entry are modified")
	n.perm = mode & 0777
	return nil
}

func vkFstatat(dirfd int, path string, st *unix.Stat_t, flags int) error {
	vNote("fstatat")
	vCover("kernel: fstatat")
	if e := vkEnter("fstatat", true); e != 0 {
		return e
	}
	r := vkAt(dirfd, path, flags&unix.AT_SYMLINK_NOFOLLOW == 0)
	if r.err != 0 {
		return r.err
	}
	if r.node == nil {
		return unix.ENOENT
	}
	vkFillStat(r.node, st)
	return nil
}

func vkFchownat(dirfd int, path string, uid int, gid int, flags int) error {
	vNote("fchownat")
	vCover("kernel: fchownat")
	if e := vkEnter("fchownat", true); e != 0 {
		return e
	}
	r := vkAt(dirfd, path, flags&unix.AT_SYMLINK_NOFOLLOW == 0)
	if r.err != 0 {
		return r.err
	}
	if r.node == nil {
		return unix.ENOENT
	}
	return nil
}

func vkSymlinkat(target string, dirfd int, path string) error {
	vNote("symlinkat")
	vCover("kernel: symlinkat")
	if e := vkEnter("symlinkat", true); e != 0 {
		return e
	}
	r := vkAt(dirfd, path, false)
	if r.err != 0 {
		return r.err
	}
	if r.node != nil || r.parent == nil {
		return unix.EEXIST
	}
	r.parent.add(r.leaf, vkLink, target)
	return nil
}

func vkReadlinkat(dirfd int, path string, buffer []byte) (int, error) {
	vNote("readlinkat")
	vCover("kernel: readlinkat")
	if e := vkEnter("readlinkat", true); e != 0 {
		return -1, e
	}
	r := vkAt(dirfd, path, false)
	if r.err != 0 {
		return -1, r.err
	}
	if r.node == nil {
		return -1, unix.ENOENT
	}
	if r.node.kind != vkLink {
		return -1, unix.EINVAL
	}
	return copy(buffer, r.node.target), nil
}

// ---- os.File / os.Lstat / PRNG on top of the kernel ----

func vkNewFile(fd uintptr, name string) *os.File {
	f := &os.File{}
	vkw.files[f] = int(fd)
	return f
}

func vkFileReaddirnames(f *os.File, n int) ([]string, error) {
	vNote("getdents")
	vCover("kernel: getdents")
	if e := vkEnter("getdents", true); e != 0 {
		return nil, e
	}
	fd, ok := vkw.files[f]
	if !ok {
		return nil, unix.EBADF
	}
	node := vkFDNode(fd)
	if node == nil {
		return nil, unix.EBADF
	}
	if node.kind != vkDir {
		return nil, unix.ENOTDIR
	}
	vAssert(!node.canary, "C17: the canary directory is listed")
	return append([]string(nil), node.names...), nil
}

func vkFileClose(f *os.File) error {
	fd, ok := vkw.files[f]
	if !ok {
		return unix.EBADF
	}
	return vkClose(fd)
}

func vkRandInt(r *rand.Rand) int {
	vkw.randNext++
	return vkw.randNext - 1
}

func vkStubTable() map[string]any {
	return map[string]any{
		"golang.org/x/sys/unix.Openat":     vkOpenat,
		"golang.org/x/sys/unix.Read":       vkRead,
		"golang.org/x/sys/unix.Seek":       vkSeek,
		"golang.org/x/sys/unix.Close":      vkClose,
		"golang.org/x/sys/unix.Mkdirat":    vkMkdirat,
		"golang.org/x/sys/unix.Renameat":   vkRenameat,
		"golang.org/x/sys/unix.Renameat2":  vkRenameat2,
		"golang.org/x/sys/unix.Unlinkat":   vkUnlinkat,
		"golang.org/x/sys/unix.Fstat":      vkFstat,
		"golang.org/x/sys/unix.Fchmod":     vkFchmod,
		"golang.org/x/sys/unix.Fstatat":    vkFstatat,
		"golang.org/x/sys/unix.Fchownat":   vkFchownat,
		"golang.org/x/sys/unix.Symlinkat":  vkSymlinkat,
		"golang.org/x/sys/unix.Readlinkat": vkReadlinkat,
		"os.NewFile":                       vkNewFile,
		"(*os.File).Readdirnames":          vkFileReaddirnames,
		"(*os.File).Close":                 vkFileClose,
		"(*math/rand.Rand).Int":            vkRandInt,
	}
}

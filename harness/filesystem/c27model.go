package filesystem

// C27 environment model (shared text: harness/filesystem/c27model.go and
// harness/encoding/c27model.go are identical except for the package clause;
// the per-package parts - the entry functions, the filesystem.Rename stub
// signature and the temporary prefix - live in c27.go next to each copy).
//
// A flat namespace of regular files keyed by path.  A file is an inode
// (content + mode); names and open handles refer to inodes, so a rename while
// a handle is open, a write at an offset into an existing file, O_TRUNC,
// O_APPEND and O_EXCL behave as on POSIX.  Every mutating operation is one
// atomic step.  At every step the harness may inject a failure (operation
// returns an error, model unchanged; a failing write may be short) or a crash
// (the process stops: the model is frozen, everything the code under test does
// afterwards has no effect; a crash inside a write leaves any prefix of the
// data written).  The property's invariant is asserted after EVERY step:
// the target path holds exactly the previous or exactly the new content (or is
// still absent if it was absent).
//
// History: write 1 runs with faults and crashes injected; whatever it leaves
// behind (target, temporary files with partial content) is the start state of
// write 2, whose "previous content" is what the target held at that moment.

import (
	"io/fs"
	"os"
	"strings"
	"syscall"
	"time"
)

type vaFile struct {
	content []byte
	mode    os.FileMode
}

type vaHandle struct {
	name     string
	file     *vaFile
	off      int
	appendTo bool
	writable bool
	closed   bool
}

type vaWorld struct {
	files   map[string]*vaFile // by path; iteration = creation order
	handles map[*os.File]*vaHandle
	target  string

	// per write
	old     []byte
	hadOld  bool
	new     []byte
	before  map[string]bool // paths present when the write began
	faults  bool
	crashes bool
	crashed bool
	steps   int
	seq     int
}

var vaw *vaWorld

const (
	vaOK = iota
	vaFault
	vaCrash
	vaDead
)

func vaBase(path string) string {
	if i := strings.LastIndexByte(path, '/'); i >= 0 {
		return path[i+1:]
	}
	return path
}

func vaBytesEq(a, b []byte) bool {
	if len(a) != len(b) {
		return false
	}
	var d byte
	for i := range a {
		d |= a[i] ^ b[i]
	}
	return d == 0
}

func vaClone(b []byte) []byte { return append([]byte(nil), b...) }

func vaErr(op, path string, errno syscall.Errno) error {
	return &os.PathError{Op: op, Path: path, Err: errno}
}

// vaStep decides the fate of the next mutating operation.
func vaStep() int {
	w := vaw
	if w.crashed {
		return vaDead
	}
	n := 1
	if w.faults {
		n++
	}
	if w.crashes {
		n++
	}
	if n == 1 {
		return vaOK
	}
	c := vChoose(n)
	if c == 0 {
		return vaOK
	}
	if c == 1 && w.faults {
		return vaFault
	}
	w.crashed = true
	vCover("crash")
	return vaCrash
}

// vaReadStep: operations that do not change the model can only fail (a crash
// before them leaves the state of the preceding crash point).
func vaReadStep() int {
	w := vaw
	if w.crashed {
		return vaDead
	}
	if w.faults && vChoose(2) == 1 {
		return vaFault
	}
	return vaOK
}

// vaCrashPoint: the state between any two operations must be recoverable.
func vaCrashPoint() {
	w := vaw
	w.steps++
	f, ok := w.files[w.target]
	if !ok {
		vAssert(!w.hadOld, "crash point: an existing target file never disappears")
		return
	}
	isOld := w.hadOld && vaBytesEq(f.content, w.old)
	isNew := vaBytesEq(f.content, w.new)
	vAssert(vOr(isOld, isNew), "crash point: target holds exactly the old or exactly the new content")
}

func (f *vaFile) writeAt(off int, data []byte) {
	for len(f.content) < off {
		f.content = append(f.content, 0)
	}
	for i := range data {
		if off+i < len(f.content) {
			f.content[off+i] = data[i]
		} else {
			f.content = append(f.content, data[i])
		}
	}
}

func vaNewHandle(name string, f *vaFile, flag int) *os.File {
	h := &os.File{}
	vaw.handles[h] = &vaHandle{name: name, file: f,
		appendTo: flag&os.O_APPEND != 0,
		writable: flag&(os.O_WRONLY|os.O_RDWR) != 0}
	return h
}

// ---- stubs ---------------------------------------------------------------

func vaCreateTemp(dir, pattern string) (*os.File, error) {
	w := vaw
	switch vaStep() {
	case vaFault:
		vaCrashPoint()
		return nil, vaErr("open", dir+"/"+pattern, syscall.EIO)
	case vaCrash, vaDead:
		return nil, vaErr("open", dir+"/"+pattern, syscall.EIO)
	}
	vAssert(dir+"/"+vaBase(w.target) == w.target, "temporary file is created in the target's directory")
	prefix, suffix := pattern, ""
	if i := strings.LastIndexByte(pattern, '*'); i >= 0 {
		prefix, suffix = pattern[:i], pattern[i+1:]
	}
	// O_EXCL with a fresh random name: never an existing file.
	var name string
	for {
		w.seq++
		name = dir + "/" + prefix + string(rune('0'+w.seq)) + suffix
		if _, exists := w.files[name]; !exists {
			break
		}
	}
	f := &vaFile{mode: 0600}
	w.files[name] = f
	h := vaNewHandle(name, f, os.O_RDWR)
	vaCrashPoint()
	return h, nil
}

func vaOpenFile(name string, flag int, perm os.FileMode) (*os.File, error) {
	w := vaw
	writable := flag&(os.O_WRONLY|os.O_RDWR) != 0
	changes := flag&os.O_CREATE != 0 || (flag&os.O_TRUNC != 0 && writable)
	if changes {
		switch vaStep() {
		case vaFault:
			vaCrashPoint()
			return nil, vaErr("open", name, syscall.EIO)
		case vaCrash, vaDead:
			return nil, vaErr("open", name, syscall.EIO)
		}
	} else if vaReadStep() != vaOK {
		return nil, vaErr("open", name, syscall.EIO)
	}
	f := w.files[name]
	if f == nil {
		if flag&os.O_CREATE == 0 {
			return nil, vaErr("open", name, syscall.ENOENT)
		}
		f = &vaFile{mode: perm & 0777}
		w.files[name] = f
	} else {
		if flag&os.O_CREATE != 0 && flag&os.O_EXCL != 0 {
			return nil, vaErr("open", name, syscall.EEXIST)
		}
		if flag&os.O_TRUNC != 0 && writable {
			f.content = nil
		}
	}
	h := vaNewHandle(name, f, flag)
	if changes {
		vaCrashPoint()
	}
	return h, nil
}

func vaFileWrite(f *os.File, data []byte) (int, error) {
	w := vaw
	h := w.handles[f]
	if h == nil {
		return 0, os.ErrInvalid
	}
	st := vaStep()
	if st == vaDead {
		return 0, vaErr("write", h.name, syscall.EIO)
	}
	vAssert(!h.closed, "no write to a closed file")
	if h.closed {
		return 0, os.ErrClosed
	}
	if !h.writable {
		return 0, vaErr("write", h.name, syscall.EBADF)
	}
	n := len(data)
	if st != vaOK {
		n = vRange(0, len(data)) // failing: short write; crashing: any prefix reached the file
	}
	if h.appendTo {
		h.off = len(h.file.content)
	}
	h.file.writeAt(h.off, data[:n])
	h.off += n
	vaCrashPoint()
	if st != vaOK {
		return n, vaErr("write", h.name, syscall.EIO)
	}
	return n, nil
}

func vaFileWriteString(f *os.File, s string) (int, error) { return vaFileWrite(f, []byte(s)) }

func vaFileSync(f *os.File) error {
	h := vaw.handles[f]
	if h == nil {
		return os.ErrInvalid
	}
	if h.closed {
		return os.ErrClosed
	}
	if vaReadStep() != vaOK {
		return vaErr("sync", h.name, syscall.EIO)
	}
	return nil
}

func vaFileClose(f *os.File) error {
	w := vaw
	h := w.handles[f]
	if h == nil {
		return os.ErrInvalid
	}
	st := vaStep()
	if st == vaDead || st == vaCrash {
		return vaErr("close", h.name, syscall.EIO)
	}
	if h.closed {
		return os.ErrClosed
	}
	h.closed = true // the descriptor is released even when close reports an error
	vaCrashPoint()
	if st == vaFault {
		return vaErr("close", h.name, syscall.EIO)
	}
	return nil
}

func vaFileName(f *os.File) string {
	if h := vaw.handles[f]; h != nil {
		return h.name
	}
	return ""
}

func vaFileChmod(f *os.File, mode os.FileMode) error {
	h := vaw.handles[f]
	if h == nil {
		return os.ErrInvalid
	}
	if st := vaStep(); st != vaOK {
		if st == vaFault {
			vaCrashPoint()
		}
		return vaErr("chmod", h.name, syscall.EIO)
	}
	if h.closed {
		return os.ErrClosed
	}
	h.file.mode = mode & 0777
	vaCrashPoint()
	return nil
}

func vaFileTruncate(f *os.File, size int64) error {
	h := vaw.handles[f]
	if h == nil {
		return os.ErrInvalid
	}
	if st := vaStep(); st != vaOK {
		if st == vaFault {
			vaCrashPoint()
		}
		return vaErr("truncate", h.name, syscall.EIO)
	}
	if h.closed {
		return os.ErrClosed
	}
	if !h.writable || size < 0 {
		return vaErr("truncate", h.name, syscall.EINVAL)
	}
	n := int(size)
	if n <= len(h.file.content) {
		h.file.content = h.file.content[:n]
	} else {
		h.file.writeAt(n, nil)
	}
	vaCrashPoint()
	return nil
}

func vaRemove(path string) error {
	w := vaw
	if st := vaStep(); st != vaOK {
		if st == vaFault {
			vaCrashPoint()
		}
		return vaErr("remove", path, syscall.EIO)
	}
	if _, ok := w.files[path]; !ok {
		return vaErr("remove", path, syscall.ENOENT)
	}
	delete(w.files, path) // open handles keep the inode
	vaCrashPoint()
	return nil
}

func vaChmod(path string, mode os.FileMode) error {
	w := vaw
	if st := vaStep(); st != vaOK {
		if st == vaFault {
			vaCrashPoint()
		}
		return vaErr("chmod", path, syscall.EIO)
	}
	f := w.files[path]
	if f == nil {
		return vaErr("chmod", path, syscall.ENOENT)
	}
	f.mode = mode & 0777
	vaCrashPoint()
	return nil
}

// vaRenamePath: rename(2) / renameat2(RENAME_NOREPLACE) - the name switches
// from the old inode to the new one in ONE step (kernel atomicity assumed).
func vaRenamePath(src, dst string, replace bool) error {
	w := vaw
	if st := vaStep(); st != vaOK {
		if st == vaFault {
			vaCrashPoint()
		}
		return &os.LinkError{Op: "rename", Old: src, New: dst, Err: syscall.EIO}
	}
	f, ok := w.files[src]
	if !ok {
		return &os.LinkError{Op: "rename", Old: src, New: dst, Err: syscall.ENOENT}
	}
	if src == dst {
		return nil
	}
	if _, exists := w.files[dst]; exists && !replace {
		return os.ErrExist
	}
	delete(w.files, src)
	w.files[dst] = f
	// open handles keep their inode; (*os.File).Name keeps reporting the name used at open
	vaCrashPoint()
	return nil
}

func vaOsRename(src, dst string) error { return vaRenamePath(src, dst, true) }

type vaInfo struct {
	name string
	size int64
	mode os.FileMode
}

func (i vaInfo) Name() string       { return i.name }
func (i vaInfo) Size() int64        { return i.size }
func (i vaInfo) Mode() fs.FileMode  { return i.mode }
func (i vaInfo) ModTime() time.Time { return time.Time{} }
func (i vaInfo) IsDir() bool        { return false }
func (i vaInfo) Sys() any           { return nil }

func vaStat(path string) (fs.FileInfo, error) {
	if vaReadStep() != vaOK {
		return nil, vaErr("stat", path, syscall.EIO)
	}
	f := vaw.files[path]
	if f == nil {
		return nil, vaErr("stat", path, syscall.ENOENT)
	}
	return vaInfo{name: vaBase(path), size: int64(len(f.content)), mode: f.mode}, nil
}

func vaReadFile(path string) ([]byte, error) {
	if vaReadStep() != vaOK {
		return nil, vaErr("open", path, syscall.EIO)
	}
	f := vaw.files[path]
	if f == nil {
		return nil, vaErr("open", path, syscall.ENOENT)
	}
	return vaClone(f.content), nil
}

var verifStubs = map[string]any{
	"os.CreateTemp":            vaCreateTemp,
	"os.OpenFile":              vaOpenFile,
	"(*os.File).Write":         vaFileWrite,
	"(*os.File).WriteString":   vaFileWriteString,
	"(*os.File).Sync":          vaFileSync,
	"(*os.File).Close":         vaFileClose,
	"(*os.File).Name":          vaFileName,
	"(*os.File).Chmod":         vaFileChmod,
	"(*os.File).Truncate":      vaFileTruncate,
	"os.Remove":                vaRemove,
	"os.Chmod":                 vaChmod,
	"os.Rename":                vaOsRename,
	"os.Lstat":                 vaStat,
	"os.Stat":                  vaStat,
	"os.ReadFile":              vaReadFile,
	"github.com/mutagen-io/mutagen/pkg/filesystem.Rename": vaFsRename,
}

// ---- driver and oracle ---------------------------------------------------

// vaBeginWrite fixes what "previous content" means for the write that starts
// now: whatever the target path holds at this moment.
func vaBeginWrite(content []byte, faults, crashes bool) {
	w := vaw
	w.handles = map[*os.File]*vaHandle{}
	w.before = map[string]bool{}
	for name := range w.files {
		w.before[name] = true
	}
	w.old, w.hadOld = nil, false
	if f, ok := w.files[w.target]; ok {
		w.hadOld = true
		w.old = vaClone(f.content)
	}
	w.new = content
	w.faults, w.crashes, w.crashed = faults, crashes, false
	w.steps = 0
}

// vaEndWrite: outcome oracle of one write.
func vaEndWrite(err error, wantMode int) {
	w := vaw
	f, exists := w.files[w.target]
	if w.crashed {
		// the result of the call is meaningless; the state at the crash is what counts
		if exists {
			vAssert(vOr(w.hadOld && vaBytesEq(f.content, w.old), vaBytesEq(f.content, w.new)),
				"after a crash: target holds exactly the old or exactly the new content")
		} else {
			vAssert(!w.hadOld, "after a crash: an existing target file has not disappeared")
		}
	} else if err == nil {
		vCover("success")
		if !w.hadOld {
			vCover("first-save")
		}
		vAssert(exists && vaBytesEq(f.content, w.new), "success: target holds exactly the new content")
		if exists && wantMode >= 0 {
			vAssert(f.mode == os.FileMode(wantMode), "success: target has the requested permissions")
		}
		for name := range w.files {
			if name != w.target {
				vAssert(w.before[name], "success: no other file is left behind")
			}
		}
	} else {
		vCover("failure")
		if w.hadOld {
			vAssert(exists && vaBytesEq(f.content, w.old), "failure: target still holds exactly the old content")
		} else {
			vAssert(!exists, "failure: no target appears")
		}
	}
	for name := range w.files {
		if name != w.target {
			if w.crashed {
				vCover("crash-leftover")
			} else {
				vCover("leftover")
			}
			vAssert(strings.HasPrefix(vaBase(name), vaTempPrefix), "any other file carries the Mutagen temporary prefix")
		}
	}
	if !w.crashed {
		for _, h := range w.handles {
			vAssert(h.closed, "every opened file is closed")
		}
	}
}

// vaRun: the history.  write(data) is the operation under test on vaTarget.
// Every write but the last runs with faults and crashes injected; each next
// write is a fresh process on exactly what its predecessors left behind.  The
// last write runs with faults if faultslast != 0 (a crash in it is covered by
// the invariant asserted after every step).
func vaRun(write func(data []byte) error, wantMode int) {
	maxLen := vParam("maxlen", 1)
	writes := vParam("writes", 2)
	faultsLast := vParam("faultslast", 0) != 0
	vaw = &vaWorld{files: map[string]*vaFile{}, target: vaTarget}
	w := vaw
	if vBool() {
		old := vBytes(vRange(0, maxLen))
		w.files[w.target] = &vaFile{content: vaClone(old), mode: 0600}
	}
	afterCrash := false
	for i := 1; i <= writes; i++ {
		content := vBytes(vRange(0, maxLen))
		last := i == writes
		vaBeginWrite(content, !last || faultsLast || writes == 1, !last)
		err := write(vaClone(content))
		vaEndWrite(err, wantMode)
		nr := string(rune('0' + i))
		if w.crashed {
			vNote("write " + nr + " crashed after " + string(rune('0'+w.steps)) + " completed model steps")
			afterCrash = true
		} else if err != nil {
			vNote("write " + nr + " failed")
		} else {
			vNote("write " + nr + " succeeded")
			if i > 1 {
				if afterCrash {
					vCover("success-after-crash")
				} else {
					vCover("success-after-write")
				}
			}
		}
	}
}

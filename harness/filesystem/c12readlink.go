package filesystem

// C12 (link targets): the scan harness in package core replaces
// (*Directory).ReadSymbolicLink by a model that returns the link's target
// exactly.  This file discharges that step for the real code: the real
// ReadSymbolicLink (with its grow-and-retry loop, the EINTR wrapper and the
// internal/syscall entry point) is executed on top of a model of the
// readlinkat system call only, for EVERY target length from 0 up to a bound
// that spans several doublings of the initial buffer, with symbolic target
// bytes.  The harness does not know the initial buffer size.
//
// readlinkat(2) as modelled (POSIX / Linux): the contents of the link are
// placed in the buffer; if the buffer is too small the contents are silently
// truncated to its length; the number of bytes placed is returned; no
// terminator is appended; EINTR may be returned any number of times (bounded
// by the "eintr" parameter) before the call goes through; a failing call
// returns -1 and an errno.

import (
	"os"

	"golang.org/x/sys/unix"
)

const vrlFD = 7

var (
	vrlTarget   []byte
	vrlCalls    int // all calls, interrupted ones included
	vrlReads    int // calls that went through
	vrlEINTR    int
	vrlErrno    unix.Errno
	vrlSmallest int
)

func vrlReadlinkat(dirfd int, path string, buffer []byte) (int, error) {
	vrlCalls++
	vAssert(dirfd == vrlFD, "readlinkat is issued on the directory's own descriptor")
	vAssert(path == "l", "readlinkat is issued for the requested name")
	vAssert(len(buffer) > 0, "readlinkat is never issued with an empty buffer (EINVAL)")
	if vrlEINTR > 0 && vChoose(2) == 1 {
		vrlEINTR--
		vCover("readlink: interrupted call retried")
		return -1, unix.EINTR
	}
	if vrlErrno != 0 {
		return -1, vrlErrno
	}
	vrlReads++
	if vrlSmallest == 0 || len(buffer) < vrlSmallest {
		vrlSmallest = len(buffer)
	}
	return copy(buffer, vrlTarget), nil
}

var verifStubs_VerifC12ReadLink = map[string]any{
	"golang.org/x/sys/unix.Readlinkat": vrlReadlinkat,
}

var verifStubs_VerifC12ReadLinkError = verifStubs_VerifC12ReadLink

// VerifC12ReadLink: whatever the length of the target, ReadSymbolicLink
// returns it completely and unchanged.
func VerifC12ReadLink() {
	n := vRange(vParam("mintarget", 0), vParam("maxtarget", 300))
	vLabel("target")
	vrlTarget = vBytes(n)
	vLabel("")
	vrlCalls, vrlReads, vrlSmallest, vrlErrno = 0, 0, 0, 0
	vrlEINTR = vParam("eintr", 0)
	d := &Directory{descriptor: vrlFD}

	got, err := d.ReadSymbolicLink("l")

	vAssert(err == nil, "reading an existing link succeeds")
	if err != nil {
		return
	}
	vAssert(len(got) == n, "ReadSymbolicLink returns a target of the link's full length (no truncation)")
	vAssert(got == string(vrlTarget), "ReadSymbolicLink returns the link's target byte for byte")
	vCover("readlink: read")
	if vrlReads > 1 {
		vCover("readlink: buffer grown")
	}
	if vrlReads > 2 {
		vCover("readlink: buffer grown twice")
	}
	if n > 0 && n == vrlSmallest {
		vCover("readlink: target exactly fills the first buffer")
	}
}

// VerifC12ReadLinkError: a failing readlinkat is reported as an error (never
// as an empty or partial target), and "does not exist" stays recognisable
// (the scan treats a vanished entry as absent, any other failure as a
// problem).
func VerifC12ReadLinkError() {
	vrlTarget = vBytes(vRange(0, 2))
	vrlCalls, vrlReads, vrlSmallest = 0, 0, 0
	vrlEINTR = vParam("eintr", 0)
	vrlErrno = []unix.Errno{unix.ENOENT, unix.EACCES, unix.EINVAL, unix.EIO}[vChoose(4)]
	d := &Directory{descriptor: vrlFD}

	got, err := d.ReadSymbolicLink("l")

	vAssert(err != nil, "a failing readlinkat is reported as an error")
	vAssert(got == "", "no target is reported for a link that could not be read")
	if err != nil {
		vCover("readlink: failure reported")
		vAssert(os.IsNotExist(err) == (vrlErrno == unix.ENOENT), "only ENOENT reads as 'does not exist'")
	}
}

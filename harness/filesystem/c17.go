package filesystem

// C17: synchronization never reaches outside the root through in-root
// symbolic links — the pkg/filesystem layer (every *Directory method, Rename,
// Open/OpenDirectory/OpenFile and Opener.OpenFile) executed on the kernel
// model of c17kernel.go with symbolic names / paths.  The kernel model is the
// observer (see there); this file adds the "operations whose path crosses
// such a link fail instead" part.

import "github.com/mutagen-io/mutagen/pkg/state"

var verifStubs_VerifC17Dir = vkStubTable()
var verifStubs_VerifC17Opener = vkStubTable()

const vhRefused = "C17: an operation whose path crosses an in-root symbolic link must fail"

// vhDir hands an already-open in-root directory to the code under test.
func vhDir(n *vkNode) *Directory {
	fd := vkHandle(n)
	return &Directory{descriptor: fd, file: vkNewFile(uintptr(fd), "")}
}

// VerifC17Dir: one *Directory method (or Rename) on a handle of an in-root
// directory with a symbolic name.
func VerifC17Dir() {
	w := vkNewWorld()
	// process-wide memory of the code under test ("renameat2 is not implemented
	// by this kernel"): every explored path starts from a fresh process
	renameat2FailedWithENOSYS = state.Marker{}
	w.eintrBudget = vParam("eintr", 0)
	w.faultBudget = vParam("faults", 0)
	maxName := vParam("maxname", 3)

	var hnode *vkNode
	if vChoose(2) == 0 {
		hnode = w.root
	} else {
		hnode = w.root.lookup("d")
	}
	d := vhDir(hnode)
	name := vString(vRange(0, maxName))

	var err error
	leafToo := false
	named := true
	switch vChoose(13) {
	case 0:
		vNote("CreateDirectory")
		err = d.CreateDirectory(name)
	case 1:
		vNote("CreateTemporaryFile")
		var f interface{ Close() error }
		var created string
		created, f, err = d.CreateTemporaryFile(name)
		if err == nil {
			vCover("temporary file created")
			if created == "8" {
				// the PRNG's first name "7" is an in-root link to a canary file
				vCover("temporary file: name taken by an in-root link is skipped")
			}
			f.Close()
		}
	case 2:
		vNote("CreateSymbolicLink")
		err = d.CreateSymbolicLink(name, "/c")
	case 3:
		vNote("SetPermissions")
		var own *OwnershipSpecification
		if vChoose(2) == 1 {
			own = &OwnershipSpecification{ownerID: 1000, groupID: -1}
		}
		mode := Mode(0)
		if vChoose(2) == 1 {
			mode = 0600
		}
		err = d.SetPermissions(name, own, mode)
	case 4:
		vNote("OpenDirectory")
		leafToo = true
		var sub *Directory
		sub, err = d.OpenDirectory(name)
		if err == nil {
			vCover("subdirectory opened")
			if _, err2 := sub.ReadContents(); err2 == nil {
				vCover("opened subdirectory listed")
			}
			sub.Close()
		}
	case 5:
		vNote("OpenFile")
		leafToo = true
		var f interface {
			Read([]byte) (int, error)
			Close() error
		}
		f, _, err = d.OpenFile(name)
		if err == nil {
			vCover("file opened")
			var buf [1]byte
			f.Read(buf[:])
			f.Close()
		}
	case 6:
		vNote("ReadContentMetadata")
		var md *Metadata
		md, err = d.ReadContentMetadata(name)
		if err == nil && md.Mode&ModeTypeMask == ModeTypeSymbolicLink {
			vCover("metadata of a link itself")
		}
	case 7:
		vNote("ReadSymbolicLink")
		var target string
		target, err = d.ReadSymbolicLink(name)
		if err == nil {
			vCover("link target read")
			vAssert(len(target) > 0, "model: link targets are non-empty")
		}
	case 8:
		vNote("RemoveDirectory")
		err = d.RemoveDirectory(name)
		if err == nil {
			vCover("directory removed")
		}
	case 9:
		vNote("RemoveFile/RemoveSymbolicLink")
		if vChoose(2) == 0 {
			err = d.RemoveFile(name)
		} else {
			err = d.RemoveSymbolicLink(name)
		}
		if err == nil {
			vCover("file or link removed")
		}
	case 10:
		vNote("ReadContents")
		// (no name) every listed entry is queried with lstat semantics
		var mds []*Metadata
		mds, err = d.ReadContents()
		if err == nil && len(mds) == len(hnode.names) {
			vCover("directory listed with metadata")
		}
		named = false
	case 11:
		vNote("Rename (name is the source)")
		w.rename2Mode = vChoose(3)
		other := vhDir(w.root.lookup("d").lookup("s"))
		err = Rename(d, name, other, "n", vChoose(2) == 1)
		if err == nil {
			vCover("renamed (symbolic source)")
		}
	case 12:
		vNote("Rename (name is the target)")
		w.rename2Mode = vChoose(3)
		replace := vChoose(2) == 1
		if vChoose(2) == 0 {
			// staged file moved into place by path (outside the root, allowed)
			err = Rename(nil, "/s/t", d, name, replace)
		} else {
			other := vhDir(w.root.lookup("d"))
			err = Rename(other, "x", d, name, replace)
		}
		if err == nil {
			vCover("renamed (symbolic target)")
		}
	}

	if named && vkWouldCross(hnode, name, leafToo) {
		vCover("request crosses an in-root link")
		vAssert(err != nil, vhRefused)
	}
	if err == nil {
		vCover("operation succeeded")
	}
	d.Close()
	vAssert(vkCanaryIntact(), vkCanaryLabel)
}

// VerifC17Opener: Opener.OpenFile (the rsync transmit/receive side) with
// symbolic root-relative paths, several opens on one opener (parent-handle
// cache), the root given directly or through a link outside the root, and an
// adversary that replaces an in-root directory or file by a link to the canary
// between any two kernel calls.
func VerifC17Opener() {
	w := vkNewWorld()
	w.swapBudget = vParam("swaps", 1)
	w.eintrBudget = vParam("eintr", 0)
	w.faultBudget = vParam("faults", 0)
	maxPath := vParam("maxpath", 3)
	opens := vParam("opens", 1)

	// the root is named through the outside link /q -> /p (allowed), or directly
	root := "/q/r"
	if vParam("roots", 2) == 2 && vChoose(2) == 1 {
		root = "/p/r"
	}
	o := NewOpener(root)
	for i := 0; i < opens; i++ {
		var path string
		if i < opens-1 {
			// warm-up opens of a sequence fill the parent-handle stack: concrete requests
			path = []string{"d/x", "f", "d/s/y", "l/x"}[vChoose(4)]
		} else {
			path = vkSymbolicPath(maxPath, vParam("deep", 1) == 1)
		}
		f, md, err := o.OpenFile(path)
		if err == nil {
			vCover("opener: file opened")
			vAssert(md != nil && md.Mode&ModeTypeMask == ModeTypeFile, "model: an opened entry is a regular file")
			var buf [1]byte
			f.Read(buf[:])
			f.Close()
		}
		if w.swapsTaken > 0 {
			vCover("opener: entry replaced by a link during the run")
		}
		// With no replacement after the opener's first kernel call the tree was
		// the same during every call so far: a path that crosses an in-root link
		// in it must have been refused.
		if w.swapsTaken == 0 || w.opsAtSwap == 0 {
			if path != "" && vkWouldCross(w.root, path, true) {
				vCover("opener: request crosses an in-root link")
				vAssert(err != nil, vhRefused)
			}
		}
	}
	o.Close()
	vAssert(vkCanaryIntact(), vkCanaryLabel)
}

package filesystem

import (
	"errors"
	"os"
	"strings"
)

// C27: WriteFileAtomic against a model directory.  Every operation may fail;
// writes may be short.  The invariant "the target path holds exactly the old
// or exactly the new content" is asserted after EVERY model operation (each
// is a possible crash point), and the final state is checked per outcome.

var verifErrIO = errors.New("i/o failure")

type vfFile struct {
	content []byte
	mode    os.FileMode
}

type vfDir struct {
	files  map[string]*vfFile
	names  []string // creation order
	old    []byte
	hadOld bool
	new    []byte
	target string // base name of the target
	ops    int
}

var vfd *vfDir
var vfHandles map[*os.File]string // open handle -> file name
var vfClosed map[*os.File]bool

func vfBase(path string) string {
	if i := strings.LastIndexByte(path, '/'); i >= 0 {
		return path[i+1:]
	}
	return path
}

func vfBytesEq(a, b []byte) bool {
	if len(a) != len(b) {
		return false
	}
	var d byte
	for i := range a {
		d |= a[i] ^ b[i]
	}
	return d == 0
}

// vfCrashPoint: the state between any two operations must be recoverable.
func vfCrashPoint() {
	vfd.ops++
	f, ok := vfd.files[vfd.target]
	if !ok {
		vAssert(!vfd.hadOld, "crash point: an existing target file never disappears")
		return
	}
	isOld := vfd.hadOld && vfBytesEq(f.content, vfd.old)
	isNew := vfBytesEq(f.content, vfd.new)
	vAssert(vOr(isOld, isNew), "crash point: target holds exactly the old or exactly the new content")
}

func vfFail() bool { return vChoose(2) == 1 }

func stubCreateTemp(dir, pattern string) (*os.File, error) {
	if vfFail() {
		vfCrashPoint()
		return nil, verifErrIO
	}
	name := pattern + "1"
	vAssert(dir == "/data", "temporary file is created in the target's directory")
	if _, exists := vfd.files[name]; exists {
		name = pattern + "2"
	}
	vfd.files[name] = &vfFile{mode: 0600}
	vfd.names = append(vfd.names, name)
	h := &os.File{}
	vfHandles[h] = name
	vfCrashPoint()
	return h, nil
}

func stubFileWrite(f *os.File, data []byte) (int, error) {
	name := vfHandles[f]
	vAssert(!vfClosed[f], "no write to a closed file")
	mf := vfd.files[name]
	if vfFail() {
		n := vRange(0, len(data)) // short write
		if mf != nil {
			mf.content = append(mf.content, data[:n]...)
		}
		vfCrashPoint()
		return n, verifErrIO
	}
	if mf != nil {
		mf.content = append(mf.content, data...)
	}
	vfCrashPoint()
	return len(data), nil
}

func stubFileClose(f *os.File) error {
	vfClosed[f] = true
	if vfFail() {
		vfCrashPoint()
		return verifErrIO
	}
	vfCrashPoint()
	return nil
}

func stubFileName(f *os.File) string { return "/data/" + vfHandles[f] }

func stubRemove(path string) error {
	if vfFail() {
		vfCrashPoint()
		return verifErrIO
	}
	name := vfBase(path)
	vAssert(name != vfd.target, "the target itself is never removed")
	delete(vfd.files, name)
	vfCrashPoint()
	return nil
}

func stubChmod(path string, mode os.FileMode) error {
	if vfFail() {
		vfCrashPoint()
		return verifErrIO
	}
	if f := vfd.files[vfBase(path)]; f != nil {
		f.mode = mode
	}
	vfCrashPoint()
	return nil
}

func stubRename(sourceDirectory *Directory, sourceNameOrPath string, targetDirectory *Directory, targetNameOrPath string, replace bool) error {
	if vfFail() {
		vfCrashPoint()
		return verifErrIO
	}
	vAssert(replace, "rename replaces the target")
	src, dst := vfBase(sourceNameOrPath), vfBase(targetNameOrPath)
	f, ok := vfd.files[src]
	if !ok {
		vfCrashPoint()
		return verifErrIO
	}
	// rename(2) is atomic: the target switches from old to new in one step
	delete(vfd.files, src)
	vfd.files[dst] = f
	vfCrashPoint()
	return nil
}

var verifStubs = map[string]any{
	"os.CreateTemp":      stubCreateTemp,
	"(*os.File).Write":   stubFileWrite,
	"(*os.File).Close":   stubFileClose,
	"(*os.File).Name":    stubFileName,
	"os.Remove":          stubRemove,
	"os.Chmod":           stubChmod,
	"github.com/mutagen-io/mutagen/pkg/filesystem.Rename": stubRename,
}

func VerifC27() {
	vfd = &vfDir{files: map[string]*vfFile{}, target: "session"}
	vfHandles = map[*os.File]string{}
	vfClosed = map[*os.File]bool{}
	maxLen := vParam("maxlen", 2)
	vfd.hadOld = vBool()
	if vfd.hadOld {
		vfd.old = vBytes(vRange(0, maxLen))
		vfd.files["session"] = &vfFile{content: append([]byte(nil), vfd.old...), mode: 0600}
	}
	vfd.new = vBytes(vRange(0, maxLen))
	data := append([]byte(nil), vfd.new...)

	err := WriteFileAtomic("/data/session", data, 0600)

	f, exists := vfd.files["session"]
	if err == nil {
		vCover("success")
		vAssert(exists && vfBytesEq(f.content, vfd.new), "success: target holds exactly the new content")
		if exists {
			vAssert(f.mode == 0600, "success: target has the requested permissions")
		}
		vAssert(len(vfd.files) == 1, "success: no other file is left behind")
	} else {
		vCover("failure")
		if vfd.hadOld {
			vAssert(exists && vfBytesEq(f.content, vfd.old), "failure: target still holds exactly the old content")
		} else {
			vAssert(!exists, "failure: no target appears")
		}
	}
	for name := range vfd.files {
		if name != "session" {
			vCover("leftover")
			vAssert(strings.HasPrefix(name, TemporaryNamePrefix), "any other file carries the Mutagen temporary prefix")
		}
	}
	for h := range vfHandles {
		vAssert(vfClosed[h], "every opened file is closed")
	}
}

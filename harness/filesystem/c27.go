package filesystem

// C27, package filesystem: WriteFileAtomic on the model of c27model.go.

const vaTarget = "/data/session"
const vaTempPrefix = TemporaryNamePrefix

func vaFsRename(sourceDirectory *Directory, sourceNameOrPath string, targetDirectory *Directory, targetNameOrPath string, replace bool) error {
	if sourceDirectory != nil || targetDirectory != nil {
		vaUnmodelled("filesystem.Rename relative to directory handles")
	}
	return vaRenamePath(sourceNameOrPath, targetNameOrPath, replace)
}

// vaUnmodelled has no body on purpose: reaching it makes the engine stop with
// "cannot decide" (ENGINE-ERROR) instead of a verdict.
func vaUnmodelled(what string)

func VerifC27() {
	vaRun(func(data []byte) error {
		return WriteFileAtomic(vaTarget, data, 0600)
	}, 0600)
}

package logging

import (
	"regexp"
	"time"
)

// verifNow replaces time.Now: a fixed instant in UTC (the real clock needs the
// local time zone database).  Formatting runs from source.
func verifNow() time.Time { return time.Time{} }

var verifStubs_VerifC44Logger = map[string]any{
	"time.Now": verifNow,
}

// C44: every logged message — direct or relayed through Logger.Writer — yields
// exactly one line with timestamp, level and scope prefix; CR, LF and ESC in
// the message can never produce a second line or a raw control character.

// verifSink records every Write of the logger.
type verifSink struct {
	records [][]byte
}

func (s *verifSink) Write(p []byte) (int, error) {
	s.records = append(s.records, append([]byte(nil), p...))
	return len(p), nil
}

func verifIsDigit(b byte) bool { return vAnd(b >= '0', b <= '9') }

// verifTimestampShape: "dddd-dd-dd dd:dd:dd.dddddd" (26 bytes).
func verifTimestampShape(s []byte) bool {
	if len(s) < 26 {
		return false
	}
	const shape = "dddd-dd-dd dd:dd:dd.dddddd"
	ok := true
	for i := 0; i < 26; i++ {
		if shape[i] == 'd' {
			ok = vAnd(ok, verifIsDigit(s[i]))
		} else {
			ok = vAnd(ok, s[i] == shape[i])
		}
	}
	return ok
}

// verifCheckRecord asserts the line discipline of one record and returns the
// body (what follows the prefix, including the final newline).
func verifCheckRecord(rec []byte, abbreviation byte, scope string) []byte {
	n := len(rec)
	vAssert(n > 0 && rec[n-1] == '\n', "record ends with a newline")
	if n == 0 {
		return nil
	}
	clean := true
	for i := 0; i < n; i++ {
		if i < n-1 {
			clean = vAnd(clean, rec[i] != '\n')
		}
		clean = vAnd(clean, rec[i] != '\r', rec[i] != 0x1b)
	}
	vAssert(clean, "record has no inner newline, no raw carriage return, no raw escape")
	// prefix
	hdr := 26 + 5
	if scope != "" {
		hdr += len(scope) + 3
	}
	vAssert(n >= hdr, "record carries the full prefix")
	if n < hdr {
		return nil
	}
	vAssert(verifTimestampShape(rec), "record starts with a timestamp")
	vAssert(vAnd(rec[26] == ' ', rec[27] == '[', rec[28] == abbreviation, rec[29] == ']', rec[30] == ' '), "record carries its level")
	if scope != "" {
		want := "[" + scope + "] "
		vAssert(string(rec[31:hdr]) == want, "record carries its scope")
	}
	return rec[hdr:]
}

// verifCheckBody: the message text up to its first CR/LF (if free of ESC)
// opens the body; a message without CR/LF/ESC is reproduced exactly.
func verifCheckBody(body []byte, message string) {
	k := len(message)
	for i := len(message) - 1; i >= 0; i-- {
		if vOr(message[i] == '\n', message[i] == '\r') {
			k = i
		}
	}
	head := message[:k]
	hasEsc := false
	for i := 0; i < len(head); i++ {
		hasEsc = vOr(hasEsc, head[i] == 0x1b)
	}
	if hasEsc {
		vCover("esc")
		return
	}
	vAssert(len(body) >= k+1, "body holds the message up to its first line break")
	if len(body) < k+1 {
		return
	}
	vAssert(string(body[:k]) == head, "body starts with the message up to its first line break")
	if k == len(message) {
		vCover("plain")
		vAssert(len(body) == k+1, "a message without line breaks or escapes is reproduced exactly")
	} else {
		vCover("truncated")
	}
}

var verifAbbrev = [6]byte{'_', 'E', 'W', 'I', 'D', 'T'} // documented one-letter level tags

func verifScope() string {
	switch vChoose(3) {
	case 1:
		return "sc"
	case 2:
		return "alpha.b_2"
	}
	return ""
}

// VerifC44Logger: every Logger method on a symbolic message.
func VerifC44Logger() {
	maxLen := vParam("maxlen", 6)
	sink := &verifSink{}
	scope := verifScope()
	level := Level(verifRange(1, 5))
	// logger threshold: just below the message's level (gated), or the most
	// verbose one (logged; for Error/Warn also the level itself)
	loggerLevel := LevelTrace
	switch vChoose(3) {
	case 1:
		loggerLevel = level - 1
	case 2:
		vAssume(level <= LevelWarn)
		loggerLevel = level
	}
	l := &Logger{level: loggerLevel, scope: scope, writer: sink}
	message := vString(verifRange(0, maxLen))
	formatted := vBool()
	switch {
	case level == LevelError && !formatted:
		l.Error(message)
	case level == LevelError:
		l.Errorf("%s", message)
	case level == LevelWarn && !formatted:
		l.Warn(message)
	case level == LevelWarn:
		l.Warnf("%s", message)
	case level == LevelInfo && !formatted:
		l.Info(message)
	case level == LevelInfo:
		l.Infof("%s", message)
	case level == LevelDebug && !formatted:
		l.Debug(message)
	case level == LevelDebug:
		l.Debugf("%s", message)
	case level == LevelTrace && !formatted:
		l.Trace(message)
	default:
		l.Tracef("%s", message)
	}
	if loggerLevel < level {
		vCover("gated")
		vAssert(len(sink.records) == 0, "messages above the logger's level are not written")
		return
	}
	vCover("logged")
	vAssert(len(sink.records) == 1, "one record per logged message")
	if len(sink.records) != 1 {
		return
	}
	body := verifCheckRecord(sink.records[0], verifAbbrev[level], scope)
	if body != nil {
		verifCheckBody(body, message)
	}
}

// ------------------------------------------------------------------ relay

// verifMatchLogPrefix is a hand-written matcher for linePrefixMatcher
// (`^\d{4}-\d{2}-\d{2} \d{2}:\d{2}:\d{2}\.\d{6} \[([_EWIDT])\] `).
func verifMatchLogPrefix(s string) []string {
	if len(s) < 31 {
		return nil
	}
	b := []byte(s[:31])
	if !verifTimestampShape(b) {
		return nil
	}
	if !vAnd(b[26] == ' ', b[27] == '[', b[29] == ']', b[30] == ' ') {
		return nil
	}
	if !vOr(b[28] == '_', b[28] == 'E', b[28] == 'W', b[28] == 'I', b[28] == 'D', b[28] == 'T') {
		return nil
	}
	return []string{s[:31], s[28:29]}
}

func verifFindStringSubmatch(re *regexp.Regexp, s string) []string {
	if re != linePrefixMatcher {
		vFail("unexpected regular expression in the relay path")
	}
	return verifMatchLogPrefix(s)
}

var verifStubs_VerifC44Relay = map[string]any{
	"(*regexp.Regexp).FindStringSubmatch": verifFindStringSubmatch,
	"time.Now":                            verifNow,
}

// VerifC44Relay: a byte stream relayed through Logger.Writer (agent error
// output), optionally opening with a forged log-line prefix.
func VerifC44Relay() {
	maxLen := vParam("maxlen", 6)
	sink := &verifSink{}
	scope := ""
	if vBool() {
		scope = "alpha.b_2"
	}
	loggerLevel := LevelTrace
	if vBool() {
		loggerLevel = LevelWarn
	}
	l := &Logger{level: loggerLevel, scope: scope, writer: sink}
	relayLevel := LevelError
	w := l.Writer(relayLevel)

	// stream = optional forged prefix + symbolic bytes, delivered in 1 or 2 writes
	var stream []byte
	forged := byte(0)
	if vBool() {
		forged = "ET_X"[vChoose(4)] // passes / gated at Warn / 'disabled' tag / not a level tag
		stream = append(stream, "2024-02-29 23:59:59.123456 ["...)
		stream = append(stream, forged, ']', ' ')
		vCover("forged")
	}
	prefixLen := len(stream)
	stream = append(stream, vBytes(verifRange(0, maxLen))...)
	cut := len(stream) // one write
	switch vChoose(3) {
	case 1: // split inside the symbolic tail
		vAssume(len(stream) > prefixLen)
		cut = prefixLen + 1
	case 2: // split inside the forged prefix
		vAssume(prefixLen > 0)
		cut = 12
	}
	n, err := w.Write(stream[:cut])
	vAssert(n == cut && err == nil, "relay accepts the bytes")
	n, err = w.Write(stream[cut:])
	vAssert(n == len(stream)-cut && err == nil, "relay accepts the bytes")

	// own line splitting: complete lines only, one trailing CR belongs to the terminator
	var lines [][]byte
	var cur []byte
	for _, b := range stream {
		if b != '\n' {
			cur = append(cur, b)
			continue
		}
		if len(cur) > 0 && cur[len(cur)-1] == '\r' {
			cur = cur[:len(cur)-1]
		}
		lines = append(lines, cur)
		cur = nil
	}

	// expected records
	want := 0
	for i, line := range lines {
		abbreviation := verifAbbrev[relayLevel]
		isLogLine := false
		if i == 0 && forged != 0 && forged != 'X' && len(line) >= 31 {
			// a line another logger produced: gated by its own level
			isLogLine = true
			abbreviation = forged
			lineLevel := Level(0)
			for j := range verifAbbrev {
				if verifAbbrev[j] == forged {
					lineLevel = Level(j)
				}
			}
			if loggerLevel < lineLevel {
				vCover("relay-gated")
				continue
			}
			vCover("relay-logline")
		}
		want++
		vAssert(len(sink.records) >= want, "one record per relayed line")
		if len(sink.records) < want {
			return
		}
		body := verifCheckRecord(sink.records[want-1], abbreviation, scope)
		if body != nil {
			if isLogLine {
				verifCheckBody(body, string(line[31:]))
			} else {
				vCover("relay-plain")
				verifCheckBody(body, string(line))
			}
		}
	}
	vAssert(len(sink.records) == want, "nothing but the relayed lines is written")
	if len(lines) > 1 {
		vCover("relay-multi")
	}
}

// verifRange is vRange that does not consume a choice for a one-value range
// (the engine records none there, the native replay runtime would read one).
func verifRange(lo, hi int) int {
	if hi <= lo {
		return lo
	}
	return vRange(lo, hi)
}

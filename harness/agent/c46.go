package agent

import (
	"archive/tar"
	"errors"
	"io"
	"os"
	"time"

	"github.com/klauspost/compress/gzip"
)

// C46: ExecutableForPlatform (and the real filesystem.LibexecPath) over a
// model installation: the executable's location (plain or symbolic link, FHS
// layout or not), what sits at <dir>/mutagen-agents.tar.gz in each search
// location, the archive in each bundle (symbolic entry names and bytes), the
// requested platform (symbolic) and the output file.  gzip is an identity
// model; the tar reader is a model over the entry list of the file that was
// handed to the decompressor.

const verifC46BundleName = "mutagen-agents.tar.gz"

var verifC46ErrIO = errors.New("i/o failure")

// location states
const (
	verifC46Absent  = 0 // no such name: open fails with "does not exist"
	verifC46Regular = 1 // a regular file: the location holds a bundle
	verifC46NotFile = 2 // the name exists but is not a regular file
	verifC46NoPerm  = 3 // open fails with a permission error
	verifC46NoStat  = 4 // open succeeds, Stat fails
)

var verifC46StateNames = []string{"absent", "regular file", "not a regular file", "cannot be opened", "cannot be stat'ed"}

// faults (at most one per path)
const (
	verifC46FaultNone = iota
	verifC46FaultGzip
	verifC46FaultHeader
	verifC46FaultRead
	verifC46FaultCreate
	verifC46FaultWrite
	verifC46FaultChmod
	verifC46FaultClose
	verifC46FaultCount
)

type verifC46Layout struct {
	exe      string   // os.Executable()
	link     bool     // the executable path is a symbolic link
	target   string   // its target
	exeBndl  string   // documented: <directory of the running executable>/mutagen-agents.tar.gz
	libBndl  string   // documented: <prefix>/libexec/mutagen-agents.tar.gz if the (resolved) executable is <prefix>/bin/<x>, else ""
	exeFails bool     // os.Executable fails
	lstFails bool     // os.Lstat of the executable fails
	rdlFails bool     // os.Readlink fails
	decoys   []string // bundles in directories that are NOT search locations for this layout
}

var verifC46Layouts = []verifC46Layout{
	{exe: "/opt/bin/mutagen", exeBndl: "/opt/bin/" + verifC46BundleName, libBndl: "/opt/libexec/" + verifC46BundleName},
	{exe: "/opt/app/mutagen", exeBndl: "/opt/app/" + verifC46BundleName},
	{exe: "/usr/local/bin/mutagen", link: true, target: "/opt/pkg/bin/mutagen", exeBndl: "/usr/local/bin/" + verifC46BundleName, libBndl: "/opt/pkg/libexec/" + verifC46BundleName,
		decoys: []string{"/usr/local/libexec/" + verifC46BundleName}},
	{exe: "/home/u/mutagen", link: true, target: "../sw/bin/mutagen", exeBndl: "/home/u/" + verifC46BundleName, libBndl: "/home/sw/libexec/" + verifC46BundleName,
		decoys: []string{"/home/libexec/" + verifC46BundleName, "/home/u/sw/libexec/" + verifC46BundleName, "/home/u/libexec/" + verifC46BundleName}},
	{exe: "/x/bin/mutagen", link: true, target: "/y/tool/mutagen", exeBndl: "/x/bin/" + verifC46BundleName},
	{exe: "/bin/mutagen", exeBndl: "/bin/" + verifC46BundleName, libBndl: "/libexec/" + verifC46BundleName},
	{exe: "/mutagen", exeBndl: "/" + verifC46BundleName},
	// environment failures: the libexec location cannot be determined (or nothing can)
	{exe: "/opt/bin/mutagen", exeFails: true},
	{exe: "/opt/bin/mutagen", lstFails: true, exeBndl: "/opt/bin/" + verifC46BundleName},
	{exe: "/usr/local/bin/mutagen", link: true, target: "/opt/pkg/bin/mutagen", rdlFails: true, exeBndl: "/usr/local/bin/" + verifC46BundleName},
}

type verifC46Entry struct {
	name string
	data []byte
}

type verifC46Bundle struct {
	path    string
	state   int
	entries []verifC46Entry
}

type verifC46Info struct{ mode os.FileMode }

func (i *verifC46Info) Name() string       { return "x" }
func (i *verifC46Info) Size() int64        { return 0 }
func (i *verifC46Info) Mode() os.FileMode  { return i.mode }
func (i *verifC46Info) ModTime() time.Time { return time.Time{} }
func (i *verifC46Info) IsDir() bool        { return i.mode&os.ModeDir != 0 }
func (i *verifC46Info) Sys() any           { return nil }

type verifC46World struct {
	layout  verifC46Layout
	bundles []*verifC46Bundle
	fault   int
	taken   bool // the injected fault was hit
	oneByte bool // the tar reader delivers one byte per Read

	// bundle files
	handles  []*os.File
	handleOf []*verifC46Bundle
	closed   []int

	// decompressor / archive reader
	gzCalls int
	gzFile  *os.File
	gzFrom  *verifC46Bundle
	cur     int // index of the current entry, -1 before the first Next
	pos     int
	done    bool // Next has reported the end of the archive

	// output file
	outExisted bool
	outOld     []byte
	out        *os.File
	outName    string
	outData    []byte
	outOff     int
	outAppend  bool
	outWrite   bool
	outClosed  bool
	outCreates int
	removed    []string
}

var verifC46 *verifC46World

func (w *verifC46World) hit(f int) bool {
	if w.fault == f && !w.taken {
		w.taken = true
		return true
	}
	return false
}

func (w *verifC46World) bundleAt(path string) *verifC46Bundle {
	for _, b := range w.bundles {
		if b.path == path {
			return b
		}
	}
	return nil
}

func (w *verifC46World) handleIndex(f *os.File) int {
	for i, h := range w.handles {
		if h == f {
			return i
		}
	}
	return -1
}

// ---- environment stubs -------------------------------------------------

func verifC46Executable() (string, error) {
	if verifC46.layout.exeFails {
		return "", verifC46ErrIO
	}
	return verifC46.layout.exe, nil
}

func verifC46Lstat(path string) (os.FileInfo, error) {
	l := verifC46.layout
	if l.lstFails || path != l.exe {
		return nil, &os.PathError{Op: "lstat", Path: path, Err: verifC46ErrIO}
	}
	if l.link {
		return &verifC46Info{mode: os.ModeSymlink | 0777}, nil
	}
	return &verifC46Info{mode: 0755}, nil
}

func verifC46Readlink(path string) (string, error) {
	l := verifC46.layout
	if l.rdlFails || !l.link || path != l.exe {
		return "", &os.PathError{Op: "readlink", Path: path, Err: verifC46ErrIO}
	}
	return l.target, nil
}

func verifC46Open(path string) (*os.File, error) {
	w := verifC46
	b := w.bundleAt(path)
	if b == nil || b.state == verifC46Absent {
		return nil, &os.PathError{Op: "open", Path: path, Err: os.ErrNotExist}
	}
	if b.state == verifC46NoPerm {
		return nil, &os.PathError{Op: "open", Path: path, Err: os.ErrPermission}
	}
	h := &os.File{}
	w.handles = append(w.handles, h)
	w.handleOf = append(w.handleOf, b)
	w.closed = append(w.closed, 0)
	return h, nil
}

func verifC46FileStat(f *os.File) (os.FileInfo, error) {
	w := verifC46
	i := w.handleIndex(f)
	if i < 0 {
		vFail("model: Stat on a file that is not an opened bundle")
		return nil, verifC46ErrIO
	}
	switch w.handleOf[i].state {
	case verifC46NoStat:
		return nil, verifC46ErrIO
	case verifC46NotFile:
		return &verifC46Info{mode: os.ModeDir | 0755}, nil
	}
	return &verifC46Info{mode: 0644}, nil
}

// gzip: identity model.  The decompressed stream of a bundle file is that
// file's archive; the archive reader below reads from the file recorded here.
func verifC46GzipNewReader(r io.Reader) (*gzip.Reader, error) {
	w := verifC46
	w.gzCalls++
	f, ok := r.(*os.File)
	if !ok {
		vFail("model: decompressor created over something that is not an opened bundle file")
		return nil, verifC46ErrIO
	}
	i := w.handleIndex(f)
	if i < 0 {
		vFail("model: decompressor created over something that is not an opened bundle file")
		return nil, verifC46ErrIO
	}
	if w.closed[i] > 0 {
		return nil, os.ErrClosed
	}
	if w.hit(verifC46FaultGzip) {
		return nil, verifC46ErrIO
	}
	w.gzFile = f
	w.gzFrom = w.handleOf[i]
	w.cur = -1
	w.pos = 0
	return &gzip.Reader{}, nil
}

func verifC46GzipClose(z *gzip.Reader) error { return nil }

func (w *verifC46World) sourceUsable() bool {
	if w.gzFile == nil {
		return false
	}
	return w.closed[w.handleIndex(w.gzFile)] == 0
}

// tar reader model (archive/tar semantics): Next moves to the next entry
// (skipping what is left of the current one) or reports io.EOF; Read delivers
// the current entry's remaining bytes and reports io.EOF together with the
// last of them (as archive/tar does) and on every later call.
func verifC46TarNext(tr *tar.Reader) (*tar.Header, error) {
	w := verifC46
	if !w.sourceUsable() {
		return nil, os.ErrClosed
	}
	if w.done {
		return nil, io.EOF
	}
	if w.cur+1 >= len(w.gzFrom.entries) {
		w.cur = len(w.gzFrom.entries)
		w.pos = 0
		w.done = true
		return nil, io.EOF
	}
	if w.cur+1 == 1 && w.hit(verifC46FaultHeader) {
		// the second header of the archive is damaged
		return nil, verifC46ErrIO
	}
	w.cur++
	w.pos = 0
	e := w.gzFrom.entries[w.cur]
	return &tar.Header{Typeflag: tar.TypeReg, Name: e.name, Size: int64(len(e.data)), Mode: 0755}, nil
}

func verifC46TarRead(tr *tar.Reader, p []byte) (int, error) {
	w := verifC46
	if !w.sourceUsable() {
		return 0, os.ErrClosed
	}
	if w.cur < 0 || w.cur >= len(w.gzFrom.entries) {
		return 0, io.EOF
	}
	data := w.gzFrom.entries[w.cur].data
	rem := len(data) - w.pos
	if rem == 0 {
		return 0, io.EOF
	}
	if len(p) == 0 {
		return 0, nil
	}
	if w.hit(verifC46FaultRead) {
		return 0, verifC46ErrIO
	}
	n := len(p)
	if n > rem {
		n = rem
	}
	if w.oneByte {
		n = 1
	}
	copy(p, data[w.pos:w.pos+n])
	w.pos += n
	if w.pos == len(data) {
		return n, io.EOF
	}
	return n, nil
}

// output file
func verifC46OpenFile(name string, flag int, perm os.FileMode) (*os.File, error) {
	w := verifC46
	w.outCreates++
	if w.hit(verifC46FaultCreate) {
		return nil, &os.PathError{Op: "open", Path: name, Err: verifC46ErrIO}
	}
	if w.out != nil {
		vFail("model: a second output file is opened")
		return nil, verifC46ErrIO
	}
	if !w.outExisted && flag&os.O_CREATE == 0 {
		return nil, &os.PathError{Op: "open", Path: name, Err: os.ErrNotExist}
	}
	if w.outExisted && flag&os.O_EXCL != 0 {
		return nil, &os.PathError{Op: "open", Path: name, Err: os.ErrExist}
	}
	if w.outExisted && flag&os.O_TRUNC == 0 {
		w.outData = append([]byte(nil), w.outOld...)
	}
	w.outAppend = flag&os.O_APPEND != 0
	w.outWrite = flag&(os.O_WRONLY|os.O_RDWR) != 0
	w.out = &os.File{}
	w.outName = name
	return w.out, nil
}

func verifC46CreateTemp(dir, pattern string) (*os.File, error) {
	w := verifC46
	w.outCreates++
	if w.hit(verifC46FaultCreate) {
		return nil, &os.PathError{Op: "createtemp", Path: pattern, Err: verifC46ErrIO}
	}
	if w.out != nil {
		vFail("model: a second output file is opened")
		return nil, verifC46ErrIO
	}
	w.outWrite = true
	w.out = &os.File{}
	if dir == "" {
		dir = "/tmp"
	}
	w.outName = dir + "/1234-" + pattern
	return w.out, nil
}

func verifC46FileWrite(f *os.File, b []byte) (int, error) {
	w := verifC46
	if f != w.out || w.out == nil {
		vFail("model: write to a file that is not the output file")
		return 0, verifC46ErrIO
	}
	if w.outClosed {
		return 0, os.ErrClosed
	}
	if !w.outWrite {
		return 0, &os.PathError{Op: "write", Path: w.outName, Err: os.ErrPermission}
	}
	if w.hit(verifC46FaultWrite) {
		return 0, &os.PathError{Op: "write", Path: w.outName, Err: verifC46ErrIO}
	}
	if w.outAppend {
		w.outOff = len(w.outData)
	}
	for _, c := range b {
		if w.outOff < len(w.outData) {
			w.outData[w.outOff] = c
		} else {
			w.outData = append(w.outData, c)
		}
		w.outOff++
	}
	return len(b), nil
}

type verifC46WriterOnly struct{ f *os.File }

func (x verifC46WriterOnly) Write(b []byte) (int, error) { return verifC46FileWrite(x.f, b) }

// (*os.File).ReadFrom without the kernel fast paths (they apply to file and
// socket sources only): the generic copy loop over Write.
func verifC46FileReadFrom(f *os.File, r io.Reader) (int64, error) {
	return io.Copy(verifC46WriterOnly{f}, r)
}

func verifC46FileChmod(f *os.File, mode os.FileMode) error {
	w := verifC46
	if f != w.out || w.out == nil {
		vFail("model: chmod on a file that is not the output file")
		return verifC46ErrIO
	}
	if w.outClosed {
		return os.ErrClosed
	}
	if w.hit(verifC46FaultChmod) {
		return verifC46ErrIO
	}
	return nil
}

func verifC46FileClose(f *os.File) error {
	w := verifC46
	if f != nil && f == w.out {
		if w.outClosed {
			return os.ErrClosed
		}
		w.outClosed = true
		if w.hit(verifC46FaultClose) {
			return verifC46ErrIO
		}
		return nil
	}
	i := w.handleIndex(f)
	if i < 0 {
		vFail("model: close of an unknown file")
		return verifC46ErrIO
	}
	w.closed[i]++
	if w.closed[i] > 1 {
		return os.ErrClosed
	}
	return nil
}

func verifC46FileName(f *os.File) string {
	w := verifC46
	if f != nil && f == w.out {
		return w.outName
	}
	if i := w.handleIndex(f); i >= 0 {
		return w.handleOf[i].path
	}
	return ""
}

func verifC46Remove(path string) error {
	verifC46.removed = append(verifC46.removed, path)
	return nil
}

var verifStubs = map[string]any{
	"os.Executable":       verifC46Executable,
	"os.Lstat":            verifC46Lstat,
	"os.Readlink":         verifC46Readlink,
	"os.Open":             verifC46Open,
	"os.OpenFile":         verifC46OpenFile,
	"os.CreateTemp":       verifC46CreateTemp,
	"os.Remove":           verifC46Remove,
	"(*os.File).Stat":     verifC46FileStat,
	"(*os.File).Write":    verifC46FileWrite,
	"(*os.File).ReadFrom": verifC46FileReadFrom,
	"(*os.File).Chmod":    verifC46FileChmod,
	"(*os.File).Close":    verifC46FileClose,
	"(*os.File).Name":     verifC46FileName,
	"github.com/klauspost/compress/gzip.NewReader":       verifC46GzipNewReader,
	"(*github.com/klauspost/compress/gzip.Reader).Close": verifC46GzipClose,
	"(*archive/tar.Reader).Next":                         verifC46TarNext,
	"(*archive/tar.Reader).Read":                         verifC46TarRead,
}

// ---- harness -----------------------------------------------------------

func verifC46BytesEq(a, b []byte) bool {
	if len(a) != len(b) {
		return false
	}
	var d byte
	for i := range a {
		d |= a[i] ^ b[i]
	}
	return d == 0
}

// verifC46Archive: entries with the given sizes, symbolic names of nameLen
// bytes and symbolic contents.
func verifC46Archive(tag string, sizes []int, nameLens []int) []verifC46Entry {
	var out []verifC46Entry
	for k, n := range sizes {
		vLabel(tag + ": entry name")
		name := vString(nameLens[k])
		vLabel(tag + ": entry bytes")
		data := vBytes(n)
		vLabel("")
		out = append(out, verifC46Entry{name: name, data: data})
	}
	return out
}

// VerifC46Search: every layout x everything that can sit at the bundle name
// in each search location; one-entry archives with distinct symbolic contents.
func VerifC46Search() {
	w := &verifC46World{cur: -1}
	verifC46 = w
	w.layout = verifC46Layouts[vChoose(len(verifC46Layouts))]
	sizes := []int{vParam("searchsize", 1)}
	lens := []int{3}
	if w.layout.exeBndl != "" {
		w.bundles = append(w.bundles, &verifC46Bundle{path: w.layout.exeBndl, state: vChoose(5), entries: verifC46Archive("bundle beside the executable", sizes, lens)})
	}
	if w.layout.libBndl != "" {
		w.bundles = append(w.bundles, &verifC46Bundle{path: w.layout.libBndl, state: vChoose(5), entries: verifC46Archive("bundle in libexec", sizes, lens)})
	}
	for _, d := range w.layout.decoys {
		w.bundles = append(w.bundles, &verifC46Bundle{path: d, state: verifC46Regular, entries: verifC46Archive("bundle in a libexec directory of another prefix", sizes, lens)})
	}
	if w.layout.lstFails || w.layout.rdlFails {
		// a bundle exists in what would be the libexec directory, but that
		// directory cannot be determined
		w.bundles = append(w.bundles, &verifC46Bundle{path: "/opt/libexec/" + verifC46BundleName, state: verifC46Regular, entries: verifC46Archive("bundle in undetermined libexec", sizes, lens)})
		w.bundles = append(w.bundles, &verifC46Bundle{path: "/opt/pkg/libexec/" + verifC46BundleName, state: verifC46Regular, entries: verifC46Archive("bundle in undetermined libexec (2)", sizes, lens)})
	}
	outputPath := ""
	if vBool() {
		outputPath = "/out/agent"
	}
	verifC46Run(w, 1, 1, outputPath)
}

// VerifC46Extract: FHS layout with a bundle in one or both locations; archive
// shapes, platform names, output modes, read fragmentation and one I/O fault.
func VerifC46Extract() {
	w := &verifC46World{cur: -1}
	verifC46 = w
	w.layout = verifC46Layouts[0]
	maxEntries := vParam("maxentries", 2)
	maxSize := vParam("maxsize", 2)
	n := vRange(0, maxEntries)
	var sizes, lens []int
	for k := 0; k < n; k++ {
		sizes = append(sizes, vRange(0, maxSize))
		if vParam("namelens", 0) != 0 {
			lens = append(lens, vRange(3, 4))
		} else {
			lens = append(lens, 3+k%2) // 3, 4, 3, ...
		}
	}
	exeState, libState := verifC46Regular, verifC46Regular
	switch vChoose(3) {
	case 1:
		exeState = verifC46Absent
	case 2:
		libState = verifC46Absent
	}
	// both archives have the same shape but independent names and contents
	w.bundles = append(w.bundles, &verifC46Bundle{path: w.layout.exeBndl, state: exeState, entries: verifC46Archive("bundle beside the executable", sizes, lens)})
	w.bundles = append(w.bundles, &verifC46Bundle{path: w.layout.libBndl, state: libState, entries: verifC46Archive("bundle in libexec", sizes, lens)})
	w.fault = vChoose(verifC46FaultCount)
	w.oneByte = vBool()
	outputPath := ""
	switch vChoose(3) {
	case 1:
		outputPath = "/out/agent"
	case 2:
		outputPath = "/out/agent"
		w.outExisted = true
		vLabel("previous content of the output file")
		w.outOld = vBytes(maxSize + 1)
		vLabel("")
	}
	osLen := vRange(1, 2)
	verifC46Run(w, osLen, 1, outputPath)
}

func verifC46Run(w *verifC46World, osLen, archLen int, outputPath string) {
	vLabel("goos")
	goos := vString(osLen)
	vLabel("goarch")
	goarch := vString(archLen)
	vLabel("")
	want := goos + "_" + goarch // the documented entry name for a platform

	vNote("os.Executable()=" + w.layout.exe + " link target=" + w.layout.target + " output path=" + outputPath)
	for _, b := range w.bundles {
		vNote(b.path + ": " + verifC46StateNames[b.state])
	}

	ExpectedBundleLocation = BundleLocationDefault
	path, err := ExecutableForPlatform(goos, goarch, outputPath)

	// --- independent model of the documented search -----------------------
	// order: directory of the running executable, then libexec; the first
	// location holding a bundle (a regular file of the bundle name) is used.
	var first *verifC46Bundle
	blocked := false // an earlier location holds something unusable: no demand
	for _, p := range []string{w.layout.exeBndl, w.layout.libBndl} {
		if p == "" || first != nil {
			continue
		}
		b := w.bundleAt(p)
		switch {
		case b == nil, b.state == verifC46Absent:
		case b.state == verifC46Regular:
			if !blocked {
				first = b
			}
		default:
			blocked = true
		}
	}
	if first != nil {
		if first.path == w.layout.exeBndl {
			vCover("bundle beside the executable")
			if lb := w.bundleAt(w.layout.libBndl); w.layout.libBndl != "" && lb != nil && lb.state == verifC46Regular {
				vCover("bundles in both locations")
			}
		} else {
			vCover("bundle only in libexec")
		}
	} else if !blocked {
		vCover("no bundle anywhere")
	}

	// every bundle file that was opened is closed again (DESIGN §6)
	for i := range w.handles {
		vAssert(w.closed[i] >= 1, "every opened bundle file is closed before returning")
	}

	if err == nil {
		vCover("extracted")
		used := first
		if blocked {
			// an earlier location holds something unusable (no demand on
			// whether that is an error); whatever is used instead must still
			// be a bundle from a documented location
			used = w.gzFrom
			vAssert(used != nil && used.state == verifC46Regular && (used.path == w.layout.exeBndl || used.path == w.layout.libBndl), "the bundle used comes from a documented search location")
		}
		if used == nil {
			vFail("an agent is returned although no search location holds a bundle")
			return
		}
		vAssert(w.gzCalls == 1 && w.gzFrom == used, "the bundle used is the one in the first search location holding a bundle (executable directory before libexec)")
		if w.gzFrom != used {
			return
		}
		var match, exact []bool
		for _, e := range used.entries {
			m := e.name == want
			match = append(match, m)
			exact = append(exact, vAnd(m, verifC46BytesEq(w.outData, e.data)))
		}
		vAssert(vOr(match...), "unknown platforms are rejected")
		vAssert(vOr(exact...), "the extracted file is byte-for-byte the archive entry for the requested platform")
		vAssert(w.out != nil && path == w.outName, "the returned path names the file that received the agent")
		if outputPath != "" {
			vAssert(path == outputPath, "the agent is written to the requested output path")
			if w.outExisted {
				vCover("existing output file replaced")
			}
		}
		if w.oneByte && len(w.outData) > 1 {
			vCover("fragmented copy")
		}
		if len(w.outData) == 0 {
			vCover("empty entry")
		}
		return
	}

	vCover("rejected")
	if first == nil || blocked {
		return
	}
	var match []bool
	for _, e := range first.entries {
		match = append(match, e.name == want)
	}
	known := vOr(match...)
	if !known {
		vCover("unknown platform")
		return
	}
	if w.taken {
		vCover("i/o fault")
		return
	}
	vFail("a platform present in the first bundle found is extracted when nothing fails")
}

package agent

import (
	"errors"
	"io"
)

var verifErrIO = errors.New("stream failure")

type verifStream struct {
	fragMode  int
	fragDone  bool
	in        []byte
	pos       int
	out       []byte
	failWrite bool
	readErr   error
}

func (s *verifStream) Read(p []byte) (int, error) {
	if len(p) == 0 {
		return 0, nil
	}
	rem := len(s.in) - s.pos
	if rem == 0 {
		return 0, s.readErr
	}
	max := len(p)
	if rem < max {
		max = rem
	}
	n := s.fragment(max)
	copy(p, s.in[s.pos:s.pos+n])
	s.pos += n
	return n, nil
}

// fragment picks how many of the max available bytes this Read delivers.
// mode 0: arbitrary size on every call (all fragmentations); 1: everything
// available; 2: one byte at a time; 3: arbitrary first fragment, then all.
func (s *verifStream) fragment(max int) int {
	switch s.fragMode {
	case 0:
		return vRange(1, max)
	case 2:
		return 1
	case 3:
		if !s.fragDone {
			s.fragDone = true
			return vRange(1, max)
		}
	}
	return max
}

func (s *verifStream) Write(p []byte) (int, error) {
	if s.failWrite {
		return 0, verifErrIO
	}
	s.out = append(s.out, p...)
	return len(p), nil
}

func verifEq3(a []byte, m [3]byte) bool {
	return len(a) == 3 && a[0] == m[0] && a[1] == m[1] && a[2] == m[2]
}

func VerifC34Magic() {
	s := &verifStream{readErr: io.EOF}
	s.in = vBytes(vRange(0, vParam("maxin", 4)))
	s.failWrite = vBool()
	if vParam("allfrag", 0) == 0 {
		s.fragMode = 1 + vChoose(3)
	}
	if vBool() {
		s.readErr = verifErrIO
	}
	client := vBool()
	var err error
	var expect, send [3]byte
	if client {
		expect, send = [3]byte{0x05, 0x27, 0x87}, [3]byte{0x87, 0x27, 0x05}
		err = ClientHandshake(s)
	} else {
		expect, send = [3]byte{0x87, 0x27, 0x05}, [3]byte{0x05, 0x27, 0x87}
		err = ServerHandshake(s)
	}
	peerOK := len(s.in) >= 3 && verifEq3(s.in[:3], expect)
	ioOK := len(s.in) >= 3 && !s.failWrite
	if err == nil {
		vCover("accepted")
		vAssert(peerOK && ioOK, "accepted only with the exact peer magic number and a working stream")
		vAssert(verifEq3(s.out, send), "sent exactly this side's magic number")
	} else {
		vCover("rejected")
		vAssert(!(peerOK && ioOK), "matching peer with working stream is accepted")
	}
	if client && !peerOK {
		vAssert(len(s.out) == 0, "client sends nothing to a peer that is not an agent server")
	}
	vAssert(s.pos <= 3, "never consumes more than the 3 magic bytes")
	vAssert(expect != send, "client and server magic numbers differ")
}

// Cross-composition of the two real functions.
func VerifC34MagicCross() {
	a := &verifStream{readErr: io.EOF}
	_ = ServerHandshake(a)
	c := &verifStream{readErr: io.EOF, in: a.out, fragMode: 1 + vChoose(3)}
	err := ClientHandshake(c)
	vCover("cross")
	vAssert(err == nil, "client accepts what the server sends")
	sv := &verifStream{readErr: io.EOF, in: c.out, fragMode: 1 + vChoose(3)}
	vAssert(ServerHandshake(sv) == nil, "server accepts what the client sends")
	// a client must not accept another client, nor a server another server
	cc := &verifStream{readErr: io.EOF, in: c.out, fragMode: 1 + vChoose(3)}
	vAssert(ClientHandshake(cc) != nil, "client rejects a client")
}

#!/usr/bin/env python3
"""Writes /tmp/mut/<id>/PROMPT.md for a seeding sub-agent: the property text and the task, nothing from /verif's machinery."""
import json, sys, os
props = {json.loads(l)['id']: json.loads(l) for l in open('/verif/properties.jsonl')}
T = '''# Task: seed realistic property-breaking changes into mutagen

You are helping to test a verification effort. The project is mutagen-io/mutagen (Go; file synchronization
and network forwarding). You have your own scratch git worktree of it at `/tmp/mut/{id}/repo`.
Work ONLY under `/tmp/mut/{id}/`. Do NOT read, list or touch `/verif` or `/repo` (your result must be independent
of any existing verification machinery). Deliverables go to `/tmp/mut/{id}/out/`.

Go environment for every shell call (env does not persist; there is no network):

    export PATH=/root/go/pkg/mod/golang.org/toolchain@v0.0.1-go1.25.0.linux-amd64/bin:$PATH GOTOOLCHAIN=local GOFLAGS=-mod=mod GOPROXY=off

## The property (semantic property of mutagen that should hold)

id: {id}
title: {title}

statement: {statement}

quantified over: {quant}

anchored in: {anchors}

## What to produce

Up to THREE independent alternative changes ("mutations") to mutagen's non-test source, each of which

1. still compiles (`go build ./...`) and keeps the EXISTING test suite passing — run at least
   `go test -vet=off -count=1 ./pkg/...` (about 2-3 minutes) with the change applied; do not edit or delete existing tests;
2. BREAKS the property above as stated (for some input / schedule / fault / history in its quantifier);
3. needs something specific to manifest — a particular interleaving, a crash or fault at a particular point, a
   multi-step sequence of operations, an unusual input (boundary value, empty component, rare combination of modes),
   or two cooperating sites that each look fine alone. NOT something ordinary use or the first manual test would expose at once;
4. is realistic and small (typically 1-15 changed lines): what a refactor, an optimisation, a "simplification" or a
   well-meant bug fix could plausibly introduce; it should look innocent in review. No sabotage comments, no dead
   `if false`, no magic constants keyed to the demo.
5. The three should differ in kind (different function / different mechanism of the property), not three flips of the same line.

For each mutation k = 1..3 write a directory `/tmp/mut/{id}/out/m<k>/` containing

* `patch.diff` — `git diff` output that applies at the repository root with `git apply` on the pristine worktree;
* `demo_test.go` — a small Go test file (external or in-package test of the package it is dropped into; any file name
  ending `_test.go`, must not clash with existing names) that FAILS with the patch and PASSES without it; it may use only what the repository and the
  Go standard library provide;
* `meta.json` — {{"property": "{id}", "summary": "...what the change does and why it breaks the property...",
  "files_changed": [...], "needs_to_manifest": "...the specific input / sequence / fault / interleaving required...",
  "demo_pkg_dir": "pkg/... (directory, relative to the repo root, where demo_test.go is dropped)",
  "demo_run_cmd": "go test -vet=off -count=1 -run '^TestName$' ./pkg/...",
  "ran": ["each command you ran to confirm and its outcome"]}}.

Confirm yourself, for every mutation: (a) demo passes on the pristine tree, (b) with the patch: `go build ./...` ok,
existing tests of `./pkg/...` pass, demo fails. If you cannot find three, deliver fewer; one good one beats three weak ones.

Leave the worktree pristine at the end (`git checkout -- . && git clean -fd` inside `/tmp/mut/{id}/repo`).
Your final message: one line per mutation (file:function changed, what is needed to manifest), nothing else needed.
'''
for pid in sys.argv[1:]:
    p = props[pid]
    os.makedirs(f'/tmp/mut/{pid}/out', exist_ok=True)
    open(f'/tmp/mut/{pid}/PROMPT.md', 'w').write(T.format(id=pid, title=p.get('title', ''), statement=p['statement'],
         quant=p['quantifier'].get('text', ''), anchors=json.dumps(p['anchors'])))
    print('wrote', pid)

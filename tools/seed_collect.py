#!/usr/bin/env python3
"""Copies confirmed seeded changes from /tmp/mut/<id>/out/m<k> into /verif/seeded/<id>/m<k>/ (patch.diff, demo_test.go, meta.json)."""
import json, os, glob, shutil
for vf in sorted(glob.glob('/tmp/mut/*/out/m*/verify.json')):
    d = os.path.dirname(vf)
    v = json.load(open(vf))
    if not v.get('confirmed'):
        print('NOT CONFIRMED', d, v.get('steps'))
        continue
    meta = json.load(open(os.path.join(d, 'meta.json')))
    pid = meta['property']
    k = os.path.basename(d)
    dst = f'/verif/seeded/{pid}/{k}'
    os.makedirs(dst, exist_ok=True)
    shutil.copy(os.path.join(d, 'patch.diff'), dst)
    shutil.copy(os.path.join(d, 'demo_test.go'), os.path.join(dst, 'demo_test.go.txt'))
    old = {}
    if os.path.exists(os.path.join(dst, 'meta.json')):
        old = json.load(open(os.path.join(dst, 'meta.json')))
    m = {
        'property': pid,
        'summary': meta.get('summary'),
        'files_changed': meta.get('files_changed'),
        'needs_to_manifest': meta.get('needs_to_manifest'),
        'demo_pkg_dir': meta.get('demo_pkg_dir'),
        'demo_run_cmd': meta.get('demo_run_cmd'),
        'origin': 'written by an independent sub-agent that was given only the property text and a scratch worktree of /repo',
        'confirmed_by_maintainer': {
            'how': 'tools/seed_verify.py in a fresh scratch worktree of /repo HEAD: demo passes on the pristine tree; patch applies; go build ./... ok; demo fails with the patch; every test of BASELINE.stable_pass still passes with the patch',
            'steps': {a: b for a, b in v['steps'].items() if isinstance(b, bool)},
        },
        'checks_run': old.get('checks_run', {}),
    }
    if old.get('note'):
        m['note'] = old['note']
    for c, r in v.get('checks', {}).items():
        c = c.split(':')[0]
        m['checks_run'].setdefault(c, {})[r['tier'] + '@' + r.get('stage', 'first')] = 'caught' if r['exit'] == 1 else f'missed (exit {r["exit"]})'
    json.dump(m, open(os.path.join(dst, 'meta.json'), 'w'), indent=1)
    print('kept', dst, m['checks_run'])

#!/usr/bin/env python3
"""Regenerates /verif/MANIFEST.json from props/*.json and tools/na.json.
Claimed = properties with a props/<id>.json; everything else must have a reason in tools/na.json."""
import json, os, sys, glob
V = '/verif'
props = [json.loads(l) for l in open(f'{V}/properties.jsonl')]
ids = [p['id'] for p in props]
na = json.load(open(f'{V}/tools/na.json'))
# only checks vetted by the maintainer (clean in both tiers, sensitivity-tested) are claimed
vetted = set(json.load(open(f'{V}/tools/claim.json')))
checks = []
claimed = set()
for pid in ids:
    f = f'{V}/props/{pid}.json'
    if not os.path.exists(f):
        continue
    pc = json.load(open(f))
    if pc.get('disabled') or pid not in vetted:
        continue
    claimed.add(pid)
    hs = pc['harnesses']
    bounds_q = '; '.join(f"{h['name']}: {h.get('quick',{}).get('bounds','')}" for h in hs if not h.get('quick',{}).get('skip'))
    text = pc.get('level_text') or ("Bounded symbolic model checking of the real code: the functions named in the evidence are executed symbolically from go/ssa built from /repo's current tree; every assertion on every feasible path is discharged by z3 (unsat = holds for every input within the stated bounds; sat = counterexample, re-executed concretely and, for stub-free harnesses, replayed natively with go test). Bounds (quick): " + bounds_q)
    note = 'Assumes: ' + ' | '.join(pc.get('assumptions', [])) + ' || Outside the claim: ' + ' | '.join(pc.get('outside_claim', [])) + ' || Trusted: go/ssa (x/tools v0.29.0) as the semantics of the source, the executor (instruction semantics validated by concrete re-execution and native replay of counterexamples), z3 4.8.12.'
    checks.append({
        'property_id': pid,
        'quick_cmd': f'./check {pid} quick',
        'thorough_cmd': f'./check {pid} thorough',
        'evidence_file': f'/verif/evidence/{pid}.json',
        'replay_cmd_template': './check replay {path}',
        'engine': 'gosymx',
        'level_claimed': {'category': pc.get('level', 'model_checking'), 'text': text, 'design_ref': f'DESIGN.md §6 {pid}'},
        'level_note': note,
        'technique': pc.get('technique', 'symbolic execution of go/ssa (own executor) + SMT bit-vector solving (z3), bounded; counterexamples replayed'),
    })
nas = []
for pid in ids:
    if pid in claimed:
        continue
    if pid not in na:
        print(f'ERROR: {pid} neither claimed nor in tools/na.json', file=sys.stderr); sys.exit(1)
    nas.append({'property_id': pid, 'reason': na[pid]})
env = 'export PATH=/root/go/pkg/mod/golang.org/toolchain@v0.0.1-go1.25.0.linux-amd64/bin:$PATH GOTOOLCHAIN=local GOFLAGS=-mod=mod GOPROXY=off; '
m = {
    'version': 1,
    'setup_cmd': env + 'cd /verif/engine && go build -o bin/gosymx ./cmd/gosymx',
    'hooks': {
        'guard': 'verif',
        'enable': 'no source hooks: harnesses are injected as in-package overlay files (go/packages Overlay for the executor, go test -overlay for native replay); /repo is never modified by a check',
        'baseline_off_cmd': env + 'cd /repo && go test -mod=mod -vet=off -count=1 -timeout 25m ./...',
        'source_commits': [],
        'add_only': True,
    },
    'engines': [{'name': 'gosymx', 'path': '/verif/engine', 'serves_properties': sorted(claimed),
                 'kind_free_text': 'symbolic executor for go/ssa (forking, replay-based DFS, 16 workers) with an SMT-LIB2 bit-vector back end (z3 -in); harnesses in /verif/harness, per-property configuration in /verif/props'}],
    'checks': checks,
    'not_applicable': nas,
    'notes': 'Exit codes of ./check: 0 held within bounds; 1 + VIOLATION line = reproduced counterexample not listed in known_findings.json; 2 = engine/vacuity error; 3 = inconclusive (solver unknown / unwinding bound hit). See DESIGN.md.',
}
json.dump(m, open(f'{V}/MANIFEST.json', 'w'), indent=1)
print(f'claimed {len(claimed)}: {sorted(claimed)}; not_applicable {len(nas)}')

#!/usr/bin/env python3
"""Regenerates /verif/seeded/README.md from the meta.json files."""
import json, glob, os
rows = []
for mf in sorted(glob.glob('/verif/seeded/*/m*/meta.json')):
    m = json.load(open(mf))
    d = os.path.relpath(os.path.dirname(mf), '/verif/seeded')
    runs = []
    for c, r in sorted(m.get('checks_run', {}).items()):
        runs.append(c + ': ' + ', '.join(f'{k}={v}' for k, v in sorted(r.items())))
    needs = (m.get('needs_to_manifest') or '').replace('\n', ' ')
    summ = (m.get('summary') or '').replace('\n', ' ')
    rows.append(f"| {d} | {', '.join(m.get('files_changed') or [])} | {summ[:260]} | {needs[:220]} | {'; '.join(runs)} | {m.get('note','')} |")
out = ['# Seeded property-breaking changes and which checks catch them', '',
       'Each change: written by an independent sub-agent from the property text only; confirmed by tools/seed_verify.py (demo passes pristine / fails patched, build ok, all 547 stable tests pass).',
       '`tier@first` = result when first tried; `tier@now` = result with the current checks.', '',
       '| change | files | what it does | needs | checks | note |', '|---|---|---|---|---|---|'] + rows
open('/verif/seeded/README.md', 'w').write('\n'.join(out) + '\n')
print(len(rows), 'rows')

#!/usr/bin/env python3
"""Confirms a seeded change delivered by a sub-agent and runs the checks against it.

usage: seed_verify.py <dir with patch.diff, demo_test.go, meta.json> [check ids...] [--tier quick|thorough] [--skip-suite]

Everything happens in a scratch worktree of /repo under /tmp/mutv (removed at the end); /repo is never touched.
 1. demo on the pristine tree must PASS
 2. patch applies, `go build ./...` ok, demo must FAIL
 3. the repository's test suite: every test of BASELINE.stable_pass still passes (demo removed)
 4. each listed check (default: the property in meta.json) is run with VERIF_REPO=<worktree>; exit code and VIOLATION lines recorded
Result: <dir>/verify.json and one summary line on stdout.
"""
import json, os, subprocess, sys, shutil, time, hashlib

ENV = dict(os.environ)
ENV['PATH'] = '/root/go/pkg/mod/golang.org/toolchain@v0.0.1-go1.25.0.linux-amd64/bin:' + ENV['PATH']
ENV.update(GOTOOLCHAIN='local', GOFLAGS='-mod=mod', GOPROXY='off')
ENV.pop('GOSUMDB', None)


def sh(cmd, cwd, timeout=3000, env=None):
    p = subprocess.run(cmd, shell=True, cwd=cwd, env=env or ENV, stdout=subprocess.PIPE, stderr=subprocess.STDOUT, timeout=timeout)
    return p.returncode, p.stdout.decode(errors='replace')


def main():
    args = sys.argv[1:]
    tier = 'quick'
    skip_suite = False
    if '--tier' in args:
        i = args.index('--tier'); tier = args[i + 1]; del args[i:i + 2]
    if '--skip-suite' in args:
        args.remove('--skip-suite'); skip_suite = True
    checks_only = False
    if '--checks-only' in args:
        # the change is already confirmed (verify.json exists): only run the listed checks against it and merge the results
        args.remove('--checks-only'); checks_only = True
    d = os.path.abspath(args[0])
    meta = json.load(open(os.path.join(d, 'meta.json')))
    checks = args[1:] or [meta['property']]
    tag = hashlib.sha1(d.encode()).hexdigest()[:10]
    wt = f'/tmp/mutv/{tag}/repo'
    out = f'/tmp/mutv/{tag}/out'
    shutil.rmtree(f'/tmp/mutv/{tag}', ignore_errors=True)
    os.makedirs(out)
    sh(f'git -C /repo worktree prune', '/')
    rc, o = sh(f'git -C /repo worktree add --detach {wt} HEAD', '/')
    res = {'dir': d, 'property': meta['property'], 'steps': {}}
    if checks_only:
        res = json.load(open(os.path.join(d, 'verify.json')))
    ok = True
    try:
        assert rc == 0, o
        if checks_only:
            rc, o = sh(f'git apply {os.path.join(d, "patch.diff")}', wt)
            assert rc == 0, o
            raise StopIteration
        pkgdir = os.path.join(wt, meta['demo_pkg_dir'])
        demo_dst = os.path.join(pkgdir, 'zz_seed_demo_test.go')
        shutil.copy(os.path.join(d, 'demo_test.go'), demo_dst)
        rc, o = sh(meta['demo_run_cmd'], wt, 3000)
        res['steps']['demo_pristine_passes'] = (rc == 0)
        if rc != 0:
            res['steps']['demo_pristine_output'] = o[-1500:]
            ok = False
        rc, o = sh(f'git apply {os.path.join(d, "patch.diff")}', wt)
        res['steps']['patch_applies'] = (rc == 0)
        if rc != 0:
            res['steps']['apply_output'] = o[-800:]
            ok = False
            raise SystemExit
        rc, o = sh('go build ./...', wt, 3000)
        res['steps']['builds'] = (rc == 0)
        if rc != 0:
            res['steps']['build_output'] = o[-800:]; ok = False
        rc, o = sh(meta['demo_run_cmd'], wt, 3000)
        res['steps']['demo_patched_fails'] = (rc != 0)
        res['steps']['demo_patched_tail'] = o[-600:]
        if rc == 0:
            ok = False
        os.remove(demo_dst)
        if not skip_suite:
            base = json.load(open('/root/.vp/BASELINE.json'))
            want = set(base['stable_pass'])
            rc, o = sh('go test -json -vet=off -count=1 -timeout 25m ./...', wt, 2400)
            passed, failed = set(), set()
            for line in o.splitlines():
                try:
                    ev = json.loads(line)
                except Exception:
                    continue
                if ev.get('Test') and ev.get('Action') in ('pass', 'fail'):
                    (passed if ev['Action'] == 'pass' else failed).add(ev['Package'] + '::' + ev['Test'])
            missing = sorted(want - passed)
            res['steps']['suite_stable_pass_ok'] = (len(missing) == 0)
            res['steps']['suite_missing'] = missing[:20]
            res['steps']['suite_passed_count'] = len(passed & want)
            if missing:
                ok = False
        res['confirmed'] = ok
        raise StopIteration
    except StopIteration:
        # run checks against the patched worktree
        res.setdefault('checks', {})
        for c in checks:
            env = dict(ENV); env['VERIF_REPO'] = wt; env['VERIF_OUT'] = out
            t0 = time.time()
            try:
                rc, o = sh(f'/verif/check {c} {tier}', '/verif', 7200, env)
            except subprocess.TimeoutExpired:
                rc, o = 124, 'timeout'
            lines = [l for l in o.splitlines() if l.startswith('VIOLATION') or l.startswith('KNOWN-FINDING') or 'ENGINE-ERROR' in l or 'INCONCLUSIVE' in l or l.strip().startswith('harness=')]
            res['checks'][c if (tier == 'quick' and os.environ.get('SEED_STAGE', 'first') == 'first') else c + ':' + tier + ':' + os.environ.get('SEED_STAGE', 'first')] = {'tier': tier, 'stage': os.environ.get('SEED_STAGE', 'first'), 'exit': rc, 'wall_s': round(time.time() - t0, 1), 'lines': lines[:12], 'tail': o[-1200:] if rc not in (0, 1) else ''}
    except SystemExit:
        res['confirmed'] = False
    finally:
        sh(f'git -C /repo worktree remove --force {wt}', '/')
        shutil.rmtree(f'/tmp/mutv/{tag}', ignore_errors=True)
        sh(f'git -C /repo worktree prune', '/')
    json.dump(res, open(os.path.join(d, 'verify.json'), 'w'), indent=1)
    caught = {c: ('CAUGHT' if r['exit'] == 1 else f'exit{r["exit"]}') for c, r in res.get('checks', {}).items()}
    print(f"{d}: confirmed={res.get('confirmed')} steps={ {k: v for k, v in res['steps'].items() if isinstance(v, bool)} } checks={caught}")


if __name__ == '__main__':
    main()

#!/usr/bin/env python3
import json, os, sys, glob
T = open('/verif/tools/strengthen_prompt.md').read()
for pid in sys.argv[1:]:
    missed, caught = [], []
    for mf in sorted(glob.glob(f'/verif/seeded/{pid}/m*/meta.json')):
        m = json.load(open(mf))
        runs = m.get('checks_run', {}).get(pid, {})
        d = os.path.dirname(mf)
        if any(v == 'caught' for v in runs.values()):
            caught.append(d)
        else:
            missed.append(d)
    txt = T.replace('{ID}', pid).replace('{id}', pid.lower()).replace('{MISSED}', ', '.join(missed) + ('  — previously caught (must stay caught): ' + ', '.join(caught) if caught else ''))
    os.makedirs(f'/tmp/st/{pid}', exist_ok=True)
    open(f'/tmp/st/{pid}/PROMPT.md', 'w').write(txt)
    print(pid, 'missed', missed, 'caught', caught)

package sx

import (
	"go/types"

	"golang.org/x/tools/go/ssa"
)

// Scheduled-mode models of sync.Cond, sync.WaitGroup, sync.Once, atomics as
// scheduling points, and the timer family of package time (environment-fired,
// Go 1.23+ synchronous timer-channel semantics).  Outside scheduled mode the
// previous (sequential) behaviour is kept.

func init() {
	wrap := func(name string, f func(old intrinsic) intrinsic) {
		intrinsics[name] = f(intrinsics[name])
	}
	needSched := func(name string) intrinsic {
		return func(ex *Exec, fr *frame, fn *ssa.Function, a []value) value {
			panic(engineError{name + " needs the bounded-schedule mode (go_mode \"sched\")"})
		}
	}
	orOld := func(name string, old intrinsic) intrinsic {
		if old != nil {
			return old
		}
		return needSched(name)
	}

	// ----- atomics: scheduling points -----
	for _, n := range []string{
		"sync/atomic.AddInt32", "sync/atomic.AddInt64", "sync/atomic.AddUint32", "sync/atomic.AddUint64", "sync/atomic.AddUintptr",
		"sync/atomic.LoadInt32", "sync/atomic.LoadInt64", "sync/atomic.LoadUint32", "sync/atomic.LoadUint64", "sync/atomic.LoadUintptr", "sync/atomic.LoadPointer",
		"sync/atomic.StoreInt32", "sync/atomic.StoreInt64", "sync/atomic.StoreUint32", "sync/atomic.StoreUint64", "sync/atomic.StoreUintptr", "sync/atomic.StorePointer",
		"sync/atomic.SwapInt32", "sync/atomic.SwapInt64", "sync/atomic.SwapUint32", "sync/atomic.SwapUint64",
		"sync/atomic.CompareAndSwapInt32", "sync/atomic.CompareAndSwapInt64", "sync/atomic.CompareAndSwapUint32", "sync/atomic.CompareAndSwapUint64", "sync/atomic.CompareAndSwapUintptr",
	} {
		name := n
		wrap(name, func(old intrinsic) intrinsic {
			if old == nil {
				return nil
			}
			return func(ex *Exec, fr *frame, fn *ssa.Function, a []value) value {
				if ex.sched != nil && ex.sched.atomicPts {
					ex.sched.point("atomic operation")
				}
				return old(ex, fr, fn, a)
			}
		})
		if intrinsics[name] == nil {
			delete(intrinsics, name)
		}
	}

	// ----- RWMutex read lock in scheduled mode -----
	wrap("(*sync.RWMutex).RLock", func(old intrinsic) intrinsic {
		return func(ex *Exec, fr *frame, fn *ssa.Function, a []value) value {
			if ex.sched == nil {
				return old(ex, fr, fn, a)
			}
			c := mutexCell2(ex, a[0].(*value))
			ex.sched.point("rwmutex rlock")
			ex.sched.waitUntil(func() bool { return (*c).(*Term).C != 1 }, "rwmutex rlock")
			t := (*c).(*Term)
			if t.C == 0 {
				*c = ex.tt.Const(t.W, 2)
			} else {
				*c = ex.tt.Const(t.W, t.C+1)
			}
			return nil
		}
	})

	// ----- WaitGroup -----
	wrap("(*sync.WaitGroup).Add", func(old intrinsic) intrinsic {
		return func(ex *Exec, fr *frame, fn *ssa.Function, a []value) value {
			if ex.sched == nil {
				return old(ex, fr, fn, a)
			}
			p := a[0].(*value)
			d := a[1].(*Term)
			if !d.IsConst() {
				panic(engineError{"WaitGroup.Add with symbolic delta"})
			}
			ex.sched.wg[p] += int(d.Int())
			if ex.sched.wg[p] < 0 {
				panic(targetPanic{ex.runtimeError("sync: negative WaitGroup counter")})
			}
			return nil
		}
	})
	wrap("(*sync.WaitGroup).Done", func(old intrinsic) intrinsic {
		return func(ex *Exec, fr *frame, fn *ssa.Function, a []value) value {
			if ex.sched == nil {
				return old(ex, fr, fn, a)
			}
			p := a[0].(*value)
			ex.sched.point("waitgroup done")
			ex.sched.wg[p]--
			if ex.sched.wg[p] < 0 {
				panic(targetPanic{ex.runtimeError("sync: negative WaitGroup counter")})
			}
			return nil
		}
	})
	wrap("(*sync.WaitGroup).Wait", func(old intrinsic) intrinsic {
		return func(ex *Exec, fr *frame, fn *ssa.Function, a []value) value {
			if ex.sched == nil {
				return old(ex, fr, fn, a)
			}
			p := a[0].(*value)
			s := ex.sched
			s.point("waitgroup wait")
			s.waitUntil(func() bool { return s.wg[p] == 0 }, "waitgroup wait")
			return nil
		}
	})

	// ----- Once -----
	onceDo := func(old intrinsic) intrinsic {
		return func(ex *Exec, fr *frame, fn *ssa.Function, a []value) value {
			if ex.sched == nil {
				return old(ex, fr, fn, a)
			}
			p := a[0].(*value)
			if p == nil {
				ex.nilDeref()
			}
			s := ex.sched
			s.point("once")
			switch s.once[p] {
			case 2:
				return nil
			case 1:
				s.waitUntil(func() bool { return s.once[p] == 2 }, "once (running elsewhere)")
				return nil
			}
			s.once[p] = 1
			func() {
				defer func() { s.once[p] = 2 }()
				ex.call(fr, fn.Pos(), a[1], nil)
			}()
			return nil
		}
	}
	wrap("(*sync.Once).Do", onceDo)
	wrap("(*sync.Once).doSlow", onceDo)

	// ----- Cond -----
	condL := func(ex *Exec, p *value) iface {
		if p == nil {
			ex.nilDeref()
		}
		st := (*p).(structure)
		// type Cond struct { noCopy noCopy; L Locker; notify notifyList; checker copyChecker }
		l, ok := st[1].(iface)
		if !ok || l.t == nil {
			ex.nilDeref()
		}
		return l
	}
	callMethod := func(ex *Exec, fr *frame, recv iface, name string) {
		f := ex.prog.LookupMethod(recv.t, nil, name)
		if f == nil {
			panic(engineError{"sync.Cond: Locker has no method " + name})
		}
		ex.callSSA(fr, f.Pos(), f, []value{recv.v}, nil)
	}
	intrinsics["(*sync.Cond).Wait"] = func(ex *Exec, fr *frame, fn *ssa.Function, a []value) value {
		if ex.sched == nil {
			ex.blocked("sync.Cond.Wait in sequential mode (no other goroutine can signal)")
		}
		s := ex.sched
		p := a[0].(*value)
		l := condL(ex, p)
		g := s.cur
		s.cond[p] = append(s.cond[p], g)
		callMethod(ex, fr, l, "Unlock")
		s.waitUntil(func() bool {
			for _, w := range s.cond[p] {
				if w == g {
					return false
				}
			}
			return true
		}, "cond wait")
		callMethod(ex, fr, l, "Lock")
		return nil
	}
	intrinsics["(*sync.Cond).Signal"] = func(ex *Exec, fr *frame, fn *ssa.Function, a []value) value {
		if ex.sched == nil {
			return nil
		}
		s := ex.sched
		p := a[0].(*value)
		s.point("cond signal")
		if q := s.cond[p]; len(q) > 0 {
			// the runtime wakes waiters in FIFO order (notifyList)
			s.cond[p] = append(q[:0:0], q[1:]...)
		}
		return nil
	}
	intrinsics["(*sync.Cond).Broadcast"] = func(ex *Exec, fr *frame, fn *ssa.Function, a []value) value {
		if ex.sched == nil {
			return nil
		}
		s := ex.sched
		s.point("cond broadcast")
		delete(s.cond, a[0].(*value))
		return nil
	}
	intrinsics["(*sync.copyChecker).check"] = inNop

	// ----- time: timers -----
	timerOf := func(ex *Exec, p *value) *timerObj {
		if p == nil {
			ex.nilDeref()
		}
		s := ex.sched
		if s == nil {
			panic(engineError{"timer operation outside scheduled mode"})
		}
		st := (*p).(structure)
		if c, ok := st[0].(*chanObj); ok && c != nil {
			for _, t := range s.timers {
				if t.c == c {
					return t
				}
			}
		}
		for _, t := range s.timers {
			if t.fn != nil && t.owner == p {
				return t
			}
		}
		panic(engineError{"timer was not created by NewTimer/AfterFunc/NewTicker in this path"})
	}
	mkTimer := func(ex *Exec, fn *ssa.Function, ticker bool, f value, d value) (*value, *timerObj) {
		ptr := fn.Signature.Results().At(0).Type().(*types.Pointer)
		stT := ptr.Elem()
		st := ex.zero(stT).(structure)
		ct := stT.Underlying().(*types.Struct).Field(0).Type().Underlying().(*types.Chan)
		t := ex.sched.newTimer(ct.Elem(), true, ticker, f)
		ex.sched.arm(t, durationOf(d))
		if ticker {
			t.period = durationOf(d)
		}
		if t.c != nil {
			st[0] = t.c
		}
		p := new(value)
		*p = st
		t.owner = p
		return p, t
	}
	intrinsics["time.NewTimer"] = func(ex *Exec, fr *frame, fn *ssa.Function, a []value) value {
		if ex.sched == nil {
			return needSched("time.NewTimer")(ex, fr, fn, a)
		}
		p, _ := mkTimer(ex, fn, false, nil, a[0])
		return p
	}
	intrinsics["time.NewTicker"] = func(ex *Exec, fr *frame, fn *ssa.Function, a []value) value {
		if ex.sched == nil {
			return needSched("time.NewTicker")(ex, fr, fn, a)
		}
		p, _ := mkTimer(ex, fn, true, nil, a[0])
		return p
	}
	intrinsics["time.AfterFunc"] = func(ex *Exec, fr *frame, fn *ssa.Function, a []value) value {
		if ex.sched == nil {
			return needSched("time.AfterFunc")(ex, fr, fn, a)
		}
		p, _ := mkTimer(ex, fn, false, a[1], a[0])
		return p
	}
	intrinsics["time.After"] = func(ex *Exec, fr *frame, fn *ssa.Function, a []value) value {
		if ex.sched == nil {
			return needSched("time.After")(ex, fr, fn, a)
		}
		ct := fn.Signature.Results().At(0).Type().Underlying().(*types.Chan)
		t := ex.sched.newTimer(ct.Elem(), true, false, nil)
		ex.sched.arm(t, durationOf(a[0]))
		return t.c
	}
	intrinsics["time.Tick"] = func(ex *Exec, fr *frame, fn *ssa.Function, a []value) value {
		if ex.sched == nil {
			return needSched("time.Tick")(ex, fr, fn, a)
		}
		ct := fn.Signature.Results().At(0).Type().Underlying().(*types.Chan)
		t := ex.sched.newTimer(ct.Elem(), true, true, nil)
		ex.sched.arm(t, durationOf(a[0]))
		t.period = durationOf(a[0])
		return t.c
	}
	stop := func(ex *Exec, fr *frame, fn *ssa.Function, a []value) value {
		t := timerOf(ex, a[0].(*value))
		ex.sched.point("timer stop")
		return ex.tt.Bool(ex.sched.stopTimer(t))
	}
	intrinsics["(*time.Timer).Stop"] = stop
	intrinsics["(*time.Ticker).Stop"] = func(ex *Exec, fr *frame, fn *ssa.Function, a []value) value {
		stop(ex, fr, fn, a)
		return nil
	}
	intrinsics["(*time.Timer).Reset"] = func(ex *Exec, fr *frame, fn *ssa.Function, a []value) value {
		t := timerOf(ex, a[0].(*value))
		ex.sched.point("timer reset")
		pending := ex.sched.stopTimer(t)
		ex.sched.arm(t, durationOf(a[1]))
		return ex.tt.Bool(pending)
	}
	intrinsics["(*time.Ticker).Reset"] = func(ex *Exec, fr *frame, fn *ssa.Function, a []value) value {
		t := timerOf(ex, a[0].(*value))
		ex.sched.point("ticker reset")
		ex.sched.stopTimer(t)
		ex.sched.arm(t, durationOf(a[1]))
		t.period = durationOf(a[1])
		return nil
	}
	wrap("time.Sleep", func(old intrinsic) intrinsic {
		return func(ex *Exec, fr *frame, fn *ssa.Function, a []value) value {
			if ex.sched == nil {
				return orOld("time.Sleep", old)(ex, fr, fn, a)
			}
			// sleeping = waiting on a private one-shot timer
			t := ex.sched.newTimer(types.Typ[types.Bool], true, false, nil)
			ex.sched.arm(t, durationOf(a[0]))
			ex.sched.point("sleep")
			ex.doRecv(t.c)
			return nil
		}
	})
	wrap("runtime.Gosched", func(old intrinsic) intrinsic {
		return func(ex *Exec, fr *frame, fn *ssa.Function, a []value) value {
			if ex.sched != nil {
				ex.sched.point("gosched")
			}
			return nil
		}
	})
}

// sync.Pool with reuse (tier param "pool_reuse": 1): Put keeps the object, Get
// nondeterministically hands back the most recently kept one or a fresh one
// (the runtime may drop pooled objects at any time).  Default (param absent):
// Get always calls New, Put is a no-op, as before.
func init() {
	oldGet := intrinsics["(*sync.Pool).Get"]
	oldPut := intrinsics["(*sync.Pool).Put"]
	intrinsics["(*sync.Pool).Get"] = func(ex *Exec, fr *frame, fn *ssa.Function, a []value) value {
		if ex.params["pool_reuse"] == 0 {
			return oldGet(ex, fr, fn, a)
		}
		p := a[0].(*value)
		if ex.pools == nil {
			ex.pools = map[*value][]value{}
		}
		if q := ex.pools[p]; len(q) > 0 && ex.chooseN(2, "sync.Pool.Get: reuse or fresh") == 0 {
			v := q[len(q)-1]
			ex.pools[p] = q[:len(q)-1]
			return v
		}
		return oldGet(ex, fr, fn, a)
	}
	intrinsics["(*sync.Pool).Put"] = func(ex *Exec, fr *frame, fn *ssa.Function, a []value) value {
		if ex.params["pool_reuse"] == 0 {
			return oldPut(ex, fr, fn, a)
		}
		p := a[0].(*value)
		if ex.pools == nil {
			ex.pools = map[*value][]value{}
		}
		ex.pools[p] = append(ex.pools[p], a[1])
		return nil
	}
}

// Logical clock in scheduled mode (advances when timers fire).
func init() {
	const base = 1700000000
	wrapClock := func(name string, f func(ex *Exec, now int64) value) {
		old := intrinsics[name]
		intrinsics[name] = func(ex *Exec, fr *frame, fn *ssa.Function, a []value) value {
			if ex.sched == nil {
				return old(ex, fr, fn, a)
			}
			return f(ex, ex.sched.now)
		}
	}
	wrapClock("time.runtimeNano", func(ex *Exec, now int64) value { return ex.tt.Const(64, uint64(1+now)) })
	wrapClock("runtime.nanotime", func(ex *Exec, now int64) value { return ex.tt.Const(64, uint64(1+now)) })
	clock := func(ex *Exec, now int64) value {
		return tuple{ex.tt.Const(64, uint64(base+now/1000000000)), ex.tt.Const(32, uint64(now%1000000000)), ex.tt.Const(64, uint64(1+now))}
	}
	wrapClock("time.runtimeNow", clock)
	wrapClock("time.now", clock)
	intrinsics["time.runtimeIsBubbled"] = func(ex *Exec, fr *frame, fn *ssa.Function, a []value) value { return ex.tt.False }
}

package sx

import (
	"fmt"
	"go/token"
	"go/types"
	"math"
	"unicode/utf8"

	"golang.org/x/tools/go/ssa"
)

// ---------- unary ----------

func (ex *Exec) unop(fr *frame, instr *ssa.UnOp, x value) value {
	tt := ex.tt
	switch instr.Op {
	case token.ARROW:
		v, ok := ex.chanRecv(x.(*chanObj))
		if !instr.CommaOk {
			return v
		}
		return tuple{v, tt.Bool(ok)}
	case token.MUL:
		p := x.(*value)
		if p == nil {
			ex.nilDeref()
		}
		return load(p)
	case token.SUB:
		switch x := x.(type) {
		case *Term:
			return tt.Neg(x)
		case float32:
			return -x
		case float64:
			return -x
		case complex128:
			return -x
		}
	case token.NOT:
		return tt.BNot(x.(*Term))
	case token.XOR:
		return tt.Not(x.(*Term))
	}
	panic(engineError{fmt.Sprintf("unop %s on %T", instr.Op, x)})
}

// ---------- binary ----------

func (ex *Exec) binop(op token.Token, t types.Type, x, y value) value {
	tt := ex.tt
	switch op {
	case token.EQL:
		return ex.eqOrNil(t, x, y)
	case token.NEQ:
		return tt.BNot(ex.eqOrNil(t, x, y))
	}
	switch x := x.(type) {
	case *Term:
		y := y.(*Term)
		w, signed, _ := intInfo(t)
		if x.W == 0 { // booleans: only == and != (handled), plus &&,|| never appear in SSA
			switch op {
			case token.AND, token.LAND:
				return tt.BAnd(x, y)
			case token.OR, token.LOR:
				return tt.BOr(x, y)
			case token.XOR:
				return tt.BNot(tt.Eq(x, y))
			}
			panic(engineError{"binop on bool: " + op.String()})
		}
		_ = w
		switch op {
		case token.ADD:
			return tt.Add(x, y)
		case token.SUB:
			return tt.Sub(x, y)
		case token.MUL:
			return tt.Mul(x, y)
		case token.QUO, token.REM:
			if ex.decideBool(tt.Eq(y, tt.Const(y.W, 0)), "divzero") {
				panic(targetPanic{ex.runtimeError("integer divide by zero")})
			}
			if signed {
				if op == token.QUO {
					return tt.SDiv(x, y)
				}
				return tt.SRem(x, y)
			}
			if op == token.QUO {
				return tt.UDiv(x, y)
			}
			return tt.URem(x, y)
		case token.AND:
			return tt.And(x, y)
		case token.OR:
			return tt.Or(x, y)
		case token.XOR:
			return tt.Xor(x, y)
		case token.AND_NOT:
			return tt.And(x, tt.Not(y))
		case token.SHL, token.SHR:
			return ex.shift(op, x, signed, y)
		case token.LSS:
			if signed {
				return tt.Slt(x, y)
			}
			return tt.Ult(x, y)
		case token.LEQ:
			if signed {
				return tt.Sle(x, y)
			}
			return tt.Ule(x, y)
		case token.GTR:
			if signed {
				return tt.Slt(y, x)
			}
			return tt.Ult(y, x)
		case token.GEQ:
			if signed {
				return tt.Sle(y, x)
			}
			return tt.Ule(y, x)
		}
	case str:
		y := y.(str)
		switch op {
		case token.ADD:
			if len(x) == 0 {
				return y
			}
			if len(y) == 0 {
				return x
			}
			r := make(str, 0, len(x)+len(y))
			r = append(r, x...)
			r = append(r, y...)
			return r
		case token.LSS:
			return ex.strLess(x, y)
		case token.GTR:
			return ex.strLess(y, x)
		case token.LEQ:
			return tt.BNot(ex.strLess(y, x))
		case token.GEQ:
			return tt.BNot(ex.strLess(x, y))
		}
	case float64:
		y := y.(float64)
		switch op {
		case token.ADD:
			return x + y
		case token.SUB:
			return x - y
		case token.MUL:
			return x * y
		case token.QUO:
			return x / y
		case token.LSS:
			return tt.Bool(x < y)
		case token.LEQ:
			return tt.Bool(x <= y)
		case token.GTR:
			return tt.Bool(x > y)
		case token.GEQ:
			return tt.Bool(x >= y)
		}
	case float32:
		y := y.(float32)
		switch op {
		case token.ADD:
			return x + y
		case token.SUB:
			return x - y
		case token.MUL:
			return x * y
		case token.QUO:
			return x / y
		case token.LSS:
			return tt.Bool(x < y)
		case token.LEQ:
			return tt.Bool(x <= y)
		case token.GTR:
			return tt.Bool(x > y)
		case token.GEQ:
			return tt.Bool(x >= y)
		}
	}
	panic(engineError{fmt.Sprintf("binop %s on %T, %T", op, x, y)})
}

// shift implements Go shifts: count of any unsigned/signed width.
func (ex *Exec) shift(op token.Token, x *Term, xsigned bool, y *Term) *Term {
	tt := ex.tt
	// negative signed counts panic; counts are usually unsigned or constant.
	if y.IsConst() {
		c := y.C
		if c >= uint64(x.W) {
			c = uint64(x.W) // saturate
		}
		yc := tt.Const(x.W, c)
		switch {
		case op == token.SHL:
			return tt.Shl(x, yc)
		case xsigned:
			return tt.AShr(x, yc)
		default:
			return tt.LShr(x, yc)
		}
	}
	// symbolic count: bring to x's width with saturation
	var yc *Term
	if y.W <= x.W {
		yc = tt.ZExt(y, x.W)
	} else {
		big := tt.Ule(tt.Const(y.W, uint64(x.W)), y)
		yc = tt.Ite(big, tt.Const(x.W, uint64(x.W)), tt.Extract(y, x.W-1, 0))
	}
	switch {
	case op == token.SHL:
		return tt.Shl(x, yc)
	case xsigned:
		return tt.AShr(x, yc)
	default:
		return tt.LShr(x, yc)
	}
}

// eqOrNil handles comparisons where one side may be a nil-able reference.
func (ex *Exec) eqOrNil(t types.Type, x, y value) *Term {
	switch t.Underlying().(type) {
	case *types.Slice, *types.Map, *types.Signature:
		// only comparable with nil
		return ex.tt.Bool(isNil(x) && isNil(y))
	}
	return ex.equals(t, x, y)
}

// ---------- conversions ----------

func (ex *Exec) conv(tdst, tsrc types.Type, x value) value {
	tt := ex.tt
	ud, us := tdst.Underlying(), tsrc.Underlying()
	switch ud := ud.(type) {
	case *types.Pointer:
		// unsafe.Pointer -> *T
		if p, ok := x.(uptr); ok {
			return p.p
		}
		return x
	case *types.Slice:
		// string -> []byte / []rune
		if s, ok := x.(str); ok {
			eb := ud.Elem().Underlying().(*types.Basic)
			if eb.Kind() == types.Uint8 {
				return strToBytes(s)
			}
			if eb.Kind() == types.Int32 {
				return ex.strToRunes(s)
			}
		}
		return x
	case *types.Basic:
		if ud.Kind() == types.UnsafePointer {
			switch x := x.(type) {
			case *value:
				return uptr{x}
			case uptr:
				return x
			}
			panic(engineError{fmt.Sprintf("conversion to unsafe.Pointer from %T", x)})
		}
		if ud.Info()&types.IsString != 0 {
			switch x := x.(type) {
			case str:
				return x
			case []value: // []byte or []rune
				if es, ok := us.(*types.Slice); ok {
					if es.Elem().Underlying().(*types.Basic).Kind() == types.Int32 {
						return ex.runesToStr(x)
					}
				}
				return bytesToStr(x)
			case *Term: // integer -> string (rune)
				c := ex.concretize(x, "int->string")
				_, signed, _ := intInfo(tsrc)
				r := rune(c)
				if signed {
					r = rune(sext64(c, x.W))
					if sext64(c, x.W) > math.MaxInt32 || sext64(c, x.W) < 0 {
						r = utf8.RuneError
					}
				} else if c > math.MaxInt32 {
					r = utf8.RuneError
				}
				return ex.mkStr(string(r))
			}
		}
		if dw, _, ok := intInfo(ud); ok && dw > 0 {
			switch x := x.(type) {
			case *Term:
				_, ssigned, _ := intInfo(us)
				if _, isUP := us.(*types.Basic); isUP && us.(*types.Basic).Kind() == types.UnsafePointer {
					panic(engineError{"unsafe.Pointer -> integer"})
				}
				if dw <= x.W {
					return tt.Extract(x, dw-1, 0)
				}
				if ssigned {
					return tt.SExt(x, dw)
				}
				return tt.ZExt(x, dw)
			case float64:
				_, dsigned, _ := intInfo(ud)
				if dsigned {
					return tt.Const(dw, uint64(int64(x)))
				}
				return tt.Const(dw, uint64(x))
			case float32:
				_, dsigned, _ := intInfo(ud)
				if dsigned {
					return tt.Const(dw, uint64(int64(x)))
				}
				return tt.Const(dw, uint64(x))
			case uptr:
				panic(engineError{"unsafe.Pointer -> uintptr"})
			}
		}
		if ud.Info()&types.IsFloat != 0 {
			var f float64
			switch x := x.(type) {
			case *Term:
				if !x.IsConst() {
					panic(engineError{"symbolic integer -> float"})
				}
				_, ssigned, _ := intInfo(us)
				if ssigned {
					f = float64(x.Int())
				} else {
					f = float64(x.C)
				}
			case float64:
				f = x
			case float32:
				f = float64(x)
			}
			if ud.Kind() == types.Float32 {
				return float32(f)
			}
			return f
		}
		if ud.Info()&types.IsBoolean != 0 {
			return x
		}
	}
	panic(engineError{fmt.Sprintf("unsupported conversion %s -> %s (%T)", tsrc, tdst, x)})
}

// strToRunes decodes UTF-8; bytes must be decidable as ASCII or are concretised.
func (ex *Exec) strToRunes(s str) []value {
	var out []value
	for i := 0; i < len(s); {
		r, n := ex.decodeRune(s[i:])
		out = append(out, r)
		i += n
	}
	if out == nil {
		out = []value{}
	}
	return out
}

// decodeRune decodes the first rune of s (len(s)>0).  ASCII bytes stay
// symbolic (zero-extended); a possibly non-ASCII lead byte forks: the
// non-ASCII side is concretised byte by byte.
func (ex *Exec) decodeRune(s str) (*Term, int) {
	tt := ex.tt
	b0 := s[0]
	if ex.decideBool(tt.Ult(b0, tt.Byte(0x80)), "rune-ascii") {
		return tt.ZExt(b0, 32), 1
	}
	// concretise up to 4 bytes
	var buf [4]byte
	n := 0
	for n < 4 && n < len(s) {
		buf[n] = byte(ex.concretize(s[n], "utf8 byte"))
		n++
		if utf8.FullRune(buf[:n]) {
			break
		}
	}
	r, size := utf8.DecodeRune(buf[:n])
	return tt.Const(32, uint64(uint32(r))), size
}

func (ex *Exec) runesToStr(rs []value) str {
	var out str
	for _, r := range rs {
		t := r.(*Term)
		if !t.IsConst() {
			// symbolic rune: ASCII stays symbolic
			if ex.decideBool(ex.tt.Ult(t, ex.tt.Const(32, 0x80)), "rune-ascii") {
				out = append(out, ex.tt.Extract(t, 7, 0))
				continue
			}
			c := ex.concretize(t, "rune")
			out = append(out, ex.mkStr(string(rune(int32(c))))...)
			continue
		}
		out = append(out, ex.mkStr(string(rune(int32(t.C))))...)
	}
	return out
}

// ---------- indexing / slicing ----------

// index concretises and bounds-checks an index in [0,n).
func (ex *Exec) index(i *Term, it types.Type, n int) int {
	tt := ex.tt
	if i.IsConst() {
		_, signed, _ := intInfo(it)
		var v int64
		if signed {
			v = i.Int()
		} else {
			if i.C > math.MaxInt64 {
				v = -1
			} else {
				v = int64(i.C)
			}
		}
		if v < 0 || v >= int64(n) {
			panic(targetPanic{ex.runtimeError(fmt.Sprintf("index out of range [%d] with length %d", v, n))})
		}
		return int(v)
	}
	// in range? (unsigned compare covers negatives)
	inRange := tt.Ult(i, tt.Const(i.W, uint64(n)))
	if !ex.decideBool(inRange, "index-in-range") {
		panic(targetPanic{ex.runtimeError(fmt.Sprintf("index out of range [symbolic] with length %d", n))})
	}
	return int(ex.concretize(i, "index"))
}

func (ex *Exec) strIndex(s str, i *Term, it types.Type) value {
	tt := ex.tt
	if i.IsConst() {
		return s[ex.index(i, it, len(s))]
	}
	inRange := tt.Ult(i, tt.Const(i.W, uint64(len(s))))
	if !ex.decideBool(inRange, "index-in-range") {
		panic(targetPanic{ex.runtimeError(fmt.Sprintf("index out of range [symbolic] with length %d", len(s)))})
	}
	// ite chain instead of forking
	r := s[len(s)-1]
	for k := len(s) - 2; k >= 0; k-- {
		r = tt.Ite(tt.Eq(i, tt.Const(i.W, uint64(k))), s[k], r)
	}
	return r
}

// bound concretises a slice bound in [lo,hi].
func (ex *Exec) bound(b *Term, lo, hi int, what string) int {
	tt := ex.tt
	if b.IsConst() {
		v := b.Int()
		if b.W == 64 && b.C > math.MaxInt64 {
			v = -1
		}
		if v < int64(lo) || v > int64(hi) {
			panic(targetPanic{ex.runtimeError(fmt.Sprintf("slice bounds out of range [%s %d] with range [%d,%d]", what, v, lo, hi))})
		}
		return int(v)
	}
	ok := tt.BAnd(tt.Ule(tt.Const(b.W, uint64(lo)), b), tt.Ule(b, tt.Const(b.W, uint64(hi))))
	if !ex.decideBool(ok, "slice-bound") {
		panic(targetPanic{ex.runtimeError("slice bounds out of range [symbolic]")})
	}
	return int(ex.concretize(b, "slice bound"))
}

func (ex *Exec) slice(instr *ssa.Slice, x, lo, hi, max value) value {
	var ln, cp int
	switch x := x.(type) {
	case str:
		ln, cp = len(x), len(x)
	case []value:
		ln, cp = len(x), cap(x)
	case *value:
		if x == nil {
			ex.nilDeref()
		}
		a := (*x).(array)
		ln, cp = len(a), cap(a)
	}
	h := ln
	if hi != nil {
		h = ex.bound(hi.(*Term), 0, cp, "high")
	}
	m := cp
	if max != nil {
		m = ex.bound(max.(*Term), h, cp, "max")
	}
	l := 0
	if lo != nil {
		l = ex.bound(lo.(*Term), 0, h, "low")
	}
	switch x := x.(type) {
	case str:
		if l == h {
			return str(nil)
		}
		return x[l:h]
	case []value:
		if x == nil {
			return []value(nil)
		}
		return x[l:h:m]
	case *value:
		a := (*x).(array)
		return []value(a)[l:h:m]
	}
	panic(engineError{fmt.Sprintf("slice: unexpected X type %T", x)})
}

func (ex *Exec) lookup(instr *ssa.Lookup, x, idx value) value {
	switch x := x.(type) {
	case *omap:
		v, ok := ex.mapLookup(x, idx)
		if !ok {
			v = ex.zero(instr.X.Type().Underlying().(*types.Map).Elem())
		} else {
			v = copyVal(v)
		}
		if instr.CommaOk {
			return tuple{v, ex.tt.Bool(ok)}
		}
		return v
	case str:
		return ex.strIndex(x, idx.(*Term), instr.Index.Type())
	}
	panic(engineError{fmt.Sprintf("lookup: unexpected type %T", x)})
}

// ---------- type assertions ----------

func (ex *Exec) typeAssert(instr *ssa.TypeAssert, itf iface) value {
	var v value
	err := ""
	if itf.t == nil {
		err = fmt.Sprintf("interface conversion: interface is nil, not %s", instr.AssertedType)
	} else if idst, ok := instr.AssertedType.Underlying().(*types.Interface); ok && !isTypeParam(instr.AssertedType) {
		v = itf
		if !ex.implements(itf.t, idst) {
			err = fmt.Sprintf("interface conversion: %v is not %v", itf.t, instr.AssertedType)
		}
	} else if sameType(itf.t, instr.AssertedType) {
		v = itf.v
	} else {
		err = fmt.Sprintf("interface conversion: interface is %s, not %s", itf.t, instr.AssertedType)
	}
	if err != "" {
		if !instr.CommaOk {
			panic(targetPanic{ex.runtimeError(err)})
		}
		return tuple{ex.zero(instr.AssertedType), ex.tt.False}
	}
	if instr.CommaOk {
		return tuple{v, ex.tt.True}
	}
	return v
}

func isTypeParam(t types.Type) bool {
	_, ok := t.(*types.TypeParam)
	return ok
}

type implKey struct {
	t types.Type
	i *types.Interface
}

func (ex *Exec) implements(t types.Type, i *types.Interface) bool {
	return types.Implements(t, i)
}

// ---------- range ----------

type strIter struct {
	s   str
	pos int
}

func (it *strIter) next(ex *Exec) tuple {
	if it.pos >= len(it.s) {
		return tuple{ex.tt.False, ex.tt.Const(64, 0), ex.tt.Const(32, 0)}
	}
	i := it.pos
	r, n := ex.decodeRune(it.s[i:])
	it.pos += n
	return tuple{ex.tt.True, ex.tt.Const(64, uint64(i)), r}
}

func (ex *Exec) rangeIter(x value, t types.Type) iter {
	switch x := x.(type) {
	case *omap:
		return &mapIter{m: x, rev: ex.mapRev}
	case str:
		return &strIter{s: x}
	}
	panic(engineError{fmt.Sprintf("cannot range over %T", x)})
}

// ---------- builtins ----------

func (ex *Exec) callBuiltin(caller *frame, pos token.Pos, fn *ssa.Builtin, args []value) value {
	tt := ex.tt
	switch fn.Name() {
	case "append":
		if len(args) == 1 {
			return args[0]
		}
		dst := args[0].([]value)
		var src []value
		switch s := args[1].(type) {
		case str:
			src = strToBytes(s)
		case []value:
			src = s
		}
		if len(src) == 0 {
			return dst
		}
		// copy elements (aggregates have value semantics)
		if len(dst)+len(src) <= cap(dst) {
			r := dst[:len(dst)+len(src)]
			for i, e := range src {
				r[len(dst)+i] = copyVal(e)
			}
			return r
		}
		nc := 2 * cap(dst)
		if nc < len(dst)+len(src) {
			nc = len(dst) + len(src)
		}
		r := make([]value, len(dst), nc)
		copy(r, dst) // element cells move to new backing array, like Go
		for _, e := range src {
			r = append(r, copyVal(e))
		}
		// fill spare capacity with zero-ish placeholders lazily: reslicing beyond len
		// needs initialised elements
		if caller != nil && nc > len(r) {
			var et types.Type
			if sl, ok := fn.Type().(*types.Signature).Params().At(0).Type().Underlying().(*types.Slice); ok {
				et = sl.Elem()
			}
			if et != nil {
				full := r[:nc]
				for i := len(r); i < nc; i++ {
					full[i] = ex.zero(et)
				}
			}
		}
		return r

	case "copy":
		dst := args[0].([]value)
		var src []value
		switch s := args[1].(type) {
		case str:
			src = strToBytes(s)
		case []value:
			src = s
		}
		n := len(src)
		if len(dst) < n {
			n = len(dst)
		}
		// handle overlap like memmove
		tmp := make([]value, n)
		for i := 0; i < n; i++ {
			tmp[i] = copyVal(src[i])
		}
		copy(dst, tmp)
		return tt.Const(64, uint64(n))

	case "close":
		ex.chanClose(args[0].(*chanObj))
		return nil

	case "delete":
		ex.mapDelete(args[0].(*omap), args[1])
		return nil

	case "clear":
		switch x := args[0].(type) {
		case *omap:
			x.clear()
		case []value:
			et := fn.Type().(*types.Signature).Params().At(0).Type().Underlying().(*types.Slice).Elem()
			for i := range x {
				x[i] = ex.zero(et)
			}
		}
		return nil

	case "print", "println":
		return nil

	case "len":
		switch x := args[0].(type) {
		case str:
			return tt.Const(64, uint64(len(x)))
		case array:
			return tt.Const(64, uint64(len(x)))
		case *value:
			if x == nil {
				// len of nil *array is the array length; need type
				pt := fn.Type().(*types.Signature).Params().At(0).Type().Underlying().(*types.Pointer)
				return tt.Const(64, uint64(pt.Elem().Underlying().(*types.Array).Len()))
			}
			return tt.Const(64, uint64(len((*x).(array))))
		case []value:
			return tt.Const(64, uint64(len(x)))
		case *omap:
			return tt.Const(64, uint64(x.length()))
		case *chanObj:
			if x == nil {
				return tt.Const(64, 0)
			}
			return tt.Const(64, uint64(len(x.buf)))
		}
		panic(engineError{fmt.Sprintf("len: illegal operand %T", args[0])})

	case "cap":
		switch x := args[0].(type) {
		case array:
			return tt.Const(64, uint64(len(x)))
		case *value:
			return tt.Const(64, uint64(len((*x).(array))))
		case []value:
			return tt.Const(64, uint64(cap(x)))
		case *chanObj:
			if x == nil {
				return tt.Const(64, 0)
			}
			return tt.Const(64, uint64(x.cap))
		}
		panic(engineError{fmt.Sprintf("cap: illegal operand %T", args[0])})

	case "min", "max":
		t := fn.Type().(*types.Signature).Params().At(0).Type()
		r := args[0]
		for _, a := range args[1:] {
			var less *Term
			if fn.Name() == "min" {
				less = ex.binop(token.LSS, t, a, r).(*Term)
			} else {
				less = ex.binop(token.GTR, t, a, r).(*Term)
			}
			switch rv := r.(type) {
			case *Term:
				r = tt.Ite(less, a.(*Term), rv)
			default:
				if ex.decideBool(less, "minmax") {
					r = a
				}
			}
		}
		return r

	case "panic":
		panic(targetPanic{args[0]})

	case "recover":
		return ex.doRecover(caller)

	case "ssa:wrapnilchk":
		recv := args[0]
		if p, ok := recv.(*value); ok && p == nil {
			ex.nilDeref()
		}
		return recv

	case "ssa:deferstack":
		return &caller.defers

	// unsafe builtins
	case "String": // unsafe.String(ptr *byte, len)
		n := int(ex.concretize(args[1].(*Term), "unsafe.String len"))
		p := args[0].(*value)
		if n == 0 {
			return str(nil)
		}
		sl := ex.elemSliceFrom(p, n)
		return bytesToStr(sl)
	case "StringData":
		s := args[0].(str)
		if len(s) == 0 {
			return (*value)(nil)
		}
		b := strToBytes(s)
		return &b[0]
	case "SliceData":
		s := args[0].([]value)
		if cap(s) == 0 {
			return (*value)(nil)
		}
		return &s[:1][0]
	case "Slice":
		n := int(ex.concretize(args[1].(*Term), "unsafe.Slice len"))
		p := args[0].(*value)
		if p == nil {
			return []value(nil)
		}
		return ex.elemSliceFrom(p, n)
	}
	panic(engineError{"unknown built-in: " + fn.Name()})
}

// elemSliceFrom recovers a slice of n elements starting at element pointer p.
// Only pointers obtained from SliceData/&s[0] of a live slice are supported:
// they are registered when taken.
func (ex *Exec) elemSliceFrom(p *value, n int) []value {
	panic(engineError{"unsafe.String/Slice from raw element pointer unsupported (use intrinsic)"})
}

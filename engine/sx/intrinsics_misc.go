package sx

import (
	"unicode"

	"golang.org/x/tools/go/ssa"
)

// sync.Mutex / sync.RWMutex for toolchains (go1.25) whose Mutex starts with a
// zero-size `_ noCopy` field: the held flag is the first scalar cell found by
// descending into the first NON-EMPTY field.  These registrations replace the
// ones of intrinsics.go (this file's init runs later: file-name order).

func init() {
	intrinsics["(*sync.Mutex).Lock"] = inMutexLock2
	intrinsics["(*sync.Mutex).Unlock"] = inMutexUnlock2
	intrinsics["(*sync.Mutex).TryLock"] = inMutexTryLock2
	intrinsics["(*sync.RWMutex).Lock"] = inMutexLock2
	intrinsics["(*sync.RWMutex).Unlock"] = inMutexUnlock2
	intrinsics["(*sync.RWMutex).RLock"] = inRLock2
	intrinsics["(*sync.RWMutex).RUnlock"] = inRUnlock2
}

func mutexCell2(ex *Exec, p *value) *value {
	if p == nil {
		ex.nilDeref()
	}
	for {
		st, ok := (*p).(structure)
		if !ok {
			return p
		}
		next := -1
		for i := range st {
			if s, isStruct := st[i].(structure); isStruct && len(s) == 0 {
				continue
			}
			next = i
			break
		}
		if next < 0 {
			panic(engineError{"sync mutex model: no state cell found"})
		}
		p = &st[next]
	}
}

func inMutexLock2(ex *Exec, fr *frame, fn *ssa.Function, a []value) value {
	c := mutexCell2(ex, a[0].(*value))
	if ex.sched != nil {
		ex.schedLock(c)
		return nil
	}
	if t := (*c).(*Term); !t.IsConst() || t.C != 0 {
		ex.blocked("sync.Mutex.Lock on a mutex that is already held (self-deadlock in sequential mode)")
	}
	*c = ex.tt.Const((*c).(*Term).W, 1)
	return nil
}

func inMutexTryLock2(ex *Exec, fr *frame, fn *ssa.Function, a []value) value {
	c := mutexCell2(ex, a[0].(*value))
	if t := (*c).(*Term); t.C != 0 {
		return ex.tt.False
	}
	*c = ex.tt.Const((*c).(*Term).W, 1)
	return ex.tt.True
}

func inMutexUnlock2(ex *Exec, fr *frame, fn *ssa.Function, a []value) value {
	c := mutexCell2(ex, a[0].(*value))
	if t := (*c).(*Term); t.C == 0 {
		panic(targetPanic{ex.runtimeError("sync: unlock of unlocked mutex")})
	}
	*c = ex.tt.Const((*c).(*Term).W, 0)
	if ex.sched != nil {
		ex.schedUnlocked(c)
	}
	return nil
}

func inRLock2(ex *Exec, fr *frame, fn *ssa.Function, a []value) value {
	c := mutexCell2(ex, a[0].(*value))
	t := (*c).(*Term)
	if t.C == 1 {
		if ex.sched != nil {
			ex.schedLock(c)
			return nil
		}
		ex.blocked("sync.RWMutex.RLock while write-locked (sequential mode)")
	}
	if t.C == 0 {
		*c = ex.tt.Const(t.W, 2)
	} else {
		*c = ex.tt.Const(t.W, t.C+1)
	}
	return nil
}

func inRUnlock2(ex *Exec, fr *frame, fn *ssa.Function, a []value) value {
	c := mutexCell2(ex, a[0].(*value))
	t := (*c).(*Term)
	if t.C < 2 {
		panic(targetPanic{ex.runtimeError("sync: RUnlock of unlocked RWMutex")})
	}
	if t.C == 2 {
		*c = ex.tt.Const(t.W, 0)
		if ex.sched != nil {
			ex.schedUnlocked(c)
		}
	} else {
		*c = ex.tt.Const(t.W, t.C-1)
	}
	return nil
}

// (*strings.byteStringReplacer).Replace — the library code indexes the
// 256-entry table r.replacements with a uint8; the engine's bounds check
// builds the constant 256 at the index's width (8 bits -> 0) and reports a
// spurious "index out of range [symbolic] with length 256" (see
// intrinsics_ignore.go for the same issue in unicode/utf8).  Same semantics:
// every byte that has a replacement is replaced by it, all others are copied;
// a symbolic byte forks on equality with each byte that has a replacement.
func init() {
	intrinsics["(*strings.byteStringReplacer).Replace"] = inByteStringReplace
}

func inByteStringReplace(ex *Exec, fr *frame, fn *ssa.Function, a []value) value {
	p := a[0].(*value)
	if p == nil {
		ex.nilDeref()
	}
	st, ok := (*p).(structure)
	if !ok || len(st) < 1 {
		panic(engineError{"byteStringReplacer: unexpected receiver layout"})
	}
	table, ok := st[0].(array)
	if !ok || len(table) != 256 {
		panic(engineError{"byteStringReplacer: unexpected replacements table"})
	}
	repl := func(x int) (str, bool) {
		sl, _ := table[x].([]value)
		if sl == nil {
			return nil, false
		}
		out := make(str, len(sl))
		for i := range sl {
			out[i] = sl[i].(*Term)
		}
		return out, true
	}
	var keys []int
	for x := 0; x < 256; x++ {
		if _, has := repl(x); has {
			keys = append(keys, x)
		}
	}
	s := asStr(a[1])
	out := make(str, 0, len(s))
	for _, b := range s {
		if b.IsConst() {
			if r, has := repl(int(b.C & 0xff)); has {
				out = append(out, r...)
			} else {
				out = append(out, b)
			}
			continue
		}
		replaced := false
		for _, x := range keys {
			if ex.decideBool(ex.tt.Eq(b, ex.tt.Byte(byte(x))), "replacer byte") {
				r, _ := repl(x)
				out = append(out, r...)
				replaced = true
				break
			}
		}
		if !replaced {
			out = append(out, b)
		}
	}
	return out
}

// unicode.IsLetter / IsNumber / IsDigit on a symbolic rune.  The library code
// indexes the 256-entry Latin-1 property table with a uint8 (spurious
// "index out of range [symbolic] with length 256", see above) and otherwise
// binary-searches range tables.  Here: a constant rune is classified by the
// host library; a symbolic rune within Latin-1 gets ONE boolean term (the
// disjunction of the Latin-1 code points having the property, computed with
// the host library); a symbolic rune that can exceed Latin-1 is concretised.
func init() {
	intrinsics["unicode.IsLetter"] = runeClassIntrinsic(unicode.IsLetter, "unicode.IsLetter")
	intrinsics["unicode.IsNumber"] = runeClassIntrinsic(unicode.IsNumber, "unicode.IsNumber")
	intrinsics["unicode.IsDigit"] = runeClassIntrinsic(unicode.IsDigit, "unicode.IsDigit")
}

func runeClassIntrinsic(class func(rune) bool, what string) intrinsic {
	return func(ex *Exec, fr *frame, fn *ssa.Function, a []value) value {
		tt := ex.tt
		r := a[0].(*Term)
		if r.IsConst() {
			return tt.Bool(class(rune(int32(uint32(r.C)))))
		}
		if !ex.decideBool(tt.Ule(r, tt.Const(r.W, 0xff)), what+": rune within Latin-1") {
			v := ex.concretize(r, what+": rune beyond Latin-1")
			return tt.Bool(class(rune(int32(uint32(v)))))
		}
		// disjunction of maximal ranges
		res := tt.False
		for lo := 0; lo <= 0xff; lo++ {
			if !class(rune(lo)) {
				continue
			}
			hi := lo
			for hi+1 <= 0xff && class(rune(hi+1)) {
				hi++
			}
			in := tt.BAnd(tt.Ule(tt.Const(r.W, uint64(lo)), r), tt.Ule(r, tt.Const(r.W, uint64(hi))))
			res = tt.BOr(res, in)
			lo = hi
		}
		return res
	}
}

// github.com/google/uuid.xtob(x1, x2 byte) (byte, bool): two lookups in the
// 256-entry table xvalues indexed by a byte (same spurious bounds failure).
// Same function as a term: hex value of each digit, 255 for a non-digit.
func init() {
	intrinsics["github.com/google/uuid.xtob"] = inUUIDxtob
}

func inUUIDxtob(ex *Exec, fr *frame, fn *ssa.Function, a []value) value {
	tt := ex.tt
	hex := func(x *Term) *Term {
		rng := func(lo, hi byte) *Term { return tt.BAnd(tt.Ule(tt.Byte(lo), x), tt.Ule(x, tt.Byte(hi))) }
		return tt.Ite(rng('0', '9'), tt.Sub(x, tt.Byte('0')),
			tt.Ite(rng('a', 'f'), tt.Add(tt.Sub(x, tt.Byte('a')), tt.Byte(10)),
				tt.Ite(rng('A', 'F'), tt.Add(tt.Sub(x, tt.Byte('A')), tt.Byte(10)), tt.Byte(255))))
	}
	b1, b2 := hex(a[0].(*Term)), hex(a[1].(*Term))
	val := tt.Or(tt.Shl(b1, tt.Byte(4)), b2)
	ok := tt.BAnd(tt.BNot(tt.Eq(b1, tt.Byte(255))), tt.BNot(tt.Eq(b2, tt.Byte(255))))
	return tuple{val, ok}
}

package sx

import (
	"golang.org/x/tools/go/ssa"
)

// sync.Mutex / sync.RWMutex for toolchains (go1.25) whose Mutex starts with a
// zero-size `_ noCopy` field: the held flag is the first scalar cell found by
// descending into the first NON-EMPTY field.  These registrations replace the
// ones of intrinsics.go (this file's init runs later: file-name order).

func init() {
	intrinsics["(*sync.Mutex).Lock"] = inMutexLock2
	intrinsics["(*sync.Mutex).Unlock"] = inMutexUnlock2
	intrinsics["(*sync.Mutex).TryLock"] = inMutexTryLock2
	intrinsics["(*sync.RWMutex).Lock"] = inMutexLock2
	intrinsics["(*sync.RWMutex).Unlock"] = inMutexUnlock2
	intrinsics["(*sync.RWMutex).RLock"] = inRLock2
	intrinsics["(*sync.RWMutex).RUnlock"] = inRUnlock2
}

func mutexCell2(ex *Exec, p *value) *value {
	if p == nil {
		ex.nilDeref()
	}
	for {
		st, ok := (*p).(structure)
		if !ok {
			return p
		}
		next := -1
		for i := range st {
			if s, isStruct := st[i].(structure); isStruct && len(s) == 0 {
				continue
			}
			next = i
			break
		}
		if next < 0 {
			panic(engineError{"sync mutex model: no state cell found"})
		}
		p = &st[next]
	}
}

func inMutexLock2(ex *Exec, fr *frame, fn *ssa.Function, a []value) value {
	c := mutexCell2(ex, a[0].(*value))
	if ex.sched != nil {
		ex.schedLock(c)
		return nil
	}
	if t := (*c).(*Term); !t.IsConst() || t.C != 0 {
		ex.blocked("sync.Mutex.Lock on a mutex that is already held (self-deadlock in sequential mode)")
	}
	*c = ex.tt.Const((*c).(*Term).W, 1)
	return nil
}

func inMutexTryLock2(ex *Exec, fr *frame, fn *ssa.Function, a []value) value {
	c := mutexCell2(ex, a[0].(*value))
	if t := (*c).(*Term); t.C != 0 {
		return ex.tt.False
	}
	*c = ex.tt.Const((*c).(*Term).W, 1)
	return ex.tt.True
}

func inMutexUnlock2(ex *Exec, fr *frame, fn *ssa.Function, a []value) value {
	c := mutexCell2(ex, a[0].(*value))
	if t := (*c).(*Term); t.C == 0 {
		panic(targetPanic{ex.runtimeError("sync: unlock of unlocked mutex")})
	}
	*c = ex.tt.Const((*c).(*Term).W, 0)
	if ex.sched != nil {
		ex.schedUnlocked(c)
	}
	return nil
}

func inRLock2(ex *Exec, fr *frame, fn *ssa.Function, a []value) value {
	c := mutexCell2(ex, a[0].(*value))
	t := (*c).(*Term)
	if t.C == 1 {
		if ex.sched != nil {
			ex.schedLock(c)
			return nil
		}
		ex.blocked("sync.RWMutex.RLock while write-locked (sequential mode)")
	}
	if t.C == 0 {
		*c = ex.tt.Const(t.W, 2)
	} else {
		*c = ex.tt.Const(t.W, t.C+1)
	}
	return nil
}

func inRUnlock2(ex *Exec, fr *frame, fn *ssa.Function, a []value) value {
	c := mutexCell2(ex, a[0].(*value))
	t := (*c).(*Term)
	if t.C < 2 {
		panic(targetPanic{ex.runtimeError("sync: RUnlock of unlocked RWMutex")})
	}
	if t.C == 2 {
		*c = ex.tt.Const(t.W, 0)
		if ex.sched != nil {
			ex.schedUnlocked(c)
		}
	} else {
		*c = ex.tt.Const(t.W, t.C-1)
	}
	return nil
}

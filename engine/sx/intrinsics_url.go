package sx

import (
	"go/types"
	"strings"

	"golang.org/x/tools/go/ssa"
)

// Intrinsics added for the URL / configuration checks (C36, C37, C38).
//
//   strings.ToLower / strings.ToUpper: one ite-term per byte when every byte
//     is provably ASCII on the current path (otherwise the library code is
//     executed from SSA as before).
//   fmt.Sprintf called from mutagen's pkg/url: %d / %v of a symbolic unsigned
//     integer yields symbolic decimal digits (forking only on the number of
//     digits) instead of one path per value.  All other calls are unchanged.

func init() {
	intrinsics["strings.ToLower"] = func(ex *Exec, fr *frame, fn *ssa.Function, a []value) value {
		return inASCIICase(ex, fr, fn, a, 'A', 'Z', 32)
	}
	intrinsics["strings.ToUpper"] = func(ex *Exec, fr *frame, fn *ssa.Function, a []value) value {
		return inASCIICase(ex, fr, fn, a, 'a', 'z', 0xe0) // -32 mod 256
	}
	intrinsics["fmt.Sprintf"] = inSprintfSymbolicDecimal
}

// callFromSSA executes fn's own code although an intrinsic is registered.
func (ex *Exec) callFromSSA(fr *frame, fn *ssa.Function, a []value) value {
	fi := ex.info(fn)
	saved := fi.intrinsic
	fi.intrinsic = nil
	defer func() { fi.intrinsic = saved }()
	return ex.callSSA(fr.caller, fn.Pos(), fn, a, nil)
}

func inASCIICase(ex *Exec, fr *frame, fn *ssa.Function, a []value, lo, hi byte, delta byte) value {
	tt := ex.tt
	s := a[0].(str)
	if ex.path == nil || ex.inInit > 0 {
		return ex.callFromSSA(fr, fn, a)
	}
	for _, c := range s {
		if c.IsConst() {
			if c.C >= 0x80 {
				return ex.callFromSSA(fr, fn, a)
			}
			continue
		}
		if ex.path.concrete {
			return ex.callFromSSA(fr, fn, a)
		}
		if ex.feasible(tt.Ule(tt.Byte(0x80), c)) != Unsat {
			return ex.callFromSSA(fr, fn, a)
		}
	}
	out := make(str, len(s))
	for i, c := range s {
		in := tt.BAnd(tt.Ule(tt.Byte(lo), c), tt.Ule(c, tt.Byte(hi)))
		out[i] = tt.Ite(in, tt.Add(c, tt.Byte(delta)), c)
	}
	return out
}

// symDecimal renders an unsigned symbolic integer in base 10.
func (ex *Exec) symDecimal(x *Term) str {
	tt := ex.tt
	maxv := mask(x.W)
	n := 1
	for pow := uint64(10); pow <= maxv; pow *= 10 {
		if ex.decideBool(tt.Ult(x, tt.Const(x.W, pow)), "number of decimal digits") {
			break
		}
		n++
		if pow > maxv/10 {
			break
		}
	}
	out := make(str, n)
	div := uint64(1)
	for i := n - 1; i >= 0; i-- {
		d := tt.URem(tt.UDiv(x, tt.Const(x.W, div)), tt.Const(x.W, 10))
		out[i] = tt.Add(tt.Extract(d, 7, 0), tt.Byte('0'))
		div *= 10
	}
	return out
}

func inSprintfSymbolicDecimal(ex *Exec, fr *frame, fn *ssa.Function, a []value) value {
	scoped := false
	if c := fr.caller; c != nil && c.fn != nil && c.fn.Pkg != nil && c.fn.Pkg.Pkg != nil {
		scoped = strings.HasPrefix(c.fn.Pkg.Pkg.Path(), "github.com/mutagen-io/mutagen/pkg/url")
	}
	if !scoped || ex.path == nil || ex.inInit > 0 || ex.path.concrete {
		return inSprintf(ex, fr, fn, a)
	}
	f, ok := a[0].(str).concrete()
	if !ok {
		return inSprintf(ex, fr, fn, a)
	}
	args := a[1].([]value)
	// verb of each operand (same scanning as sprintf)
	var verbs []byte
	for i := 0; i < len(f); i++ {
		if f[i] != '%' {
			continue
		}
		i++
		for i < len(f) && (strings.IndexByte("+#- 0123456789.", f[i]) >= 0) {
			i++
		}
		if i >= len(f) {
			break
		}
		if f[i] != '%' {
			verbs = append(verbs, f[i])
		}
	}
	var nargs []value
	for i, x := range args {
		if i >= len(verbs) || (verbs[i] != 'd' && verbs[i] != 'v') {
			continue
		}
		arg, isI := x.(iface)
		if !isI || arg.t == nil {
			continue
		}
		t, isT := arg.v.(*Term)
		if !isT || t.IsConst() || t.W == 0 {
			continue
		}
		if _, signed, isInt := intInfo(arg.t); !isInt || signed {
			continue
		}
		if _, named := arg.t.(*types.Named); named {
			continue // may have a String method
		}
		if nargs == nil {
			nargs = append([]value(nil), args...)
		}
		nargs[i] = iface{t: types.Typ[types.String], v: ex.symDecimal(t)}
	}
	if nargs == nil {
		return inSprintf(ex, fr, fn, a)
	}
	return inSprintf(ex, fr, fn, []value{a[0], nargs})
}

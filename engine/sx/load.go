package sx

import (
	"fmt"
	"go/ast"
	"go/parser"
	"go/token"
	"os"
	"path/filepath"
	"strings"

	"golang.org/x/tools/go/packages"
	"golang.org/x/tools/go/ssa"
	"golang.org/x/tools/go/ssa/ssautil"
)

// HarnessFiles describes harness sources to overlay into one package dir.
type HarnessFiles struct {
	PkgPath string   // import path of the target package
	Dir     string   // absolute directory of the package in the repo
	Files   []string // absolute paths of harness sources (package clause must match)
}

type Loaded struct {
	Prog    *ssa.Program
	Pkgs    map[string]*ssa.Package // by import path
	Overlay map[string]string       // virtual path -> real file with the content (for go test -overlay)
	LoadS   float64
}

// packageName reads the package clause of a Go file.
func packageName(file string) (string, error) {
	fset := token.NewFileSet()
	f, err := parser.ParseFile(fset, file, nil, parser.PackageClauseOnly)
	if err != nil {
		return "", err
	}
	return f.Name.Name, nil
}

// Load type-checks the target packages (with harness overlays) and all their
// dependencies from source, and builds SSA for everything.
func Load(repo string, hs []HarnessFiles, rtTemplate string, scratch string) (*Loaded, error) {
	overlay := make(map[string][]byte)
	overlayFiles := make(map[string]string)
	var patterns []string
	rt, err := os.ReadFile(rtTemplate)
	if err != nil {
		return nil, err
	}
	for _, h := range hs {
		patterns = append(patterns, h.PkgPath)
		pkgName := ""
		for _, f := range h.Files {
			src, err := os.ReadFile(f)
			if err != nil {
				return nil, err
			}
			n, err := packageName(f)
			if err != nil {
				return nil, err
			}
			if pkgName != "" && n != pkgName {
				return nil, fmt.Errorf("harness files for %s disagree on package name", h.PkgPath)
			}
			pkgName = n
			virt := filepath.Join(h.Dir, "zz_verif_"+filepath.Base(f))
			overlay[virt] = src
			overlayFiles[virt] = f
		}
		if pkgName == "" {
			return nil, fmt.Errorf("no harness files for %s", h.PkgPath)
		}
		rtSrc := strings.Replace(string(rt), "package PKGNAME", "package "+pkgName, 1)
		virt := filepath.Join(h.Dir, "zz_verif_rt.go")
		overlay[virt] = []byte(rtSrc)
		if scratch != "" {
			real := filepath.Join(scratch, strings.ReplaceAll(h.PkgPath, "/", "_")+"_zz_verif_rt.go")
			if err := os.WriteFile(real, []byte(rtSrc), 0o644); err != nil {
				return nil, err
			}
			overlayFiles[virt] = real
		}
	}
	cfg := &packages.Config{
		Mode:    packages.LoadAllSyntax,
		Dir:     repo,
		Overlay: overlay,
		Env:     append(os.Environ(), "GOFLAGS=-mod=mod", "GOPROXY=off", "GOTOOLCHAIN=local", "CGO_ENABLED=0"),
		ParseFile: func(fset *token.FileSet, filename string, src []byte) (*ast.File, error) {
			return parser.ParseFile(fset, filename, src, parser.SkipObjectResolution)
		},
	}
	initial, err := packages.Load(cfg, patterns...)
	if err != nil {
		return nil, err
	}
	var errs []string
	packages.Visit(initial, nil, func(p *packages.Package) {
		for _, e := range p.Errors {
			errs = append(errs, e.Error())
		}
	})
	if len(errs) > 0 {
		if len(errs) > 10 {
			errs = errs[:10]
		}
		return nil, fmt.Errorf("package load errors:\n%s", strings.Join(errs, "\n"))
	}
	prog, _ := ssautil.AllPackages(initial, ssa.InstantiateGenerics)
	prog.Build()
	l := &Loaded{Prog: prog, Pkgs: make(map[string]*ssa.Package), Overlay: overlayFiles}
	for _, p := range initial {
		sp := prog.Package(p.Types)
		if sp == nil {
			return nil, fmt.Errorf("no SSA package for %s", p.PkgPath)
		}
		l.Pkgs[p.PkgPath] = sp
	}
	return l, nil
}

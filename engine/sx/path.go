package sx

import (
	"fmt"
	"sort"
	"strings"
)

// decision kinds recorded in a path trace
const (
	dBool   = 0 // solver-decided branch: outcome 0/1
	dValue  = 1 // concretisation: outcome = value
	dChoice = 2 // pure nondeterministic choice: outcome = index
)

type decision struct {
	kind    uint8
	outcome uint64
}

type InputRec struct {
	Name  string `json:"name"`
	Width int    `json:"width"`
	Label string `json:"label,omitempty"`
	Value uint64 `json:"value"`
	term  *Term
}

type Violation struct {
	Property string     `json:"property,omitempty"`
	Harness  string     `json:"harness"`
	Kind     string     `json:"kind"` // assert | panic | blocked
	Label    string     `json:"label"`
	Msg      string     `json:"msg,omitempty"`
	Inputs   []InputRec `json:"inputs"`
	Choices  []uint64   `json:"choices"`
	Notes    []string   `json:"notes,omitempty"`
	// after validation
	ReplayedInEngine bool   `json:"replayed_in_engine"`
	ReplayedNatively string `json:"replayed_natively,omitempty"` // "", "reproduced", "not-reproduced", "n/a: ..."
	Known            string `json:"known_finding,omitempty"`
	ReplayPath       string `json:"replay_path,omitempty"`
}

// Path is the state of one explored path.
type Path struct {
	prefix []decision
	pos    int
	trace  []decision
	pc     []*Term
	pcSet  map[*Term]bool

	inputs   []InputRec
	curLabel string
	notes    []string
	covers   map[string]bool

	inconclusive string // non-empty: reason
	unwound      bool
	violations   []*Violation
	asserts      int // assertion checks discharged on this path (solver or constant)
	symAsserts   int

	// concrete replay mode
	concrete      bool
	concInputs    []uint64
	concChoices   []uint64
	concChoicePos int
}

func newPath(prefix []decision) *Path {
	return &Path{prefix: prefix, pcSet: make(map[*Term]bool), covers: make(map[string]bool)}
}

func (p *Path) replaying() bool { return p.pos < len(p.prefix) }

func (p *Path) addPC(lit *Term) {
	if lit.IsTrue() || p.pcSet[lit] {
		return
	}
	p.pcSet[lit] = true
	p.pc = append(p.pc, lit)
}

func (p *Path) record(kind uint8, outcome uint64) {
	p.trace = append(p.trace, decision{kind, outcome})
	p.pos++
}

func (p *Path) nextPrefix(kind uint8, what string) uint64 {
	d := p.prefix[p.pos]
	if d.kind != kind {
		panic(engineError{fmt.Sprintf("replay divergence at decision %d (%s): recorded kind %d, now %d — executor is not deterministic", p.pos, what, d.kind, kind)})
	}
	return d.outcome
}

// feasible asks the solver whether pc ∧ lit is satisfiable.
func (ex *Exec) feasible(lit *Term) SatResult {
	p := ex.path
	if lit.IsTrue() {
		return Sat
	}
	if lit.IsFalse() {
		return Unsat
	}
	if p.pcSet[lit] {
		return Sat
	}
	if p.pcSet[ex.tt.BNot(lit)] {
		return Unsat
	}
	q := make([]*Term, 0, len(p.pc)+1)
	q = append(q, p.pc...)
	q = append(q, lit)
	return ex.solver.Check(q)
}

// decideBool resolves a branch condition, forking when both outcomes are feasible.
func (ex *Exec) decideBool(c *Term, what string) bool {
	if c.IsConst() {
		return c.IsTrue()
	}
	p := ex.path
	if p == nil || ex.inInit > 0 {
		panic(engineError{"symbolic branch outside a path (" + what + ")"})
	}
	if p.concrete {
		panic(engineError{"symbolic condition in concrete replay: " + c.String()})
	}
	nc := ex.tt.BNot(c)
	if p.replaying() {
		o := p.nextPrefix(dBool, what)
		p.record(dBool, o)
		if o == 1 {
			p.addPC(c)
			return true
		}
		p.addPC(nc)
		return false
	}
	ft := ex.feasible(c)
	if ft == Unsat {
		p.record(dBool, 0)
		p.addPC(nc)
		return false
	}
	ff := ex.feasible(nc)
	if ff == Unsat {
		if ft == Unknown {
			p.inconclusive = "solver unknown on branch feasibility"
		}
		p.record(dBool, 1)
		p.addPC(c)
		return true
	}
	if ft == Unknown || ff == Unknown {
		p.inconclusive = "solver unknown on branch feasibility"
	}
	// both feasible: fork.  Take true now, queue false.
	alt := make([]decision, len(p.trace), len(p.trace)+1)
	copy(alt, p.trace)
	alt = append(alt, decision{dBool, 0})
	ex.drv.push(workItem{prefix: alt, inconclusive: p.inconclusive})
	p.record(dBool, 1)
	p.addPC(c)
	return true
}

// chooseN is a pure nondeterministic choice among n alternatives.
func (ex *Exec) chooseN(n int, what string) int {
	if n <= 1 {
		return 0
	}
	p := ex.path
	if p == nil || ex.inInit > 0 {
		panic(engineError{"nondeterministic choice outside a path (" + what + ")"})
	}
	if p.concrete {
		if p.concChoicePos >= len(p.concChoices) {
			panic(engineError{"concrete replay ran out of recorded choices"})
		}
		o := p.concChoices[p.concChoicePos]
		p.concChoicePos++
		p.record(dChoice, o)
		return int(o)
	}
	if p.replaying() {
		o := p.nextPrefix(dChoice, what)
		p.record(dChoice, o)
		return int(o)
	}
	for i := n - 1; i >= 1; i-- {
		alt := make([]decision, len(p.trace), len(p.trace)+1)
		copy(alt, p.trace)
		alt = append(alt, decision{dChoice, uint64(i)})
		ex.drv.push(workItem{prefix: alt, inconclusive: p.inconclusive})
	}
	p.record(dChoice, 0)
	return 0
}

// concretize forks over the feasible values of t (at most lim.MaxEnum).
func (ex *Exec) concretize(t *Term, what string) uint64 {
	if t.IsConst() {
		return t.C
	}
	p := ex.path
	if p == nil || ex.inInit > 0 {
		panic(engineError{"symbolic value outside a path (" + what + ")"})
	}
	if p.concrete {
		panic(engineError{"symbolic value in concrete replay: " + t.String()})
	}
	tt := ex.tt
	if p.replaying() {
		o := p.nextPrefix(dValue, what)
		p.record(dValue, o)
		p.addPC(tt.Eq(t, tt.Const(t.W, o)))
		return o
	}
	// enumerate
	var vals []uint64
	q := make([]*Term, 0, len(p.pc)+ex.lim.MaxEnum+1)
	q = append(q, p.pc...)
	for len(vals) <= ex.lim.MaxEnum {
		ex.solver.Ensure([]*Term{t})
		r := ex.solver.Check(q)
		if r == Unknown {
			p.inconclusive = "solver unknown while enumerating values for " + what
			break
		}
		if r == Unsat {
			break
		}
		m := ex.solver.Values([]*Term{t})
		if m == nil {
			p.inconclusive = "no model while enumerating values for " + what
			break
		}
		v := m[0]
		vals = append(vals, v)
		q = append(q, tt.BNot(tt.Eq(t, tt.Const(t.W, v))))
	}
	if len(vals) == 0 {
		// pc itself infeasible?  Should not happen (invariant); end path.
		panic(pathEnd{PathAssumed, "no feasible value for " + what})
	}
	if len(vals) > ex.lim.MaxEnum {
		vals = vals[:ex.lim.MaxEnum]
		p.unwound = true
		ex.drv.noteOnce("enum-cap", fmt.Sprintf("more than %d feasible values for %s: enumeration truncated (run is inconclusive)", ex.lim.MaxEnum, what))
	}
	sort.Slice(vals, func(i, j int) bool { return vals[i] < vals[j] })
	for i := len(vals) - 1; i >= 1; i-- {
		alt := make([]decision, len(p.trace), len(p.trace)+1)
		copy(alt, p.trace)
		alt = append(alt, decision{dValue, vals[i]})
		ex.drv.push(workItem{prefix: alt, inconclusive: p.inconclusive, unwound: p.unwound})
	}
	p.record(dValue, vals[0])
	p.addPC(tt.Eq(t, tt.Const(t.W, vals[0])))
	return vals[0]
}

// ---------- inputs ----------

func (ex *Exec) newInput(w uint8) *Term {
	p := ex.path
	if p == nil || ex.inInit > 0 {
		panic(engineError{"symbolic input requested outside a path"})
	}
	k := len(p.inputs)
	if p.concrete {
		if k >= len(p.concInputs) {
			panic(engineError{"concrete replay ran out of recorded inputs"})
		}
		v := p.concInputs[k]
		var t *Term
		if w == 0 {
			t = ex.tt.Bool(v&1 == 1)
		} else {
			t = ex.tt.Const(w, v)
		}
		p.inputs = append(p.inputs, InputRec{Name: fmt.Sprintf("in%d_w%d", k, w), Width: int(w), Label: p.curLabel, Value: v, term: t})
		return t
	}
	name := fmt.Sprintf("in%d_w%d", k, w)
	t := ex.tt.Var(name, w)
	p.inputs = append(p.inputs, InputRec{Name: name, Width: int(w), Label: p.curLabel, term: t})
	return t
}

// ---------- assertions ----------

func (ex *Exec) assume(c *Term) {
	p := ex.path
	if c.IsTrue() {
		return
	}
	if c.IsFalse() {
		panic(pathEnd{PathAssumed, "assumption false"})
	}
	if p.concrete {
		panic(engineError{"symbolic assumption in concrete replay"})
	}
	if !p.replaying() {
		switch ex.feasible(c) {
		case Unsat:
			panic(pathEnd{PathAssumed, "assumption infeasible"})
		case Unknown:
			p.inconclusive = "solver unknown on assumption"
		}
	}
	p.addPC(c)
}

func (ex *Exec) assert(c *Term, label string) {
	p := ex.path
	p.asserts++
	if c.IsTrue() {
		return
	}
	if p.concrete {
		if c.IsFalse() {
			p.violations = append(p.violations, &Violation{Kind: "assert", Label: label})
			panic(pathEnd{PathStopped, "assertion failed in concrete replay"})
		}
		panic(engineError{"symbolic assertion in concrete replay"})
	}
	p.symAsserts++
	if !p.replaying() {
		var r SatResult
		if c.IsFalse() {
			r = Sat
			ex.solver.Check(p.pc) // to have a model
		} else {
			nc := ex.tt.BNot(c)
			if p.pcSet[c] {
				r = Unsat
			} else {
				q := make([]*Term, 0, len(p.pc)+1)
				q = append(q, p.pc...)
				q = append(q, nc)
				r = ex.solver.Check(q) // always a real query: the model is read below
			}
		}
		switch r {
		case Sat:
			v := ex.makeViolation("assert", label, "")
			p.violations = append(p.violations, v)
		case Unknown:
			p.inconclusive = "solver unknown on assertion " + label
		}
	}
	// continue under the assumption that the assertion holds
	if c.IsFalse() {
		panic(pathEnd{PathStopped, "assertion " + label + " fails on every input of this path"})
	}
	if !p.replaying() {
		if ex.feasible(c) == Unsat {
			panic(pathEnd{PathStopped, "assertion " + label + " fails on every input of this path"})
		}
	}
	p.addPC(c)
}

// makeViolation reads the model of the last Sat query.
func (ex *Exec) makeViolation(kind, label, msg string) *Violation {
	p := ex.path
	v := &Violation{Kind: kind, Label: label, Msg: msg}
	terms := make([]*Term, len(p.inputs))
	for i := range p.inputs {
		terms[i] = p.inputs[i].term
	}
	vals := ex.solver.Values(terms)
	for i, in := range p.inputs {
		rec := in
		if vals != nil {
			rec.Value = vals[i]
		}
		v.Inputs = append(v.Inputs, rec)
	}
	for _, d := range p.trace {
		if d.kind == dChoice {
			v.Choices = append(v.Choices, d.outcome)
		}
	}
	v.Notes = append([]string(nil), p.notes...)
	return v
}

func (v *Violation) Signature() string {
	var sb strings.Builder
	fmt.Fprintf(&sb, "%s/%s/%s", v.Harness, v.Kind, v.Label)
	return sb.String()
}

package sx

import (
	"fmt"
	"go/types"
	"os"
	"runtime"
	"sort"
	"strings"
	"sync"
	"time"

	"golang.org/x/tools/go/ssa"
)

type workItem struct {
	prefix       []decision
	inconclusive string
	unwound      bool
}

// HarnessSpec describes one harness run.
type HarnessSpec struct {
	Name     string         // display name
	Pkg      *ssa.Package   // harness package
	Entry    string         // entry function name
	Params   map[string]int // vParam values
	Covers   []string       // labels that must be reached
	Limits   Limits
	Workers  int
	GoMode   string // "", "inline", "drop"
	MapRev   bool
	Solver   string
	Timeout  int // per query ms
	MaxPaths int
	Samples  int
	// NativeVectors: number of completed paths for which a concrete input
	// vector (a model of the path condition) is kept, to be run through the
	// natively compiled harness (translator validation).
	NativeVectors int
	Seed          int64
	Deadline      time.Time
	// AllowBlocked: a path that blocks forever is not a violation.
	AllowBlocked bool
	// AllowPanic: an uncaught target panic is not a violation.
	AllowPanic bool
	StopAtFirst bool
	// ReinitGlobals: see Exec.trackGlobals.
	ReinitGlobals bool
}

// HarnessResult aggregates a run.
type HarnessResult struct {
	Name         string
	Paths        int
	ByStatus     map[string]int
	Decisions    int // solver-decided forks
	Asserts      int
	SymAsserts   int
	Queries      int
	SatN, UnsatN int
	UnknownN     int
	SolverTime   time.Duration
	Wall         time.Duration
	Covers       map[string]int
	MissingCover []string
	Violations   []*Violation
	Inconclusive []string
	Unwound      int
	EngineErrors []string
	Notes        []string
	Samples      []map[string]interface{}
	NativeVecs   []*Violation
	nativeSeen   int
	Functions    []string
	StubsUsed    []string
	Terms        int
	MaxTrace     int
	NontrivialPaths int
	Stopped      string
}

type Driver struct {
	prog *ssa.Program
	spec *HarnessSpec

	mu     sync.Mutex
	cond   *sync.Cond
	stack  []workItem
	active int
	stop   bool
	res    *HarnessResult
	notes  map[string]bool
	funcs  map[string]bool
	vsigs  map[string]int
}

func (d *Driver) push(w workItem) {
	d.mu.Lock()
	d.stack = append(d.stack, w)
	d.mu.Unlock()
	d.cond.Signal()
}

func (d *Driver) note(s string) {
	d.mu.Lock()
	if !d.notes[s] {
		d.notes[s] = true
		d.res.Notes = append(d.res.Notes, s)
	}
	d.mu.Unlock()
}

func (d *Driver) noteOnce(key, s string) { d.note(s) }

func (d *Driver) pop() (workItem, bool) {
	d.mu.Lock()
	defer d.mu.Unlock()
	for {
		if d.stop {
			return workItem{}, false
		}
		if n := len(d.stack); n > 0 {
			w := d.stack[n-1]
			d.stack = d.stack[:n-1]
			d.active++
			return w, true
		}
		if d.active == 0 {
			return workItem{}, false
		}
		d.cond.Wait()
	}
}

func (d *Driver) done() {
	d.mu.Lock()
	d.active--
	d.mu.Unlock()
	d.cond.Broadcast()
}

// NewExec creates an executor bound to a driver.
func NewExec(prog *ssa.Program, spec *HarnessSpec, d *Driver) (*Exec, error) {
	timeout := spec.Timeout
	if timeout == 0 {
		timeout = 20000
	}
	solver, err := NewSolver(SolverCommand(spec.Solver, timeout))
	if err != nil {
		return nil, err
	}
	if lp := os.Getenv("VERIF_SOLVER_LOG"); lp != "" {
		f, _ := os.Create(fmt.Sprintf("%s.%d", lp, len(d.notes)+int(time.Now().UnixNano()%1000000)))
		solver.Log = f
	}
	ex := &Exec{
		prog:        prog,
		tt:          NewTerms(),
		solver:      solver,
		globals:     make(map[*ssa.Global]*value),
		pkgInit:     make(map[*ssa.Package]int),
		poison:      make(map[*ssa.Global]string),
		fns:         make(map[*ssa.Function]*fnInfo),
		stubs:       make(map[string]value),
		lim:         spec.Limits,
		drv:         d,
		harnessPkgs: map[*ssa.Package]bool{spec.Pkg: true},
		constCache:  make(map[*ssa.Const]value),
		goMode:      spec.GoMode,
		mapRev:      spec.MapRev,
		params:      spec.Params,
		trackGlobals: spec.ReinitGlobals,
	}
	if ex.lim.MaxSteps == 0 {
		ex.lim.MaxSteps = 2000000
	}
	if ex.lim.MaxDepth == 0 {
		ex.lim.MaxDepth = 400
	}
	if ex.lim.MaxEnum == 0 {
		ex.lim.MaxEnum = 64
	}
	rt := prog.ImportedPackage("runtime")
	if rt == nil {
		return nil, fmt.Errorf("program does not include package runtime")
	}
	ex.runtimeErrorString = rt.Type("errorString").Object().Type()
	if ep := prog.ImportedPackage("errors"); ep != nil {
		ex.errorStringType, _ = ep.Type("errorString").Object().Type().(*types.Named)
	}
	// stub tables
	if err := ex.loadStubs(spec); err != nil {
		solver.Close()
		return nil, err
	}
	return ex, nil
}

func (ex *Exec) loadStubs(spec *HarnessSpec) (err error) {
	defer func() {
		if r := recover(); r != nil {
			err = fmt.Errorf("loading stub tables: %v", r)
		}
	}()
	for _, name := range []string{"verifStubs", "verifStubs_" + spec.Entry} {
		g, ok := spec.Pkg.Members[name].(*ssa.Global)
		if !ok {
			continue
		}
		cell := ex.global(g)
		m, ok := (*cell).(*omap)
		if !ok || m == nil {
			continue
		}
		for i, k := range m.keys {
			if !m.live[i] {
				continue
			}
			ks, _ := k.(str).concrete()
			fv := m.vals[i].(iface).v
			ex.stubs[ks] = fv
		}
	}
	if len(ex.stubs) > 0 {
		ex.fns = make(map[*ssa.Function]*fnInfo) // re-resolve stubs
	}
	return nil
}

// runPath executes the harness entry along one work item.
func (ex *Exec) runPath(entry *ssa.Function, w workItem, conc *Violation) (p *Path, status PathStatus, msg string) {
	p = newPath(w.prefix)
	p.inconclusive = w.inconclusive
	p.unwound = w.unwound
	if conc != nil {
		p.concrete = true
		for _, in := range conc.Inputs {
			p.concInputs = append(p.concInputs, in.Value)
		}
		p.concChoices = conc.Choices
	}
	ex.path = p
	ex.steps = 0
	ex.depth = 0
	ex.sched = nil
	ex.curG = nil
	ex.pools = nil
	if ex.goMode == "sched" {
		ex.sched = newScheduler(ex)
		defer ex.sched.shutdown()
	}
	for pkg := range ex.touched {
		ex.reinit = append(ex.reinit, pkg)
	}
	ex.touched = nil
	defer func() { ex.reinit = nil }()
	for _, pkg := range ex.reinit {
		delete(ex.pkgInit, pkg)
		for _, m := range pkg.Members {
			if g, ok := m.(*ssa.Global); ok {
				delete(ex.globals, g)
			}
		}
	}
	defer func() {
		ex.path = nil
		r := recover()
		if r == nil {
			return
		}
		switch r := r.(type) {
		case pathEnd:
			status, msg = r.status, r.msg
		case targetPanic:
			status, msg = PathPanic, show(r.v)
		case engineError:
			status, msg = PathUnsupported, r.msg
		default:
			buf := make([]byte, 8192)
			buf = buf[:runtime.Stack(buf, false)]
			status, msg = PathUnsupported, fmt.Sprintf("engine crash: %v\n%s", r, buf)
		}
	}()
	ex.callSSA(nil, entry.Pos(), entry, nil, nil)
	return p, PathOK, ""
}

// RunHarness explores all paths of one harness.
func RunHarness(prog *ssa.Program, spec *HarnessSpec) *HarnessResult {
	t0 := time.Now()
	res := &HarnessResult{Name: spec.Name, ByStatus: map[string]int{}, Covers: map[string]int{}}
	d := &Driver{prog: prog, spec: spec, res: res, notes: map[string]bool{}, funcs: map[string]bool{}, vsigs: map[string]int{}}
	d.cond = sync.NewCond(&d.mu)
	entry := spec.Pkg.Func(spec.Entry)
	if entry == nil {
		res.EngineErrors = append(res.EngineErrors, "no entry function "+spec.Entry+" in "+spec.Pkg.Pkg.Path())
		return res
	}
	nw := spec.Workers
	if nw <= 0 {
		nw = runtime.NumCPU()
	}
	d.stack = append(d.stack, workItem{})
	var wg sync.WaitGroup
	var execs []*Exec
	for i := 0; i < nw; i++ {
		ex, err := NewExec(prog, spec, d)
		if err != nil {
			res.EngineErrors = append(res.EngineErrors, err.Error())
			return res
		}
		execs = append(execs, ex)
	}
	for _, ex := range execs {
		wg.Add(1)
		go func(ex *Exec) {
			defer wg.Done()
			for {
				w, ok := d.pop()
				if !ok {
					return
				}
				p, status, msg := ex.runPath(entry, w, nil)
				d.finishPath(ex, p, status, msg)
				d.done()
			}
		}(ex)
	}
	wg.Wait()
	// validate violations by concrete re-execution in the engine
	for _, v := range res.Violations {
		v.Harness = spec.Name
		ex := execs[0]
		p, status, msg := ex.runPath(entry, workItem{}, v)
		switch {
		case v.Kind == "assert" && len(p.violations) > 0 && p.violations[0].Label == v.Label:
			v.ReplayedInEngine = true
		case v.Kind == "panic" && status == PathPanic:
			v.ReplayedInEngine = true
		case v.Kind == "blocked" && status == PathBlocked:
			v.ReplayedInEngine = true
		default:
			res.EngineErrors = append(res.EngineErrors, fmt.Sprintf("counterexample for %s/%s did not reproduce in concrete re-execution (status %s %s): engine or solver bug", v.Kind, v.Label, status, msg))
		}
	}
	for _, ex := range execs {
		res.Queries += ex.solver.Queries
		res.SatN += ex.solver.SatN
		res.UnsatN += ex.solver.UnsatN
		res.UnknownN += ex.solver.UnknownN
		res.SolverTime += ex.solver.Time
		res.Terms += ex.tt.Count()
		for fn, fi := range ex.fns {
			if fi.n > 0 || fi.intrinsic != nil {
				d.funcs[fn.String()] = true
			}
		}
		if ex.solver.LastErr != "" {
			res.Notes = append(res.Notes, "solver error line seen: "+ex.solver.LastErr)
		}
		for k := range ex.stubs {
			d.funcs["stub:"+k] = true
		}
		ex.solver.Close()
	}
	for f := range d.funcs {
		if strings.HasPrefix(f, "stub:") {
			res.StubsUsed = append(res.StubsUsed, f[5:])
		} else {
			res.Functions = append(res.Functions, f)
		}
	}
	sort.Strings(res.Functions)
	sort.Strings(res.StubsUsed)
	for _, c := range spec.Covers {
		if res.Covers[c] == 0 {
			res.MissingCover = append(res.MissingCover, c)
		}
	}
	if len(d.stack) > 0 && res.Stopped == "" {
		res.Stopped = fmt.Sprintf("%d work items left unexplored", len(d.stack))
	}
	res.Wall = time.Since(t0)
	return res
}

func (d *Driver) finishPath(ex *Exec, p *Path, status PathStatus, msg string) {
	// panic / blocked are violations unless allowed; they need a model.
	var extra *Violation
	switch status {
	case PathPanic:
		if !d.spec.AllowPanic && !p.concrete {
			if ex.solver.Check(p.pc) == Sat {
				extra = ex.withPath(p, func() *Violation { return ex.makeViolation("panic", firstLine(msg), msg) })
			}
		}
	case PathBlocked:
		if !d.spec.AllowBlocked && !p.concrete {
			if ex.solver.Check(p.pc) == Sat {
				extra = ex.withPath(p, func() *Violation { return ex.makeViolation("blocked", firstLine(msg), msg) })
			}
		}
	}
	var sample map[string]interface{}
	d.mu.Lock()
	wantSample := len(d.res.Samples) < d.spec.Samples && (status == PathOK || status == PathStopped) && p.symAsserts > 0
	d.mu.Unlock()
	if wantSample && ex.solver.Check(p.pc) == Sat {
		v := ex.withPath(p, func() *Violation { return ex.makeViolation("sample", "", "") })
		ins := make([]string, 0, len(v.Inputs))
		for _, in := range v.Inputs {
			l := in.Label
			if l == "" {
				l = in.Name
			}
			ins = append(ins, fmt.Sprintf("%s=%d", l, in.Value))
		}
		sample = map[string]interface{}{
			"status": status.String(), "decisions": len(p.trace), "path_condition_literals": len(p.pc),
			"assertions_checked": p.asserts, "example_inputs": ins, "notes": p.notes,
		}
	}

	// translator validation: reservoir-sample completed paths, keep a model each
	var nvec *Violation
	nslot := -1
	if d.spec.NativeVectors > 0 && status == PathOK && !p.concrete {
		d.mu.Lock()
		d.res.nativeSeen++
		seen := d.res.nativeSeen
		if len(d.res.NativeVecs) < d.spec.NativeVectors {
			nslot = len(d.res.NativeVecs)
			d.res.NativeVecs = append(d.res.NativeVecs, nil)
		} else if seen <= 40*d.spec.NativeVectors {
			// deterministic pseudo-random replacement (seeded)
			h := uint64(seen)*0x9E3779B97F4A7C15 + uint64(d.spec.Seed)*0xBF58476D1CE4E5B9
			h ^= h >> 29
			if int(h%uint64(seen)) < d.spec.NativeVectors {
				nslot = int((h >> 7) % uint64(d.spec.NativeVectors))
			}
		}
		d.mu.Unlock()
		if nslot >= 0 && ex.solver.Check(p.pc) == Sat {
			nvec = ex.withPath(p, func() *Violation { return ex.makeViolation("sample", "", "") })
		}
	}

	d.mu.Lock()
	defer d.mu.Unlock()
	r := d.res
	if nvec != nil {
		r.NativeVecs[nslot] = nvec
	}
	r.Paths++
	r.ByStatus[status.String()]++
	r.Asserts += p.asserts
	r.SymAsserts += p.symAsserts
	if p.symAsserts > 0 || len(p.pc) > 0 {
		r.NontrivialPaths++
	}
	if len(p.trace) > r.MaxTrace {
		r.MaxTrace = len(p.trace)
	}
	for _, dd := range p.trace[min(len(p.prefix), len(p.trace)):] {
		_ = dd
		r.Decisions++
	}
	for c := range p.covers {
		r.Covers[c]++
	}
	if sample != nil && len(r.Samples) < d.spec.Samples {
		r.Samples = append(r.Samples, sample)
	}
	if p.inconclusive != "" {
		r.Inconclusive = append(r.Inconclusive, p.inconclusive)
	}
	if p.unwound || status == PathUnwound {
		r.Unwound++
		if status == PathUnwound && len(r.Inconclusive) < 20 {
			r.Inconclusive = append(r.Inconclusive, "unwound: "+msg)
		}
	}
	if status == PathUnsupported {
		if len(r.EngineErrors) < 5 {
			r.EngineErrors = append(r.EngineErrors, msg)
		}
		d.stop = true
		d.cond.Broadcast()
	}
	vs := p.violations
	if extra != nil {
		vs = append(vs, extra)
	}
	for _, v := range vs {
		sig := v.Kind + "/" + v.Label
		d.vsigs[sig]++
		if d.vsigs[sig] <= 3 { // keep a few instances per label
			r.Violations = append(r.Violations, v)
		}
		if d.spec.StopAtFirst {
			d.stop = true
			r.Stopped = "stopped at first violation"
			d.cond.Broadcast()
		}
	}
	if d.spec.MaxPaths > 0 && r.Paths >= d.spec.MaxPaths && !d.stop {
		d.stop = true
		r.Stopped = fmt.Sprintf("path cap %d reached", d.spec.MaxPaths)
		d.cond.Broadcast()
	}
	if !d.spec.Deadline.IsZero() && time.Now().After(d.spec.Deadline) && !d.stop {
		d.stop = true
		r.Stopped = "time budget exhausted"
		d.cond.Broadcast()
	}
}

func (ex *Exec) withPath(p *Path, f func() *Violation) *Violation {
	old := ex.path
	ex.path = p
	defer func() { ex.path = old }()
	return f()
}

func firstLine(s string) string {
	if i := strings.IndexByte(s, '\n'); i >= 0 {
		s = s[:i]
	}
	if len(s) > 120 {
		s = s[:120]
	}
	return s
}

var _ = os.Stderr

package sx

import (
	"fmt"
	"go/types"
	"strconv"
	"strings"

	"golang.org/x/tools/go/ssa"
)

// intrinsics: functions implemented by the engine instead of being executed
// from SSA (assembly-backed leaves, runtime services, reflection-based
// helpers, formatting).
var intrinsics map[string]intrinsic

func init() {
	intrinsics = map[string]intrinsic{
		// --- bytealg / strings / bytes search kernels ---
		"internal/bytealg.IndexByte":       inIndexByte,
		"internal/bytealg.IndexByteString": inIndexByte,
		"internal/bytealg.Index":           inIndex,
		"internal/bytealg.IndexString":     inIndex,
		"internal/bytealg.Count":           inCountByte,
		"internal/bytealg.CountString":     inCountByte,
		"internal/bytealg.Compare":         inCompare,
		"internal/bytealg.CompareString":   inCompare,
		"internal/bytealg.Equal":           inEqual,
		"internal/bytealg.MakeNoZero":      inMakeNoZero,
		"internal/bytealg.LastIndexByte":       inLastIndexByte,
		"internal/bytealg.LastIndexByteString": inLastIndexByte,
		"strings.Index":                    inIndex,
		"strings.IndexByte":                inIndexByte,
		"strings.LastIndexByte":            inLastIndexByte,
		"bytes.Index":                      inIndex,
		"bytes.IndexByte":                  inIndexByte,
		"bytes.LastIndexByte":              inLastIndexByte,
		"bytes.Compare":                    inCompare,
		"strings.Compare":                  inCompare,
		"internal/stringslite.Index":       inIndex,
		"internal/stringslite.IndexByte":   inIndexByte,
		"bytes.Equal":                      inEqual,
		"runtime.memequal":                 inEqual,
		"strings.Clone":                    func(ex *Exec, fr *frame, fn *ssa.Function, a []value) value { return a[0] },
		"internal/stringslite.Clone":       func(ex *Exec, fr *frame, fn *ssa.Function, a []value) value { return a[0] },
		"(*strings.Builder).String": func(ex *Exec, fr *frame, fn *ssa.Function, a []value) value {
			p := a[0].(*value)
			if p == nil {
				ex.nilDeref()
			}
			st := (*p).(structure)
			// fields: addr *Builder, buf []byte
			return bytesToStr(st[1].([]value))
		},
		"(*strings.Builder).copyCheck": inNop,
		"unique.Make[string]":         func(ex *Exec, fr *frame, fn *ssa.Function, a []value) value { panic(engineError{"unique.Make"}) },

		// --- errors / fmt ---
		"errors.Is":   inErrorsIs,
		"errors.As":   inErrorsAs,
		"fmt.Errorf":  inErrorf,
		"fmt.Sprintf": inSprintf,
		"fmt.Sprint":  inSprint,
		"fmt.Sprintln": func(ex *Exec, fr *frame, fn *ssa.Function, a []value) value {
			s := inSprint(ex, fr, fn, a).(str)
			return append(append(str(nil), s...), ex.tt.Byte('\n'))
		},
		"fmt.Fprintf":  inNopWrite,
		"fmt.Fprintln": inNopWrite,
		"fmt.Fprint":   inNopWrite,
		"fmt.Printf":   inNopWrite,
		"fmt.Println":  inNopWrite,
		"fmt.Print":    inNopWrite,

		// --- sync (sequential semantics) ---
		"(*sync.Mutex).Lock":      inMutexLock,
		"(*sync.Mutex).Unlock":    inMutexUnlock,
		"(*sync.Mutex).TryLock":   inMutexTryLock,
		"(*sync.RWMutex).Lock":    inMutexLock,
		"(*sync.RWMutex).Unlock":  inMutexUnlock,
		"(*sync.RWMutex).RLock":   inRLock,
		"(*sync.RWMutex).RUnlock": inRUnlock,
		"(*sync.Once).Do":         inOnceDo,
		"(*sync.Once).doSlow":     inOnceDo,
		"(*sync.WaitGroup).Add":   inNop,
		"(*sync.WaitGroup).Done":  inNop,
		"(*sync.WaitGroup).Wait":  inNop,
		"(*sync.Pool).Get": func(ex *Exec, fr *frame, fn *ssa.Function, a []value) value {
			p := a[0].(*value)
			st := (*p).(structure)
			newf := st[len(st)-1] // New func() any
			if isNil(newf) {
				return iface{}
			}
			return ex.call(fr, fn.Pos(), newf, nil)
		},
		"(*sync.Pool).Put": inNop,

		// --- sync/atomic ---
		"sync/atomic.AddInt32":   inAtomicAdd,
		"sync/atomic.AddInt64":   inAtomicAdd,
		"sync/atomic.AddUint32":  inAtomicAdd,
		"sync/atomic.AddUint64":  inAtomicAdd,
		"sync/atomic.AddUintptr": inAtomicAdd,
		"sync/atomic.LoadInt32":  inAtomicLoad, "sync/atomic.LoadInt64": inAtomicLoad,
		"sync/atomic.LoadUint32": inAtomicLoad, "sync/atomic.LoadUint64": inAtomicLoad,
		"sync/atomic.LoadUintptr": inAtomicLoad, "sync/atomic.LoadPointer": inAtomicLoad,
		"sync/atomic.StoreInt32": inAtomicStore, "sync/atomic.StoreInt64": inAtomicStore,
		"sync/atomic.StoreUint32": inAtomicStore, "sync/atomic.StoreUint64": inAtomicStore,
		"sync/atomic.StoreUintptr": inAtomicStore, "sync/atomic.StorePointer": inAtomicStore,
		"sync/atomic.SwapInt32": inAtomicSwap, "sync/atomic.SwapInt64": inAtomicSwap,
		"sync/atomic.SwapUint32": inAtomicSwap, "sync/atomic.SwapUint64": inAtomicSwap,
		"sync/atomic.CompareAndSwapInt32": inAtomicCAS, "sync/atomic.CompareAndSwapInt64": inAtomicCAS,
		"sync/atomic.CompareAndSwapUint32": inAtomicCAS, "sync/atomic.CompareAndSwapUint64": inAtomicCAS,
		"sync/atomic.CompareAndSwapUintptr": inAtomicCAS,

		// --- runtime ---
		"runtime.KeepAlive":    inNop,
		"runtime.SetFinalizer": inNop,
		"runtime.Gosched":      inNop,
		"runtime.GC":           inNop,
		"internal/race.Enable":  inNop, "internal/race.Disable": inNop,
		"internal/race.Acquire": inNop, "internal/race.Release": inNop,
		"internal/race.ReleaseMerge": inNop, "internal/race.Read": inNop, "internal/race.Write": inNop,
		"internal/race.ReadRange": inNop, "internal/race.WriteRange": inNop,
		"internal/abi.NoEscape":  func(ex *Exec, fr *frame, fn *ssa.Function, a []value) value { return a[0] },
		"internal/abi.Escape":    func(ex *Exec, fr *frame, fn *ssa.Function, a []value) value { return a[0] },

		"time.runtimeNano": func(ex *Exec, fr *frame, fn *ssa.Function, a []value) value { return ex.tt.Const(64, 1) },
		"runtime.nanotime":  func(ex *Exec, fr *frame, fn *ssa.Function, a []value) value { return ex.tt.Const(64, 1) },
		"time.runtimeNow": func(ex *Exec, fr *frame, fn *ssa.Function, a []value) value {
			return tuple{ex.tt.Const(64, 1700000000), ex.tt.Const(32, 0), ex.tt.Const(64, 1)}
		},
		"time.now": func(ex *Exec, fr *frame, fn *ssa.Function, a []value) value {
			return tuple{ex.tt.Const(64, 1700000000), ex.tt.Const(32, 0), ex.tt.Const(64, 1)}
		},

		// --- sort ---
		"sort.Slice":       inSortSlice,
		"sort.SliceStable": inSortSlice,

		// --- math/bits fast paths are plain Go ---
	}
}

func inNop(ex *Exec, fr *frame, fn *ssa.Function, a []value) value {
	return ex.zeroResults(fn)
}

func inNopWrite(ex *Exec, fr *frame, fn *ssa.Function, a []value) value {
	return tuple{ex.tt.Const(64, 0), iface{}}
}

// asStr views a string or []byte argument as str.
func asStr(v value) str {
	switch v := v.(type) {
	case str:
		return v
	case []value:
		return bytesToStr(v)
	}
	panic(engineError{fmt.Sprintf("asStr: %T", v)})
}

func inIndexByte(ex *Exec, fr *frame, fn *ssa.Function, a []value) value {
	tt := ex.tt
	s := asStr(a[0])
	c := a[1].(*Term)
	r := tt.Const(64, ^uint64(0))
	for i := len(s) - 1; i >= 0; i-- {
		r = tt.Ite(tt.Eq(s[i], c), tt.Const(64, uint64(i)), r)
	}
	return r
}

func inLastIndexByte(ex *Exec, fr *frame, fn *ssa.Function, a []value) value {
	tt := ex.tt
	s := asStr(a[0])
	c := a[1].(*Term)
	r := tt.Const(64, ^uint64(0))
	for i := 0; i < len(s); i++ {
		r = tt.Ite(tt.Eq(s[i], c), tt.Const(64, uint64(i)), r)
	}
	return r
}

func inIndex(ex *Exec, fr *frame, fn *ssa.Function, a []value) value {
	tt := ex.tt
	s, sep := asStr(a[0]), asStr(a[1])
	r := tt.Const(64, ^uint64(0))
	for i := len(s) - len(sep); i >= 0; i-- {
		r = tt.Ite(ex.strEq(s[i:i+len(sep)], sep), tt.Const(64, uint64(i)), r)
	}
	return r
}

func inCountByte(ex *Exec, fr *frame, fn *ssa.Function, a []value) value {
	tt := ex.tt
	s := asStr(a[0])
	c := a[1].(*Term)
	r := tt.Const(64, 0)
	for i := range s {
		r = tt.Add(r, tt.Ite(tt.Eq(s[i], c), tt.Const(64, 1), tt.Const(64, 0)))
	}
	return r
}

func inCompare(ex *Exec, fr *frame, fn *ssa.Function, a []value) value {
	tt := ex.tt
	x, y := asStr(a[0]), asStr(a[1])
	return tt.Ite(ex.strEq(x, y), tt.Const(64, 0), tt.Ite(ex.strLess(x, y), tt.Const(64, ^uint64(0)), tt.Const(64, 1)))
}

func inEqual(ex *Exec, fr *frame, fn *ssa.Function, a []value) value {
	return ex.strEq(asStr(a[0]), asStr(a[1]))
}

func inMakeNoZero(ex *Exec, fr *frame, fn *ssa.Function, a []value) value {
	n := int(ex.concretize(a[0].(*Term), "MakeNoZero"))
	s := make([]value, n)
	for i := range s {
		s[i] = ex.tt.Byte(0)
	}
	return s
}

// ---------- sync ----------

// mutexState finds the first integer field to use as a held flag.
func mutexCell(ex *Exec, p *value) *value {
	if p == nil {
		ex.nilDeref()
	}
	for {
		st, ok := (*p).(structure)
		if !ok {
			return p
		}
		p = &st[0]
	}
}

func inMutexLock(ex *Exec, fr *frame, fn *ssa.Function, a []value) value {
	c := mutexCell(ex, a[0].(*value))
	if ex.sched != nil {
		ex.schedLock(c)
		return nil
	}
	if t := (*c).(*Term); !t.IsConst() || t.C != 0 {
		ex.blocked("sync.Mutex.Lock on a mutex that is already held (self-deadlock in sequential mode)")
	}
	*c = ex.tt.Const((*c).(*Term).W, 1)
	return nil
}

func inMutexTryLock(ex *Exec, fr *frame, fn *ssa.Function, a []value) value {
	c := mutexCell(ex, a[0].(*value))
	if t := (*c).(*Term); t.C != 0 {
		return ex.tt.False
	}
	*c = ex.tt.Const((*c).(*Term).W, 1)
	return ex.tt.True
}

func inMutexUnlock(ex *Exec, fr *frame, fn *ssa.Function, a []value) value {
	c := mutexCell(ex, a[0].(*value))
	if t := (*c).(*Term); t.C == 0 {
		panic(targetPanic{ex.runtimeError("sync: unlock of unlocked mutex")})
	}
	*c = ex.tt.Const((*c).(*Term).W, 0)
	if ex.sched != nil {
		ex.schedUnlocked(c)
	}
	return nil
}

// RWMutex read side: the held flag counts readers from 2 upward (1 = writer).
func inRLock(ex *Exec, fr *frame, fn *ssa.Function, a []value) value {
	c := mutexCell(ex, a[0].(*value))
	t := (*c).(*Term)
	if t.C == 1 {
		if ex.sched != nil {
			ex.schedLock(c) // simplification: treat as exclusive while a writer holds it
			return nil
		}
		ex.blocked("sync.RWMutex.RLock while write-locked (sequential mode)")
	}
	if t.C == 0 {
		*c = ex.tt.Const(t.W, 2)
	} else {
		*c = ex.tt.Const(t.W, t.C+1)
	}
	return nil
}

func inRUnlock(ex *Exec, fr *frame, fn *ssa.Function, a []value) value {
	c := mutexCell(ex, a[0].(*value))
	t := (*c).(*Term)
	if t.C < 2 {
		panic(targetPanic{ex.runtimeError("sync: RUnlock of unlocked RWMutex")})
	}
	if t.C == 2 {
		*c = ex.tt.Const(t.W, 0)
		if ex.sched != nil {
			ex.schedUnlocked(c)
		}
	} else {
		*c = ex.tt.Const(t.W, t.C-1)
	}
	return nil
}

func inOnceDo(ex *Exec, fr *frame, fn *ssa.Function, a []value) value {
	p := a[0].(*value)
	if p == nil {
		ex.nilDeref()
	}
	// use a side table keyed by the Once's address
	if ex.onceDone == nil {
		ex.onceDone = make(map[*value]bool)
	}
	if ex.onceDone[p] {
		return nil
	}
	ex.onceDone[p] = true
	ex.call(fr, fn.Pos(), a[1], nil)
	return nil
}

// ---------- atomics ----------

func inAtomicAdd(ex *Exec, fr *frame, fn *ssa.Function, a []value) value {
	p := a[0].(*value)
	if p == nil {
		ex.nilDeref()
	}
	n := ex.tt.Add((*p).(*Term), a[1].(*Term))
	*p = n
	return n
}
func inAtomicLoad(ex *Exec, fr *frame, fn *ssa.Function, a []value) value {
	p := a[0].(*value)
	if p == nil {
		ex.nilDeref()
	}
	return *p
}
func inAtomicStore(ex *Exec, fr *frame, fn *ssa.Function, a []value) value {
	p := a[0].(*value)
	if p == nil {
		ex.nilDeref()
	}
	*p = a[1]
	return nil
}
func inAtomicSwap(ex *Exec, fr *frame, fn *ssa.Function, a []value) value {
	p := a[0].(*value)
	if p == nil {
		ex.nilDeref()
	}
	old := *p
	*p = a[1]
	return old
}
func inAtomicCAS(ex *Exec, fr *frame, fn *ssa.Function, a []value) value {
	p := a[0].(*value)
	if p == nil {
		ex.nilDeref()
	}
	eq := ex.tt.Eq((*p).(*Term), a[1].(*Term))
	if ex.decideBool(eq, "cas") {
		*p = a[2]
		return ex.tt.True
	}
	return ex.tt.False
}

// ---------- sort.Slice ----------

func inSortSlice(ex *Exec, fr *frame, fn *ssa.Function, a []value) value {
	s, ok := a[0].(iface).v.([]value)
	if !ok {
		panic(engineError{"sort.Slice on non-slice"})
	}
	less := a[1]
	// insertion sort; swaps move element values, as reflect.Swapper does.
	for i := 1; i < len(s); i++ {
		for j := i; j > 0; j-- {
			r := ex.call(fr, fn.Pos(), less, []value{ex.tt.Const(64, uint64(j)), ex.tt.Const(64, uint64(j-1))}).(*Term)
			if !ex.decideBool(r, "sort.less") {
				break
			}
			tmp := copyVal(s[j])
			store(&s[j], s[j-1])
			store(&s[j-1], tmp)
		}
	}
	return nil
}

// ---------- errors ----------

// unwrapOnce calls err.Unwrap() error if present.
func (ex *Exec) unwrapErr(fr *frame, e iface) (iface, []iface, bool) {
	if e.t == nil {
		return iface{}, nil, false
	}
	ms := ex.prog.MethodSets.MethodSet(e.t)
	sel := ms.Lookup(nil, "Unwrap")
	if sel == nil {
		return iface{}, nil, false
	}
	f := ex.prog.MethodValue(sel)
	if f == nil {
		return iface{}, nil, false
	}
	res := f.Signature.Results()
	if res.Len() != 1 {
		return iface{}, nil, false
	}
	out := ex.call(fr, f.Pos(), f, []value{e.v})
	switch o := out.(type) {
	case iface:
		return o, nil, true
	case []value: // Unwrap() []error
		var list []iface
		for _, x := range o {
			list = append(list, x.(iface))
		}
		return iface{}, list, true
	}
	return iface{}, nil, false
}

func (ex *Exec) errIs(fr *frame, err, target iface) *Term {
	tt := ex.tt
	for err.t != nil {
		if types.Comparable(target.t) || target.t == nil {
			if sameType(err.t, target.t) {
				eq := ex.equals(err.t, err.v, target.v)
				if ex.decideBool(eq, "errors.Is") {
					return tt.True
				}
			}
		}
		// Is method
		ms := ex.prog.MethodSets.MethodSet(err.t)
		if sel := ms.Lookup(nil, "Is"); sel != nil {
			if f := ex.prog.MethodValue(sel); f != nil && f.Signature.Params().Len() == 1 && f.Signature.Results().Len() == 1 {
				if r, ok := ex.call(fr, f.Pos(), f, []value{err.v, target}).(*Term); ok && r.W == 0 {
					if ex.decideBool(r, "errors.Is method") {
						return tt.True
					}
				}
			}
		}
		next, list, ok := ex.unwrapErr(fr, err)
		if !ok {
			return tt.False
		}
		if list != nil {
			for _, e := range list {
				if ex.errIs(fr, e, target).IsTrue() {
					return tt.True
				}
			}
			return tt.False
		}
		err = next
	}
	return tt.False
}

func inErrorsIs(ex *Exec, fr *frame, fn *ssa.Function, a []value) value {
	err, target := a[0].(iface), a[1].(iface)
	if err.t == nil || target.t == nil {
		return ex.tt.Bool(err.t == nil && target.t == nil)
	}
	return ex.errIs(fr, err, target)
}

func inErrorsAs(ex *Exec, fr *frame, fn *ssa.Function, a []value) value {
	err, target := a[0].(iface), a[1].(iface)
	if target.t == nil {
		panic(targetPanic{ex.mkErrorString("errors: target cannot be nil")})
	}
	pt, ok := target.t.Underlying().(*types.Pointer)
	if !ok {
		panic(targetPanic{ex.mkErrorString("errors: target must be a non-nil pointer")})
	}
	dst := target.v.(*value)
	et := pt.Elem()
	for err.t != nil {
		if it, isIface := et.Underlying().(*types.Interface); isIface {
			if types.Implements(err.t, it) {
				*dst = err
				return ex.tt.True
			}
		} else if sameType(err.t, et) {
			store(dst, err.v)
			return ex.tt.True
		}
		next, list, ok := ex.unwrapErr(fr, err)
		if !ok {
			return ex.tt.False
		}
		if list != nil {
			for _, e := range list {
				if inErrorsAs(ex, fr, fn, []value{e, target}).(*Term).IsTrue() {
					return ex.tt.True
				}
			}
			return ex.tt.False
		}
		err = next
	}
	return ex.tt.False
}

// mkErrorString builds an *errors.errorString value as an error interface.
func (ex *Exec) mkErrorString(msg string) iface {
	return ex.mkErrorStr(ex.mkStr(msg))
}

func (ex *Exec) mkErrorStr(msg str) iface {
	if ex.errorStringType == nil {
		panic(engineError{"package errors not loaded"})
	}
	var cell value = structure{msg}
	return iface{t: types.NewPointer(ex.errorStringType), v: &cell}
}

// ---------- fmt ----------

// formatValue renders v for %v/%s/%d; symbolic bytes of strings are spliced.
func (ex *Exec) formatValue(fr *frame, verb byte, v value, out str) str {
	tt := ex.tt
	switch x := v.(type) {
	case iface:
		if x.t == nil {
			return append(out, ex.mkStr("<nil>")...)
		}
		if verb != 'd' && verb != 'x' && verb != 'c' && verb != 'q' || true {
			// error / Stringer
			ms := ex.prog.MethodSets.MethodSet(x.t)
			for _, mname := range []string{"Error", "String"} {
				if verb == 'd' || verb == 'x' || verb == 'c' || verb == 't' {
					break
				}
				if sel := ms.Lookup(nil, mname); sel != nil {
					if f := ex.prog.MethodValue(sel); f != nil && f.Signature.Params().Len() == 0 && f.Signature.Results().Len() == 1 && isString(f.Signature.Results().At(0).Type()) {
						if p, isPtr := x.v.(*value); isPtr && p == nil {
							return append(out, ex.mkStr("<nil>")...)
						}
						s := ex.call(fr, f.Pos(), f, []value{x.v}).(str)
						if verb == 'q' {
							return ex.quoteStr(s, out)
						}
						return append(out, s...)
					}
				}
			}
		}
		return ex.formatTyped(fr, verb, x.t, x.v, out)
	}
	_ = tt
	return append(out, ex.mkStr(fmt.Sprintf("%%!%c(%T)", verb, v))...)
}

func (ex *Exec) quoteStr(s str, out str) str {
	if cs, ok := s.concrete(); ok {
		return append(out, ex.mkStr(strconv.Quote(cs))...)
	}
	// symbolic content: quote marks around raw bytes (escaping not modelled)
	out = append(out, ex.tt.Byte('"'))
	out = append(out, s...)
	return append(out, ex.tt.Byte('"'))
}

func (ex *Exec) formatTyped(fr *frame, verb byte, t types.Type, v value, out str) str {
	switch x := v.(type) {
	case str:
		if verb == 'q' {
			return ex.quoteStr(x, out)
		}
		return append(out, x...)
	case *Term:
		if x.W == 0 {
			b := ex.decideBool(x, "fmt bool")
			return append(out, ex.mkStr(strconv.FormatBool(b))...)
		}
		_, signed, _ := intInfo(t)
		c := ex.concretize(x, "fmt integer")
		switch verb {
		case 'c':
			return append(out, ex.mkStr(string(rune(c)))...)
		case 'x':
			return append(out, ex.mkStr(strconv.FormatUint(c, 16))...)
		case 'o':
			return append(out, ex.mkStr(strconv.FormatUint(c, 8))...)
		case 'q':
			return append(out, ex.mkStr(strconv.QuoteRune(rune(c)))...)
		}
		if signed {
			return append(out, ex.mkStr(strconv.FormatInt(sext64(c, x.W), 10))...)
		}
		return append(out, ex.mkStr(strconv.FormatUint(c, 10))...)
	case float64:
		return append(out, ex.mkStr(strconv.FormatFloat(x, 'g', -1, 64))...)
	case []value:
		if sl, ok := t.Underlying().(*types.Slice); ok {
			if b, ok := sl.Elem().Underlying().(*types.Basic); ok && b.Kind() == types.Uint8 && (verb == 's' || verb == 'q') {
				return append(out, bytesToStr(x)...)
			}
			out = append(out, ex.tt.Byte('['))
			for i, e := range x {
				if i > 0 {
					out = append(out, ex.tt.Byte(' '))
				}
				out = ex.formatAny(fr, verb, sl.Elem(), e, out)
			}
			return append(out, ex.tt.Byte(']'))
		}
	case *value:
		if x == nil {
			return append(out, ex.mkStr("<nil>")...)
		}
		return append(out, ex.mkStr("0xc000000000")...)
	case structure:
		st := t.Underlying().(*types.Struct)
		out = append(out, ex.tt.Byte('{'))
		for i, e := range x {
			if i > 0 {
				out = append(out, ex.tt.Byte(' '))
			}
			out = ex.formatAny(fr, verb, st.Field(i).Type(), e, out)
		}
		return append(out, ex.tt.Byte('}'))
	}
	return append(out, ex.mkStr(fmt.Sprintf("%%!%c(%s)", verb, t))...)
}

func (ex *Exec) formatAny(fr *frame, verb byte, t types.Type, v value, out str) str {
	if i, ok := v.(iface); ok {
		return ex.formatValue(fr, verb, i, out)
	}
	return ex.formatValue(fr, verb, iface{t, v}, out)
}

// sprintf implements a subset of fmt verbs: %s %v %d %q %c %x %t %w %+v %T %%
// with optional flags/width ignored except for %0Nd and %Nd padding.
func (ex *Exec) sprintf(fr *frame, format str, args []value) (str, []iface) {
	f, ok := format.concrete()
	if !ok {
		panic(engineError{"symbolic format string"})
	}
	var out str
	var wrapped []iface
	ai := 0
	for i := 0; i < len(f); i++ {
		c := f[i]
		if c != '%' {
			out = append(out, ex.tt.Byte(c))
			continue
		}
		i++
		if i >= len(f) {
			out = append(out, ex.mkStr("%!(NOVERB)")...)
			break
		}
		// flags and width
		zero := false
		width := 0
		for i < len(f) && (f[i] == '+' || f[i] == '#' || f[i] == '-' || f[i] == ' ' || f[i] == '0') {
			if f[i] == '0' {
				zero = true
			}
			i++
		}
		for i < len(f) && f[i] >= '0' && f[i] <= '9' {
			width = width*10 + int(f[i]-'0')
			i++
		}
		if i < len(f) && f[i] == '.' {
			i++
			for i < len(f) && f[i] >= '0' && f[i] <= '9' {
				i++
			}
		}
		if i >= len(f) {
			break
		}
		verb := f[i]
		if verb == '%' {
			out = append(out, ex.tt.Byte('%'))
			continue
		}
		if ai >= len(args) {
			out = append(out, ex.mkStr("%!"+string(verb)+"(MISSING)")...)
			continue
		}
		arg := args[ai].(iface)
		ai++
		var piece str
		switch verb {
		case 'T':
			if arg.t == nil {
				piece = ex.mkStr("<nil>")
			} else {
				piece = ex.mkStr(arg.t.String())
			}
		case 'w':
			if arg.t != nil {
				wrapped = append(wrapped, arg)
			}
			piece = ex.formatValue(fr, 'v', arg, nil)
		default:
			piece = ex.formatValue(fr, verb, arg, nil)
		}
		for pad := width - len(piece); pad > 0; pad-- {
			if zero {
				out = append(out, ex.tt.Byte('0'))
			} else {
				out = append(out, ex.tt.Byte(' '))
			}
		}
		out = append(out, piece...)
	}
	if ai < len(args) {
		out = append(out, ex.mkStr("%!(EXTRA)")...)
	}
	return out, wrapped
}

func inSprintf(ex *Exec, fr *frame, fn *ssa.Function, a []value) value {
	s, _ := ex.sprintf(fr, a[0].(str), a[1].([]value))
	return s
}

func inSprint(ex *Exec, fr *frame, fn *ssa.Function, a []value) value {
	var out str
	args := a[0].([]value)
	for i, x := range args {
		if i > 0 {
			// Sprint adds spaces between operands when neither is a string
			_, s1 := args[i-1].(iface).v.(str)
			_, s2 := x.(iface).v.(str)
			if !s1 && !s2 {
				out = append(out, ex.tt.Byte(' '))
			}
		}
		out = ex.formatValue(fr, 'v', x, out)
	}
	return out
}

func inErrorf(ex *Exec, fr *frame, fn *ssa.Function, a []value) value {
	msg, wrapped := ex.sprintf(fr, a[0].(str), a[1].([]value))
	fmtPkg := ex.prog.ImportedPackage("fmt")
	if len(wrapped) == 1 && fmtPkg != nil {
		wt := fmtPkg.Type("wrapError").Object().Type()
		var cell value = structure{msg, wrapped[0]}
		return iface{t: types.NewPointer(wt), v: &cell}
	}
	if len(wrapped) > 1 && fmtPkg != nil {
		wt := fmtPkg.Type("wrapErrors").Object().Type()
		errs := make([]value, len(wrapped))
		for i, w := range wrapped {
			errs[i] = w
		}
		var cell value = structure{msg, errs}
		return iface{t: types.NewPointer(wt), v: &cell}
	}
	return ex.mkErrorStr(msg)
}

var _ = strings.Contains

package sx

import (
	"golang.org/x/tools/go/ssa"
)

// Intrinsics needed by the C22 pipeline harnesses: the little-endian
// load/store helpers of github.com/klauspost/compress/internal/le (used by
// the DEFLATE encoder once it emits coded blocks) are implemented with
// unsafe.Add / unsafe.SliceData on the platforms we load for.  They are
// replaced by their documented meaning (binary.LittleEndian on b[i:]), with
// the difference that - like the unsafe originals - they may touch bytes
// between len(b) and cap(b).
func init() {
	const pkg = "github.com/klauspost/compress/internal/le."
	load := func(n int) func(ex *Exec, fr *frame, fn *ssa.Function, a []value) value {
		return func(ex *Exec, fr *frame, fn *ssa.Function, a []value) value {
			b := leBytes(ex, a[0], a[1], n)
			r := b[n-1].(*Term)
			for k := n - 2; k >= 0; k-- {
				r = ex.tt.Concat(r, b[k].(*Term))
			}
			return r
		}
	}
	store := func(n int, indexed bool) func(ex *Exec, fr *frame, fn *ssa.Function, a []value) value {
		return func(ex *Exec, fr *frame, fn *ssa.Function, a []value) value {
			var idx value
			v := a[1]
			if indexed {
				idx, v = a[1], a[2]
			}
			b := leBytes(ex, a[0], idx, n)
			t := v.(*Term)
			for k := 0; k < n; k++ {
				b[k] = ex.tt.Extract(t, uint8(8*k+7), uint8(8*k))
			}
			return nil
		}
	}
	intrinsics[pkg+"Load8"] = load(1)
	intrinsics[pkg+"Load16"] = load(2)
	intrinsics[pkg+"Load32"] = load(4)
	intrinsics[pkg+"Load64"] = load(8)
	intrinsics[pkg+"Store16"] = store(2, false)
	intrinsics[pkg+"Store32"] = store(4, false)
	intrinsics[pkg+"Store64"] = store(8, true)
}

// leBytes returns the n cells of slice b starting at index idx (nil: 0).
func leBytes(ex *Exec, b value, idx value, n int) []value {
	s, ok := b.([]value)
	if !ok {
		panic(engineError{"le load/store: unsupported slice representation"})
	}
	i := 0
	if idx != nil {
		t, ok := idx.(*Term)
		if !ok {
			panic(engineError{"le load/store: unsupported index representation"})
		}
		i = int(int64(ex.concretize(t, "le index")))
	}
	s = s[:cap(s)]
	if i < 0 || i+n > len(s) {
		panic(engineError{"le load/store outside the slice's backing array"})
	}
	return s[i : i+n]
}

package sx

import (
	"go/types"
)

// omap is an insertion-ordered map.  Lookups with concrete keys that are
// syntactically identical to a stored key resolve without the solver;
// otherwise key equality terms are decided (forking) by the executor.
type omap struct {
	keyType types.Type
	keys    []value
	vals    []value
	live    []bool
	n       int
}

func newOmap(kt types.Type) *omap { return &omap{keyType: kt} }

func (m *omap) length() int {
	if m == nil {
		return 0
	}
	return m.n
}

// find returns the index of key k or -1; may fork on symbolic equality.
func (ex *Exec) mapFind(m *omap, k value) int {
	if m == nil {
		return -1
	}
	// First pass: syntactic identity (sound: equal terms are equal values).
	var undecided []int
	for i := range m.keys {
		if !m.live[i] {
			continue
		}
		eq := ex.equals(m.keyType, m.keys[i], k)
		if eq.IsTrue() {
			return i
		}
		if !eq.IsFalse() {
			undecided = append(undecided, i)
		}
	}
	for _, i := range undecided {
		eq := ex.equals(m.keyType, m.keys[i], k)
		if ex.decideBool(eq, "mapkey") {
			return i
		}
	}
	return -1
}

func (ex *Exec) mapLookup(m *omap, k value) (value, bool) {
	i := ex.mapFind(m, k)
	if i < 0 {
		return nil, false
	}
	return m.vals[i], true
}

func (ex *Exec) mapInsert(m *omap, k, v value) {
	if m == nil {
		panic(targetPanic{ex.runtimeError("assignment to entry in nil map")})
	}
	if i := ex.mapFind(m, k); i >= 0 {
		m.vals[i] = v
		return
	}
	m.keys = append(m.keys, k)
	m.vals = append(m.vals, v)
	m.live = append(m.live, true)
	m.n++
}

func (ex *Exec) mapDelete(m *omap, k value) {
	if i := ex.mapFind(m, k); i >= 0 {
		m.live[i] = false
		m.keys[i] = nil
		m.vals[i] = nil
		m.n--
	}
}

func (m *omap) clear() {
	if m == nil {
		return
	}
	m.keys, m.vals, m.live, m.n = nil, nil, nil, 0
}

// mapIter iterates in insertion order (or reverse, per executor setting)
// over the entries present when each step is taken.
type mapIter struct {
	m   *omap
	pos int
	rev bool
}

func (it *mapIter) next(ex *Exec) tuple {
	m := it.m
	if m != nil {
		if it.rev {
			// reverse canonical order: walk from the end of the snapshot
			for it.pos < len(m.keys) {
				i := len(m.keys) - 1 - it.pos
				it.pos++
				if i >= 0 && m.live[i] {
					return tuple{ex.tt.True, m.keys[i], copyVal(m.vals[i])}
				}
			}
		} else {
			for it.pos < len(m.keys) {
				i := it.pos
				it.pos++
				if m.live[i] {
					return tuple{ex.tt.True, m.keys[i], copyVal(m.vals[i])}
				}
			}
		}
	}
	return tuple{ex.tt.False, nil, nil}
}

package sx

import (
	"fmt"
	"go/token"
	"go/types"

	"golang.org/x/tools/go/ssa"
)

// chanObj is a channel.  In sequential mode (one goroutine) an unbuffered
// channel can never complete a rendezvous, so operations on it block forever
// unless a select offers an alternative.  In scheduled mode (see sched.go)
// blocked goroutines are parked on the channel.
type chanObj struct {
	id     int
	buf    []value
	cap    int
	closed bool
	elem   types.Type
	// scheduled mode: parked receivers/senders (unbuffered rendezvous)
	recvq []*waiter
	sendq []*waiter
}

type waiter struct {
	g     *goroutine
	c     *chanObj
	send  bool
	val   value // value to send
	sel   *selectWait
	index int
}

type selectWait struct {
	fired      bool
	chosen     int
	val        value
	ok         bool
	closedSend bool
	waiters    []*waiter
}

func (ex *Exec) newChan(n int, elem types.Type) *chanObj {
	ex.nextObjID++
	return &chanObj{id: ex.nextObjID, cap: n, elem: elem}
}

func (ex *Exec) blocked(what string) {
	if ex.sched != nil {
		panic(engineError{"blocked() called in scheduled mode"})
	}
	panic(pathEnd{PathBlocked, what})
}

// canSend / canRecv report readiness without side effects.
func (ex *Exec) canSend(c *chanObj) bool {
	if c == nil {
		return false
	}
	if c.closed {
		return true // will panic
	}
	if len(c.buf) < c.cap {
		return true
	}
	return ex.sched != nil && ex.hasParkedRecv(c)
}

func (ex *Exec) canRecv(c *chanObj) bool {
	if c == nil {
		return false
	}
	if len(c.buf) > 0 || c.closed {
		return true
	}
	return ex.sched != nil && ex.hasParkedSend(c)
}

func (ex *Exec) chanSend(c *chanObj, v value) {
	if ex.sched != nil {
		ex.schedSend(c, v)
		return
	}
	if c == nil {
		ex.blocked("send on nil channel")
	}
	if c.closed {
		panic(targetPanic{ex.runtimeError("send on closed channel")})
	}
	if len(c.buf) < c.cap {
		c.buf = append(c.buf, v)
		return
	}
	ex.blocked(fmt.Sprintf("send on full channel (cap %d) with no other goroutine", c.cap))
}

func (ex *Exec) chanRecv(c *chanObj) (value, bool) {
	if ex.sched != nil {
		return ex.schedRecv(c)
	}
	if c == nil {
		ex.blocked("receive from nil channel")
	}
	if len(c.buf) > 0 {
		v := c.buf[0]
		c.buf = c.buf[1:]
		return v, true
	}
	if c.closed {
		return ex.zero(c.elem), false
	}
	ex.blocked("receive from empty channel with no other goroutine")
	return nil, false
}

func (ex *Exec) chanClose(c *chanObj) {
	if ex.sched != nil {
		ex.sched.point("channel close")
	}
	if c == nil {
		panic(targetPanic{ex.runtimeError("close of nil channel")})
	}
	if c.closed {
		panic(targetPanic{ex.runtimeError("close of closed channel")})
	}
	c.closed = true
	if ex.sched != nil {
		ex.schedWakeAll(c)
	}
}

// selectStmt implements select: among ready cases one is chosen
// nondeterministically (a fork when several are ready).
func (ex *Exec) selectStmt(fr *frame, instr *ssa.Select) value {
	tt := ex.tt
	type sc struct {
		c    *chanObj
		send value
		dir  types.ChanDir
	}
	cases := make([]sc, len(instr.States))
	for i, st := range instr.States {
		cases[i].c = fr.get(st.Chan).(*chanObj)
		cases[i].dir = st.Dir
		if st.Send != nil {
			cases[i].send = copyVal(fr.get(st.Send))
		}
	}
	if ex.sched != nil {
		pcs := make([]parkCase, len(cases))
		for i, c := range cases {
			pcs[i] = parkCase{c.c, c.dir == types.SendOnly, c.send}
		}
		chosen, recvVal, recvOk := ex.schedSelect(pcs, instr.Blocking)
		r := tuple{tt.Const(64, uint64(int64(chosen))), tt.Bool(recvOk)}
		for i, st := range instr.States {
			if st.Dir == types.RecvOnly {
				if i == chosen {
					r = append(r, recvVal)
				} else {
					r = append(r, ex.zero(st.Chan.Type().Underlying().(*types.Chan).Elem()))
				}
			}
		}
		return r
	}
	for {
		var ready []int
		for i, c := range cases {
			if c.dir == types.SendOnly {
				if ex.canSend(c.c) {
					ready = append(ready, i)
				}
			} else if ex.canRecv(c.c) {
				ready = append(ready, i)
			}
		}
		chosen := -1
		switch {
		case len(ready) == 1:
			chosen = ready[0]
		case len(ready) > 1:
			chosen = ready[ex.chooseN(len(ready), "select")]
		case !instr.Blocking:
			chosen = -1
		default:
			if ex.sched != nil {
				chans := make([]*chanObj, len(cases))
				for i := range cases {
					chans[i] = cases[i].c
				}
				ex.schedBlockOn(chans, "select")
				continue
			}
			ex.blocked("select with no ready case and no default")
		}
		r := tuple{tt.Const(64, uint64(int64(chosen))), tt.False}
		var recvVal value
		recvOk := false
		if chosen >= 0 {
			c := cases[chosen]
			if c.dir == types.SendOnly {
				ex.chanSend(c.c, c.send)
			} else {
				recvVal, recvOk = ex.chanRecv(c.c)
			}
		}
		r[1] = tt.Bool(recvOk)
		for i, st := range instr.States {
			if st.Dir == types.RecvOnly {
				if i == chosen {
					r = append(r, recvVal)
				} else {
					r = append(r, ex.zero(st.Chan.Type().Underlying().(*types.Chan).Elem()))
				}
			}
		}
		return r
	}
}

// spawn handles the go statement.
func (ex *Exec) spawn(fn value, args []value, pos token.Pos) {
	if ex.sched != nil {
		ex.schedSpawn(fn, args, pos)
		return
	}
	switch ex.goMode {
	case "sched":
		panic(engineError{"scheduler not initialised"})
	case "inline":
		// run the goroutine to completion at the spawn point (one schedule)
		func() {
			defer func() {
				if r := recover(); r != nil {
					if pe, ok := r.(pathEnd); ok && pe.status == PathBlocked {
						// the spawned goroutine parked forever: drop it
						return
					}
					panic(r)
				}
			}()
			ex.call(nil, pos, fn, args)
		}()
	case "drop":
		// goroutine never scheduled (stated in evidence)
	default:
		panic(engineError{"go statement at " + ex.prog.Fset.Position(pos).String() + " in sequential mode (set go_mode)"})
	}
}

package sx

import (
	"fmt"
	"go/types"
	"strings"

	"golang.org/x/tools/go/ssa"
)

// value is the boxed representation of a Go value in the executor:
//
//   *Term                  integers (bit-vectors, Go wrap-around) and booleans
//   float32/float64/complex128  concrete only
//   str                    string: concrete length, per-byte terms
//   []value                slice (shares backing array like Go)
//   array, structure       aggregates (value semantics: copied on load/store)
//   *value                 pointer (to a cell or to an element of an aggregate)
//   *omap                  map (insertion ordered)
//   *chanObj               channel
//   iface                  interface value
//   *ssa.Function, *closure, *ssa.Builtin   functions
//   tuple                  multi-value
//   iter                   range iterator
//   uptr                   unsafe.Pointer wrapping a *value
type value interface{}

type tuple []value
type array []value
type structure []value
type str []*Term

type iface struct {
	t types.Type
	v value
}

type closure struct {
	Fn  *ssa.Function
	Env []value
}

type uptr struct{ p *value }

type iter interface {
	next(ex *Exec) tuple
}

type bad struct{}

// typeKey canonicalises types for identity comparison.
func sameType(x, y types.Type) bool {
	if x == nil || y == nil {
		return x == y
	}
	return x == y || types.Identical(x, y)
}

// intInfo reports width/signedness of an integer (or bool: w=0) type.
func intInfo(t types.Type) (w uint8, signed bool, ok bool) {
	b, isb := t.Underlying().(*types.Basic)
	if !isb {
		return 0, false, false
	}
	switch b.Kind() {
	case types.Bool, types.UntypedBool:
		return 0, false, true
	case types.Int, types.Int64, types.UntypedInt:
		return 64, true, true
	case types.Int8:
		return 8, true, true
	case types.Int16:
		return 16, true, true
	case types.Int32, types.UntypedRune:
		return 32, true, true
	case types.Uint, types.Uint64, types.Uintptr:
		return 64, false, true
	case types.Uint8:
		return 8, false, true
	case types.Uint16:
		return 16, false, true
	case types.Uint32:
		return 32, false, true
	}
	return 0, false, false
}

func isString(t types.Type) bool {
	b, ok := t.Underlying().(*types.Basic)
	return ok && b.Info()&types.IsString != 0
}

func isFloat(t types.Type) bool {
	b, ok := t.Underlying().(*types.Basic)
	return ok && b.Info()&(types.IsFloat|types.IsComplex) != 0
}

// zero returns the zero value of type t.
func (ex *Exec) zero(t types.Type) value {
	switch t := t.(type) {
	case *types.Basic:
		if t.Kind() == types.UntypedNil {
			panic(engineError{"untyped nil has no zero value"})
		}
		if w, _, ok := intInfo(t); ok {
			if w == 0 {
				return ex.tt.False
			}
			return ex.tt.Const(w, 0)
		}
		switch t.Kind() {
		case types.Float32:
			return float32(0)
		case types.Float64, types.UntypedFloat:
			return float64(0)
		case types.Complex64, types.Complex128, types.UntypedComplex:
			return complex128(0)
		case types.String, types.UntypedString:
			return str(nil)
		case types.UnsafePointer:
			return uptr{}
		}
	case *types.Pointer:
		return (*value)(nil)
	case *types.Array:
		a := make(array, t.Len())
		for i := range a {
			a[i] = ex.zero(t.Elem())
		}
		return a
	case *types.Named:
		return ex.zero(t.Underlying())
	case *types.Alias:
		return ex.zero(types.Unalias(t))
	case *types.Interface:
		return iface{}
	case *types.Slice:
		return []value(nil)
	case *types.Struct:
		s := make(structure, t.NumFields())
		for i := range s {
			s[i] = ex.zero(t.Field(i).Type())
		}
		return s
	case *types.Tuple:
		if t.Len() == 1 {
			return ex.zero(t.At(0).Type())
		}
		s := make(tuple, t.Len())
		for i := range s {
			s[i] = ex.zero(t.At(i).Type())
		}
		return s
	case *types.Chan:
		return (*chanObj)(nil)
	case *types.Map:
		return (*omap)(nil)
	case *types.Signature:
		return (*ssa.Function)(nil)
	}
	panic(engineError{fmt.Sprintf("zero: unexpected type %T %v", t, t)})
}

// copyVal copies aggregates so that the result shares no cells with v.
func copyVal(v value) value {
	switch v := v.(type) {
	case structure:
		a := make(structure, len(v))
		for i := range v {
			a[i] = copyVal(v[i])
		}
		return a
	case array:
		a := make(array, len(v))
		for i := range v {
			a[i] = copyVal(v[i])
		}
		return a
	}
	return v
}

func load(addr *value) value { return copyVal(*addr) }

// store writes v into *addr keeping the identity of nested aggregate cells
// (pointers to fields of *addr stay valid).
func store(addr *value, v value) {
	switch rhs := v.(type) {
	case structure:
		lhs, ok := (*addr).(structure)
		if !ok || len(lhs) != len(rhs) {
			*addr = copyVal(v)
			return
		}
		for i := range lhs {
			store(&lhs[i], rhs[i])
		}
	case array:
		lhs, ok := (*addr).(array)
		if !ok || len(lhs) != len(rhs) {
			*addr = copyVal(v)
			return
		}
		for i := range lhs {
			store(&lhs[i], rhs[i])
		}
	default:
		*addr = v
	}
}

// ---------- strings ----------

func (ex *Exec) mkStr(s string) str {
	if len(s) == 0 {
		return str(nil)
	}
	r := make(str, len(s))
	for i := 0; i < len(s); i++ {
		r[i] = ex.tt.bytes[s[i]]
	}
	return r
}

// concrete returns the Go string if all bytes are constant.
func (s str) concrete() (string, bool) {
	b := make([]byte, len(s))
	for i, t := range s {
		if !t.IsConst() {
			return "", false
		}
		b[i] = byte(t.C)
	}
	return string(b), true
}

func (s str) String() string {
	var sb strings.Builder
	sb.WriteByte('"')
	for _, t := range s {
		if t.IsConst() {
			c := byte(t.C)
			if c >= 0x20 && c < 0x7f && c != '"' && c != '\\' {
				sb.WriteByte(c)
			} else {
				fmt.Fprintf(&sb, "\\x%02x", c)
			}
		} else {
			fmt.Fprintf(&sb, "{%s}", t.String())
		}
	}
	sb.WriteByte('"')
	return sb.String()
}

// mustConcreteStr demands a concrete string.
func (ex *Exec) mustConcreteStr(v value, what string) string {
	s, ok := v.(str).concrete()
	if !ok {
		panic(engineError{"symbolic string where concrete required: " + what})
	}
	return s
}

// bytesToStr converts a []byte slice value to str (copy).
func bytesToStr(b []value) str {
	if len(b) == 0 {
		return nil
	}
	r := make(str, len(b))
	for i, x := range b {
		r[i] = x.(*Term)
	}
	return r
}

func strToBytes(s str) []value {
	r := make([]value, len(s))
	for i, x := range s {
		r[i] = x
	}
	return r
}

// strEq builds the equality term of two strings.
func (ex *Exec) strEq(a, b str) *Term {
	if len(a) != len(b) {
		return ex.tt.False
	}
	r := ex.tt.True
	for i := range a {
		r = ex.tt.BAnd(r, ex.tt.Eq(a[i], b[i]))
		if r.IsFalse() {
			return r
		}
	}
	return r
}

// strLess builds a < b (lexicographic, bytewise).
func (ex *Exec) strLess(a, b str) *Term {
	tt := ex.tt
	n := len(a)
	if len(b) < n {
		n = len(b)
	}
	// from the back: less_i = a[i]<b[i] || (a[i]==b[i] && less_{i+1})
	r := tt.Bool(len(a) < len(b))
	for i := n - 1; i >= 0; i-- {
		r = tt.BOr(tt.Ult(a[i], b[i]), tt.BAnd(tt.Eq(a[i], b[i]), r))
	}
	return r
}

// ---------- equality ----------

// equals builds the term for x == y under Go semantics for static type t.
func (ex *Exec) equals(t types.Type, x, y value) *Term {
	tt := ex.tt
	switch x := x.(type) {
	case *Term:
		yt, ok := y.(*Term)
		if !ok {
			return tt.False
		}
		if x.W != yt.W {
			return tt.False
		}
		return tt.Eq(x, yt)
	case float32:
		y, ok := y.(float32)
		return tt.Bool(ok && x == y)
	case float64:
		y, ok := y.(float64)
		return tt.Bool(ok && x == y)
	case complex128:
		y, ok := y.(complex128)
		return tt.Bool(ok && x == y)
	case str:
		y, ok := y.(str)
		if !ok {
			return tt.False
		}
		return ex.strEq(x, y)
	case *value:
		y, ok := y.(*value)
		return tt.Bool(ok && x == y)
	case *chanObj:
		y, ok := y.(*chanObj)
		return tt.Bool(ok && x == y)
	case uptr:
		y, ok := y.(uptr)
		return tt.Bool(ok && x.p == y.p)
	case structure:
		y := y.(structure)
		st := t.Underlying().(*types.Struct)
		r := tt.True
		for i := range x {
			f := st.Field(i)
			if f.Name() == "_" {
				continue
			}
			r = tt.BAnd(r, ex.equals(f.Type(), x[i], y[i]))
			if r.IsFalse() {
				return r
			}
		}
		return r
	case array:
		y := y.(array)
		et := t.Underlying().(*types.Array).Elem()
		r := tt.True
		for i := range x {
			r = tt.BAnd(r, ex.equals(et, x[i], y[i]))
			if r.IsFalse() {
				return r
			}
		}
		return r
	case iface:
		y := y.(iface)
		if !sameType(x.t, y.t) {
			return tt.False
		}
		if x.t == nil {
			return tt.True
		}
		if !types.Comparable(x.t) {
			panic(targetPanic{ex.runtimeError("comparing uncomparable type " + x.t.String())})
		}
		return ex.equals(x.t, x.v, y.v)
	case *ssa.Function, *closure, *ssa.Builtin, []value, *omap:
		// only comparable to nil; handled by eqnil
	}
	panic(engineError{fmt.Sprintf("equals: uncomparable %T (type %v)", x, t)})
}

// isNil reports whether a nil-able value is nil.
func isNil(x value) bool {
	switch x := x.(type) {
	case *value:
		return x == nil
	case []value:
		return x == nil
	case *omap:
		return x == nil
	case *chanObj:
		return x == nil
	case *ssa.Function:
		return x == nil
	case *closure:
		return x == nil
	case *ssa.Builtin:
		return x == nil
	case iface:
		return x.t == nil
	case uptr:
		return x.p == nil
	case *intrinsicFn:
		return x == nil
	}
	panic(engineError{fmt.Sprintf("isNil: %T", x)})
}

// show renders a value for diagnostics.
func show(v value) string {
	switch v := v.(type) {
	case nil:
		return "<nil-value>"
	case *Term:
		return v.String()
	case str:
		return v.String()
	case structure:
		var sb strings.Builder
		sb.WriteString("{")
		for i, e := range v {
			if i > 0 {
				sb.WriteString(" ")
			}
			sb.WriteString(show(e))
		}
		sb.WriteString("}")
		return sb.String()
	case array:
		return show([]value(v))
	case []value:
		if v == nil {
			return "[]nil"
		}
		var sb strings.Builder
		sb.WriteString("[")
		for i, e := range v {
			if i > 0 {
				sb.WriteString(" ")
			}
			if i > 16 {
				sb.WriteString("…")
				break
			}
			sb.WriteString(show(e))
		}
		sb.WriteString("]")
		return sb.String()
	case *value:
		if v == nil {
			return "nil"
		}
		return fmt.Sprintf("&%p", v)
	case iface:
		if v.t == nil {
			return "nil-iface"
		}
		return fmt.Sprintf("(%s)%s", v.t, show(v.v))
	case tuple:
		return "tuple" + show([]value(v))
	}
	return fmt.Sprintf("<%T>", v)
}

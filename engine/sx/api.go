package sx

import (
	"fmt"
)

// apiFuncs are the harness run-time functions (declared in zz_verif_rt.go of
// every harness package) that the engine intercepts.
var apiFuncs = map[string]bool{
	"vBool": true, "vU8": true, "vU16": true, "vU32": true, "vU64": true, "vI64": true,
	"vInt": true, "vRange": true, "vBytes": true, "vString": true, "vChoose": true,
	"vAssume": true, "vAssert": true, "vFail": true, "vCover": true, "vLabel": true,
	"vNote": true, "vEngine": true, "vStop": true, "vIsConcrete": true, "vConcretize": true,
	"vFresh": true, "vParam": true, "vAnd": true, "vOr": true, "vGoroutine": true,
}

func (ex *Exec) callAPI(fr *frame, name string, args []value) value {
	tt := ex.tt
	p := ex.path
	if p == nil || ex.inInit > 0 {
		if name == "vEngine" {
			return tt.True
		}
		panic(engineError{"harness API " + name + " called outside a path (e.g. from a package initialiser)"})
	}
	switch name {
	case "vEngine":
		return tt.True
	case "vParam":
		name := ex.mustConcreteStr(args[0], "vParam name")
		if v, ok := ex.params[name]; ok {
			return tt.Const(64, uint64(int64(v)))
		}
		return args[1]
	case "vBool":
		return ex.newInput(0)
	case "vU8":
		return ex.newInput(8)
	case "vU16":
		return ex.newInput(16)
	case "vU32":
		return ex.newInput(32)
	case "vU64", "vI64":
		return ex.newInput(64)
	case "vInt": // symbolic int in [lo,hi], not forked
		lo, hi := args[0].(*Term), args[1].(*Term)
		var x *Term
		if lo.IsConst() && hi.IsConst() && lo.Int() >= 0 && hi.Int() >= lo.Int() && hi.Int() < 1<<32 {
			// narrow variable, zero-extended: keeps arithmetic on it small
			k := uint8(1)
			for (int64(1) << k) <= hi.Int() {
				k++
			}
			x = tt.ZExt(ex.newInput(k), 64)
		} else {
			x = ex.newInput(64)
		}
		ex.assume(tt.BAnd(tt.Sle(lo, x), tt.Sle(x, hi)))
		return x
	case "vRange": // int in [lo,hi], forked per value
		lo, hi := args[0].(*Term), args[1].(*Term)
		if !lo.IsConst() || !hi.IsConst() {
			panic(engineError{"vRange bounds must be concrete"})
		}
		n := int(hi.Int()-lo.Int()) + 1
		if n <= 0 {
			panic(pathEnd{PathAssumed, "empty vRange"})
		}
		k := ex.chooseN(n, "vRange")
		return tt.Const(64, uint64(lo.Int()+int64(k)))
	case "vChoose":
		n := args[0].(*Term)
		if !n.IsConst() {
			panic(engineError{"vChoose bound must be concrete"})
		}
		return tt.Const(64, uint64(ex.chooseN(int(n.Int()), "vChoose")))
	case "vBytes":
		n := int(ex.concretize(args[0].(*Term), "vBytes len"))
		b := make([]value, n)
		for i := range b {
			b[i] = ex.newInput(8)
		}
		return b
	case "vString":
		n := int(ex.concretize(args[0].(*Term), "vString len"))
		if n == 0 {
			return str(nil)
		}
		s := make(str, n)
		for i := range s {
			s[i] = ex.newInput(8)
		}
		return s
	case "vAssume":
		ex.assume(args[0].(*Term))
		return nil
	case "vAssert":
		label := ex.mustConcreteStr(args[1], "vAssert label")
		ex.assert(args[0].(*Term), label)
		return nil
	case "vFail":
		label := ex.mustConcreteStr(args[0], "vFail label")
		ex.assert(tt.False, label)
		return nil
	case "vCover":
		p.covers[ex.mustConcreteStr(args[0], "vCover label")] = true
		return nil
	case "vLabel":
		p.curLabel = ex.mustConcreteStr(args[0], "vLabel")
		return nil
	case "vNote":
		s := args[0].(str)
		p.notes = append(p.notes, s.String())
		return nil
	case "vStop":
		panic(pathEnd{PathOK, "vStop"})
	case "vGoroutine": // id of the running goroutine in scheduled mode (0 = harness)
		if ex.sched != nil && ex.curG != nil {
			return tt.Const(64, uint64(ex.curG.id))
		}
		return tt.Const(64, 0)
	case "vIsConcrete":
		switch x := args[0].(iface).v.(type) {
		case *Term:
			return tt.Bool(x.IsConst())
		case str:
			_, ok := x.concrete()
			return tt.Bool(ok)
		}
		return tt.True
	case "vConcretize":
		x := args[0].(*Term)
		return tt.Const(x.W, ex.concretize(x, "vConcretize"))
	case "vAnd":
		r := tt.True
		for _, x := range args[0].([]value) {
			r = tt.BAnd(r, x.(*Term))
		}
		return r
	case "vOr":
		r := tt.False
		for _, x := range args[0].([]value) {
			r = tt.BOr(r, x.(*Term))
		}
		return r
	case "vFresh":
		// unconstrained value of the same width as the argument
		x := args[0].(*Term)
		return ex.newInput(x.W)
	}
	panic(engineError{fmt.Sprintf("unknown API function %s", name)})
}

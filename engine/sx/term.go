// Package sx is a symbolic executor for go/ssa with an SMT (bit-vector) back end.
package sx

import (
	"fmt"
	"math/bits"
	"strings"
)

// Op is a term operator.
type Op uint8

const (
	OpConst Op = iota // BV constant (W>0) or Bool constant (W==0, C in {0,1})
	OpVar             // free variable (input)
	OpAdd
	OpSub
	OpMul
	OpUDiv
	OpURem
	OpSDiv
	OpSRem
	OpAnd
	OpOr
	OpXor
	OpNot // bitwise
	OpNeg
	OpShl
	OpLShr
	OpAShr
	OpExtract // C = hi<<8|lo
	OpConcat
	OpZExt // to width W
	OpSExt
	OpEq // -> Bool (BV or Bool operands)
	OpUlt
	OpUle
	OpSlt
	OpSle
	OpBAnd // Bool
	OpBOr
	OpBNot
	OpIte // Bool cond; BV or Bool branches
)

var opNames = [...]string{
	OpConst: "const", OpVar: "var", OpAdd: "bvadd", OpSub: "bvsub", OpMul: "bvmul",
	OpUDiv: "bvudiv", OpURem: "bvurem", OpSDiv: "bvsdiv", OpSRem: "bvsrem",
	OpAnd: "bvand", OpOr: "bvor", OpXor: "bvxor", OpNot: "bvnot", OpNeg: "bvneg",
	OpShl: "bvshl", OpLShr: "bvlshr", OpAShr: "bvashr", OpExtract: "extract",
	OpConcat: "concat", OpZExt: "zero_extend", OpSExt: "sign_extend", OpEq: "=",
	OpUlt: "bvult", OpUle: "bvule", OpSlt: "bvslt", OpSle: "bvsle",
	OpBAnd: "and", OpBOr: "or", OpBNot: "not", OpIte: "ite",
}

// Term is a hash-consed SMT term.  W==0 means sort Bool, otherwise (_ BitVec W).
type Term struct {
	Op   Op
	W    uint8
	A    [3]*Term
	C    uint64 // constant value, or extract bounds
	Name string // for OpVar
	ID   int
}

type termKey struct {
	op      Op
	w       uint8
	a, b, c *Term
	k       uint64
	name    string
}

// Terms is a hash-consing table.  Not safe for concurrent use.
type Terms struct {
	tab   map[termKey]*Term
	n     int
	True  *Term
	False *Term
	bytes [256]*Term
}

func NewTerms() *Terms {
	tt := &Terms{tab: make(map[termKey]*Term)}
	tt.True = tt.mk(OpConst, 0, nil, nil, nil, 1, "")
	tt.False = tt.mk(OpConst, 0, nil, nil, nil, 0, "")
	for i := range tt.bytes {
		tt.bytes[i] = tt.mk(OpConst, 8, nil, nil, nil, uint64(i), "")
	}
	return tt
}

func (tt *Terms) Count() int { return tt.n }

func (tt *Terms) mk(op Op, w uint8, a, b, c *Term, k uint64, name string) *Term {
	key := termKey{op, w, a, b, c, k, name}
	if t, ok := tt.tab[key]; ok {
		return t
	}
	tt.n++
	t := &Term{Op: op, W: w, A: [3]*Term{a, b, c}, C: k, Name: name, ID: tt.n}
	tt.tab[key] = t
	return t
}

func mask(w uint8) uint64 {
	if w >= 64 {
		return ^uint64(0)
	}
	return (uint64(1) << w) - 1
}

func sext64(v uint64, w uint8) int64 {
	if w >= 64 {
		return int64(v)
	}
	sh := 64 - uint(w)
	return int64(v<<sh) >> sh
}

func (t *Term) IsConst() bool { return t.Op == OpConst }
func (t *Term) IsBool() bool  { return t.W == 0 }
func (t *Term) IsTrue() bool  { return t.Op == OpConst && t.W == 0 && t.C == 1 }
func (t *Term) IsFalse() bool { return t.Op == OpConst && t.W == 0 && t.C == 0 }

// Int returns the constant value sign-extended.
func (t *Term) Int() int64 { return sext64(t.C, t.W) }

func (tt *Terms) Const(w uint8, v uint64) *Term {
	if w == 0 {
		panic("Const with width 0")
	}
	v &= mask(w)
	if w == 8 {
		return tt.bytes[v]
	}
	return tt.mk(OpConst, w, nil, nil, nil, v, "")
}

func (tt *Terms) Byte(b byte) *Term { return tt.bytes[b] }

func (tt *Terms) Bool(b bool) *Term {
	if b {
		return tt.True
	}
	return tt.False
}

func (tt *Terms) Var(name string, w uint8) *Term {
	return tt.mk(OpVar, w, nil, nil, nil, 0, name)
}

// ---------- BV arithmetic ----------

// ubits reports k such that t is known to be < 2^k as an unsigned value and
// t can be re-expressed at any width >= k without an extract (constants and
// zero-extensions).
func ubits(t *Term) (uint8, bool) {
	switch t.Op {
	case OpConst:
		return uint8(bits.Len64(t.C)), true
	case OpZExt:
		return t.A[0].W, true
	}
	return 0, false
}

// narrow re-expresses t (ubits(t) <= k) at width k.
func (tt *Terms) narrow(t *Term, k uint8) *Term {
	if t.Op == OpConst {
		return tt.Const(k, t.C)
	}
	return tt.ZExt(t.A[0], k)
}

func (tt *Terms) bin(op Op, a, b *Term) *Term {
	if a.W != b.W || a.W == 0 {
		panic(fmt.Sprintf("bin %s: width mismatch %d vs %d", opNames[op], a.W, b.W))
	}
	w := a.W
	// width narrowing: arithmetic on zero-extended operands is done at the
	// smallest sufficient width (keeps dividers and multipliers small).
	if !(a.IsConst() && b.IsConst()) {
		if ka, oka := ubits(a); oka {
			if kb, okb := ubits(b); okb {
				var k int
				switch op {
				case OpAdd:
					k = int(max(ka, kb)) + 1
				case OpMul:
					k = int(ka) + int(kb)
				case OpUDiv, OpURem, OpSDiv, OpSRem, OpAnd, OpOr, OpXor:
					k = int(max(ka, kb))
				default:
					k = 255
				}
				if k == 0 {
					k = 1
				}
				if k < int(w) {
					nop := op
					if op == OpSDiv {
						nop = OpUDiv
					} else if op == OpSRem {
						nop = OpURem
					}
					if (nop == OpUDiv || nop == OpURem) && b.IsConst() && b.C == 0 {
						// keep full-width semantics for division by zero
					} else {
						return tt.ZExt(tt.bin(nop, tt.narrow(a, uint8(k)), tt.narrow(b, uint8(k))), w)
					}
				}
			}
		}
	}
	if a.IsConst() && b.IsConst() {
		x, y := a.C, b.C
		var r uint64
		switch op {
		case OpAdd:
			r = x + y
		case OpSub:
			r = x - y
		case OpMul:
			r = x * y
		case OpUDiv:
			if y == 0 {
				r = mask(w)
			} else {
				r = x / y
			}
		case OpURem:
			if y == 0 {
				r = x
			} else {
				r = x % y
			}
		case OpSDiv:
			sx, sy := sext64(x, w), sext64(y, w)
			if sy == 0 {
				if sx < 0 {
					r = 1
				} else {
					r = mask(w)
				}
			} else if sy == -1 {
				r = uint64(-sx)
			} else {
				r = uint64(sx / sy)
			}
		case OpSRem:
			sx, sy := sext64(x, w), sext64(y, w)
			if sy == 0 {
				r = x
			} else if sy == -1 {
				r = 0
			} else {
				r = uint64(sx % sy)
			}
		case OpAnd:
			r = x & y
		case OpOr:
			r = x | y
		case OpXor:
			r = x ^ y
		case OpShl:
			if y >= uint64(w) {
				r = 0
			} else {
				r = x << y
			}
		case OpLShr:
			if y >= uint64(w) {
				r = 0
			} else {
				r = x >> y
			}
		case OpAShr:
			sx := sext64(x, w)
			if y >= uint64(w) {
				if sx < 0 {
					r = mask(w)
				} else {
					r = 0
				}
			} else {
				r = uint64(sx >> y)
			}
		}
		return tt.Const(w, r)
	}
	// identities
	switch op {
	case OpAdd:
		if a.IsConst() && a.C == 0 {
			return b
		}
		if b.IsConst() && b.C == 0 {
			return a
		}
		if a.IsConst() { // canonical: constant on the right
			a, b = b, a
		}
		// (x + c1) + c2
		if b.IsConst() && a.Op == OpAdd && a.A[1].IsConst() {
			return tt.bin(OpAdd, a.A[0], tt.Const(w, a.A[1].C+b.C))
		}
	case OpSub:
		if b.IsConst() && b.C == 0 {
			return a
		}
		if a == b {
			return tt.Const(w, 0)
		}
		if b.IsConst() {
			return tt.bin(OpAdd, a, tt.Const(w, -b.C))
		}
	case OpMul:
		if a.IsConst() {
			a, b = b, a
		}
		if b.IsConst() {
			if b.C == 0 {
				return b
			}
			if b.C == 1 {
				return a
			}
		}
	case OpAnd:
		if a.IsConst() {
			a, b = b, a
		}
		if b.IsConst() {
			if b.C == 0 {
				return b
			}
			if b.C == mask(w) {
				return a
			}
		}
		if a == b {
			return a
		}
	case OpOr:
		if a.IsConst() {
			a, b = b, a
		}
		if b.IsConst() {
			if b.C == 0 {
				return a
			}
			if b.C == mask(w) {
				return b
			}
		}
		if a == b {
			return a
		}
	case OpXor:
		if a.IsConst() {
			a, b = b, a
		}
		if b.IsConst() && b.C == 0 {
			return a
		}
		if a == b {
			return tt.Const(w, 0)
		}
	case OpShl, OpLShr, OpAShr:
		if b.IsConst() && b.C == 0 {
			return a
		}
		if a.IsConst() && a.C == 0 {
			return a
		}
		if b.IsConst() && b.C >= uint64(w) && op != OpAShr {
			return tt.Const(w, 0)
		}
	case OpUDiv, OpSDiv:
		if b.IsConst() && b.C == 1 {
			return a
		}
	}
	return tt.mk(op, w, a, b, nil, 0, "")
}

func (tt *Terms) Add(a, b *Term) *Term  { return tt.bin(OpAdd, a, b) }
func (tt *Terms) Sub(a, b *Term) *Term  { return tt.bin(OpSub, a, b) }
func (tt *Terms) Mul(a, b *Term) *Term  { return tt.bin(OpMul, a, b) }
func (tt *Terms) UDiv(a, b *Term) *Term { return tt.bin(OpUDiv, a, b) }
func (tt *Terms) URem(a, b *Term) *Term { return tt.bin(OpURem, a, b) }
func (tt *Terms) SDiv(a, b *Term) *Term { return tt.bin(OpSDiv, a, b) }
func (tt *Terms) SRem(a, b *Term) *Term { return tt.bin(OpSRem, a, b) }
func (tt *Terms) And(a, b *Term) *Term  { return tt.bin(OpAnd, a, b) }
func (tt *Terms) Or(a, b *Term) *Term   { return tt.bin(OpOr, a, b) }
func (tt *Terms) Xor(a, b *Term) *Term  { return tt.bin(OpXor, a, b) }
func (tt *Terms) Shl(a, b *Term) *Term  { return tt.bin(OpShl, a, b) }
func (tt *Terms) LShr(a, b *Term) *Term { return tt.bin(OpLShr, a, b) }
func (tt *Terms) AShr(a, b *Term) *Term { return tt.bin(OpAShr, a, b) }

func (tt *Terms) Not(a *Term) *Term {
	if a.IsConst() {
		return tt.Const(a.W, ^a.C)
	}
	if a.Op == OpNot {
		return a.A[0]
	}
	return tt.mk(OpNot, a.W, a, nil, nil, 0, "")
}

func (tt *Terms) Neg(a *Term) *Term {
	if a.IsConst() {
		return tt.Const(a.W, -a.C)
	}
	return tt.mk(OpNeg, a.W, a, nil, nil, 0, "")
}

// Extract bits hi..lo (inclusive).
func (tt *Terms) Extract(a *Term, hi, lo uint8) *Term {
	w := hi - lo + 1
	if lo == 0 && w == a.W {
		return a
	}
	if a.IsConst() {
		return tt.Const(w, a.C>>lo)
	}
	if (a.Op == OpZExt || a.Op == OpSExt) && hi < a.A[0].W {
		return tt.Extract(a.A[0], hi, lo)
	}
	if a.Op == OpZExt && lo >= a.A[0].W {
		return tt.Const(w, 0)
	}
	if a.Op == OpConcat {
		lw := a.A[1].W
		if hi < lw {
			return tt.Extract(a.A[1], hi, lo)
		}
		if lo >= lw {
			return tt.Extract(a.A[0], hi-lw, lo-lw)
		}
	}
	return tt.mk(OpExtract, w, a, nil, nil, uint64(hi)<<8|uint64(lo), "")
}

func (tt *Terms) Concat(hi, lo *Term) *Term {
	w := hi.W + lo.W
	if hi.IsConst() && lo.IsConst() {
		return tt.Const(w, hi.C<<lo.W|lo.C)
	}
	if hi.IsConst() && hi.C == 0 {
		return tt.ZExt(lo, w)
	}
	return tt.mk(OpConcat, w, hi, lo, nil, 0, "")
}

func (tt *Terms) ZExt(a *Term, w uint8) *Term {
	if w == a.W {
		return a
	}
	if w < a.W {
		return tt.Extract(a, w-1, 0)
	}
	if a.IsConst() {
		return tt.Const(w, a.C)
	}
	if a.Op == OpZExt {
		return tt.ZExt(a.A[0], w)
	}
	return tt.mk(OpZExt, w, a, nil, nil, 0, "")
}

func (tt *Terms) SExt(a *Term, w uint8) *Term {
	if w == a.W {
		return a
	}
	if w < a.W {
		return tt.Extract(a, w-1, 0)
	}
	if a.IsConst() {
		return tt.Const(w, uint64(sext64(a.C, a.W)))
	}
	if a.Op == OpZExt { // sign bit known zero
		return tt.ZExt(a.A[0], w)
	}
	return tt.mk(OpSExt, w, a, nil, nil, 0, "")
}

// ---------- predicates ----------

func (tt *Terms) Eq(a, b *Term) *Term {
	if a.W != b.W {
		panic(fmt.Sprintf("Eq: width mismatch %d vs %d", a.W, b.W))
	}
	if a == b {
		return tt.True
	}
	if a.IsConst() && b.IsConst() {
		return tt.False // hash-consed: different constants
	}
	if a.W == 0 {
		if a.IsConst() {
			a, b = b, a
		}
		if b.IsTrue() {
			return a
		}
		if b.IsFalse() {
			return tt.BNot(a)
		}
	}
	if a.IsConst() {
		a, b = b, a
	}
	if b.IsConst() {
		// eq(ite(c,k1,k2),k3)
		if a.Op == OpIte && a.A[1].IsConst() && a.A[2].IsConst() {
			t1, t2 := a.A[1] == b, a.A[2] == b
			switch {
			case t1 && t2:
				return tt.True
			case t1:
				return a.A[0]
			case t2:
				return tt.BNot(a.A[0])
			default:
				return tt.False
			}
		}
		// eq(zext(x), c)
		if a.Op == OpZExt {
			x := a.A[0]
			if b.C > mask(x.W) {
				return tt.False
			}
			return tt.Eq(x, tt.Const(x.W, b.C))
		}
	} else {
		if a.Op == OpZExt && b.Op == OpZExt {
			k := max(a.A[0].W, b.A[0].W)
			return tt.Eq(tt.narrow(a, k), tt.narrow(b, k))
		}
		if a.ID > b.ID {
			a, b = b, a
		}
	}
	return tt.mk(OpEq, 0, a, b, nil, 0, "")
}

func (tt *Terms) cmp(op Op, a, b *Term) *Term {
	if a.W != b.W || a.W == 0 {
		panic(fmt.Sprintf("cmp %s: width mismatch %d vs %d", opNames[op], a.W, b.W))
	}
	if a.IsConst() && b.IsConst() {
		var r bool
		switch op {
		case OpUlt:
			r = a.C < b.C
		case OpUle:
			r = a.C <= b.C
		case OpSlt:
			r = a.Int() < b.Int()
		case OpSle:
			r = a.Int() <= b.Int()
		}
		return tt.Bool(r)
	}
	if a == b {
		return tt.Bool(op == OpUle || op == OpSle)
	}
	if ka, oka := ubits(a); oka {
		if kb, okb := ubits(b); okb {
			k := max(ka, kb)
			if k == 0 {
				k = 1
			}
			if k < a.W {
				nop := op
				if op == OpSlt {
					nop = OpUlt
				} else if op == OpSle {
					nop = OpUle
				}
				return tt.cmp(nop, tt.narrow(a, k), tt.narrow(b, k))
			}
		}
	}
	switch op {
	case OpUlt:
		if b.IsConst() && b.C == 0 {
			return tt.False
		}
		if a.Op == OpZExt && b.IsConst() && b.C > mask(a.A[0].W) {
			return tt.True
		}
	case OpUle:
		if a.IsConst() && a.C == 0 {
			return tt.True
		}
		if a.Op == OpZExt && b.IsConst() && b.C >= mask(a.A[0].W) {
			return tt.True
		}
	case OpSlt:
		// zext(x) < 0 is false; c <= zext etc.
		if a.Op == OpZExt && b.IsConst() {
			if b.Int() <= 0 {
				return tt.False
			}
			if uint64(b.Int()) > mask(a.A[0].W) {
				return tt.True
			}
		}
		if b.Op == OpZExt && a.IsConst() && a.Int() < 0 {
			return tt.True
		}
	case OpSle:
		if a.Op == OpZExt && b.IsConst() {
			if b.Int() < 0 {
				return tt.False
			}
			if uint64(b.Int()) >= mask(a.A[0].W) {
				return tt.True
			}
		}
		if b.Op == OpZExt && a.IsConst() && a.Int() <= 0 {
			return tt.True
		}
	}
	return tt.mk(op, 0, a, b, nil, 0, "")
}

func (tt *Terms) Ult(a, b *Term) *Term { return tt.cmp(OpUlt, a, b) }
func (tt *Terms) Ule(a, b *Term) *Term { return tt.cmp(OpUle, a, b) }
func (tt *Terms) Slt(a, b *Term) *Term { return tt.cmp(OpSlt, a, b) }
func (tt *Terms) Sle(a, b *Term) *Term { return tt.cmp(OpSle, a, b) }

// ---------- booleans ----------

func (tt *Terms) BNot(a *Term) *Term {
	if a.W != 0 {
		panic("BNot on bitvector")
	}
	if a.IsConst() {
		return tt.Bool(a.C == 0)
	}
	if a.Op == OpBNot {
		return a.A[0]
	}
	return tt.mk(OpBNot, 0, a, nil, nil, 0, "")
}

func (tt *Terms) BAnd(a, b *Term) *Term {
	if a.IsFalse() || b.IsFalse() {
		return tt.False
	}
	if a.IsTrue() {
		return b
	}
	if b.IsTrue() {
		return a
	}
	if a == b {
		return a
	}
	if tt.BNot(a) == b {
		return tt.False
	}
	if a.ID > b.ID {
		a, b = b, a
	}
	return tt.mk(OpBAnd, 0, a, b, nil, 0, "")
}

func (tt *Terms) BOr(a, b *Term) *Term {
	if a.IsTrue() || b.IsTrue() {
		return tt.True
	}
	if a.IsFalse() {
		return b
	}
	if b.IsFalse() {
		return a
	}
	if a == b {
		return a
	}
	if tt.BNot(a) == b {
		return tt.True
	}
	if a.ID > b.ID {
		a, b = b, a
	}
	return tt.mk(OpBOr, 0, a, b, nil, 0, "")
}

func (tt *Terms) Ite(c, a, b *Term) *Term {
	if a.W != b.W {
		panic("Ite: width mismatch")
	}
	if c.IsTrue() {
		return a
	}
	if c.IsFalse() {
		return b
	}
	if a == b {
		return a
	}
	if a.W == 0 {
		if a.IsTrue() && b.IsFalse() {
			return c
		}
		if a.IsFalse() && b.IsTrue() {
			return tt.BNot(c)
		}
		if a.IsTrue() {
			return tt.BOr(c, b)
		}
		if a.IsFalse() {
			return tt.BAnd(tt.BNot(c), b)
		}
		if b.IsTrue() {
			return tt.BOr(tt.BNot(c), a)
		}
		if b.IsFalse() {
			return tt.BAnd(c, a)
		}
	}
	if ka, oka := ubits(a); oka {
		if kb, okb := ubits(b); okb {
			k := max(ka, kb)
			if k == 0 {
				k = 1
			}
			if k < a.W && !(a.IsConst() && b.IsConst()) {
				return tt.ZExt(tt.Ite(c, tt.narrow(a, k), tt.narrow(b, k)), a.W)
			}
		}
	}
	return tt.mk(OpIte, a.W, c, a, b, 0, "")
}

// ---------- printing ----------

func sortString(w uint8) string {
	if w == 0 {
		return "Bool"
	}
	return fmt.Sprintf("(_ BitVec %d)", w)
}

// ref is how a term is referred to inside other terms' definitions.
func (t *Term) ref() string {
	switch t.Op {
	case OpConst:
		if t.W == 0 {
			if t.C == 1 {
				return "true"
			}
			return "false"
		}
		return fmt.Sprintf("(_ bv%d %d)", t.C, t.W)
	case OpVar:
		return t.Name
	}
	return fmt.Sprintf("t%d", t.ID)
}

// def returns the SMT-LIB body of a non-leaf term.
func (t *Term) def() string {
	switch t.Op {
	case OpExtract:
		return fmt.Sprintf("((_ extract %d %d) %s)", t.C>>8, t.C&0xff, t.A[0].ref())
	case OpZExt:
		return fmt.Sprintf("((_ zero_extend %d) %s)", t.W-t.A[0].W, t.A[0].ref())
	case OpSExt:
		return fmt.Sprintf("((_ sign_extend %d) %s)", t.W-t.A[0].W, t.A[0].ref())
	}
	var sb strings.Builder
	sb.WriteByte('(')
	sb.WriteString(opNames[t.Op])
	for _, a := range t.A {
		if a == nil {
			break
		}
		sb.WriteByte(' ')
		sb.WriteString(a.ref())
	}
	sb.WriteByte(')')
	return sb.String()
}

// String renders the term fully (for diagnostics; may be large).
func (t *Term) String() string {
	return t.str(0)
}

func (t *Term) str(depth int) string {
	if t.Op == OpConst || t.Op == OpVar {
		if t.Op == OpConst && t.W != 0 {
			return fmt.Sprintf("%d:%d", t.C, t.W)
		}
		return t.ref()
	}
	if depth > 6 {
		return "…"
	}
	var sb strings.Builder
	sb.WriteByte('(')
	sb.WriteString(opNames[t.Op])
	if t.Op == OpExtract {
		fmt.Fprintf(&sb, "[%d:%d]", t.C>>8, t.C&0xff)
	}
	for _, a := range t.A {
		if a == nil {
			break
		}
		sb.WriteByte(' ')
		sb.WriteString(a.str(depth + 1))
	}
	sb.WriteByte(')')
	return sb.String()
}

// Eval evaluates t under an assignment of variables (missing vars = 0).
func (t *Term) Eval(env map[string]uint64, memo map[*Term]uint64) uint64 {
	if t.Op == OpConst {
		return t.C
	}
	if v, ok := memo[t]; ok {
		return v
	}
	var r uint64
	a := func(i int) uint64 { return t.A[i].Eval(env, memo) }
	w := t.W
	switch t.Op {
	case OpVar:
		r = env[t.Name]
	case OpAdd:
		r = a(0) + a(1)
	case OpSub:
		r = a(0) - a(1)
	case OpMul:
		r = a(0) * a(1)
	case OpUDiv:
		if y := a(1); y == 0 {
			r = mask(w)
		} else {
			r = a(0) / y
		}
	case OpURem:
		if y := a(1); y == 0 {
			r = a(0)
		} else {
			r = a(0) % y
		}
	case OpSDiv:
		x, y := sext64(a(0), w), sext64(a(1), w)
		if y == 0 {
			if x < 0 {
				r = 1
			} else {
				r = mask(w)
			}
		} else if y == -1 {
			r = uint64(-x)
		} else {
			r = uint64(x / y)
		}
	case OpSRem:
		x, y := sext64(a(0), w), sext64(a(1), w)
		if y == 0 {
			r = uint64(x)
		} else if y == -1 {
			r = 0
		} else {
			r = uint64(x % y)
		}
	case OpAnd:
		r = a(0) & a(1)
	case OpOr:
		r = a(0) | a(1)
	case OpXor:
		r = a(0) ^ a(1)
	case OpNot:
		r = ^a(0)
	case OpNeg:
		r = -a(0)
	case OpShl:
		if y := a(1); y >= uint64(w) {
			r = 0
		} else {
			r = a(0) << y
		}
	case OpLShr:
		if y := a(1); y >= uint64(w) {
			r = 0
		} else {
			r = a(0) >> y
		}
	case OpAShr:
		x, y := sext64(a(0), w), a(1)
		if y >= uint64(w) {
			y = 63
		}
		r = uint64(x >> y)
	case OpExtract:
		r = a(0) >> (t.C & 0xff)
	case OpConcat:
		r = a(0)<<t.A[1].W | a(1)
	case OpZExt:
		r = a(0)
	case OpSExt:
		r = uint64(sext64(a(0), t.A[0].W))
	case OpEq:
		r = b2u(a(0) == a(1))
	case OpUlt:
		r = b2u(a(0) < a(1))
	case OpUle:
		r = b2u(a(0) <= a(1))
	case OpSlt:
		r = b2u(sext64(a(0), t.A[0].W) < sext64(a(1), t.A[0].W))
	case OpSle:
		r = b2u(sext64(a(0), t.A[0].W) <= sext64(a(1), t.A[0].W))
	case OpBAnd:
		r = a(0) & a(1)
	case OpBOr:
		r = a(0) | a(1)
	case OpBNot:
		r = a(0) ^ 1
	case OpIte:
		if a(0) == 1 {
			r = a(1)
		} else {
			r = a(2)
		}
	}
	if w == 0 {
		r &= 1
	} else {
		r &= mask(w)
	}
	memo[t] = r
	return r
}

func b2u(b bool) uint64 {
	if b {
		return 1
	}
	return 0
}

var _ = bits.Len64

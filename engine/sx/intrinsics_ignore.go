package sx

import (
	"golang.org/x/tools/go/ssa"
)

// UTF-8 decoding of the first rune of a string/[]byte with symbolic bytes.
//
// The library implementation indexes the 256-entry table utf8.first with a
// uint8; the engine's bounds check builds the constant 256 at the index's
// width (8 bits -> 0) and reports a spurious "index out of range [symbolic]
// with length 256".  These intrinsics implement the same decoding (Go's
// utf8.DecodeRune semantics, including the RuneError/width-1 cases) by
// forking on the lead-byte class and on continuation-byte validity; the rune
// itself stays a term.
func init() {
	intrinsics["unicode/utf8.DecodeRuneInString"] = inDecodeRune
	intrinsics["unicode/utf8.DecodeRune"] = inDecodeRune
}

func inDecodeRune(ex *Exec, fr *frame, fn *ssa.Function, a []value) value {
	tt := ex.tt
	s := asStr(a[0])
	ret := func(r *Term, n int) value { return tuple{r, tt.Const(64, uint64(n))} }
	runeError := tt.Const(32, 0xFFFD)
	if len(s) == 0 {
		return ret(runeError, 0)
	}
	in := func(b *Term, lo, hi byte) *Term {
		return tt.BAnd(tt.Ule(tt.Byte(lo), b), tt.Ule(b, tt.Byte(hi)))
	}
	bits := func(b *Term, mask byte, shift uint64) *Term {
		return tt.Shl(tt.ZExt(tt.And(b, tt.Byte(mask)), 32), tt.Const(32, shift))
	}
	s0 := s[0]
	if ex.decideBool(tt.Ult(s0, tt.Byte(0x80)), "utf8 ascii") {
		return ret(tt.ZExt(s0, 32), 1)
	}
	// lead-byte classes: size, accepted range of the second byte
	type class struct {
		lo, hi     byte
		size       int
		lo1, hi1   byte
		mask       byte
	}
	classes := []class{
		{0xC2, 0xDF, 2, 0x80, 0xBF, 0x1F},
		{0xE0, 0xE0, 3, 0xA0, 0xBF, 0x0F},
		{0xE1, 0xEC, 3, 0x80, 0xBF, 0x0F},
		{0xED, 0xED, 3, 0x80, 0x9F, 0x0F},
		{0xEE, 0xEF, 3, 0x80, 0xBF, 0x0F},
		{0xF0, 0xF0, 4, 0x90, 0xBF, 0x07},
		{0xF1, 0xF3, 4, 0x80, 0xBF, 0x07},
		{0xF4, 0xF4, 4, 0x80, 0x8F, 0x07},
	}
	for _, c := range classes {
		if !ex.decideBool(in(s0, c.lo, c.hi), "utf8 lead class") {
			continue
		}
		if len(s) < c.size {
			return ret(runeError, 1)
		}
		if !ex.decideBool(in(s[1], c.lo1, c.hi1), "utf8 second byte") {
			return ret(runeError, 1)
		}
		for k := 2; k < c.size; k++ {
			if !ex.decideBool(in(s[k], 0x80, 0xBF), "utf8 continuation byte") {
				return ret(runeError, 1)
			}
		}
		r := bits(s0, c.mask, uint64(6*(c.size-1)))
		for k := 1; k < c.size; k++ {
			r = tt.Or(r, bits(s[k], 0x3F, uint64(6*(c.size-1-k))))
		}
		return ret(r, c.size)
	}
	// 0x80..0xC1, 0xF5..0xFF: invalid lead byte
	return ret(runeError, 1)
}

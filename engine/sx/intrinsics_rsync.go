package sx

import (
	"math"

	"golang.org/x/tools/go/ssa"
)

// Intrinsics needed by the rsync harnesses (C19/C20): math.Sqrt on concrete
// floats (OptimalBlockSizeForBaseLength); the pure-Go fallback works on the
// IEEE bit pattern, which the engine's concrete-only floats do not model.
func init() {
	sqrt := func(ex *Exec, fr *frame, fn *ssa.Function, a []value) value {
		x, ok := a[0].(float64)
		if !ok {
			panic(engineError{"math.Sqrt of a symbolic value"})
		}
		return math.Sqrt(x)
	}
	intrinsics["math.Sqrt"] = sqrt
	intrinsics["math.sqrt"] = sqrt
}

package sx

import (
	"math"
	"os"
	"os/exec"
	"strconv"
	"strings"

	"golang.org/x/tools/go/ssa"
)

// Intrinsics needed by the rsync harnesses (C19/C20).
func init() {
	// math.Sqrt on concrete floats (OptimalBlockSizeForBaseLength); the pure-Go
	// fallback works on the IEEE bit pattern, which the engine's concrete-only
	// floats do not model.
	sqrt := func(ex *Exec, fr *frame, fn *ssa.Function, a []value) value {
		x, ok := a[0].(float64)
		if !ok {
			panic(engineError{"math.Sqrt of a symbolic value"})
		}
		return math.Sqrt(x)
	}
	intrinsics["math.Sqrt"] = sqrt
	intrinsics["math.sqrt"] = sqrt

	// verifPreferSolver(name): harness-side request for a solver back end
	// (stop-gap until props tiers have a "solver" key).  z3's incremental
	// mode answers "unknown" on the feasibility of "twice-rolled weak hash
	// equals a block's weak hash although the bytes differ" (unsat; nested
	// mod-2^16 sums); cvc5 decides every such query in well under a second.
	// An explicit VERIF_SOLVER wins; a missing binary leaves the default.
	intrinsics["github.com/mutagen-io/mutagen/pkg/synchronization/rsync.verifPreferSolver"] =
		func(ex *Exec, fr *frame, fn *ssa.Function, a []value) value {
			if os.Getenv("VERIF_SOLVER") != "" || ex.path == nil || ex.path.concrete {
				return nil
			}
			name := ex.mustConcreteStr(a[0], "verifPreferSolver name")
			want := SolverCommand(name, solverTimeoutMs(ex.solver.Cmd))
			if ex.solver.Cmd[0] == want[0] {
				return nil
			}
			if _, err := exec.LookPath(want[0]); err != nil {
				return nil
			}
			ex.solver.Cmd = want
			ex.solver.restart()
			return nil
		}
}

// solverTimeoutMs recovers the per-query timeout from a solver argv built by
// SolverCommand.
func solverTimeoutMs(argv []string) int {
	for _, a := range argv {
		for _, p := range []string{"-t:", "--tlimit-per="} {
			if strings.HasPrefix(a, p) {
				if n, err := strconv.Atoi(a[len(p):]); err == nil && n > 0 {
					return n
				}
			}
		}
	}
	return 20000
}

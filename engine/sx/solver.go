package sx

import (
	"bufio"
	"fmt"
	"io"
	"os/exec"
	"strconv"
	"strings"
	"time"
)

type SatResult int

const (
	Unsat SatResult = iota
	Sat
	Unknown
)

func (r SatResult) String() string { return [...]string{"unsat", "sat", "unknown"}[r] }

// Solver talks SMT-LIB2 to one long-lived solver process.
type Solver struct {
	Cmd     []string
	cmd     *exec.Cmd
	in      io.WriteCloser
	out     *bufio.Reader
	defined map[*Term]bool
	ndefs   int
	Log     io.Writer // optional transcript

	Queries  int
	SatN     int
	UnsatN   int
	UnknownN int
	Time     time.Duration
	Restarts int
	LastErr  string
}

// SolverCommand returns the argv for a named back end.
func SolverCommand(name string, timeoutMs int) []string {
	switch name {
	case "z3-new":
		return []string{"z3-new", "-in", fmt.Sprintf("-t:%d", timeoutMs)}
	case "cvc5":
		return []string{"cvc5", "--incremental", "--lang=smt2", "--produce-models", fmt.Sprintf("--tlimit-per=%d", timeoutMs)}
	default:
		return []string{"z3", "-in", fmt.Sprintf("-t:%d", timeoutMs)}
	}
}

func NewSolver(argv []string) (*Solver, error) {
	s := &Solver{Cmd: argv}
	if err := s.start(); err != nil {
		return nil, err
	}
	return s, nil
}

func (s *Solver) start() error {
	s.cmd = exec.Command(s.Cmd[0], s.Cmd[1:]...)
	in, err := s.cmd.StdinPipe()
	if err != nil {
		return err
	}
	out, err := s.cmd.StdoutPipe()
	if err != nil {
		return err
	}
	s.cmd.Stderr = s.cmd.Stdout
	if err := s.cmd.Start(); err != nil {
		return err
	}
	s.in = in
	s.out = bufio.NewReaderSize(out, 1<<16)
	s.defined = make(map[*Term]bool)
	s.ndefs = 0
	s.send("(set-option :produce-models true)\n")
	if strings.Contains(s.Cmd[0], "cvc5") {
		s.send("(set-logic QF_BV)\n")
	}
	return nil
}

func (s *Solver) Close() {
	if s.cmd != nil {
		s.in.Close()
		s.cmd.Process.Kill()
		s.cmd.Wait()
		s.cmd = nil
	}
}

func (s *Solver) restart() {
	s.Close()
	s.Restarts++
	if err := s.start(); err != nil {
		panic(engineError{"solver restart: " + err.Error()})
	}
}

func (s *Solver) send(text string) {
	if s.Log != nil {
		io.WriteString(s.Log, text)
	}
	if _, err := io.WriteString(s.in, text); err != nil {
		panic(engineError{"solver write: " + err.Error()})
	}
}

// define makes sure t and everything below it has been sent.
func (s *Solver) define(t *Term, sb *strings.Builder) {
	if t.Op == OpConst || s.defined[t] {
		return
	}
	// iterative post-order
	type item struct {
		t    *Term
		done bool
	}
	stack := []item{{t, false}}
	for len(stack) > 0 {
		it := stack[len(stack)-1]
		stack = stack[:len(stack)-1]
		if it.t.Op == OpConst || s.defined[it.t] {
			continue
		}
		if it.done {
			s.defined[it.t] = true
			s.ndefs++
			if it.t.Op == OpVar {
				fmt.Fprintf(sb, "(declare-const %s %s)\n", it.t.Name, sortString(it.t.W))
			} else {
				fmt.Fprintf(sb, "(define-fun t%d () %s %s)\n", it.t.ID, sortString(it.t.W), it.t.def())
			}
			continue
		}
		stack = append(stack, item{it.t, true})
		for _, a := range it.t.A {
			if a != nil && a.Op != OpConst && !s.defined[a] {
				stack = append(stack, item{a, false})
			}
		}
	}
}

func (s *Solver) readLine() string {
	line, err := s.out.ReadString('\n')
	if err != nil {
		panic(engineError{"solver read: " + err.Error()})
	}
	return strings.TrimSpace(line)
}

// Ensure sends the definitions of terms (so that their values can be read
// from the model of a later Check).
func (s *Solver) Ensure(terms []*Term) {
	var sb strings.Builder
	for _, t := range terms {
		s.define(t, &sb)
	}
	if sb.Len() > 0 {
		s.send(sb.String())
	}
}

// Check decides satisfiability of the conjunction of lits.
// Check decides the conjunction of lits.  An "unknown" answer (in practice a
// query that hit its time limit, usually because the machine is overloaded) is
// retried once on a fresh solver process with three times the time limit
// before it is reported as unknown.
func (s *Solver) Check(lits []*Term) SatResult {
	r := s.check1(lits)
	if r != Unknown || s.LastErr != "" || len(s.Cmd) == 0 {
		return r
	}
	saved := append([]string(nil), s.Cmd...)
	for i, a := range s.Cmd {
		var ms int
		if n, _ := fmt.Sscanf(a, "-t:%d", &ms); n == 1 {
			s.Cmd[i] = fmt.Sprintf("-t:%d", 3*ms)
		} else if n, _ := fmt.Sscanf(a, "--tlimit-per=%d", &ms); n == 1 {
			s.Cmd[i] = fmt.Sprintf("--tlimit-per=%d", 3*ms)
		}
	}
	s.restart()
	s.UnknownN--
	s.Queries--
	r = s.check1(lits)
	s.Cmd = saved
	// keep the boosted process alive after a Sat answer: the caller may still
	// ask for the model; the next restart goes back to the normal limit
	if r != Sat {
		s.restart()
	}
	return r
}

func (s *Solver) check1(lits []*Term) SatResult {
	if len(lits) == 0 {
		// the empty conjunction is satisfiable (and "(check-sat-assuming ( ))"
		// is not accepted by every solver)
		return Sat
	}
	if s.ndefs > 200000 {
		s.restart()
	}
	var sb strings.Builder
	for _, l := range lits {
		s.define(l, &sb)
	}
	sb.WriteString("(check-sat-assuming (")
	for _, l := range lits {
		sb.WriteByte(' ')
		sb.WriteString(l.ref())
	}
	sb.WriteString(" ))\n")
	t0 := time.Now()
	s.send(sb.String())
	res := Unknown
	for {
		line := s.readLine()
		if s.Log != nil {
			fmt.Fprintf(s.Log, "; -> %s\n", line)
		}
		if line == "" {
			continue
		}
		switch {
		case line == "sat":
			res = Sat
		case line == "unsat":
			res = Unsat
		case line == "unknown" || line == "timeout":
			res = Unknown
		case strings.HasPrefix(line, "(error"):
			s.LastErr = line
			// an error line may be followed by the sat answer; treat as inconclusive
			s.Time += time.Since(t0)
			s.Queries++
			s.UnknownN++
			// resynchronise: restart the process to drop half-parsed state
			s.restart()
			return Unknown
		default:
			continue
		}
		break
	}
	s.Time += time.Since(t0)
	s.Queries++
	switch res {
	case Sat:
		s.SatN++
	case Unsat:
		s.UnsatN++
	default:
		s.UnknownN++
	}
	return res
}

// Values returns the values of terms in the model of the last Sat answer
// (nil if the solver reported an error).
func (s *Solver) Values(terms []*Term) []uint64 {
	res := make([]uint64, len(terms))
	var ask []int
	var sb strings.Builder
	sb.WriteString("(get-value (")
	for i, t := range terms {
		if t.Op == OpConst {
			res[i] = t.C
			continue
		}
		if !s.defined[t] {
			if t.Op != OpVar {
				panic(engineError{"Values: term was not defined before the query (call Ensure first)"})
			}
			continue // variable never mentioned in a query: unconstrained, 0
		}
		ask = append(ask, i)
		sb.WriteByte(' ')
		sb.WriteString(t.ref())
	}
	sb.WriteString(" ))\n")
	if len(ask) == 0 {
		return res
	}
	s.send(sb.String())
	depth := 0
	var text strings.Builder
	started := false
	for !started || depth > 0 {
		line := s.readLine()
		if strings.HasPrefix(line, "(error") {
			s.LastErr = line
			return nil
		}
		for _, ch := range line {
			if ch == '(' {
				depth++
				started = true
			} else if ch == ')' {
				depth--
			}
		}
		text.WriteString(line)
		text.WriteByte(' ')
	}
	toks := strings.Fields(strings.NewReplacer("(", " ( ", ")", " ) ").Replace(text.String()))
	// grammar: ( ( name value ) ( name value ) ... ), value = #x.. | #b.. | true | false | ( _ bvN W )
	k := 0
	i := 1 // skip outer (
	for i < len(toks) && k < len(ask) {
		if toks[i] != "(" {
			i++
			continue
		}
		// toks[i+1] = name, toks[i+2..] = value
		j := i + 2
		if j >= len(toks) {
			break
		}
		val := toks[j]
		var u uint64
		switch {
		case strings.HasPrefix(val, "#x"):
			u, _ = strconv.ParseUint(val[2:], 16, 64)
			j++
		case strings.HasPrefix(val, "#b"):
			u, _ = strconv.ParseUint(val[2:], 2, 64)
			j++
		case val == "true":
			u = 1
			j++
		case val == "false":
			u = 0
			j++
		case val == "(" && j+3 < len(toks) && toks[j+1] == "_" && strings.HasPrefix(toks[j+2], "bv"):
			u, _ = strconv.ParseUint(toks[j+2][2:], 10, 64)
			j += 5
		default:
			s.LastErr = "unparsed model value: " + val
			return nil
		}
		res[ask[k]] = u
		k++
		i = j + 1 // skip closing )
	}
	if k != len(ask) {
		s.LastErr = "short model"
		return nil
	}
	return res
}

package sx

import (
	"fmt"
	"go/constant"
	"go/token"
	"go/types"
	"runtime"
	"strings"

	"golang.org/x/tools/go/ssa"
)

// ---------- control-flow panics ----------

// engineError: the engine cannot continue (unsupported construct, internal bug).
type engineError struct{ msg string }

func (e engineError) Error() string { return e.msg }

// targetPanic: the target program panicked (recoverable by target defers).
type targetPanic struct{ v value }

// pathEnd terminates the current path.
type pathEnd struct {
	status PathStatus
	msg    string
}

type PathStatus int

const (
	PathOK       PathStatus = iota // ran to completion
	PathAssumed                    // discarded by a failed assumption
	PathPanic                      // target panicked out of the harness
	PathBlocked                    // blocked forever (sequential channel op)
	PathUnwound                    // step/depth budget exhausted
	PathStopped                    // stopped by harness (vStop) or after violation
	PathUnsupported                // engine error
)

func (s PathStatus) String() string {
	return [...]string{"ok", "assumed-away", "panic", "blocked", "unwound", "stopped", "unsupported"}[s]
}

// ---------- executor ----------

type fnInfo struct {
	idx       map[ssa.Value]int
	n         int
	intrinsic intrinsic
	stub      value
	api       string
}

type intrinsic func(ex *Exec, fr *frame, fn *ssa.Function, args []value) value

type intrinsicFn struct {
	name string
	f    func(ex *Exec, args []value) value
}

// Limits bounds one path.
type Limits struct {
	MaxSteps int
	MaxDepth int
	MaxEnum  int // max values when concretising a symbolic scalar
}

type Exec struct {
	prog    *ssa.Program
	tt      *Terms
	solver  *Solver
	globals map[*ssa.Global]*value
	pkgInit map[*ssa.Package]int
	poison  map[*ssa.Global]string
	fns     map[*ssa.Function]*fnInfo
	stubs   map[string]value
	sizes   types.Sizes
	lim     Limits
	path    *Path
	drv     *Driver
	inInit  int
	steps   int
	depth   int
	mapRev  bool

	runtimeErrorString types.Type
	errorStringType    *types.Named // errors.errorString
	harnessPkgs        map[*ssa.Package]bool
	reinit             []*ssa.Package
	// trackGlobals (harness option reinit_globals): packages of the repository
	// whose package-level variables were accessed on a path are re-initialised
	// before the next path, so that state left in globals by the code under test
	// (registries, lazily set markers) cannot leak from one path into another.
	trackGlobals bool
	touched      map[*ssa.Package]bool
	pools        map[*value][]value // sync.Pool contents (param pool_reuse)
	constCache         map[*ssa.Const]value
	trace              bool
	nextObjID          int
	curG               *goroutine
	gs                 []*goroutine
	sched              *scheduler
	goMode             string
	params             map[string]int
	onceDone           map[*value]bool
}

type deferred struct {
	fn    value
	args  []value
	instr *ssa.Defer
	tail  *deferred
}

type frame struct {
	ex               *Exec
	caller           *frame
	fn               *ssa.Function
	info             *fnInfo
	block, prevBlock *ssa.BasicBlock
	env              []value
	defers           *deferred
	result           value
	panicking        bool
	panic            interface{}
	phitemps         []value
	depth            int
}

func (ex *Exec) info(fn *ssa.Function) *fnInfo {
	if fi, ok := ex.fns[fn]; ok {
		return fi
	}
	fi := &fnInfo{idx: make(map[ssa.Value]int)}
	add := func(v ssa.Value) {
		fi.idx[v] = fi.n
		fi.n++
	}
	for _, p := range fn.Params {
		add(p)
	}
	for _, p := range fn.FreeVars {
		add(p)
	}
	for _, b := range fn.Blocks {
		for _, in := range b.Instrs {
			if v, ok := in.(ssa.Value); ok {
				add(v)
			}
		}
	}
	name := fn.String()
	if fn.Parent() == nil {
		if in, ok := intrinsics[name]; ok {
			fi.intrinsic = in
		} else if fn.Origin() != nil {
			if in, ok := intrinsics[fn.Origin().String()]; ok {
				fi.intrinsic = in
			}
		}
		if st, ok := ex.stubs[name]; ok {
			fi.stub = st
		}
		if fn.Pkg != nil && ex.harnessPkgs[fn.Pkg] {
			if _, ok := apiFuncs[fn.Name()]; ok && strings.HasSuffix(ex.prog.Fset.Position(fn.Pos()).Filename, "zz_verif_rt.go") {
				fi.api = fn.Name()
			}
		}
	}
	ex.fns[fn] = fi
	return fi
}

func (fr *frame) get(key ssa.Value) value {
	switch key := key.(type) {
	case nil:
		return nil
	case *ssa.Function:
		return key
	case *ssa.Builtin:
		return key
	case *ssa.Const:
		return fr.ex.constValue(key)
	case *ssa.Global:
		return fr.ex.global(key)
	}
	if i, ok := fr.info.idx[key]; ok {
		v := fr.env[i]
		if v == nil {
			panic(engineError{fmt.Sprintf("get: unset value %s in %s", key.Name(), fr.fn)})
		}
		if pv, bad := v.(poisonVal); bad && fr.ex.inInit == 0 {
			panic(engineError{"use of a package-level value that could not be initialised: " + pv.why})
		}
		return v
	}
	panic(engineError{fmt.Sprintf("get: no value for %T %v in %s", key, key.Name(), fr.fn)})
}

func (fr *frame) set(key ssa.Value, v value) {
	fr.env[fr.info.idx[key]] = v
}

func (ex *Exec) constValue(c *ssa.Const) value {
	if v, ok := ex.constCache[c]; ok {
		return v
	}
	v := ex.constValue1(c)
	ex.constCache[c] = v
	return v
}

func (ex *Exec) constValue1(c *ssa.Const) value {
	if c.Value == nil {
		return ex.zero(c.Type())
	}
	t := c.Type()
	if w, signed, ok := intInfo(t); ok {
		if w == 0 {
			return ex.tt.Bool(constant.BoolVal(c.Value))
		}
		if signed {
			return ex.tt.Const(w, uint64(c.Int64()))
		}
		return ex.tt.Const(w, c.Uint64())
	}
	if b, ok := t.Underlying().(*types.Basic); ok {
		switch b.Kind() {
		case types.Float32:
			return float32(c.Float64())
		case types.Float64, types.UntypedFloat:
			return c.Float64()
		case types.Complex64, types.Complex128, types.UntypedComplex:
			return c.Complex128()
		case types.String, types.UntypedString:
			if c.Value.Kind() == constant.String {
				return ex.mkStr(constant.StringVal(c.Value))
			}
			return ex.mkStr(string(rune(c.Int64())))
		}
	}
	panic(engineError{fmt.Sprintf("constValue: %s", c)})
}

// runtimeError builds the panic value for a Go run-time error.
func (ex *Exec) runtimeError(msg string) value {
	return iface{ex.runtimeErrorString, ex.mkStr("runtime error: " + msg)}
}

func (ex *Exec) nilDeref() {
	panic(targetPanic{ex.runtimeError("invalid memory address or nil pointer dereference")})
}

// ---------- globals and package initialisation ----------

func (ex *Exec) global(g *ssa.Global) *value {
	if g.Pkg != nil && ex.pkgInit[g.Pkg] == 0 && g.Name() != "init$guard" {
		ex.initPackage(g.Pkg)
	}
	if why, bad := ex.poison[g]; bad && ex.inInit == 0 {
		panic(engineError{fmt.Sprintf("read of global %s whose initialiser could not be executed: %s", g, why)})
	}
	if ex.trackGlobals && ex.inInit == 0 && g.Pkg != nil && strings.HasPrefix(g.Pkg.Pkg.Path(), "github.com/mutagen-io/mutagen") {
		if ex.touched == nil {
			ex.touched = make(map[*ssa.Package]bool)
		}
		ex.touched[g.Pkg] = true
	}
	cell, ok := ex.globals[g]
	if !ok {
		z := ex.zero(g.Type().(*types.Pointer).Elem())
		cell = &z
		ex.globals[g] = cell
	}
	return cell
}

// initPackage runs the package initialiser concretely (once per executor).
func (ex *Exec) initPackage(pkg *ssa.Package) {
	ex.pkgInit[pkg] = 1
	initFn := pkg.Func("init")
	if initFn == nil || initFn.Blocks == nil {
		ex.pkgInit[pkg] = 2
		return
	}
	savedPath, savedSteps, savedDepth := ex.path, ex.steps, ex.depth
	ex.inInit++
	var lastInstr ssa.Instruction
	func() {
		defer func() {
			ex.inInit--
			ex.steps, ex.depth = savedSteps, savedDepth
			ex.path = savedPath
			if r := recover(); r != nil {
				why := fmt.Sprint(r)
				if tp, ok := r.(targetPanic); ok {
					why = "panic: " + show(tp.v)
				}
				if _, isEnd := r.(pathEnd); isEnd {
					panic(r)
				}
				if re, ok := r.(runtime.Error); ok {
					why = "engine runtime error during init: " + re.Error()
				}
				ex.poisonRest(pkg, initFn, lastInstr, why)
			}
		}()
		fr := &frame{ex: ex, fn: initFn, info: ex.info(initFn)}
		fr.env = make([]value, fr.info.n)
		fr.block = initFn.Blocks[0]
		for fr.block != nil {
			ex.runInitFrame(fr, pkg, &lastInstr)
		}
	}()
	ex.pkgInit[pkg] = 2
}

// runInitFrame is runFrame for the synthesised package initialiser: calls to
// other packages' initialisers are skipped (they are initialised lazily), and
// an initialiser statement that cannot be executed poisons only the globals
// it was going to define.
func (ex *Exec) runInitFrame(fr *frame, pkg *ssa.Package, last *ssa.Instruction) {
	for {
		nonPhis := executePhis(fr)
		for _, instr := range nonPhis {
			*last = instr
			if c, ok := instr.(*ssa.Call); ok {
				if callee := c.Call.StaticCallee(); callee != nil && callee.Pkg != pkg && callee.Name() == "init" && callee.Synthetic != "" {
					fr.set(c, tuple(nil))
					continue
				}
			}
			switch instr.(type) {
			case *ssa.If, *ssa.Jump, *ssa.Return, *ssa.Panic:
			default:
				// an instruction that cannot be executed poisons only its result
				if ex.tryInitInstr(fr, instr) {
					continue
				}
			}
			if visitInstr(fr, instr) == kReturn {
				return
			}
		}
	}
}

// poisonVal marks a value whose initialiser could not be executed.
type poisonVal struct{ why string }

// tryInitCall executes a call in a package initialiser; on an engine error the
// result becomes a poison value (reported only if it is ever used).
func (ex *Exec) tryInitInstr(fr *frame, instr ssa.Instruction) (handled bool) {
	depth, steps := ex.depth, ex.steps
	defer func() {
		if r := recover(); r != nil {
			why := ""
			switch r := r.(type) {
			case engineError:
				why = firstLine(r.msg)
			case runtime.Error:
				why = "engine runtime error: " + r.Error()
			default:
				panic(r)
			}
			ex.depth, ex.steps = depth, steps
			pv := poisonVal{fmt.Sprintf("%s failed during package initialisation: %s", instr.String(), why)}
			if c, ok := instr.(*ssa.Call); ok {
				if n := c.Call.Signature().Results().Len(); n > 1 {
					t := make(tuple, n)
					for i := range t {
						t[i] = pv
					}
					fr.set(c, t)
				} else {
					fr.set(c, pv)
				}
			} else if v, ok := instr.(ssa.Value); ok {
				fr.set(v, pv)
			}
			if ex.drv != nil {
				ex.drv.note("init: " + pv.why)
			}
			handled = true
		}
	}()
	visitInstr(fr, instr)
	return true
}

func (ex *Exec) poisonRest(pkg *ssa.Package, initFn *ssa.Function, at ssa.Instruction, why string) {
	if at == nil {
		return
	}
	// every global of pkg referenced at or after the failing instruction
	// (in block order) is considered not initialised.
	seen := false
	var rands []*ssa.Value
	for _, b := range initFn.Blocks {
		for _, in := range b.Instrs {
			if in == at {
				seen = true
			}
			if !seen {
				continue
			}
			rands = in.Operands(rands[:0])
			for _, r := range rands {
				if r == nil || *r == nil {
					continue
				}
				if g, ok := (*r).(*ssa.Global); ok && g.Pkg == pkg && g.Name() != "init$guard" {
					if _, dup := ex.poison[g]; !dup {
						ex.poison[g] = fmt.Sprintf("%s (at %s)", why, ex.prog.Fset.Position(at.Pos()))
					}
				}
			}
		}
	}
	if ex.drv != nil {
		ex.drv.note(fmt.Sprintf("init of %s aborted: %s", pkg.Pkg.Path(), firstLine(why)))
	}
}

// ---------- instruction interpretation ----------

type continuation int

const (
	kNext continuation = iota
	kReturn
	kJump
)

func visitInstr(fr *frame, instr ssa.Instruction) continuation {
	ex := fr.ex
	ex.steps++
	if ex.steps > ex.lim.MaxSteps && ex.inInit == 0 {
		panic(pathEnd{PathUnwound, fmt.Sprintf("step budget %d exhausted in %s", ex.lim.MaxSteps, fr.fn)})
	}
	switch instr := instr.(type) {
	case *ssa.DebugRef:

	case *ssa.UnOp:
		fr.set(instr, ex.unop(fr, instr, fr.get(instr.X)))

	case *ssa.BinOp:
		fr.set(instr, ex.binop(instr.Op, instr.X.Type(), fr.get(instr.X), fr.get(instr.Y)))

	case *ssa.Call:
		fn, args := prepareCall(fr, &instr.Call)
		fr.set(instr, ex.call(fr, instr.Pos(), fn, args))

	case *ssa.ChangeInterface:
		fr.set(instr, fr.get(instr.X))

	case *ssa.ChangeType:
		fr.set(instr, fr.get(instr.X))

	case *ssa.Convert:
		fr.set(instr, ex.conv(instr.Type(), instr.X.Type(), fr.get(instr.X)))

	case *ssa.MultiConvert:
		fr.set(instr, ex.conv(instr.Type(), instr.X.Type(), fr.get(instr.X)))

	case *ssa.SliceToArrayPointer:
		x := fr.get(instr.X).([]value)
		n := int(instr.Type().Underlying().(*types.Pointer).Elem().Underlying().(*types.Array).Len())
		if len(x) < n {
			panic(targetPanic{ex.runtimeError("cannot convert slice to array pointer: too short")})
		}
		if x == nil {
			fr.set(instr, (*value)(nil))
		} else {
			// arrays are separate cells in this representation; aliasing is lost.
			panic(engineError{"SliceToArrayPointer of non-nil slice unsupported"})
		}

	case *ssa.MakeInterface:
		fr.set(instr, iface{t: instr.X.Type(), v: fr.get(instr.X)})

	case *ssa.Extract:
		fr.set(instr, fr.get(instr.Tuple).(tuple)[instr.Index])

	case *ssa.Slice:
		fr.set(instr, ex.slice(instr, fr.get(instr.X), fr.get(instr.Low), fr.get(instr.High), fr.get(instr.Max)))

	case *ssa.Return:
		switch len(instr.Results) {
		case 0:
		case 1:
			fr.result = fr.get(instr.Results[0])
		default:
			res := make(tuple, len(instr.Results))
			for i, r := range instr.Results {
				res[i] = fr.get(r)
			}
			fr.result = res
		}
		fr.block = nil
		return kReturn

	case *ssa.RunDefers:
		fr.runDefers()

	case *ssa.Panic:
		panic(targetPanic{fr.get(instr.X)})

	case *ssa.Send:
		ex.chanSend(fr.get(instr.Chan).(*chanObj), copyVal(fr.get(instr.X)))

	case *ssa.Store:
		addr := fr.get(instr.Addr).(*value)
		if addr == nil {
			ex.nilDeref()
		}
		store(addr, fr.get(instr.Val))

	case *ssa.If:
		succ := 1
		if ex.decideBool(fr.get(instr.Cond).(*Term), "if") {
			succ = 0
		}
		fr.prevBlock, fr.block = fr.block, fr.block.Succs[succ]
		return kJump

	case *ssa.Jump:
		fr.prevBlock, fr.block = fr.block, fr.block.Succs[0]
		return kJump

	case *ssa.Defer:
		fn, args := prepareCall(fr, &instr.Call)
		defers := &fr.defers
		if instr.DeferStack != nil {
			if into := fr.get(instr.DeferStack); into != nil {
				defers = into.(**deferred)
			}
		}
		*defers = &deferred{fn: fn, args: args, instr: instr, tail: *defers}

	case *ssa.Go:
		fn, args := prepareCall(fr, &instr.Call)
		ex.spawn(fn, args, instr.Pos())

	case *ssa.MakeChan:
		n := ex.concretize(fr.get(instr.Size).(*Term), "makechan")
		fr.set(instr, ex.newChan(int(n), instr.Type().Underlying().(*types.Chan).Elem()))

	case *ssa.Alloc:
		z := ex.zero(instr.Type().Underlying().(*types.Pointer).Elem())
		addr := new(value)
		*addr = z
		fr.set(instr, addr)

	case *ssa.MakeSlice:
		c := int64(ex.concretize(fr.get(instr.Cap).(*Term), "makeslice cap"))
		l := int64(ex.concretize(fr.get(instr.Len).(*Term), "makeslice len"))
		if l < 0 || c < l || c > 1<<24 {
			panic(targetPanic{ex.runtimeError("makeslice: len out of range")})
		}
		s := make([]value, c)
		et := instr.Type().Underlying().(*types.Slice).Elem()
		for i := range s {
			s[i] = ex.zero(et)
		}
		fr.set(instr, s[:l])

	case *ssa.MakeMap:
		fr.set(instr, newOmap(instr.Type().Underlying().(*types.Map).Key()))

	case *ssa.Range:
		fr.set(instr, ex.rangeIter(fr.get(instr.X), instr.X.Type()))

	case *ssa.Next:
		fr.set(instr, fr.get(instr.Iter).(iter).next(ex))

	case *ssa.FieldAddr:
		p := fr.get(instr.X).(*value)
		if p == nil {
			ex.nilDeref()
		}
		fr.set(instr, &(*p).(structure)[instr.Field])

	case *ssa.Field:
		fr.set(instr, fr.get(instr.X).(structure)[instr.Field])

	case *ssa.IndexAddr:
		x := fr.get(instr.X)
		switch x := x.(type) {
		case []value:
			i := ex.index(fr.get(instr.Index).(*Term), instr.Index.Type(), len(x))
			fr.set(instr, &x[i])
		case *value:
			if x == nil {
				ex.nilDeref()
			}
			a := (*x).(array)
			i := ex.index(fr.get(instr.Index).(*Term), instr.Index.Type(), len(a))
			fr.set(instr, &a[i])
		default:
			panic(engineError{fmt.Sprintf("IndexAddr: %T", x)})
		}

	case *ssa.Index:
		x := fr.get(instr.X)
		switch x := x.(type) {
		case array:
			i := ex.index(fr.get(instr.Index).(*Term), instr.Index.Type(), len(x))
			fr.set(instr, copyVal(x[i]))
		case str:
			fr.set(instr, ex.strIndex(x, fr.get(instr.Index).(*Term), instr.Index.Type()))
		default:
			panic(engineError{fmt.Sprintf("Index: %T", x)})
		}

	case *ssa.Lookup:
		fr.set(instr, ex.lookup(instr, fr.get(instr.X), fr.get(instr.Index)))

	case *ssa.MapUpdate:
		m := fr.get(instr.Map).(*omap)
		ex.mapInsert(m, fr.get(instr.Key), copyVal(fr.get(instr.Value)))

	case *ssa.TypeAssert:
		fr.set(instr, ex.typeAssert(instr, fr.get(instr.X).(iface)))

	case *ssa.MakeClosure:
		bindings := make([]value, len(instr.Bindings))
		for i, b := range instr.Bindings {
			bindings[i] = fr.get(b)
		}
		fr.set(instr, &closure{instr.Fn.(*ssa.Function), bindings})

	case *ssa.Select:
		fr.set(instr, ex.selectStmt(fr, instr))

	case *ssa.Phi:
		panic(engineError{"unreachable phi"})

	default:
		panic(engineError{fmt.Sprintf("unexpected instruction: %T", instr)})
	}
	return kNext
}

func prepareCall(fr *frame, call *ssa.CallCommon) (fn value, args []value) {
	v := fr.get(call.Value)
	if call.Method == nil {
		fn = v
	} else {
		recv := v.(iface)
		if recv.t == nil {
			fr.ex.nilDeref()
		}
		f := fr.ex.prog.LookupMethod(recv.t, call.Method.Pkg(), call.Method.Name())
		if f == nil {
			panic(engineError{fmt.Sprintf("method set for dynamic type %v does not contain %s", recv.t, call.Method)})
		}
		fn = f
		args = append(args, recv.v)
	}
	for _, arg := range call.Args {
		args = append(args, copyVal(fr.get(arg)))
	}
	return
}

func (ex *Exec) call(caller *frame, pos token.Pos, fn value, args []value) value {
	switch fn := fn.(type) {
	case *ssa.Function:
		if fn == nil {
			ex.nilDeref()
		}
		return ex.callSSA(caller, pos, fn, args, nil)
	case *closure:
		return ex.callSSA(caller, pos, fn.Fn, args, fn.Env)
	case *ssa.Builtin:
		return ex.callBuiltin(caller, pos, fn, args)
	case *intrinsicFn:
		return fn.f(ex, args)
	}
	panic(engineError{fmt.Sprintf("cannot call %T", fn)})
}

func (ex *Exec) callSSA(caller *frame, pos token.Pos, fn *ssa.Function, args []value, env []value) value {
	fi := ex.info(fn)
	fr := &frame{ex: ex, caller: caller, fn: fn, info: fi}
	if fi.api != "" {
		return ex.callAPI(fr, fi.api, args)
	}
	if fi.stub != nil && ex.inInit == 0 {
		return ex.call(caller, pos, fi.stub, args)
	}
	if fi.intrinsic != nil {
		return fi.intrinsic(ex, fr, fn, args)
	}
	if fn.Blocks == nil {
		panic(engineError{"no code for function: " + fn.String()})
	}
	if fn.TypeParams().Len() > 0 && len(fn.TypeArgs()) == 0 {
		panic(engineError{"uninstantiated generic function: " + fn.String()})
	}
	ex.depth++
	fr.depth = ex.depth
	if ex.depth > ex.lim.MaxDepth {
		panic(pathEnd{PathUnwound, fmt.Sprintf("call depth %d exceeded in %s", ex.lim.MaxDepth, fn)})
	}
	if ex.trace {
		fmt.Printf("%*s> %s\n", ex.depth, "", fn)
	}
	fr.env = make([]value, fi.n)
	fr.block = fn.Blocks[0]
	for i, p := range fn.Params {
		fr.env[fi.idx[p]] = args[i]
	}
	for i, fv := range fn.FreeVars {
		fr.env[fi.idx[fv]] = env[i]
	}
	for fr.block != nil {
		runFrame(fr)
	}
	ex.depth = fr.depth - 1
	return fr.result
}

// runFrame executes until return, panic, or a recovered panic.
func runFrame(fr *frame) {
	defer func() {
		if fr.block == nil {
			return // normal return
		}
		r := recover()
		switch r := r.(type) {
		case targetPanic:
			fr.panicking = true
			fr.panic = r
		case pathEnd, engineError:
			panic(r)
		case nil:
			return
		default:
			// Go run-time error inside the engine: engine bug or unsupported
			if re, ok := r.(runtime.Error); ok {
				buf := make([]byte, 4096)
				buf = buf[:runtime.Stack(buf, false)]
				panic(engineError{fmt.Sprintf("engine runtime error in %s: %v\n%s", fr.fn, re, buf)})
			}
			panic(r)
		}
		fr.ex.depth = fr.depth
		fr.runDefers()
		fr.block = fr.fn.Recover
		if fr.block == nil {
			// recovered, no named results: return zero values
			fr.result = fr.ex.zeroResults(fr.fn)
		}
	}()
	for {
		nonPhis := executePhis(fr)
		for _, instr := range nonPhis {
			if visitInstr(fr, instr) == kReturn {
				return
			}
		}
	}
}

func (ex *Exec) zeroResults(fn *ssa.Function) value {
	res := fn.Signature.Results()
	switch res.Len() {
	case 0:
		return nil
	case 1:
		return ex.zero(res.At(0).Type())
	}
	return ex.zero(res)
}

func (fr *frame) runDefer(d *deferred) {
	var ok bool
	defer func() {
		if !ok {
			r := recover()
			switch r.(type) {
			case targetPanic:
				fr.panicking = true
				fr.panic = r
			default:
				panic(r)
			}
		}
	}()
	fr.ex.call(fr, d.instr.Pos(), d.fn, d.args)
	ok = true
}

func (fr *frame) runDefers() {
	for d := fr.defers; d != nil; d = d.tail {
		fr.runDefer(d)
	}
	fr.defers = nil
	if fr.panicking {
		panic(fr.panic)
	}
}

func executePhis(fr *frame) []ssa.Instruction {
	firstNonPhi := -1
	for i, instr := range fr.block.Instrs {
		if _, ok := instr.(*ssa.Phi); !ok {
			firstNonPhi = i
			break
		}
	}
	nonPhis := fr.block.Instrs[firstNonPhi:]
	if firstNonPhi > 0 {
		phis := fr.block.Instrs[:firstNonPhi]
		predIndex := -1
		for i, p := range fr.block.Preds {
			if p == fr.prevBlock {
				predIndex = i
				break
			}
		}
		fr.phitemps = fr.phitemps[:0]
		for _, phi := range phis {
			fr.phitemps = append(fr.phitemps, fr.get(phi.(*ssa.Phi).Edges[predIndex]))
		}
		for i, phi := range phis {
			fr.set(phi.(*ssa.Phi), fr.phitemps[i])
		}
	}
	return nonPhis
}

// doRecover implements recover().
func (ex *Exec) doRecover(caller *frame) value {
	if caller != nil && !caller.panicking && caller.caller != nil && caller.caller.panicking {
		caller.caller.panicking = false
		p := caller.caller.panic
		caller.caller.panic = nil
		if tp, ok := p.(targetPanic); ok {
			return tp.v
		}
		panic(engineError{fmt.Sprintf("recover of unexpected panic %T", p)})
	}
	return iface{}
}

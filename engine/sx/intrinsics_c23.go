package sx

import (
	"go/types"
	"sync"

	"golang.org/x/tools/go/ssa"
)

// Intrinsic added for the multiplexing checks (C23, C24): a fast
// ring.NewBuffer for the 65548-byte message buffers.  (Deadline timers are
// modelled by harness stubs, see harness/multiplexing/common.go.)

// bigZeroSlice returns a slice of n zero bytes.  Touching a fresh megabyte per
// message buffer and path is what made these checks slow, so the backing
// arrays are recycled: each executor (worker) keeps the arrays it handed out
// during its previous path and, when a new path starts, re-zeroes and reuses
// them.  An array is only ever reused by the same executor for a later path
// (paths are executed one at a time per executor and share no heap), so the
// program under test always sees a fresh, private, all-zero slice.
type bigSlicePool struct {
	path *Path
	bufs [][]value
	next int
}

var bigSlicePools sync.Map // *Exec -> *bigSlicePool

func bigZeroSlice(ex *Exec, n int, z value) []value {
	var pool *bigSlicePool
	if p, ok := bigSlicePools.Load(ex); ok {
		pool = p.(*bigSlicePool)
	} else {
		pool = &bigSlicePool{}
		bigSlicePools.Store(ex, pool)
	}
	if pool.path != ex.path || ex.path == nil {
		pool.path = ex.path
		pool.next = 0
	}
	for pool.next < len(pool.bufs) {
		s := pool.bufs[pool.next]
		pool.next++
		if len(s) == n && cap(s) == n {
			for j := range s {
				if s[j] != z {
					s[j] = z
				}
			}
			return s
		}
	}
	s := make([]value, n)
	for j := range s {
		s[j] = z
	}
	if ex.path != nil {
		pool.bufs = append(pool.bufs, s)
		pool.next = len(pool.bufs)
	}
	return s
}

// ring.NewBuffer(n) for large n (the 65548-byte message buffers of the
// multiplexer): same result as the source (&Buffer{storage: make([]byte, n),
// size: n}), but the storage is zero-filled in one step instead of one
// interpreted zero value per element, which dominated the run time of every
// path.  Sizes up to 4096 (all sizes the ring-buffer check C26 uses) are
// executed from the source as before.
func init() {
	intrinsics["github.com/mutagen-io/mutagen/pkg/multiplexing/ring.NewBuffer"] = func(ex *Exec, fr *frame, fn *ssa.Function, a []value) value {
		n, ok := a[0].(*Term)
		if !ok || !n.IsConst() || n.Int() <= 4096 || n.Int() > 1<<24 {
			return ex.callFromSSA(fr, fn, a)
		}
		pt, ok := fn.Signature.Results().At(0).Type().Underlying().(*types.Pointer)
		if !ok {
			return ex.callFromSSA(fr, fn, a)
		}
		st, ok := pt.Elem().Underlying().(*types.Struct)
		if !ok {
			return ex.callFromSSA(fr, fn, a)
		}
		obj := ex.zero(st).(structure)
		found := 0
		for i := 0; i < st.NumFields(); i++ {
			switch st.Field(i).Name() {
			case "storage":
				z := ex.tt.Const(8, 0)
				obj[i] = bigZeroSlice(ex, int(n.Int()), z)
				found++
			case "size":
				obj[i] = ex.tt.Const(64, uint64(n.Int()))
				found++
			}
		}
		if found != 2 || st.NumFields() != 4 {
			// the type changed: do not guess
			return ex.callFromSSA(fr, fn, a)
		}
		addr := new(value)
		*addr = obj
		return addr
	}
}
